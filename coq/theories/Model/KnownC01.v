(** FORMER known finding of C01 (known-findings.txt, id failed-commit-dedup-persisted; repaired by /repo 890d206:
    the text below describes the code BEFORE the repair; the definitions are kept for the historical theorem of
    Props/C01.v and as the decidable form of clause I5 that the check evaluates on real staged inventories).

    commit_inner (repo.rs) runs dedup_head, rewrites the staged inventory and deletes the
    duplicate staged files BEFORE the store call that can still refuse the commit
    (write_new_object: no layout and no --object-root, target occupied;
    write_new_version: stale head, foreign lineage).  After such a refusal the staged
    inventory on disk is the DEDUPLICATED one: two logical paths of one new digest share a
    single head content path.  That inventory no longer satisfies the staged invariant
    (I5: every head path is backed by its own direct content path or by committed
    content), which the staging operations rely on: removing or overwriting the logical
    path that owns the shared content path leaves the other path with a digest that has no
    content, and the next commit installs it (E050).

    The model of the object life cycle (Model/InvSpec.v, [ostep]) only has commits that
    complete; the classifier below recognises the staged inventories outside it. *)
From Coq Require Import NArith Ascii.
From stdpp Require Import gmap.
From Rocfl Require Import Model.Inventory Model.InvSpec.

(** a digest has content committed in an earlier version *)
Definition committed_copyb (i : inventory) (d : digest) : bool :=
  existsb (fun kv => (fst (fst kv) <? head i)%N && bool_decide (snd kv = d)) (map_to_list (i_manifest i)).

(** I5 fails for some path of the head state: the staged inventory is the result of a
    de-duplication that was not followed by the installation of the version *)
Definition c01_failed_commit_dedup (i : inventory) : bool :=
  existsb (fun kv => negb (bool_decide (i_manifest i !! ncp i (fst kv) = Some (snd kv))) &&
                     negb (committed_copyb i (snd kv)))
          (map_to_list (i_hstate i)).

(** a head digest without any content path: what the validator reports as E050 *)
Definition dangling_digest (i : inventory) : bool :=
  existsb (fun kv => negb (existsb (fun m => bool_decide (snd m = snd kv)) (map_to_list (i_manifest i))))
          (map_to_list (i_hstate i)).
