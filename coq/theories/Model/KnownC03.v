(** Classifier of the known finding of C03: the same class as KnownC12.c12_mv_source_in_repo -
    an external mv whose named source lies under (or contains) the storage root or the staging
    root renames committed content out of a version directory (repo.rs:695-721, fs.rs:755-770).
    Definitions only. *)
From Rocfl Require Import Base.Bytes Model.FsOps Model.Footprint Model.KnownC12.

Definition c03_mv_source_in_repo (c : cfg) (o : opd) : bool := c12_mv_source_in_repo c o.
