(** C04 - classifiers of the known findings (genuine defects of rocfl recorded rather than
    repaired).  Definitions only.  Each classifier looks at the system call that the injected
    fault failed ([w_fired] of the faulty run) - "the fault position lies inside ...". *)
From Coq Require Import List NArith Ascii Bool.
From Rocfl Require Import Base.Bytes Model.FsOps Model.FsTree Model.Commit.
Import ListNotations.

(** the call that fails when the k-th step (0-based) of program m started on tree t is faulted *)
Definition fired_of (m : M unit) (t : tree) (k : nat) : option stepk :=
  w_fired (snd (run m t (Fault k))).

(** a call of the declaration swap in the object root [root]: creation of the new 0=ocfl_object_X
    (its open or its write) or removal of an old one *)
Definition is_decl_step (root : fpath) (s : stepk) : bool :=
  match s with
  | SCreateNew p _ | SWrite p _ | SUnlink p => is_child root p && is_decl_name (last p [])
  | _ => false
  end.

(** upgrade of an object that exists in the main repository (write_new_version, fs.rs:474-481): the
    version directory and the new root inventory are installed, then the declaration is swapped
    without rollback; a fault there leaves vN installed under the old (or two) declarations:
    neither the old nor the new object, invalid (E038 / E003 / E007), retry refused *)
Definition c04_upgrade_declaration_fault (m : M unit) (c : cfg) (t : tree) (k : nat) : bool :=
  match fired_of m t k with Some s => is_decl_step (c_mo c) s | None => false end.

(** 0 none, 1 upgrade-declaration *)
Definition known_class_of (m : M unit) (c : cfg) (t : tree) (k : nat) : N :=
  if c04_upgrade_declaration_fault m c t k then 1%N else 0%N.
