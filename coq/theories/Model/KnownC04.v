(** C04 - classifiers of the known findings (genuine defects of rocfl recorded rather than
    repaired).  Definitions only.  Each classifier looks at the system call that the injected
    fault failed ([w_fired] of the faulty run) - "the fault position lies inside ...". *)
From Coq Require Import List NArith Ascii Bool.
From Rocfl Require Import Base.Bytes Model.FsOps Model.FsTree Model.Commit.
Import ListNotations.

(** the call that fails when the k-th step (0-based) of program m started on tree t is faulted *)
Definition fired_of (m : M unit) (t : tree) (k : nat) : option stepk :=
  w_fired (snd (run m t (Fault k))).

(** a call of the declaration swap in the object root [root]: creation of the new 0=ocfl_object_X
    (its open or its write) or removal of an old one *)
Definition is_decl_step (root : fpath) (s : stepk) : bool :=
  match s with
  | SCreateNew p _ | SWrite p _ | SUnlink p => is_child root p && is_decl_name (last p [])
  | _ => false
  end.

(** upgrade of an object that exists in the main repository (write_new_version, fs.rs:474-481): the
    version directory and the new root inventory are installed, then the declaration is swapped
    without rollback; a fault there leaves vN installed under the old (or two) declarations:
    neither the old nor the new object, invalid (E038 / E003 / E007), retry refused *)
Definition c04_upgrade_declaration_fault (m : M unit) (c : cfg) (t : tree) (k : nat) : bool :=
  match fired_of m t k with Some s => is_decl_step (c_mo c) s | None => false end.

(** the staged object root of a never-committed object whose declaration file is not exactly the one
    its (complete) staged inventory requires *)
Definition staged_decl_mismatch (c : cfg) (t : tree) : bool :=
  match read_file t (c_so c ++ [c_inv c]) with
  | Some (CInv _ [_] spec _ _) =>
      negb (match read_file t (c_so c ++ [spec]) with Some (CDecl s) => seg_eqb s spec | _ => false end
            && forallb (fun p => path_eqb p (c_so c ++ [spec])) (find_decls t (c_so c)))
  | _ => false
  end.

(** upgrade of an object that was never committed (upgrade_object repo.rs:994-1001 with
    stage_object_declaration fs.rs:696-714): the staged inventory is rewritten with the new type
    first; a fault after that and before the declaration rewrite in the staged object root is complete
    returns an error with the main repository untouched, but a retried upgrade is refused
    ("greater than or equal") and a retried commit installs the object with the old (or two)
    declarations (E038 / E003) *)
Definition c04_staged_declaration_fault (m : M unit) (c : cfg) (t : tree) (k : nat) : bool :=
  staged_decl_mismatch c (run_tree m t (Fault k)) && negb (staged_decl_mismatch c t).

(** an empty directory in (or as) the content directory of the staged head version *)
Definition staged_empty_dir (c : cfg) (t : tree) : bool :=
  match read_file t (c_so c ++ [c_inv c]) with
  | Some (CInv _ vs _ _ _) =>
      existsb (fun e => under (c_so c ++ [last vs []; c_cdir c]) (fst e)
                        && match snd e with Dir => negb (has_children t (fst e)) | File _ => false end) t
  | _ => false
  end.

(** clean_dirs_up inside rm_staged_files / rm_orphaned_files (fs.rs:794-834, util.rs:14-23): a failing
    rmdir of a directory that the removal of a duplicate or orphan emptied leaves that empty directory
    in the staged content; nothing removes it later (rm_orphaned_files only looks at files), so a
    retried commit installs a version with an empty directory (E024) *)
Definition c04_cleanup_rmdir_fault (m : M unit) (c : cfg) (t : tree) (k : nat) : bool :=
  staged_empty_dir c (run_tree m t (Fault k)) && negb (staged_empty_dir c t).

(** 0 none, 1 upgrade-declaration, 2 staged-declaration, 3 cleanup-rmdir *)
Definition known_class_of (m : M unit) (c : cfg) (t : tree) (k : nat) : N :=
  if c04_upgrade_declaration_fault m c t k then 1%N
  else if c04_staged_declaration_fault m c t k then 2%N
  else if c04_cleanup_rmdir_fault m c t k then 3%N else 0%N.
