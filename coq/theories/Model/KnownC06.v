(** * KnownC06: classes of single corruptions that rocfl's validator lets pass (C06)

    Both were reproduced with the release CLI on objects rocfl wrote itself (exit 0,
    only warnings).  Both follow the OCFL specification, which makes the inventory of a
    version directory a SHOULD (warning W010, official fixture W010_no_version_inventory)
    and allows extra directories in a version directory (warning W002):

    - [c06_contentless_version_dir]: a version directory that holds no content file
      (a version that only deleted or renamed logical paths; also the head) replaced by
      an empty directory: all that vanishes is that version's inventory and sidecar;
      mod.rs:1412-1418 / :1514-1520 report W010, nothing else looks into the directory.
    - [c06_version_inventory_dropped]: the [inventory.json] of a version directory
      (any version, also the head) deleted or replaced by an empty directory: W010, the
      orphaned sidecar is on the ignore list of validate_version_contents (mod.rs:1731-1735),
      a directory named inventory.json is W002 (mod.rs:1750-1755). *)

From Coq Require Import List NArith Bool.
From Rocfl Require Import Model.ObjTree Model.Corrupt.
Import ListNotations.
Open Scope N_scope.

(** nothing deeper than the version directory's own files lies below [SVer w n] *)
Definition no_content_below (w n : N) (t : tree) : bool :=
  forallb (fun e => match fst e with
                    | SVer w' n' :: _ :: _ :: _ => negb (N.eqb w w' && N.eqb n n')
                    | _ => true
                    end) t.

Definition c06_contentless_version_dir (c : corruption) (t : tree) : bool :=
  match c with
  | ReplaceDirByEmptyDir [SVer w n] => no_content_below w n t
  | _ => false
  end.

Definition c06_version_inventory_dropped (c : corruption) (t : tree) : bool :=
  match c with
  | DeleteFile [SVer _ _; SInv] => true
  | ReplaceFileByEmptyDir [SVer _ _; SInv] => true
  | _ => false
  end.

Definition known (c : corruption) (t : tree) : bool :=
  c06_contentless_version_dir c t || c06_version_inventory_dropped c t.
