(** Boolean classifier of the known finding of C07 (`known:` line
    property=C07 id=validator-escaped-string in /verif/known-findings.txt).

    rocfl's validator deserialises id, digestAlgorithm, head, contentDirectory,
    created, the user address, the version names, the digests and the content /
    logical path arrays of the manifest and state blocks as *borrowed*
    [&str] (src/ocfl/validate/serde.rs:171,217,262,288,554,724,897,901,1010,1012,1191);
    serde_json can lend a string only when its token has no backslash
    (read.rs:455-467, [Json.read_borrowed]).  An inventory in which one of these
    strings is spelled with a JSON escape is a spelling of the same document and
    is rejected although the specification (3.5: RFC 8259 JSON) allows it.

    The classifier works on the document's *raw* view: the same parser as
    [parse_json], string tokens kept as written. *)
From Rocfl Require Import Base.Bytes Model.Json Model.JsonValue.
Open Scope N_scope.

(** raw view: a token is kept (quotes included) when it is a legal string token *)
Definition keep_token (t : bytes) : option bytes :=
  match decode_string t with Some _ => Some t | None => None end.

Definition parse_raw : bytes -> option jv := parse_json_with keep_token.

Definition tok_is (name : bytes) (t : bytes) : bool :=
  match decode_string t with Some s => bytes_eqb s name | None => false end.

Definition rmem (j : jv) : list (bytes * jv) := match j with JObj m => m | _ => [] end.
Definition relems (j : jv) : list jv := match j with JArr l => l | _ => [] end.
Definition rvals (name : bytes) (j : jv) : list jv :=
  map snd (filter (fun kv => tok_is name (fst kv)) (rmem j)).

Definition esc_val (v : jv) : bool := match v with JStr t => has_escape t | _ => false end.

(** a digest -> [paths] block: escaped digest key or escaped path *)
Definition esc_block (blk : jv) : bool :=
  existsb (fun kv => has_escape (fst kv) || existsb esc_val (relems (snd kv))) (rmem blk).

Definition esc_version (vb : jv) : bool :=
  existsb esc_val (rvals (b "created") vb)
  || existsb (fun u => existsb esc_val (rvals (b "address") u)) (rvals (b "user") vb)
  || existsb esc_block (rvals (b "state") vb).

Definition esc_inventory (j : jv) : bool :=
  existsb esc_val (rvals (b "id") j)
  || existsb esc_val (rvals (b "digestAlgorithm") j)
  || existsb esc_val (rvals (b "head") j)
  || existsb esc_val (rvals (b "contentDirectory") j)
  || existsb esc_block (rvals (b "manifest") j)
  || existsb (fun vs => existsb (fun kv => has_escape (fst kv) || esc_version (snd kv)) (rmem vs))
             (rvals (b "versions") j).

(** the inventory text spells a borrowed position with an escape sequence *)
Definition c07_escaped_string (inv : bytes) : bool :=
  match parse_raw inv with
  | Some j => esc_inventory j
  | None => false
  end.
