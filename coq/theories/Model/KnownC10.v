(** Known-finding classifiers of C10.  NONE is left: every class once recorded here was
    repaired in /repo and the theorems of Props/C10.v hold for those inputs unconditionally.
      json-escape-borrowed          bb69bb9  (main reader reads digests and paths as Cow<str>)
      validator-json-escape         2f36fc5  (validator reads every string as Cow<str> / String)
      id-trimmed                    031a721  (create_object stores the id as given)
      cdir-empty, cdir-collides-with-inventory
                                    d88c1da  (create_object refuses blank, inventory.json and inventory.json.<anything>)

    What remains is NOT a defect in the sense of C10 (rocfl reading back what rocfl wrote):
    the main reader (src/ocfl/serde.rs) still deserializes exactly two positions through a
    borrowed-only type, [head] (serde.rs:150) and the keys of [versions] (serde.rs:244-245),
    both [VersionNum] with #[serde(try_from = "&str")] (types.rs:43).  A token with a JSON
    escape sequence there (e.g. `"v" + backslash + "u0031"`, legal JSON for v1) is refused with "expected a
    borrowed string".  rocfl itself never writes such a token (Proofs/JsonPosFacts.v,
    [version_name_never_escaped]); only inventories written by other software can contain
    it.  The classifier below names exactly that residual input class; it takes the raw
    TOKEN, not the string.  rocfl validate (validate/serde.rs:280, 572) accepts these
    tokens. *)
From Rocfl Require Import Base.Bytes Model.Json.
Open Scope N_scope.

Definition c10_foreign_escaped_version_name (p : pos) (tok : bytes) : bool :=
  main_pos_borrowed p && has_escape tok.
