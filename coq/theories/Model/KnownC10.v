(** Known-finding classifiers of C10: NONE.  Every class once recorded here was repaired in
    /repo and the theorems of Props/C10.v hold for those inputs unconditionally:
      json-escape-borrowed          bb69bb9  (main reader reads digests and paths as Cow<str>)
      validator-json-escape         2f36fc5  (validator reads every string as Cow<str> / String)
      id-trimmed                    031a721  (create_object stores the id as given)
      cdir-empty, cdir-collides-with-inventory
                                    d88c1da  (create_object refuses blank, inventory.json and inventory.json.<anything>)
    (and 29bc659: create_object refuses a content directory that cannot be a file name, found
    and repaired without ever being a recorded class).
    The file is kept, without definitions, so that the layout "one Known file per property"
    stays uniform; nothing imports it.  The residual difference between the main reader and a
    conforming decoder (an escaped spelling of head / a version key, written by other software
    only) is a hypothesis of the foreign-spelling theorems, [Json.escaped_version_name_token]. *)
From Rocfl Require Import Base.Bytes.
