(** Boolean classifiers of the known findings of C10 (one per `known:` line of
    /verif/known-findings.txt).  The property theorems exclude exactly these
    classes; the run-time check evaluates the same functions. *)
From Rocfl Require Import Base.Bytes Model.Json.
Open Scope N_scope.

(** C10 (main reader, src/ocfl/serde.rs): the string sits at a position that is
    deserialized into a borrowed &str and serde_json has to escape it (it contains a
    double quote, a backslash or a byte below 0x20).  Reachable from user input
    through logical paths (file names); digests and version numbers never need an escape. *)
Definition c10_needs_json_escape (p : pos) (s : bytes) : bool :=
  pos_borrowed p && needs_escape s.

(** C10 (rocfl validate, src/ocfl/validate/serde.rs): the same defect in the
    validator's deserializer, which borrows id, contentDirectory, user address,
    content paths, ... as well. *)
Definition c10_validator_needs_json_escape (p : pos) (s : bytes) : bool :=
  val_pos_borrowed p && needs_escape s.

(** The former classes cdir-empty and cdir-collides-with-inventory were repaired in
    /repo by d88c1da (create_object refuses a blank content directory and every name
    that is `inventory.json` or begins with `inventory.json.`, repo.rs:581-590); their
    classifiers are gone, the theorems of Props/C10.v hold for those inputs
    unconditionally ([Json.create_object_cdir]).
    The former class id-trimmed was repaired by 031a721 (create_object stores the id
    exactly as given and refuses an id that is blank after trimming, repo.rs:551-557):
    [Json.create_object_id] returns the id itself, no classifier is left. *)
