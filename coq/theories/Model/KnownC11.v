(** No known finding of C11 is left: c11-casefold-index, c11-cfg-0007-defaults and
    c11-cfg-array were repaired in /repo (91d5aeb, dec6d3f, 8478633) like the four classes
    before them, and the theorems of Props/C11.v carry no classifier hypothesis.

    [known_c11] is constantly false.  It is kept ONLY because Props/C12.v and
    Proofs/FootprintLayout.v (property C12) still state C12_hashed_layouts_safe with the
    hypothesis [known_c11 c id = false]; once that hypothesis is dropped there this file
    can be deleted.  ([cfg_determined], which is not a finding, moved to LayoutSpec.v.) *)
From Rocfl Require Import Base.Bytes Model.Layout.

Definition known_c11 (c : cfg) (id : ustr) : bool := false.
