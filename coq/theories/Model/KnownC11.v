(** Boolean classifiers of the known C11 findings (one per `known:` line of
    /verif/known-findings.txt).  The C11 theorems exclude exactly these classes; the
    run-time check evaluates the same functions on every generated case. *)
From Rocfl Require Import Base.Bytes Model.Layout.
Open Scope N_scope.

(** ** classes of configurations (StorageLayout::new) *)

Definition is_absent (v : jv) : bool := match v with JAbsent => true | _ => false end.

(** (c11-cfg-bounds and c11-cfg-short-root were known findings until the fixes d1aca14
    and a91c61b in /repo; the configuration theorems now cover those configurations.) *)

(** c11-cfg-0007-defaults: 0007 gives every parameter a default (delimiter ":"), but
    NTupleOmitPrefixLayoutConfig.delimiter has no serde default (layout.rs:189) and
    NTupleOmitPrefixLayoutExtension::new refuses a missing config.json (581-585). *)
Definition c11_cfg_0007_defaults (e : ext) (r : raw) : bool :=
  match e, r with
  | E0007, RawNone => true
  | E0007, RawObj o => is_absent (r_delim o)
  | _, _ => false
  end.

(** c11-cfg-array: a config.json that is a JSON array is deserialised positionally by
    serde's derived visitor and accepted; the documents define the configuration as a
    JSON object with named parameters. *)
Definition c11_cfg_array (r : raw) : bool := match r with RawSeq _ => true | _ => false end.

Definition known_c11_cfg (e : ext) (r : raw) : bool :=
  c11_cfg_0007_defaults e r || c11_cfg_array r.

(** NOT a finding but a hole in the documents: none of the five says whether the key
    extensionName may be omitted.  rocfl requires it for 0006/0007 (serde "missing
    field") and defaults it for 0002-0004.  The configuration theorem is stated for
    the configurations the documents decide. *)
Definition cfg_determined (e : ext) (r : raw) : bool :=
  match e, r with
  | (E0006 | E0007), RawObj o => negb (is_absent (r_ext o))
  | _, _ => true
  end.

(** ** classes of (configuration, id) pairs (map_object_id) *)

(** (c11-0003-zero-tuples and c11-0007-control-chars were known findings until the fixes
    e1de1bb and 970818d in /repo; the mapping theorems now cover those ids.) *)

(** The case mapping is "regular" for a delimiter and an id when the byte arithmetic of
    layout.rs:550-570 / 614-632 is sound:
    - delimiter with case: str::to_lowercase of id and delimiter is the concatenation of
      the per-character lower-case forms (false for a final capital sigma), every
      lower-case form is ONE scalar value, and for the id it has the SAME UTF-8 length
      as the original character (false for U+212A KELVIN SIGN, U+0130, U+1E9E ...);
    - delimiter without case (to_lowercase = to_uppercase): comparing bytes is the same
      as comparing lower-case forms. *)
Definition lows (s : ustr) : bytes := List.concat (List.map u_low (us_chars s)).
Definition case_regular (d id : ustr) : bool :=
  if case_matters d then
    bytes_eqb (us_lower id) (lows id) && bytes_eqb (us_lower d) (lows d) &&
    forallb (fun u => wf_char (u_low u) && (blen (u_low u) =? blen (u_orig u))) (us_chars id) &&
    forallb (fun u => wf_char (u_low u)) (us_chars d)
  else
    forallb (fun u => forallb (fun v =>
      Bool.eqb (bytes_eqb (u_low u) (u_low v)) (bytes_eqb (u_orig u) (u_orig v))) (us_chars d)) (us_chars id).

(** c11-casefold-index: 0006/0007 search the delimiter in object_id.to_lowercase() and
    apply the byte index to the original id (layout.rs:557-566, 620-629) *)
Definition c11_casefold (c : cfg) (id : ustr) : bool :=
  match c_ext c with
  | E0006 | E0007 => negb (case_regular (c_delim c) id)
  | _ => false
  end.

Definition known_c11 (c : cfg) (id : ustr) : bool := c11_casefold c id.
