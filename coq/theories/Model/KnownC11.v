(** Boolean classifiers of the known C11 findings (one per `known:` line of
    /verif/known-findings.txt).  The C11 theorems exclude exactly these classes; the
    run-time check evaluates the same functions on every generated case. *)
From Rocfl Require Import Base.Bytes Model.Layout.
Open Scope N_scope.

(** ** classes of configurations (StorageLayout::new) *)

Definition is_absent (v : jv) : bool := match v with JAbsent => true | _ => false end.
Definition num_above (k : N) (v : jv) : bool := match v with JNum n => k <? n | _ => false end.

(** c11-cfg-bounds: 0003/0004 document "An integer between 0 and 32 inclusive" for
    tupleSize and numberOfTuples; layout.rs:227-267 never checks the upper bound
    (validate_tuple_config only couples the zeros, validate_digest_algorithm only
    bounds the product), so e.g. tupleSize 33 / numberOfTuples 1 or 1 x 64 is accepted;
    with huge numbers the usize product overflows (panic in debug builds). *)
Definition c11_cfg_bounds (e : ext) (r : raw) : bool :=
  match e, r with
  | (E0003 | E0004), RawObj o => num_above 32 (r_ts o) || num_above 32 (r_nt o)
  | _, _ => false
  end.

(** c11-cfg-short-root: 0004 "If the product of tupleSize and numberOfTuples is equal
    to the number of characters in the hex encoded digest, then shortObjectRoot MUST be
    false"; not checked (layout.rs:227-240): every object root is then "<tuples>/" with
    an empty directory name. *)
Definition c11_cfg_short_root (e : ext) (r : raw) : bool :=
  match e, r with
  | E0004, RawObj o =>
      match r_short o, get_alg (r_alg o), get_usize (r_ts o), get_usize (r_nt o) with
      | JBool true, Ok a, Ok ts, Ok nt => negb (ts =? 0) && (ts * nt =? alg_hexlen a)
      | _, _, _, _ => false
      end
  | _, _ => false
  end.

(** c11-cfg-0007-defaults: 0007 gives every parameter a default (delimiter ":"), but
    NTupleOmitPrefixLayoutConfig.delimiter has no serde default (layout.rs:189) and
    NTupleOmitPrefixLayoutExtension::new refuses a missing config.json (569-573). *)
Definition c11_cfg_0007_defaults (e : ext) (r : raw) : bool :=
  match e, r with
  | E0007, RawNone => true
  | E0007, RawObj o => is_absent (r_delim o)
  | _, _ => false
  end.

(** c11-cfg-array: a config.json that is a JSON array is deserialised positionally by
    serde's derived visitor and accepted; the documents define the configuration as a
    JSON object with named parameters. *)
Definition c11_cfg_array (r : raw) : bool := match r with RawSeq _ => true | _ => false end.

Definition known_c11_cfg (e : ext) (r : raw) : bool :=
  c11_cfg_bounds e r || c11_cfg_short_root e r || c11_cfg_0007_defaults e r || c11_cfg_array r.

(** NOT a finding but a hole in the documents: none of the five says whether the key
    extensionName may be omitted.  rocfl requires it for 0006/0007 (serde "missing
    field") and defaults it for 0002-0004.  The configuration theorem is stated for
    the configurations the documents decide. *)
Definition cfg_determined (e : ext) (r : raw) : bool :=
  match e, r with
  | (E0006 | E0007), RawObj o => negb (is_absent (r_ext o))
  | _, _ => true
  end.

(** ** classes of (configuration, id) pairs (map_object_id) *)

(** c11-0003-zero-tuples: with tupleSize = numberOfTuples = 0 the document (Example 3
    and Procedure steps 5-6) puts the object in the percent-encoded encapsulation
    directory directly under the storage root; layout.rs:481-483 returns the digest. *)
Definition c11_0003_zero_tuples (c : cfg) : bool :=
  match c_ext c with E0003 => c_ts c =? 0 | _ => false end.

(** The case mapping is "regular" for a delimiter and an id when the byte arithmetic of
    layout.rs:538-558 / 601-619 is sound:
    - delimiter with case: str::to_lowercase of id and delimiter is the concatenation of
      the per-character lower-case forms (false for a final capital sigma), every
      lower-case form is ONE scalar value, and for the id it has the SAME UTF-8 length
      as the original character (false for U+212A KELVIN SIGN, U+0130, U+1E9E ...);
    - delimiter without case (to_lowercase = to_uppercase): comparing bytes is the same
      as comparing lower-case forms. *)
Definition lows (s : ustr) : bytes := List.concat (List.map u_low (us_chars s)).
Definition case_regular (d id : ustr) : bool :=
  if case_matters d then
    bytes_eqb (us_lower id) (lows id) && bytes_eqb (us_lower d) (lows d) &&
    forallb (fun u => wf_char (u_low u) && (blen (u_low u) =? blen (u_orig u))) (us_chars id) &&
    forallb (fun u => wf_char (u_low u)) (us_chars d)
  else
    forallb (fun u => forallb (fun v =>
      Bool.eqb (bytes_eqb (u_low u) (u_low v)) (bytes_eqb (u_orig u) (u_orig v))) (us_chars d)) (us_chars id).

(** c11-casefold-index: 0006/0007 search the delimiter in object_id.to_lowercase() and
    apply the byte index to the original id (layout.rs:545-554, 607-616) *)
Definition c11_casefold (c : cfg) (id : ustr) : bool :=
  match c_ext c with
  | E0006 | E0007 => negb (case_regular (c_delim c) id)
  | _ => false
  end.

(** c11-0007-control-chars: 0007 "is defined over the ASCII subset of UTF-8 (code points
    0x20 to 0x7F). Any character outside of this range in either an identifier or a path
    is an error"; layout.rs:595 only tests is_ascii(), so U+0000-U+001F pass. *)
Definition c11_0007_ctrl (c : cfg) (id : ustr) : bool :=
  match c_ext c with
  | E0007 => existsb (fun ch => code ch <? 32) (us_bytes id)
  | _ => false
  end.

Definition known_c11 (c : cfg) (id : ustr) : bool :=
  c11_0003_zero_tuples c || c11_casefold c id || c11_0007_ctrl c id.
