(** Classifier of the known finding of C12 (genuine defect of rocfl that stays).
    Definitions only.

    mv (external) renames every named source into the staged object without testing where the
    source lies (repo.rs:695-721, fs.rs:755-770): a source under the storage root or the staging
    root - e.g. a committed content file - is moved out of the repository's own tree.  The
    excluded class: some named source lies under, or contains, the storage root or the staging
    root. *)
From Rocfl Require Import Base.Bytes Model.FsOps Model.Footprint.

Definition src_in_repo (c : cfg) (s : fpath) : bool :=
  under (c_root c) s || under s (c_root c) || under (c_stg c) s || under s (c_stg c).

Definition c12_mv_source_in_repo (c : cfg) (o : opd) : bool :=
  match o_kind o with
  | KMvExt => existsb (src_in_repo c) (o_srcs o)
  | _ => false
  end.
