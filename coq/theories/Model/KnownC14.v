(** Classifier of the known finding of C14's multi-client half (the `known:` line
    recreated-lineage of /verif/known-findings.txt) and the step-level class the
    run-level theorems exclude. *)
From Rocfl Require Import Base.Bytes Model.VersionNum Model.MultiClient.
Open Scope N_scope.

(** known: property=C14 id=recreated-lineage.
    Client [c] commits a staged NEW VERSION of [id] whose base lineage is not
    the lineage of the object now in the main repository (the object was purged
    and created again after [c] cloned it) while the head NUMBERS match
    (main head + 1 = staged head), so write_new_version (store/fs.rs:433, which
    compares numbers only) does not refuse: the version directory is moved into
    the foreign object and the root inventory is replaced by one that describes
    the purged lineage.  Reproduced with the CLI: A: new,cp,commit,cp,commit,cp ;
    B: purge,new,cp,commit,cp,commit ; A: commit -> exit 0, validate: E023/E092/E066.
    (With main at v1 of the new lineage A's commit of v3 is refused: outside the class.) *)
Definition c14_recreated_lineage (st : mc) (c : N) (id : bytes) : bool :=
  match sget st c id, mget st id with
  | Some s, Some o =>
      negb (vn_number (s_head s) =? 1)
      && match s_base s with Some l => negb (l =? o_lineage o) | None => true end
      && (vn_number (o_head o) + 1 =? vn_number (s_head s))
  | _, _ => false
  end.

Definition step_known (st : mc) (c : N) (o : op) : bool :=
  match o with Commit id => c14_recreated_lineage st c id | _ => false end.

Definition step_clean (st : mc) (c : N) (o : op) : bool := negb (step_known st c o).

(** no step of the run is in the known class *)
Fixpoint run_clean (dbg : bool) (st : mc) (es : list event) : bool :=
  match es with
  | [] => true
  | (c, o) :: r => step_clean st c o && run_clean dbg (fst (step dbg st c o)) r
  end.
