(** C17: boolean classifiers of the known findings (genuine defects of the rocfl validator
    that are still present).  Each takes the abstracted input the check extracts from an
    object root; the property theorems exclude exactly these classes.
    Repaired and therefore no longer here: blank-id (commit b116ae5), version-gap (719e6a5,
    f842f41), wide-padding (d5a9e2d). *)
From Rocfl Require Import Base.Bytes Model.VersionNum Model.VCode.
Open Scope N_scope.

(** empty-manifest-entry: a manifest entry ["digest": []] is remembered as a known
    digest (serde.rs:922 [digests.insert]) but never enters the PathBiMap
    (bimap.rs:88-91), so E050 does not fire for a state that uses the digest and
    [content_paths(..).unwrap()] (validate/mod.rs:1656-1657) panics. *)
Definition c17_empty_manifest_entry (inv : ainv) : bool :=
  existsb (fun e => is_nil (snd e)) (i_manifest inv).

(** empty-pretty-print-set (debug builds only): PrettyPrintSet (types.rs:1353,
    [len() - 1]) is given the filtered set of mod.rs:1671-1679, which is empty when a
    version's state uses a digest whose two or more content paths all lie in later
    versions. *)
Definition c17_future_content (inv : ainv) : bool :=
  existsb (fun vs : N * astate =>
     existsb (fun e : N * N =>
        match content_paths inv (snd e) with
        | Some cps => negb (nlen cps =? 1) && forallb (fun cp : N * N => fst vs <? fst cp) cps
        | None => false
        end) (snd vs)) (i_versions inv).
Definition c17_empty_pps (dbg : bool) (inv : ainv) : bool := dbg && c17_future_content inv.

(** quadratic-path: validate_non_conflicting (serde.rs:1473-1487) hashes every
    '/'-prefix of every path: slashes * length operations for one path. *)
Definition PATH_COST_BOUND : N := 100000000.
Definition c17_quadratic_path (slashes len : N) : bool := PATH_COST_BOUND <? slashes * len.

(** uri-colon-segment: "id" or a user "address" without a valid scheme whose first path segment
    contains ':' (":", "1:x", "%3A:") makes uriparse's URI::try_from panic inside the library. *)
Definition c17_colon_uri (s : bytes) : bool := uri_try_from_panics s.
