(** C17: boolean classifiers of the known findings (genuine defects of the pinned
    rocfl validator).  Each takes the abstracted input the check extracts from an
    object root; the property theorems exclude exactly these classes. *)
From Rocfl Require Import Base.Bytes Model.VersionNum Model.VCode.
Open Scope N_scope.

(** blank-id: an inventory whose "id" is the empty string passes every check of the
    visitor, then [Inventory::new(..).unwrap()] panics (validate/serde.rs:480-494,
    validate_object_id in validate/mod.rs:32-39). *)
Definition c17_blank_id (id : bytes) : bool := is_nil id.

(** version-gap: validate_version_nums (validate/serde.rs:1306-1313) emits one E010
    string per missing number between two consecutive version keys: a key such as
    v400000000 costs 4*10^8 iterations and gigabytes.  [vs] = numbers of the
    parsable keys of one "versions" block in BTreeSet (ascending) order. *)
Definition GAP_BOUND : N := 1000000.
Definition c17_version_gap (vs : list N) : bool :=
  existsb (fun g => GAP_BOUND <? g) (vnums_gaps vs 1).

(** empty-manifest-entry: a manifest entry ["digest": []] is remembered as a known
    digest (serde.rs:887 [digests.insert]) but never enters the PathBiMap
    (bimap.rs:88-91), so E050 does not fire for a state that uses the digest and
    [content_paths(..).unwrap()] (validate/mod.rs:1656-1657) panics. *)
Definition c17_empty_manifest_entry (inv : ainv) : bool :=
  existsb (fun e => is_nil (snd e)) (i_manifest inv).

(** empty-pretty-print-set (debug builds only): PrettyPrintSet (types.rs:1346,
    [len() - 1]) is given the filtered set of mod.rs:1671-1679, which is empty when a
    version's state uses a digest whose two or more content paths all lie in later
    versions. *)
Definition c17_future_content (inv : ainv) : bool :=
  existsb (fun vs : N * astate =>
     existsb (fun e : N * N =>
        match content_paths inv (snd e) with
        | Some cps => negb (nlen cps =? 1) && forallb (fun cp : N * N => fst vs <? fst cp) cps
        | None => false
        end) (snd vs)) (i_versions inv).
Definition c17_empty_pps (dbg : bool) (inv : ainv) : bool := dbg && c17_future_content inv.

(** wide-padding: a version number written with more than 65535 digits has a width
    that [format!("v{:0width$}")] (types.rs:397) refuses at run time. *)
Definition c17_wide_padding (v : vnum) : bool := vdisplay_panics v.
Definition c17_wide_padding_str (s : bytes) : bool :=
  match vparse s with Ok v => c17_wide_padding v | _ => false end.

(** quadratic-path: validate_non_conflicting (serde.rs:1416-1431) hashes every
    '/'-prefix of every path: slashes * length operations for one path. *)
Definition PATH_COST_BOUND : N := 100000000.
Definition c17_quadratic_path (slashes len : N) : bool := PATH_COST_BOUND <? slashes * len.

(** uri-colon-segment: "id" or a user "address" without a valid scheme whose first path segment
    contains ':' (":", "1:x", "%3A:") makes uriparse's URI::try_from panic inside the library. *)
Definition c17_colon_uri (s : bytes) : bool := uri_try_from_panics s.
