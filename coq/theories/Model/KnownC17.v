(** C17: boolean classifiers of the known findings (genuine defects of the rocfl validator
    that are still present).  Each takes the abstracted input the check extracts from an
    object root; the property theorems exclude exactly these classes.
    Repaired and therefore no longer here: blank-id (commit b116ae5), version-gap (719e6a5,
    f842f41), wide-padding (d5a9e2d), empty-pps-debug (547c92e), empty-manifest-entry (7c90d82),
    uri-colon-segment (389bfd0). *)
From Rocfl Require Import Base.Bytes Model.VersionNum Model.VCode.
Open Scope N_scope.

(** quadratic-path: validate_non_conflicting (serde.rs:1487-1501) hashes every
    '/'-prefix of every path: slashes * length operations for one path. *)
Definition PATH_COST_BOUND : N := 100000000.
Definition c17_quadratic_path (slashes len : N) : bool := PATH_COST_BOUND <? slashes * len.
