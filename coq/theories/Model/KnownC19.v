(** Boolean classifiers of the known findings of C19 (one per `known:` line of
    /verif/known-findings.txt with property=C19).  The property theorems of
    Props/C19.v exclude exactly these classes; checks/c19.py evaluates the same
    conditions on the driver side. *)
From Rocfl Require Import Base.Bytes Model.Listing.
Open Scope N_scope.

(** id=root-named-extensions.  An object whose root, or any directory on the way
    to it below the storage root's first level, is NAMED [extensions]: the walk
    skips that name at every depth (fs.rs:915; validate/mod.rs:1933 does the
    same), so the object is never listed, never found by a scan and never
    validated by validate_repo, although lookup through the layout path opens it
    (layout 0003 and 0007: id [extensions]; no layout: any such object_root). *)
Definition c19_root_named_extensions (t : tree) : bool :=
  existsb (fun r => has_ext (fst r)) (spec_roots t).

(** id=id-needs-json-escape.  Some committed id contains a quote, a backslash or
    a control character: the pre-filter (fs.rs:39-40, 851-880) reads the raw JSON
    text, i.e. the ESCAPED id cut at the first quote, so a glob listing and the
    lookup without layout test the wrong string. *)
Definition c19_id_needs_escape (t : tree) : bool :=
  existsb needs_escape (committed_ids t).

Definition c19 (t : tree) : bool :=
  c19_root_named_extensions t || c19_id_needs_escape t.

(** id=layout-path-occupied.  The layout maps an id that was never committed to a
    path that exists without being that object's root (layouts 0002/0006: id
    [extensions] or the name of any file of the storage root): get_object
    answers with a general error instead of NotFound (fs.rs:187-188) and the
    object can never be created. *)
Definition c19_layout_path_occupied (t : tree) (p : path) : bool :=
  match lookup_path t p with
  | None => false
  | Some (File _) => true
  | Some (Dir ces) => match parse_inventory ces with Ok _ => false | _ => true end
  end.

(** id=stale-id-path-cache.  The handle's id->path cache (fs.rs:48-50, never
    evicted, not updated by purge) holds for [id] a path that is no longer the
    truth: the object now lives elsewhere, or something else lives at that path. *)
Definition root_is (id : bytes) (p : path) (r : objroot) : bool :=
  path_eqb (fst r) p && existsb (bytes_eqb id) (root_id r).

Definition cache_entry_ok (t : tree) (id : bytes) (p : path) : bool :=
  if existsb (root_is id p) (spec_roots t) then true
  else match lookup_path t p with
       | None => negb (existsb (bytes_eqb id) (committed_ids t))
       | Some _ => false
       end.

Definition c19_cache_stale (c : cache) (t : tree) (id : bytes) : bool :=
  match cache_get c id with
  | Some p => negb (cache_entry_ok t id p)
  | None => false
  end.

(** id=glob-qmark-one-byte.  globset compiles the glob to a byte regex ((?-u)), so
    an unescaped [?] stands for exactly one BYTE: it cannot match a non-ASCII
    character of an id (the glob matcher is external to the model; this
    classifier is evaluated by the check only). *)
Fixpoint has_unescaped_qmark (g : bytes) : bool :=
  match g with
  | [] => false
  | c :: g' =>
      if code c =? 92 then match g' with [] => false | _ :: g'' => has_unescaped_qmark g'' end
      else (code c =? 63) || has_unescaped_qmark g'
  end.

Definition c19_glob_qmark_multibyte (g : bytes) (ids : list bytes) : bool :=
  has_unescaped_qmark g && existsb (existsb (fun c => 128 <=? code c)) ids.

