(** Boolean classifiers of the known findings of C19 (one per `known:` line of
    /verif/known-findings.txt with property=C19).  The property theorems of
    Props/C19.v exclude exactly these classes; checks/c19.py evaluates the same
    conditions on the driver side.
    Repaired and removed: root-named-extensions (38fe584), stale-id-path-cache
    (4564259), layout-path-occupied (01aa490, 3802aa0), id-needs-json-escape
    (5a727de).  The one class left concerns the glob matcher, which is external
    to the model: no theorem of Props/C19.v carries a classifier hypothesis. *)
From Rocfl Require Import Base.Bytes Model.Listing.
Open Scope N_scope.

(** id=glob-qmark-one-byte.  globset compiles the glob to a byte regex ((?-u)), so
    an unescaped [?] stands for exactly one BYTE: it cannot match a non-ASCII
    character of an id (the glob matcher is external to the model; this
    classifier is evaluated by the check only). *)
Fixpoint has_unescaped_qmark (g : bytes) : bool :=
  match g with
  | [] => false
  | c :: g' =>
      if code c =? 92 then match g' with [] => false | _ :: g'' => has_unescaped_qmark g'' end
      else (code c =? 63) || has_unescaped_qmark g'
  end.

Definition c19_glob_qmark_multibyte (g : bytes) (ids : list bytes) : bool :=
  has_unescaped_qmark g && existsb (existsb (fun c => 128 <=? code c)) ids.

