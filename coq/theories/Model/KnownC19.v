(** Boolean classifiers of the known findings of C19 (one per `known:` line of
    /verif/known-findings.txt with property=C19).  The property theorems of
    Props/C19.v exclude exactly these classes; checks/c19.py evaluates the same
    conditions on the driver side.
    Repaired and removed: root-named-extensions (38fe584), stale-id-path-cache
    (4564259), layout-path-occupied (01aa490, 3802aa0). *)
From Rocfl Require Import Base.Bytes Model.Listing.
Open Scope N_scope.

(** id=id-needs-json-escape.  Some committed id contains a quote, a backslash or
    a control character: the pre-filter (fs.rs:39-40, 1056-1085) reads the raw JSON
    text, i.e. the ESCAPED id cut at the first quote, so a glob listing and the
    lookup without layout test the wrong string; a scan that matched the cut
    text caches that wrong object root (fs.rs:217-221), after which the same
    handle answers the cut text with CorruptObject (fs.rs:257-267). *)
Definition c19_id_needs_escape (t : tree) : bool :=
  existsb needs_escape (committed_ids t).

(** id=glob-qmark-one-byte.  globset compiles the glob to a byte regex ((?-u)), so
    an unescaped [?] stands for exactly one BYTE: it cannot match a non-ASCII
    character of an id (the glob matcher is external to the model; this
    classifier is evaluated by the check only). *)
Fixpoint has_unescaped_qmark (g : bytes) : bool :=
  match g with
  | [] => false
  | c :: g' =>
      if code c =? 92 then match g' with [] => false | _ :: g'' => has_unescaped_qmark g'' end
      else (code c =? 63) || has_unescaped_qmark g'
  end.

Definition c19_glob_qmark_multibyte (g : bytes) (ids : list bytes) : bool :=
  has_unescaped_qmark g && existsb (existsb (fun c => 128 <=? code c)) ids.

