(** Classifier of the known finding recorded for C20 (one per `known:` line of
    /verif/known-findings.txt).  Definitions only. *)
From Rocfl Require Import Base.Bytes Model.Cli.
Open Scope N_scope.

(** C20 / validate-root-suppression.
    `rocfl validate -e CODE` in repository mode (src/cmd/validate.rs:144) applies the
    user's suppression to the storage HIERARCHY result a second time and never to the
    storage ROOT result.  The exit status is wrong exactly when some error of the
    storage root is suppressed by the user and nothing else is left that would
    justify exit status 2. *)
Definition c20_root_suppression (f : vflags) (rr : repo_results) : bool :=
  existsb (fun e => memN e (vf_sup_e f)) (vr_errors (rr_root rr))
  && negb (repo_invalid_after_suppression f rr).

(** the same class, as a predicate on the outcome of one command *)
Definition c20_known (c : cmd_outcome) : bool :=
  match c with
  | OValidateRepo f (Some rr) => c20_root_suppression f rr
  | _ => false
  end.
