(** Boolean classifiers of the known findings of C16 (one per `known:` line of
    /verif/known-findings.txt).  The property theorems exclude exactly these classes; the
    run-time checks evaluate the same functions.
    C15 has no known finding left: its former class prefix-trailing-slash (S3 prefix given
    as "pre/") was repaired by /repo commit 1405318 (S3Client::new trims the prefix,
    s3.rs:741, modelled by S3.client_prefix); its classifier was removed. *)
From Rocfl Require Import Base.Bytes Generated.Consts Model.S3.
Open Scope N_scope.

(** C16: the fault hits the PUT of the root sidecar or a later request (declaration swap of an
    upgrade) of write_new_version.  do_with_rollback then deletes the root inventory.json that
    has already overwritten the previous one (it is in `done`, s3.rs:289), and the declaration
    swap has no rollback at all (s3.rs:538-549). *)
Definition c16_root_inventory_rollback (i : nv_input) (k : N) : bool :=
  upload_cost (nv_files i) + put_cost (uf_len (nv_inv i)) <=? k.

(** C16: write_new_object uploads the staged object directory in WalkDir (readdir) order
    (s3.rs:248, 480): the root inventory.json may be stored before files of the version
    directory, or after its own sidecar.  [walk] is the sequence of relative names. *)
Fixpoint split_at_rel (name : bytes) (walk : list bytes) : option (list bytes * list bytes) :=
  match walk with
  | [] => None
  | r :: rest =>
      if bytes_eqb r name then Some ([], rest)
      else match split_at_rel name rest with
           | Some (before, after) => Some (r :: before, after)
           | None => None
           end
  end.
Definition c16_new_object_walk_order (vstr sidecar : bytes) (walk : list bytes) : bool :=
  match split_at_rel K_INVENTORY_FILE walk with
  | Some (before, after) =>
      existsb (starts_with (vstr ++ [slash])) after || existsb (bytes_eqb sidecar) before
  | None => true
  end.
