(** Model of the storage layout extensions of rocfl, /repo/src/ocfl/store/layout.rs,
    written as the code is written (byte indices, panicking slices, the order of
    the validation steps).  Definitions only.

    External behaviour that is NOT rocfl code enters as data:
    - Unicode: a string comes with its characters (UTF-8 bytes of each [char] and
      [char::to_lowercase] of it) and with [str::to_lowercase] / [str::to_uppercase]
      of the whole string ([ustr]); the code model uses the bytes, the two whole-string
      mappings and - since fix 91d5aeb, for layout 0006 - [char::to_lowercase] of each
      character (lowercase_chars, rfind_ignore_case); the specification (LayoutSpec.v)
      uses the characters;
    - the hex digest of the object id under the configured algorithm is an argument. *)
From Rocfl Require Export Base.Bytes.
From Rocfl Require Import Generated.Consts.
Open Scope N_scope.

(** * Strings with case information (external input) *)
Record uchar := mkU { u_orig : bytes;      (* UTF-8 encoding of one Unicode scalar value *)
                      u_low : bytes }.     (* UTF-8 of char::to_lowercase() of it *)
Record ustr := mkS { us_chars : list uchar;
                     us_lower : bytes;     (* str::to_lowercase() of the whole string *)
                     us_upper : bytes }.   (* str::to_uppercase() of the whole string *)
Definition us_bytes (s : ustr) : bytes := List.concat (map u_orig (us_chars s)).
(** the lower-case forms of the characters, one after the other (no rule that looks at
    the neighbours of a character, unlike str::to_lowercase with its final sigma) *)
Definition lower_text (cs : list uchar) : bytes := List.concat (map u_low cs).

(** * Rust [str] primitives used by layout.rs *)
Definition is_cont (c : ascii) : bool := (128 <=? code c) && (code c <? 192).
Definition is_ascii_byte (c : ascii) : bool := code c <? 128.
Definition is_ascii (s : bytes) : bool := forallb is_ascii_byte s.

(** Well-formedness of the external input: a Rust [str] is a sequence of UTF-8
    encoded scalar values; the first byte of each gives its length and the others are
    continuation bytes.  (Only this prefix-code structure is used by the proofs.) *)
Definition utf8_len (c : ascii) : N :=
  if code c <? 128 then 1 else if code c <? 192 then 0 else if code c <? 224 then 2
  else if code c <? 240 then 3 else if code c <? 248 then 4 else 0.
Definition wf_char (s : bytes) : bool :=
  match s with [] => false | c :: r => (utf8_len c =? 1 + blen r) && forallb is_cont r end.
Definition ustr_wf (s : ustr) : bool := forallb (fun u => wf_char (u_orig u)) (us_chars s).

(** str::is_char_boundary: 0 and len are boundaries, otherwise the byte must not be
    a UTF-8 continuation byte; indices past the end are no boundary *)
Definition char_boundary (s : bytes) (i : N) : bool :=
  if i =? 0 then true
  else if blen s <? i then false
  else if i =? blen s then true
  else match nth_error s (N.to_nat i) with Some c => negb (is_cont c) | None => false end.

(** [&s[a..z]]: panics unless a <= z <= len and both are char boundaries *)
Definition str_slice (s : bytes) (a z : N) : res bytes :=
  if (a <=? z) && char_boundary s a && char_boundary s z
  then Ok (firstn (N.to_nat (z - a)) (skipn (N.to_nat a) s))
  else Panic.
Definition str_from (s : bytes) (a : N) : res bytes := str_slice s a (blen s).   (* &s[a..] *)
Definition str_to (s : bytes) (z : N) : res bytes := str_slice s 0 z.            (* &s[..z] *)

(** str::rfind(&str): byte index of the last occurrence ([Some len] for an empty needle) *)
Fixpoint rfind (hay needle : bytes) : option N :=
  match hay with
  | [] => if starts_with needle [] then Some 0 else None
  | _ :: t => match rfind t needle with
              | Some i => Some (i + 1)
              | None => if starts_with needle hay then Some 0 else None
              end
  end.

(** str::chars().count() = number of bytes that are not continuation bytes *)
Definition char_count (s : bytes) : N := blen (filter (fun c => negb (is_cont c)) s).

Definition to_ascii_lower (c : ascii) : ascii :=
  if (65 <=? code c) && (code c <=? 90) then ascii_of_N (code c + 32) else c.

Definition is_alnum (c : ascii) : bool :=
  ((48 <=? code c) && (code c <=? 57)) || ((65 <=? code c) && (code c <=? 90)) ||
  ((97 <=? code c) && (code c <=? 122)).

(** * percent encoding, layout.rs:15 and 504
    NON_ALPHA_PLUS = NON_ALPHANUMERIC minus the exempt bytes; utf8_percent_encode
    writes every byte of the set and every non-ASCII byte as %XX with UPPER case hex. *)
Definition hex_upper (n : N) : ascii := if n <? 10 then ascii_of_N (48 + n) else ascii_of_N (55 + n).
Definition hex_lower (n : N) : ascii := if n <? 10 then ascii_of_N (48 + n) else ascii_of_N (87 + n).

Definition pct_keep (c : ascii) : bool :=
  is_ascii_byte c && (is_alnum c || existsb (Ascii.eqb c) K_NON_ALPHA_PLUS_EXEMPT).

Definition pct_byte_upper (c : ascii) : bytes :=
  if pct_keep c then [c] else ["%"%char; hex_upper (code c / 16); hex_upper (code c mod 16)].
Definition percent_encode_upper (s : bytes) : bytes := flat_map pct_byte_upper s.

(** lower_percent_escape, layout.rs:674-702: everything up to and including the first
    '%' is copied; then a counter (2 after a '%') says how many following bytes are
    lower-cased; a '%' met while the counter is positive is NOT the start of an escape *)
Fixpoint lpe_loop (count : N) (s : bytes) : bytes :=
  match s with
  | [] => []
  | c :: t =>
      if 0 <? count then to_ascii_lower c :: lpe_loop (count - 1) t
      else if Ascii.eqb c "%"%char then c :: lpe_loop 2 t
      else c :: lpe_loop 0 t
  end.
Fixpoint lower_percent_escape (s : bytes) : bytes :=
  match s with
  | [] => []
  | c :: t => if Ascii.eqb c "%"%char then c :: lpe_loop 2 t else c :: lower_percent_escape t
  end.

(** * to_tuples, layout.rs:656-667
    [for i in 0..n { push value[i*size .. i*size+size]; push '/' }].  A slice past the
    end panics in the first iteration that needs it, so the whole call panics iff
    n*size > len (size > 0); the guard keeps the model cheap on hostile numbers.
    (size = 0 is passed only by 0003 with tupleSize = numberOfTuples = 0, layout.rs:497-501:
    no iteration, the empty string; 0004 returns before the call, 0007 validates >= 1.) *)
Fixpoint to_tuples_loop (value : bytes) (size : N) (n : nat) (i : N) : res bytes :=
  match n with
  | O => Ok []
  | S n' =>
      res_bind (str_slice value (i * size) (i * size + size)) (fun t =>
      res_bind (to_tuples_loop value size n' (i + 1)) (fun rest =>
      Ok (t ++ "/"%char :: rest)))
  end.
Definition to_tuples (value : bytes) (size n : N) : res bytes :=
  if (0 <? size) && (blen value <? n * size) then Panic
  else to_tuples_loop value size (N.to_nat n) 0.

(** * configuration *)
Inductive ext := E0002 | E0003 | E0004 | E0006 | E0007.
Definition ext_eqb (a c : ext) : bool :=
  match a, c with
  | E0002, E0002 | E0003, E0003 | E0004, E0004 | E0006, E0006 | E0007, E0007 => true
  | _, _ => false
  end.
(** LayoutExtensionName, layout.rs:24-41 *)
Definition ext_name (e : ext) : bytes :=
  match e with
  | E0002 => K_FLAT_DIRECT_LAYOUT_EXTENSION
  | E0003 => K_HASHED_NTUPLE_OBJECT_ID_LAYOUT_EXTENSION
  | E0004 => K_HASHED_NTUPLE_LAYOUT_EXTENSION
  | E0006 => K_FLAT_OMIT_PREFIX_LAYOUT_EXTENSION
  | E0007 => K_NTUPLE_OMIT_PREFIX_LAYOUT_EXTENSION
  end.
Definition all_exts : list ext := [E0002; E0003; E0004; E0006; E0007].
Definition ext_of_name (s : bytes) : option ext :=
  find (fun e => bytes_eqb (ext_name e) s) all_exts.

(** DigestAlgorithm, src/ocfl/digest.rs:28-56, and the length of its hex digest
    (what [validate_digest_algorithm] measures by hashing "test", layout.rs:744) *)
Inductive alg := Md5 | Sha1 | Sha256 | Sha512 | Sha512_256 | Blake2b512 | Blake2b160 | Blake2b256 | Blake2b384.
Definition all_algs : list alg := [Md5; Sha1; Sha256; Sha512; Sha512_256; Blake2b512; Blake2b160; Blake2b256; Blake2b384].
Definition alg_name (a : alg) : bytes :=
  match a with
  | Md5 => b "md5" | Sha1 => b "sha1" | Sha256 => b "sha256" | Sha512 => b "sha512"
  | Sha512_256 => b "sha512/256" | Blake2b512 => b "blake2b-512" | Blake2b160 => b "blake2b-160"
  | Blake2b256 => b "blake2b-256" | Blake2b384 => b "blake2b-384"
  end.
Definition alg_hexlen (a : alg) : N :=
  match a with
  | Md5 => 32 | Sha1 => 40 | Sha256 => 64 | Sha512 => 128 | Sha512_256 => 64
  | Blake2b512 => 128 | Blake2b160 => 40 | Blake2b256 => 64 | Blake2b384 => 96
  end.
Definition alg_of_name (s : bytes) : option alg :=
  find (fun a => bytes_eqb (alg_name a) s) all_algs.

(** The configuration file as a parsed JSON value.  [JNum n] is a JSON number written
    as a non-negative integer literal; every other number (negative, fraction,
    exponent), null, arrays and objects are [JOther]. *)
Inductive jv := JAbsent | JNum (n : N) | JStr (s : ustr) | JBool (v : bool) | JOther.
Record rawobj := mkRaw {
  r_ext : jv;     (* extensionName *)
  r_alg : jv;     (* digestAlgorithm *)
  r_ts : jv;      (* tupleSize *)
  r_nt : jv;      (* numberOfTuples *)
  r_short : jv;   (* shortObjectRoot *)
  r_delim : jv;   (* delimiter *)
  r_pad : jv;     (* zeroPadding *)
  r_rev : jv      (* reverseObjectRoot *)
}.
Inductive raw :=
| RawNone                      (* no config.json: config_bytes = None *)
| RawObj (o : rawobj)          (* a JSON object; keys the struct does not know are ignored, duplicates not generated *)
| RawSeq (l : list jv)         (* a JSON array (until fix 8478633 serde's derived visitor read it positionally) *)
| RawInvalid.                  (* not JSON, any other JSON value, trailing characters *)

(** the deserialised and validated configuration *)
Record cfg := mkCfg {
  c_ext : ext;        (* which extension was asked for (the [name] argument of StorageLayout::new) *)
  c_name : ext;       (* the extension_name field *)
  c_alg : alg;
  c_ts : N;
  c_nt : N;
  c_short : bool;
  c_delim : ustr;
  c_padleft : bool;   (* Padding::Left *)
  c_rev : bool
}.

Definition USIZE_MAX : N := 18446744073709551615.
Definition USIZE_MOD : N := 18446744073709551616.

Definition no_delim : ustr := mkS [] [] [].
(** default_delimiter, layout.rs:814-816: ":" (with its case information: no case) *)
Definition default_delimiter : ustr := mkS [mkU (b ":") (b ":")] (b ":") (b ":").

(** serde field readers.  A present value of the wrong JSON type is an error, also
    null; an unsigned literal above u64::MAX is parsed as a float, hence an error. *)
Definition get_usize (v : jv) : res N :=
  match v with
  | JAbsent => Ok 3                                            (* default_tuple, layout.rs:764 *)
  | JNum n => if n <=? USIZE_MAX then Ok n else Err
  | _ => Err
  end.
Definition get_bool (v : jv) : res bool :=
  match v with JAbsent => Ok false | JBool x => Ok x | _ => Err end.   (* default_short_root / default_reverse *)
Definition get_ext (v : jv) (dflt : option ext) : res ext :=
  match v with
  | JAbsent => match dflt with Some e => Ok e | None => Err end
  | JStr s => match ext_of_name (us_bytes s) with Some e => Ok e | None => Err end
  | _ => Err
  end.
Definition get_alg (v : jv) : res alg :=
  match v with
  | JAbsent => Ok Sha256                                       (* default_algorithm *)
  | JStr s => match alg_of_name (us_bytes s) with Some a => Ok a | None => Err end
  | _ => Err
  end.
Definition get_pad (v : jv) : res bool :=
  match v with
  | JAbsent => Ok true                                         (* default_padding = Left *)
  | JStr s => if bytes_eqb (us_bytes s) (b "left") then Ok true
              else if bytes_eqb (us_bytes s) (b "right") then Ok false else Err
  | _ => Err
  end.
(** delimiter: 0006 has no default (missing field, layout.rs:169-174); 0007 has the serde
    default ":" (layout.rs:190, fix dec6d3f) *)
Definition get_delim (v : jv) (dflt : option ustr) : res ustr :=
  match v with
  | JAbsent => match dflt with Some d => Ok d | None => Err end
  | JStr s => Ok s
  | _ => Err
  end.

(** parse_config, layout.rs:719-729 (fix 8478633): the text is parsed into a
    serde_json::Value first; anything but a JSON object is refused (so the positional
    array form of serde's derived visitor is out of reach), then serde_json::from_value
    into the config struct of extension [e] *)
Definition parse_obj (e : ext) (o : rawobj) : res cfg :=
  match e with
  | E0002 =>      (* FlatDirectLayoutConfig, layout.rs:125-129: container default *)
      res_bind (get_ext (r_ext o) (Some E0002)) (fun nm =>
      Ok (mkCfg e nm Sha256 3 3 false no_delim true false))
  | E0004 =>      (* HashedNTupleLayoutConfig, layout.rs:132-148 *)
      res_bind (get_ext (r_ext o) (Some E0004)) (fun nm =>
      res_bind (get_alg (r_alg o)) (fun a =>
      res_bind (get_usize (r_ts o)) (fun ts =>
      res_bind (get_usize (r_nt o)) (fun nt =>
      res_bind (get_bool (r_short o)) (fun sh =>
      Ok (mkCfg e nm a ts nt sh no_delim true false))))))
  | E0003 =>      (* HashedNTupleObjectIdLayoutConfig, layout.rs:151-164 *)
      res_bind (get_ext (r_ext o) (Some E0003)) (fun nm =>
      res_bind (get_alg (r_alg o)) (fun a =>
      res_bind (get_usize (r_ts o)) (fun ts =>
      res_bind (get_usize (r_nt o)) (fun nt =>
      Ok (mkCfg e nm a ts nt false no_delim true false)))))
  | E0006 =>      (* FlatOmitPrefixLayoutConfig, layout.rs:167-172: both fields required *)
      res_bind (get_ext (r_ext o) None) (fun nm =>
      res_bind (get_delim (r_delim o) None) (fun d =>
      Ok (mkCfg e nm Sha256 3 3 false d true false)))
  | E0007 =>      (* NTupleOmitPrefixLayoutConfig, layout.rs:185-206 *)
      res_bind (get_ext (r_ext o) None) (fun nm =>
      res_bind (get_delim (r_delim o) (Some default_delimiter)) (fun d =>
      res_bind (get_usize (r_ts o)) (fun ts =>
      res_bind (get_usize (r_nt o)) (fun nt =>
      res_bind (get_pad (r_pad o)) (fun p =>
      res_bind (get_bool (r_rev o)) (fun rv =>
      Ok (mkCfg e nm Sha256 ts nt false d p rv)))))))
  end.

(** the Default impls (0007: layout.rs:578-589, fix dec6d3f) *)
Definition default_cfg (e : ext) : cfg :=
  mkCfg e e Sha256 3 3 false (match e with E0007 => default_delimiter | _ => no_delim end) true false.

(** usize multiplication: debug builds panic on overflow, release builds wrap *)
Definition usize_mul (dbg : bool) (x y : N) : res N :=
  if x * y <=? USIZE_MAX then Ok (x * y) else if dbg then Panic else Ok ((x * y) mod USIZE_MOD).

(** validate_tuple_config, layout.rs:718-737: the bound MAX_TUPLE_CONFIG on both numbers
    is tested FIRST (fix d1aca14), then "both zero or none" *)
Definition validate_tuple_config (ts nt : N) : bool :=
  if (K_MAX_TUPLE_CONFIG <? ts) || (K_MAX_TUPLE_CONFIG <? nt) then false
  else if ((ts =? 0) || (nt =? 0)) && (negb (ts =? 0) || negb (nt =? 0)) then false
  else true.

(** validate_digest_algorithm, layout.rs:739-760: the product is a usize multiplication
    (it can no longer overflow: both factors passed validate_tuple_config) *)
Definition validate_digest_algorithm (dbg : bool) (a : alg) (ts nt : N) : res unit :=
  res_bind (usize_mul dbg ts nt) (fun total =>
  if alg_hexlen a <? total then Err else Ok tt).

(** the validate() methods, layout.rs:213-342, in the order of their checks *)
Definition validate (dbg : bool) (c : cfg) : res cfg :=
  if negb (ext_eqb (c_name c) (c_ext c)) then Err                 (* validate_extension_name, layout.rs:704-716 *)
  else match c_ext c with
  | E0002 => Ok c
  | E0003 =>      (* HashedNTupleObjectIdLayoutConfig::validate, layout.rs:271-282 *)
      if negb (validate_tuple_config (c_ts c) (c_nt c)) then Err
      else res_bind (validate_digest_algorithm dbg (c_alg c) (c_ts c) (c_nt c)) (fun _ => Ok c)
  | E0004 =>      (* HashedNTupleLayoutConfig::validate, layout.rs:228-255 *)
      if negb (validate_tuple_config (c_ts c) (c_nt c)) then Err
      else res_bind (validate_digest_algorithm dbg (c_alg c) (c_ts c) (c_nt c)) (fun _ =>
        (* layout.rs:240-252 (fix a91c61b): shortObjectRoot with the whole digest in the tuples *)
        if c_short c then
          res_bind (usize_mul dbg (c_ts c) (c_nt c)) (fun total =>
          if alg_hexlen (c_alg c) =? total then Err else Ok c)
        else Ok c)
  | E0006 =>      (* layout.rs:297-310 *)
      match us_bytes (c_delim c) with [] => Err | _ => Ok c end   (* delimiter.is_empty() *)
  | E0007 =>      (* layout.rs:314-341 *)
      match us_bytes (c_delim c) with
      | [] => Err
      | _ => if (c_ts c <? 1) || (32 <? c_ts c) then Err
             else if (c_nt c <? 1) || (32 <? c_nt c) then Err
             else Ok c
      end
  end.

(** StorageLayout::new, layout.rs:44-72 with the five [new] functions 411-617 *)
Definition new (dbg : bool) (e : ext) (r : raw) : res cfg :=
  match r with
  | RawNone =>
      match e with
      | E0002 | E0003 | E0004 | E0007 => Ok (default_cfg e)       (* Config::default(), not validated; 0007: layout.rs:599 *)
      | E0006 => Err                                              (* "configuration must be specified", layout.rs:529-533 *)
      end
  | RawObj o => res_bind (parse_obj e o) (validate dbg)
  | RawSeq _ => Err                                               (* "must be a JSON object", layout.rs:722-726 *)
  | RawInvalid => Err
  end.

(** what the validate() functions establish, as a predicate on a configuration
    (the hypothesis [cfg_ok c = true] of the mapping theorems) *)
Definition cfg_ok (c : cfg) : bool :=
  match validate true c with Ok _ => true | _ => false end.

(** * the five map_object_id functions *)

(** 0002, layout.rs:423-425 *)
Definition map_0002 (id : ustr) : res bytes := Ok (us_bytes id).

(** 0004, layout.rs:443-469 *)
Definition map_0004 (c : cfg) (digest : bytes) : res bytes :=
  if c_ts c =? 0 then Ok digest
  else
    res_bind (to_tuples digest (c_ts c) (c_nt c)) (fun path =>
    if c_short c then
      res_bind (str_from digest (c_ts c * c_nt c)) (fun rest => Ok (path ++ rest))
    else Ok (path ++ digest)).

(** 0003, layout.rs:489-516.  There is no early return for tupleSize = 0 any more (fix
    e1de1bb): to_tuples then yields the empty string and the root is the encapsulation
    directory alone. *)
Definition map_0003 (c : cfg) (id : ustr) (digest : bytes) : res bytes :=
  res_bind (to_tuples digest (c_ts c) (c_nt c)) (fun path =>
  let lower := lower_percent_escape (percent_encode_upper (us_bytes id)) in
  if blen lower <=? K_MAX_0003_ENCAPSULATION_LENGTH then Ok (path ++ lower)
  else res_bind (str_to lower K_MAX_0003_ENCAPSULATION_LENGTH) (fun head =>
       Ok (path ++ head ++ "-"%char :: digest))).

(** the derived fields of the 0006/0007 extension structs, layout.rs:536-542, 602-608 *)
Definition case_matters (d : ustr) : bool := negb (bytes_eqb (us_lower d) (us_upper d)).

(** ** 0006 (since fix 91d5aeb) *)
(** lowercase_chars, layout.rs:792-794: value.chars().flat_map(char::to_lowercase).collect() *)
Definition lowercase_chars (s : ustr) : bytes := lower_text (us_chars s).
(** normalized_delimiter of FlatOmitPrefixLayoutExtension, layout.rs:538-542 *)
Definition norm_delim_0006 (d : ustr) : bytes := if case_matters d then lowercase_chars d else us_bytes d.

(** rfind_ignore_case, layout.rs:798-812.
    Inner loop (802-810) over the characters of value[start..]: [lowered] collects their
    lower-case forms; the first time it is at least as long as the delimiter it is
    compared with it: equal = found, with the byte length [offset + c.len_utf8()] of the
    stretch of [value]; otherwise this start is given up ([break]). *)
Fixpoint ric_inner (delim lowered : bytes) (offset : N) (cs : list uchar) : option N :=
  match cs with
  | [] => None
  | c :: t =>
      let lowered' := lowered ++ u_low c in
      if blen delim <=? blen lowered' then
        if bytes_eqb lowered' delim then Some (offset + blen (u_orig c)) else None
      else ric_inner delim lowered' (offset + blen (u_orig c)) t
  end.
(** Outer loop (799): [for (start, _) in value.char_indices().rev()] tries the starts
    from the right-most character to the first and returns at the first success.  The
    inner loops do not depend on each other, so that is: the result of the starts to
    the right of this character if there is one, else the result at this character.
    [cs] are the characters from byte [start] on.  (A start is a character boundary by
    construction: value[start..] cannot panic.) *)
Fixpoint rfind_ignore_case (cs : list uchar) (start : N) (delim : bytes) : option (N * N) :=
  match cs with
  | [] => None
  | c :: t =>
      match rfind_ignore_case t (start + blen (u_orig c)) delim with
      | Some r => Some r
      | None => match ric_inner delim [] 0 cs with
                | Some len => Some (start, len)
                | None => None
                end
      end
  end.

(** FlatOmitPrefixLayoutExtension::map_object_id, layout.rs:552-575: byte index and byte
    length of the right-most occurrence IN THE ID AS GIVEN, then the slice after it *)
Definition find_0006 (d id : ustr) : option (N * N) :=
  if case_matters d then rfind_ignore_case (us_chars id) 0 (norm_delim_0006 d)
  else match rfind (us_bytes id) (norm_delim_0006 d) with
       | Some index => Some (index, blen (norm_delim_0006 d))
       | None => None
       end.
Definition strip_prefix_0006 (d id : ustr) : res bytes :=
  match find_0006 d id with
  | None => Ok (us_bytes id)
  | Some (index, length) =>
      if blen (us_bytes id) =? index + length then Panic
      else str_from (us_bytes id) (index + length)
  end.

Definition map_0006 (c : cfg) (id : ustr) : res bytes := strip_prefix_0006 (c_delim c) id.

(** ** 0007: unchanged by fix 91d5aeb (its ids are ASCII, where lower-casing keeps every
    length): normalized_delimiter = str::to_lowercase of the delimiter (layout.rs:604-608),
    rfind on the lower-cased id, the index applied to the original id (627-643) *)
Definition norm_delim (d : ustr) : bytes := if case_matters d then us_lower d else us_bytes d.
Definition test_id (d id : ustr) : bytes := if case_matters d then us_lower id else us_bytes id.
Definition strip_prefix (d id : ustr) : res bytes :=
  match rfind (test_id d id) (norm_delim d) with
  | None => Ok (us_bytes id)
  | Some index =>
      let length := blen (norm_delim d) in
      if blen (us_bytes id) =? index + length then Panic
      else str_from (us_bytes id) (index + length)
  end.

(** format!("{:0>w$}") / format!("{:0<w$}"): fill with '0' up to w chars, never truncate *)
Definition zeros (k : N) : bytes := replicate (N.to_nat k) "0"%char.
Definition pad_str (left : bool) (w : N) (s : bytes) : bytes :=
  if w <=? char_count s then s
  else if left then zeros (w - char_count s) ++ s else s ++ zeros (w - char_count s).

(** 0007, layout.rs:620-666.  The guard (layout.rs:622, fix 970818d) wants every BYTE of
    the id in 0x20..=0x7F; after it every char is one byte, so chars().rev() is the
    reversal of the bytes. *)
Definition in_0007_range (c : ascii) : bool := (32 <=? code c) && (code c <=? 127).
(** layout.rs:628-665, what follows the guard *)
Definition map_0007_mapped (c : cfg) (id : ustr) : res bytes :=
  res_bind (strip_prefix (c_delim c) id) (fun id_part =>
  let width := c_ts c * c_nt c in
  let padded := pad_str (c_padleft c) width id_part in
  let padded := if c_rev c then rev padded else padded in
  res_bind (to_tuples padded (c_ts c) (c_nt c)) (fun path =>
  Ok (path ++ id_part))).
Definition map_0007 (c : cfg) (id : ustr) : res bytes :=
  if negb (forallb in_0007_range (us_bytes id)) then Panic
  else map_0007_mapped c id.

(** LayoutExtension::map_object_id, layout.rs:345-353 *)
Definition map (c : cfg) (id : ustr) (digest : bytes) : res bytes :=
  match c_ext c with
  | E0002 => map_0002 id
  | E0003 => map_0003 c id digest
  | E0004 => map_0004 c digest
  | E0006 => map_0006 c id
  | E0007 => map_0007 c id
  end.

(** * conditions on the external inputs, and the outcome a caller can observe *)
Definition is_hex_lower (c : ascii) : bool :=
  ((48 <=? code c) && (code c <=? 57)) || ((97 <=? code c) && (code c <=? 102)).
(** the digest argument is a lower-case hex string of the algorithm's length *)
Definition digest_ok (c : cfg) (digest : bytes) : bool :=
  (blen digest =? alg_hexlen (c_alg c)) && forallb is_hex_lower digest.
(** every string of the configuration is a well-formed Rust str *)
Definition jv_wf (v : jv) : bool := match v with JStr s => ustr_wf s | _ => true end.
Definition raw_wf (r : raw) : bool :=
  match r with
  | RawObj o => jv_wf (r_ext o) && jv_wf (r_alg o) && jv_wf (r_ts o) && jv_wf (r_nt o) && jv_wf (r_short o) &&
                jv_wf (r_delim o) && jv_wf (r_pad o) && jv_wf (r_rev o)
  | RawSeq l => forallb jv_wf l
  | _ => true
  end.

(** ** the case information of delimiter and id is what Unicode / the Rust standard
    library define (facts about the EXTERNAL input, not about rocfl; the correspondence
    check evaluates [case_info_ok] on every generated pair and reports a pair that fails it)
    - [lows_nonempty]: char::to_lowercase yields at least one character;
    - [caseless_ok] (used only when the delimiter has no case, to_lowercase = to_uppercase):
      the delimiter's characters are their own lower-case forms, and a character of the
      id that is not its own lower-case form neither is a character of the delimiter
      nor has a lower-case form that begins with (or begins) one;
    - [ascii_lower_ok]: on an ASCII string str::to_lowercase and char::to_lowercase are
      the ASCII mapping;
    - [lower_str_ok]: str::to_lowercase is the per-character mapping except for a
      capital sigma (final-sigma rule), which becomes one of two non-ASCII characters
      either way. *)
Definition is_nil (s : bytes) : bool := match s with [] => true | _ => false end.
Definition lows_nonempty (s : ustr) : bool := forallb (fun u => negb (is_nil (u_low u))) (us_chars s).
Definition prefix_related (x y : bytes) : bool := starts_with x y || starts_with y x.
Definition caseless_ok (d id : ustr) : bool :=
  forallb (fun a => bytes_eqb (u_low a) (u_orig a)) (us_chars d) &&
  forallb (fun c => bytes_eqb (u_low c) (u_orig c) ||
                    forallb (fun a => negb (bytes_eqb (u_orig a) (u_orig c)) &&
                                      negb (prefix_related (u_low c) (u_orig a))) (us_chars d)) (us_chars id).
Definition ascii_lower_ok (s : ustr) : bool :=
  if is_ascii (us_bytes s) then
    bytes_eqb (us_lower s) (List.map to_ascii_lower (us_bytes s)) &&
    forallb (fun u => bytes_eqb (u_low u) (List.map to_ascii_lower (u_orig u))) (us_chars s)
  else true.
Definition lower_str_ok (s : ustr) : bool :=
  bytes_eqb (us_lower s) (lower_text (us_chars s)) ||
  (negb (is_ascii (us_lower s)) && negb (is_ascii (lower_text (us_chars s)))).
Definition unicode_ok (d id : ustr) : bool :=
  lows_nonempty d && (case_matters d || caseless_ok d id) && ascii_lower_ok id && lower_str_ok d.
(** only 0006 and 0007 look at the case of anything *)
Definition case_info_ok (c : cfg) (id : ustr) : bool :=
  match c_ext c with
  | E0006 | E0007 => unicode_ok (c_delim c) id
  | _ => true
  end.

Definition inputs_ok (c : cfg) (id : ustr) (digest : bytes) : bool :=
  ustr_wf id && ustr_wf (c_delim c) && digest_ok c digest && case_info_ok c id.
(** an ASCII-only string with its (ASCII) case mappings; used by examples and by the
    driver for ASCII inputs *)
Definition to_ascii_upper (c : ascii) : ascii :=
  if (97 <=? code c) && (code c <=? 122) then ascii_of_N (code c - 32) else c.
Definition ascii_ustr (s : bytes) : ustr :=
  mkS (List.map (fun c => mkU [c] [to_ascii_lower c]) s) (List.map to_ascii_lower s) (List.map to_ascii_upper s).
(** map_object_id has no error channel: an id it cannot map is a panic; for the
    property both count as "refused" *)
Definition refusal {A} (r : res A) : res A := match r with Panic => Err | x => x end.
