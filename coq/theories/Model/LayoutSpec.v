(** The five storage layout extension documents of /repo/resources/main/specs
    (0002, 0003, 0004, 0006, 0007 *.md) transcribed from their prose, section by
    section, INDEPENDENTLY of layout.rs: the functions below work on characters
    (a list of [uchar]) and on path segments joined by '/', never on byte indices.
    Only the data types ([uchar], [ustr], [jv], [raw], [ext], [alg], [cfg], [res]) are
    shared with the code model.  Definitions only. *)
From Rocfl Require Import Base.Bytes Model.Layout.
Open Scope N_scope.

(** text of a sequence of characters *)
Definition text (cs : list uchar) : bytes := List.concat (List.map u_orig cs).

(** "The tuples are joined, in order, using the filesystem path separator" and the
    last directory name "is joined to the end of the path" *)
Fixpoint join (segs : list bytes) : bytes :=
  match segs with
  | [] => []
  | [s] => s
  | s :: r => s ++ "/"%char :: join r
  end.

(** "Starting at the beginning ... and working forwards, [it] is divided into
    numberOfTuples tuples each containing tupleSize characters" *)
Fixpoint tuples {A} (n size : nat) (s : list A) : list (list A) :=
  match n with
  | O => []
  | S k => firstn size s :: tuples k size (skipn size s)
  end.

(** * 0002: "The OCFL object identifier is used, without any changes, as the
    object's root path" *)
Definition spec_0002 (id : list uchar) : res bytes := Ok (text id).

(** * 0004, Procedure steps 3-5.  The digest (steps 1-2: lower-case hex of the hash
    of the UTF-8 id) is given; its characters are its bytes. *)
Definition spec_0004 (c : cfg) (digest : bytes) : res bytes :=
  let ts := N.to_nat (c_ts c) in
  let nt := N.to_nat (c_nt c) in
  let last := if c_short c then skipn (ts * nt) digest      (* "the remaining, unused portion of the digest" *)
              else digest in                                (* "Otherwise, the entire digest" *)
  Ok (join (tuples nt ts digest ++ [last])).

(** * 0003, section "Encapsulation Directory" and Procedure steps 3-6 *)
(** "Safe characters are defined as A-Z, a-z, 0-9, '-' and '_'" *)
Definition safe_char (u : uchar) : bool :=
  match u_orig u with
  | [c] => ((65 <=? code c) && (code c <=? 90)) || ((97 <=? code c) && (code c <=? 122)) ||
           ((48 <=? code c) && (code c <=? 57)) || (code c =? 45) || (code c =? 95)
  | _ => false
  end.
Definition hex_digit (n : N) : ascii := nth (N.to_nat n) (b "0123456789abcdef") "?"%char.
(** "percent-encoded using the lower-case hex characters of its UTF-8 encoding" *)
Definition pct (c : ascii) : bytes := ["%"%char; hex_digit (code c / 16); hex_digit (code c mod 16)].
Definition encode_char (u : uchar) : bytes := if safe_char u then u_orig u else flat_map pct (u_orig u).
(** "if the percent-encoded object identifier is longer than 100 characters, it is
    truncated to 100 characters, and then the digest ... is appended:
    <encoded-object-identifier-first-100-chars>-<digest>" *)
Definition encapsulation (id : list uchar) (digest : bytes) : bytes :=
  let d := flat_map encode_char id in
  if Nat.ltb 100 (List.length d) then firstn 100 d ++ "-"%char :: digest else d.

Definition spec_0003 (c : cfg) (id : list uchar) (digest : bytes) : res bytes :=
  Ok (join (tuples (N.to_nat (c_nt c)) (N.to_nat (c_ts c)) digest ++ [encapsulation id digest])).

(** * 0006: "The OCFL object identifier prefix is defined as all characters before and
    including a configurable delimiter"; the delimiter is "case-insensitive" and "its
    last occurence (right-most) will be used".

    The documents do not define "case-insensitive".  Reading used here: a stretch of
    the id IS the delimiter, ignoring case, when the two have the same lower-case form,
    the lower-case form of a text being the lower-case forms of its characters one after
    the other ([lower_text]: no rule that looks at neighbouring characters, so a capital
    sigma is the same letter wherever it stands).  [ci_starts s t] = the number of
    leading characters of s whose lower-case forms spell t: the lower-case form of each
    character in turn must begin what is left of t.
    (The narrower reading "character by character" is [ci_prefix]/[after_last_simple]
    below; the two agree unless a lower-case form has more than one character, which in
    Unicode is U+0130 only: Props/C11.v C11_case_readings_agree.) *)
Fixpoint strip_bytes (p s : bytes) : option bytes :=        (* s without its prefix p *)
  match p, s with
  | [], _ => Some s
  | c :: p', x :: s' => if Ascii.eqb c x then strip_bytes p' s' else None
  | _ :: _, [] => None
  end.
Fixpoint ci_starts (s : list uchar) (t : bytes) : option nat :=
  match t with
  | [] => Some 0%nat
  | _ :: _ =>
      match s with
      | [] => None
      | c :: s' => match strip_bytes (u_low c) t with
                   | Some rest => match ci_starts s' rest with Some k => Some (S k) | None => None end
                   | None => None
                   end
      end
  end.
(** what follows the right-most occurrence in s of the text whose lower-case form is t;
    None when there is no occurrence *)
Fixpoint after_last (t : bytes) (s : list uchar) : option (list uchar) :=
  match s with
  | [] => match t with [] => Some [] | _ => None end
  | _ :: s' => match after_last t s' with
               | Some r => Some r                                    (* an occurrence further right wins *)
               | None => match ci_starts s t with Some k => Some (skipn k s) | None => None end
               end
  end.
(** Without a delimiter "the whole id is used"; "if the delimiter is found at the end,
    an error is thrown" (0007 step 1).  0006 does not spell the last case out; an empty
    object root path would be the storage root itself, so the id cannot be mapped. *)
Definition omit_prefix (d id : list uchar) : res (list uchar) :=
  match after_last (lower_text d) id with
  | None => Ok id
  | Some [] => Err
  | Some r => Ok r
  end.

(** what [omit_prefix] means, said without an algorithm: the k characters of s from
    position p on are the delimiter d, ignoring case (Props/C11.v C11_omit_prefix_meaning) *)
Definition occurs_at (d s : list uchar) (p k : nat) : Prop :=
  (p + k <= List.length s)%nat /\ lower_text (firstn k (skipn p s)) = lower_text d.

(** the narrower reading: the delimiter's characters against as many characters of the
    id, two characters being the same ignoring case when their lower-case forms are *)
Definition same_ci (a c : uchar) : bool := bytes_eqb (u_low a) (u_low c).
Fixpoint ci_prefix (d s : list uchar) : bool :=
  match d, s with
  | [], _ => true
  | a :: d', c :: s' => same_ci a c && ci_prefix d' s'
  | _ :: _, [] => false
  end.
Fixpoint after_last_simple (d s : list uchar) : option (list uchar) :=
  match s with
  | [] => match d with [] => Some [] | _ => None end
  | _ :: t => match after_last_simple d t with
              | Some r => Some r
              | None => if ci_prefix d s then Some (skipn (List.length d) s) else None
              end
  end.

Definition spec_0006 (c : cfg) (id : list uchar) : res bytes :=
  res_bind (omit_prefix (us_chars (c_delim c)) id) (fun r => Ok (text r)).

(** * 0007.  "This extension is defined over the ASCII subset of UTF-8 (code points
    0x20 to 0x7F). Any character outside of this range in either an identifier or a
    path is an error." *)
Definition in_range (u : uchar) : bool :=
  match u_orig u with [c] => (32 <=? code c) && (code c <=? 127) | _ => false end.
Definition zero_char : uchar := mkU (b "0") (b "0").

Definition spec_0007 (c : cfg) (id : list uchar) : res bytes :=
  if negb (forallb in_range id) then Err
  else
    (* step 1 *)
    res_bind (omit_prefix (us_chars (c_delim c)) id) (fun rest =>
    let ts := N.to_nat (c_ts c) in
    let nt := N.to_nat (c_nt c) in
    let w := (ts * nt)%nat in
    (* step 2: "Where the prefix-omitted identifier length is less than tuple size *
       number of tuples, [it] is left or right-side, zero-padded" *)
    let fill := replicate (w - List.length rest) zero_char in
    let padded := if c_padleft c then fill ++ rest else rest ++ fill in
    (* step 3 *)
    let padded := if c_rev c then rev padded else padded in
    (* steps 4-6 *)
    Ok (join (List.map text (tuples nt ts padded) ++ [text rest]))).

Definition map (c : cfg) (id : ustr) (digest : bytes) : res bytes :=
  match c_ext c with
  | E0002 => spec_0002 (us_chars id)
  | E0003 => spec_0003 c (us_chars id) digest
  | E0004 => spec_0004 c digest
  | E0006 => spec_0006 c (us_chars id)
  | E0007 => spec_0007 c (us_chars id)
  end.

(** * Which configurations the documents allow, and the parameter values they denote *)

(** the registered names, from the "Extension Name" line of each document *)
Definition registered_name (e : ext) : bytes :=
  match e with
  | E0002 => b "0002-flat-direct-storage-layout"
  | E0003 => b "0003-hash-and-id-n-tuple-storage-layout"
  | E0004 => b "0004-hashed-n-tuple-storage-layout"
  | E0006 => b "0006-flat-omit-prefix-storage-layout"
  | E0007 => b "0007-n-tuple-omit-prefix-storage-layout"
  end.
(** when the key is present it must name this extension (all examples); the documents
    do not list extensionName among the parameters and do not say it may not be omitted *)
Definition name_allowed (e : ext) (v : jv) : bool :=
  match v with
  | JAbsent => true
  | JStr s => bytes_eqb (text (us_chars s)) (registered_name e)
  | _ => false
  end.

(** digestAlgorithm: "MUST be an algorithm that is allowed in the OCFL fixity block":
    the OCFL digest table (md5, sha1, sha256, sha512, blake2b-512) and the registered
    digest extension (blake2b-160/256/384, sha512/256); hex length = bits / 4 *)
Definition digest_bits (a : alg) : N :=
  match a with
  | Md5 => 128 | Sha1 => 160 | Sha256 => 256 | Sha512 => 512 | Sha512_256 => 256
  | Blake2b512 => 512 | Blake2b160 => 160 | Blake2b256 => 256 | Blake2b384 => 384
  end.
Definition hex_chars (a : alg) : N := digest_bits a / 4.
Definition alg_named (s : bytes) : option alg :=
  if bytes_eqb s (b "md5") then Some Md5 else if bytes_eqb s (b "sha1") then Some Sha1
  else if bytes_eqb s (b "sha256") then Some Sha256 else if bytes_eqb s (b "sha512") then Some Sha512
  else if bytes_eqb s (b "sha512/256") then Some Sha512_256
  else if bytes_eqb s (b "blake2b-512") then Some Blake2b512
  else if bytes_eqb s (b "blake2b-160") then Some Blake2b160
  else if bytes_eqb s (b "blake2b-256") then Some Blake2b256
  else if bytes_eqb s (b "blake2b-384") then Some Blake2b384 else None.
Definition alg_param (v : jv) : option alg :=
  match v with
  | JAbsent => Some Sha256                          (* "Default: sha256" *)
  | JStr s => alg_named (text (us_chars s))
  | _ => None
  end.
(** "Type: number; Constraints: An integer between lo and hi inclusive; Default: 3" *)
Definition num_param (lo hi : N) (v : jv) : option N :=
  match v with
  | JAbsent => Some 3
  | JNum n => if (lo <=? n) && (n <=? hi) then Some n else None
  | _ => None
  end.
Definition bool_param (v : jv) : option bool :=
  match v with JAbsent => Some false | JBool x => Some x | _ => None end.   (* "Default: false" *)
(** delimiter: "MUST consist of a character string of length one or greater" *)
Definition delim_param (dflt : option ustr) (v : jv) : option ustr :=
  match v with
  | JAbsent => dflt
  | JStr s => match us_chars s with [] => None | _ => Some s end
  | _ => None
  end.
(** zeroPadding: 'Must be either "left" or "right"', "Default: left" *)
Definition pad_param (v : jv) : option bool :=
  match v with
  | JAbsent => Some true
  | JStr s => if bytes_eqb (text (us_chars s)) (b "left") then Some true
              else if bytes_eqb (text (us_chars s)) (b "right") then Some false else None
  | _ => None
  end.
Definition colon : ustr := mkS [mkU (b ":") (b ":")] (b ":") (b ":").        (* 0007: "Default: :" *)

Definition opt_bind {A B} (o : option A) (f : A -> option B) : option B :=
  match o with Some a => f a | None => None end.

(** 0003/0004: "If tupleSize is set to 0 ... numberOfTuples MUST also equal 0" (and
    conversely); "The product ... MUST be less than or equal to the number of
    characters in the hex encoded digest"; 0004: "If the product ... is equal to the
    number of characters in the hex encoded digest, then shortObjectRoot MUST be false" *)
Definition tuple_rules (a : alg) (ts nt : N) (short : bool) : bool :=
  (Bool.eqb (ts =? 0) (nt =? 0)) && (ts * nt <=? hex_chars a) &&
  negb (short && (ts * nt =? hex_chars a)).

Definition filler : ustr := mkS [] [] [].

Definition parse_obj (e : ext) (o : rawobj) : option cfg :=
  if negb (name_allowed e (r_ext o)) then None
  else match e with
  | E0002 => Some (mkCfg e e Sha256 3 3 false filler true false)       (* "This extension has no parameters." *)
  | E0003 =>
      opt_bind (alg_param (r_alg o)) (fun a =>
      opt_bind (num_param 0 32 (r_ts o)) (fun ts =>
      opt_bind (num_param 0 32 (r_nt o)) (fun nt =>
      if tuple_rules a ts nt false then Some (mkCfg e e a ts nt false filler true false) else None)))
  | E0004 =>
      opt_bind (alg_param (r_alg o)) (fun a =>
      opt_bind (num_param 0 32 (r_ts o)) (fun ts =>
      opt_bind (num_param 0 32 (r_nt o)) (fun nt =>
      opt_bind (bool_param (r_short o)) (fun sh =>
      if tuple_rules a ts nt sh then Some (mkCfg e e a ts nt sh filler true false) else None))))
  | E0006 =>
      opt_bind (delim_param None (r_delim o)) (fun d =>
      Some (mkCfg e e Sha256 3 3 false d true false))
  | E0007 =>
      opt_bind (delim_param (Some colon) (r_delim o)) (fun d =>
      opt_bind (num_param 1 32 (r_ts o)) (fun ts =>
      opt_bind (num_param 1 32 (r_nt o)) (fun nt =>
      opt_bind (pad_param (r_pad o)) (fun p =>
      opt_bind (bool_param (r_rev o)) (fun rv =>
      Some (mkCfg e e Sha256 ts nt false d p rv))))))
  end.

(** NOT a finding but a hole in the documents: none of the five says whether the key
    extensionName may be omitted.  rocfl requires it for 0006/0007 (serde "missing
    field") and defaults it for 0002-0004.  The configuration theorems are stated for
    the configurations the documents decide. *)
Definition is_absent (v : jv) : bool := match v with JAbsent => true | _ => false end.
Definition cfg_determined (e : ext) (r : raw) : bool :=
  match e, r with
  | (E0006 | E0007), RawObj o => negb (is_absent (r_ext o))
  | _, _ => true
  end.

Definition no_params : rawobj := mkRaw JAbsent JAbsent JAbsent JAbsent JAbsent JAbsent JAbsent JAbsent.

(** the configuration is a JSON object, or is left out where every parameter has a
    default (0006: "There is no default configuration; therefore, configuration
    parameters must be provided.") *)
Definition parse (e : ext) (r : raw) : option cfg :=
  match r with
  | RawNone => match e with E0006 => None | _ => parse_obj e no_params end
  | RawObj o => parse_obj e o
  | RawSeq _ => None
  | RawInvalid => None
  end.
Definition allowed (e : ext) (r : raw) : bool :=
  match parse e r with Some _ => true | None => false end.

(** the parameters an extension has (the others are fillers in [cfg]) *)
Definition ustr_eqb (x y : ustr) : bool :=
  bytes_eqb (us_lower x) (us_lower y) && bytes_eqb (us_upper x) (us_upper y) &&
  (fix go (l m : list uchar) : bool :=
     match l, m with
     | [], [] => true
     | u :: l', v :: m' => bytes_eqb (u_orig u) (u_orig v) && bytes_eqb (u_low u) (u_low v) && go l' m'
     | _, _ => false
     end) (us_chars x) (us_chars y).
Definition alg_index (a : alg) : N :=
  match a with
  | Md5 => 0 | Sha1 => 1 | Sha256 => 2 | Sha512 => 3 | Sha512_256 => 4
  | Blake2b512 => 5 | Blake2b160 => 6 | Blake2b256 => 7 | Blake2b384 => 8
  end.
Definition alg_eqb (x y : alg) : bool := alg_index x =? alg_index y.
Definition same_params (x y : cfg) : bool :=
  ext_eqb (c_ext x) (c_ext y) &&
  match c_ext x with
  | E0002 => true
  | E0003 => alg_eqb (c_alg x) (c_alg y) && (c_ts x =? c_ts y) && (c_nt x =? c_nt y)
  | E0004 => alg_eqb (c_alg x) (c_alg y) && (c_ts x =? c_ts y) && (c_nt x =? c_nt y) &&
             Bool.eqb (c_short x) (c_short y)
  | E0006 => ustr_eqb (c_delim x) (c_delim y)
  | E0007 => ustr_eqb (c_delim x) (c_delim y) && (c_ts x =? c_ts y) && (c_nt x =? c_nt y) &&
             Bool.eqb (c_padleft x) (c_padleft y) && Bool.eqb (c_rev x) (c_rev y)
  end.
