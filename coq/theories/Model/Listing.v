(** Model of object listing, lookup and purge of the file-system store
    (src/ocfl/store/fs.rs:39-40, 126-274, 338-365, 569-636, 984-1158, 1227-1319;
     src/ocfl/repo.rs:237-271), as of /repo 5a727de (repairs 38fe584, 4564259, 3fb070d, 01aa490, 3802aa0, 5a727de).

    A repository is an abstract directory tree.  [walk] is [InventoryIter::next]
    (depth-first walk, object root = directory holding a FILE whose name starts
    with [0=ocfl_object_], no descent into object roots, the directory NAMED
    [extensions] is skipped only directly below the iterator's root),
    [extract_object_id] is the regex pre-filter over the raw inventory text
    (since 5a727de it captures the whole JSON string and decodes it),
    [iter_items] the iterator with an optional id matcher, [get_inventory] the
    lookup through the id->path cache, the layout path or a scan,
    [purge_object] the purge with its guards and its cache eviction.
    Definitions only; lemmas live in Proofs/Listing*.v.

    Paths are lists of NORMAL components (std::path::Component::Normal): the
    CurDir / ParentDir / RootDir branches of validate_object_root
    (fs.rs:176-183) are outside this representation (Model/Footprint.v, C12,
    has them on raw strings).

    Not modelled (outside the property): symbolic links (file_type() does not
    follow them: never descended), I/O errors of read_dir, invalid UTF-8 in
    file names or inventories, the UTF-16 BOM sniffing of grep-searcher, the
    [closed] flag. *)
From Rocfl Require Export Base.Bytes.
From Rocfl Require Import Generated.Consts.
Open Scope N_scope.

(** * Directory trees *)
Definition name := bytes.
Definition path := list name.

Inductive tree :=
| File (content : bytes)
| Dir (entries : list (name * tree)).

Definition entries := list (name * tree).
Definition objroot := (path * entries)%type.

Definition EXT : name := K_EXTENSIONS_DIR.          (* consts.rs:36 *)
Definition INV : name := K_INVENTORY_FILE.          (* consts.rs: inventory.json *)
(** consts.rs:43 MUTABLE_HEAD_INVENTORY_FILE = extensions/0005-mutable-head/head/inventory.json *)
Definition MUTABLE_HEAD_INV : path :=
  [b "extensions"; b "0005-mutable-head"; b "head"; b "inventory.json"].

Fixpoint path_eqb (p q : path) : bool :=
  match p, q with
  | [], [] => true
  | x :: p', y :: q' => bytes_eqb x y && path_eqb p' q'
  | _, _ => false
  end.

(** first entry with the given name (names are unique in a real directory) *)
Fixpoint lookup1 (es : entries) (n : name) : option tree :=
  match es with
  | [] => None
  | e :: r => if bytes_eqb (fst e) n then Some (snd e) else lookup1 r n
  end.

Fixpoint lookup_path (t : tree) (p : path) : option tree :=
  match p with
  | [] => Some t
  | n :: q =>
      match t with
      | File _ => None
      | Dir es => match lookup1 es n with Some c => lookup_path c q | None => None end
      end
  end.

Fixpoint nodup_names (l : list name) : bool :=
  match l with
  | [] => true
  | n :: r => negb (existsb (bytes_eqb n) r) && nodup_names r
  end.

(** every directory of the tree has pairwise different entry names *)
Fixpoint names_unique (t : tree) : bool :=
  match t with
  | File _ => true
  | Dir es => nodup_names (map fst es) &&
              forallb (fun e => let '(_, c) := e in names_unique c) es
  end.

(** * Object roots: fs.rs:1227-1241 [is_object_root] *)
Definition is_decl_entry (e : name * tree) : bool :=
  match snd e with
  | File _ => starts_with K_OBJECT_NAMASTE_FILE_PREFIX (fst e)   (* entry_path.is_file() && name.starts_with(..) *)
  | Dir _ => false
  end.

Definition is_object_root (es : entries) : bool := existsb is_decl_entry es.

(** * The walk: fs.rs:1093-1157.
    The stack of ReadDir iterators is a depth-first pre-order traversal: entering
    a sub-directory pushes the current iterator (l.1145) and resumes it after the
    sub-directory is exhausted (l.1103-1107), i.e. structural recursion.

    [walk_gen deep] is the loop for the entries of one directory.  With
    [deep = false] no directory is skipped by name: that is what the loop does
    for every directory other than the iterator's root, because the test of
    l.1127-1131 is [name == extensions && parent == self.root] (38fe584).
    [deep = true] skips the name at every depth: the walk BEFORE 38fe584
    ([walk_before_fix], kept for the historical lemmas only). *)
Fixpoint walk_gen (deep : bool) (t : tree) : list objroot :=
  match t with
  | File _ => []
  | Dir es =>
      flat_map (fun e =>
        let '(n, c) := e in
        match c with
        | File _ => []                                         (* l.1122 ftype.is_dir() *)
        | Dir ces =>
            if deep && bytes_eqb n EXT then []
            else if is_object_root ces then [([n], ces)]       (* l.1133-1143: yield, no descent *)
            else map (fun r => (n :: fst r, snd r)) (walk_gen deep c)   (* l.1144-1152 *)
        end) es
  end.

(** the iterator's root (l.1022-1034: the first ReadDir is the root's): its own
    entries are the only ones whose parent is [self.root] *)
Definition walk (t : tree) : list objroot :=
  match t with
  | File _ => []
  | Dir es =>
      flat_map (fun e =>
        let '(n, c) := e in
        match c with
        | File _ => []                                         (* l.1122 *)
        | Dir ces =>
            if bytes_eqb n EXT then []                         (* l.1127-1131 *)
            else if is_object_root ces then [([n], ces)]       (* l.1133-1143 *)
            else map (fun r => (n :: fst r, snd r)) (walk_gen false c)   (* l.1144-1152: parent <> root below *)
        end) es
  end.

Definition walk_before_fix (t : tree) : list objroot := walk_gen true t.

(** * JSON text of the id field, as serde_json writes it
    (fs.rs:963-967: to_writer_pretty / to_writer; [id] is the first field of
    [Inventory], inventory.rs:30-31).  serde_json escapes exactly: the quote,
    the backslash and the control characters below 0x20 (\b \t \n \f \r, else
    \u00XX with lower-case hex digits); everything else, non-ASCII included, is
    written raw. *)
Definition hex_digit (d : N) : ascii :=
  if d <? 10 then ascii_of_N (48 + d) else ascii_of_N (87 + d).

Definition needs_escape_byte (c : ascii) : bool :=
  (code c <? 32) || (code c =? 34) || (code c =? 92).

Definition needs_escape (s : bytes) : bool := existsb needs_escape_byte s.

Definition BSL : ascii := ascii_of_N 92.
Definition QUO : ascii := ascii_of_N 34.

Definition json_escape_byte (c : ascii) : bytes :=
  let n := code c in
  if needs_escape_byte c then
    if n =? 34 then [BSL; QUO]
    else if n =? 92 then [BSL; BSL]
    else if n =? 8 then [BSL; "b"%char]
    else if n =? 9 then [BSL; "t"%char]
    else if n =? 10 then [BSL; "n"%char]
    else if n =? 12 then [BSL; "f"%char]
    else if n =? 13 then [BSL; "r"%char]
    else [BSL; "u"%char; "0"%char; "0"%char; hex_digit (n / 16); hex_digit (n mod 16)]
  else [c].

Definition json_escape (s : bytes) : bytes := flat_map json_escape_byte s.

(** the inventory text: [rest] is everything after the closing quote of the id
    (comma, the type member, ... closing brace) and is arbitrary *)
Definition serialize_inventory (pretty : bool) (id rest : bytes) : bytes :=
  (if pretty then bs [123; 10; 32; 32] ++ b """id"": """ else b "{""id"":""")
    ++ json_escape id ++ QUO :: rest.

(** * Decoding a JSON string (serde_json's parse_str with validation: the same
    routine reads the id member of a whole inventory, fs.rs:1303-1307, and the
    captured string of the pre-filter, fs.rs:1068).  Returns the UNESCAPED text. *)
Definition json_ws (a : N) : bool := (a =? 32) || (a =? 9) || (a =? 10) || (a =? 13).

Fixpoint skip_json_ws (s : bytes) : bytes :=
  match s with
  | [] => []
  | c :: r => if json_ws (code c) then skip_json_ws r else s
  end.

Definition hexval (c : ascii) : option N :=
  let n := code c in
  if (48 <=? n) && (n <=? 57) then Some (n - 48)
  else if (97 <=? n) && (n <=? 102) then Some (n - 87)
  else if (65 <=? n) && (n <=? 70) then Some (n - 55)
  else None.

Definition hex4 (a c d e : ascii) : option N :=
  match hexval a, hexval c, hexval d, hexval e with
  | Some w, Some x, Some y, Some z => Some (((w * 16 + x) * 16 + y) * 16 + z)
  | _, _, _, _ => None
  end.

(** UTF-8 of a BMP code point that is no surrogate *)
Definition utf8_bmp (cp : N) : option bytes :=
  if cp <? 128 then Some [ascii_of_N cp]
  else if cp <? 2048 then Some [ascii_of_N (192 + cp / 64); ascii_of_N (128 + cp mod 64)]
  else if (55296 <=? cp) && (cp <=? 57343) then None
  else Some [ascii_of_N (224 + cp / 4096); ascii_of_N (128 + (cp / 64) mod 64); ascii_of_N (128 + cp mod 64)].

(** UTF-8 of a supplementary code point (0x10000 ..= 0x10FFFF) *)
Definition utf8_supp (cp : N) : bytes :=
  [ascii_of_N (240 + cp / 262144); ascii_of_N (128 + (cp / 4096) mod 64);
   ascii_of_N (128 + (cp / 64) mod 64); ascii_of_N (128 + cp mod 64)].

Definition simple_escape (e : ascii) : option ascii :=
  let n := code e in
  if n =? 34 then Some QUO
  else if n =? 92 then Some BSL
  else if n =? 47 then Some "/"%char
  else if n =? 98 then Some (ascii_of_N 8)
  else if n =? 102 then Some (ascii_of_N 12)
  else if n =? 110 then Some (ascii_of_N 10)
  else if n =? 114 then Some (ascii_of_N 13)
  else if n =? 116 then Some (ascii_of_N 9)
  else None.

Definition prepend (p : bytes) (r : option (bytes * bytes)) : option (bytes * bytes) :=
  match r with Some (a, z) => Some (p ++ a, z) | None => None end.

(** [s] starts right after the opening quote; result: decoded string and the
    text after the closing quote.  Errors of serde_json (None): a raw control
    character, an unknown escape, a short or non-hex \u escape, a leading
    surrogate that is not followed by a \u escape of a trailing surrogate, a
    trailing surrogate on its own. *)
Fixpoint json_unquote (s : bytes) : option (bytes * bytes) :=
  match s with
  | [] => None
  | c :: r =>
      if code c =? 34 then Some ([], r)
      else if code c =? 92 then
        match r with
        | [] => None
        | e :: r1 =>
            match simple_escape e with
            | Some x => prepend [x] (json_unquote r1)
            | None =>
                if code e =? 117 then
                  match r1 with
                  | h1 :: h2 :: h3 :: h4 :: r5 =>
                      match hex4 h1 h2 h3 h4 with
                      | Some cp =>
                          if (55296 <=? cp) && (cp <=? 56319) then
                            match r5 with
                            | b1 :: u1 :: g1 :: g2 :: g3 :: g4 :: r11 =>
                                if (code b1 =? 92) && (code u1 =? 117) then
                                  match hex4 g1 g2 g3 g4 with
                                  | Some lo =>
                                      if (56320 <=? lo) && (lo <=? 57343)
                                      then prepend (utf8_supp (65536 + (cp - 55296) * 1024 + (lo - 56320)))
                                                   (json_unquote r11)
                                      else None
                                  | None => None
                                  end
                                else None
                            | _ => None
                            end
                          else
                            match utf8_bmp cp with
                            | Some u => prepend u (json_unquote r5)
                            | None => None
                            end
                      | None => None
                      end
                  | _ => None
                  end
                else None
            end
        end
      else if code c <? 32 then None
      else prepend [c] (json_unquote r)
  end.

(** * The id pre-filter: fs.rs:39-40, 1056-1090 (as repaired by 5a727de).
    Regex QUOTE id QUOTE \s* : \s* ( QUOTE (?: [^QUOTE BACKSLASH] | BACKSLASH . )+ QUOTE )
    (= K_OBJECT_ID_MATCHER, pinned in Proofs/ListingFacts.v; Unicode mode: \s is
    the White_Space property, [.] is any character but LF), applied by
    grep-searcher line by line (the pattern can match the line terminator, so the
    searcher takes the line-by-line path and matches each line without its
    terminator); the first capture of the first matching line wins
    (matches.get(0)).  The capture is the JSON string WITH its quotes; the id is
    what serde_json decodes it to (l.1068), or, when it does not decode, the raw
    text between the quotes (l.1069).

    Every sub-pattern is deterministic (\s* is followed by a non-space; inside
    the string a backslash can only start the second alternative, a quote can
    only end the string), so leftmost-first matching is: try every start
    position from the left.  The scan below runs over the whole text and treats
    LF as a barrier no part of a match may contain; that is the same as
    splitting into lines first.  On valid UTF-8 matching characters and
    matching bytes consume the same text (no byte of a multi-byte character is
    a quote, a backslash or LF). *)
Definition ws1 (a : N) : bool := ((9 <=? a) && (a <=? 13) && negb (a =? 10)) || (a =? 32).
Definition ws2 (a c : N) : bool := (a =? 194) && ((c =? 133) || (c =? 160)).      (* U+0085, U+00A0 *)
Definition ws3 (a c d : N) : bool :=
  ((a =? 225) && (c =? 154) && (d =? 128)) ||                                       (* U+1680 *)
  ((a =? 226) && (c =? 128) &&
     (((128 <=? d) && (d <=? 138)) || (d =? 168) || (d =? 169) || (d =? 175))) ||  (* U+2000-200A, 2028, 2029, 202F *)
  ((a =? 226) && (c =? 129) && (d =? 159)) ||                                       (* U+205F *)
  ((a =? 227) && (c =? 128) && (d =? 128)).                                         (* U+3000 *)

Fixpoint skip_ws (s : bytes) : bytes :=
  match s with
  | [] => []
  | c1 :: r1 =>
      if ws1 (code c1) then skip_ws r1 else
      match r1 with
      | [] => s
      | c2 :: r2 =>
          if ws2 (code c1) (code c2) then skip_ws r2 else
          match r2 with
          | [] => s
          | c3 :: r3 => if ws3 (code c1) (code c2) (code c3) then skip_ws r3 else s
          end
      end
  end.

Definition nonempty (s : bytes) : bool := match s with [] => false | _ => true end.

(** [s] is the text right after the opening quote: the units
    [^QUOTE BACKSLASH] | BACKSLASH . up to the first quote that is not part of a unit;
    result: the text between the quotes and the text after the closing quote.
    No match (None): the line ends first (LF or the end of the text), also right
    after a backslash ([.] does not match LF). *)
Fixpoint take_string_body (s : bytes) : option (bytes * bytes) :=
  match s with
  | [] => None
  | c :: r =>
      if code c =? 34 then Some ([], r)
      else if code c =? 10 then None
      else if code c =? 92 then
        match r with
        | [] => None
        | e :: r1 => if code e =? 10 then None else prepend [c; e] (take_string_body r1)
        end
      else prepend [c] (take_string_body r)
  end.

(** fs.rs:1066-1070: [raw] is the capture, quotes included; serde_json::from_str
    must consume all of it (trailing text is an error); the fallback is
    [raw[1..len-1]].  An inventory written by rocfl always decodes; the fallback
    is reachable with hand-written inventories only (a raw TAB inside the string,
    an unknown escape, a lone surrogate, ...) - such an inventory also fails the
    full parse (l.1043), so the object is an error item if the matcher accepts
    the raw text and is skipped otherwise. *)
Definition decode_id_text (body : bytes) : bytes :=
  match json_unquote (body ++ [QUO]) with
  | Some (i, []) => i
  | _ => body
  end.

(** [s] is the text right after the key: \s* : \s* ( QUOTE units+ QUOTE ) *)
Definition match_after_key (s : bytes) : option bytes :=
  match skip_ws s with
  | c :: r =>
      if code c =? 58 then
        match skip_ws r with
        | q :: r2 =>
            if code q =? 34 then
              match take_string_body r2 with
              | Some (body, _) => if nonempty body then Some (decode_id_text body) else None
              | None => None
              end
            else None
        | [] => None
        end
      else None
  | [] => None
  end.

Definition ID_KEY : bytes := b """id""".

Fixpoint extract_object_id (s : bytes) : option bytes :=
  match s with
  | [] => None
  | _ :: r =>
      if starts_with ID_KEY s then
        match match_after_key (skipn 4 s) with
        | Some x => Some x
        | None => extract_object_id r
        end
      else extract_object_id r
  end.

(** the pre-filter BEFORE 5a727de (historical lemmas only): the regex was
    QUOTE id QUOTE \s* : \s* QUOTE ( [^QUOTE]+ ) QUOTE and the capture was compared as it
    stood - the ESCAPED id cut at its first quote *)
Fixpoint take_nonquote (s : bytes) : bytes * bytes :=
  match s with
  | [] => ([], [])
  | c :: r =>
      if (code c =? 34) || (code c =? 10) then ([], s)
      else let (a, z) := take_nonquote r in (c :: a, z)
  end.

Definition match_after_key_before_fix (s : bytes) : option bytes :=
  match skip_ws s with
  | c :: r =>
      if code c =? 58 then
        match skip_ws r with
        | q :: r2 =>
            if code q =? 34 then
              match take_nonquote r2 with
              | (cap, q2 :: _) => if (code q2 =? 34) && nonempty cap then Some cap else None
              | (_, []) => None
              end
            else None
        | [] => None
        end
      else None
  | [] => None
  end.

Fixpoint extract_object_id_before_fix (s : bytes) : option bytes :=
  match s with
  | [] => None
  | _ :: r =>
      if starts_with ID_KEY s then
        match match_after_key_before_fix (skipn 4 s) with
        | Some x => Some x
        | None => extract_object_id_before_fix r
        end
      else extract_object_id_before_fix r
  end.

(** * Parsing the id of a whole inventory (serde_json::from_slice, fs.rs:1303-1307),
    restricted to inventories whose first member is the id (what rocfl and every
    writer that follows the spec's field order produces). *)
Definition parse_inventory_id (text : bytes) : option bytes :=
  match skip_json_ws text with
  | o :: r =>
      if code o =? 123 then
        let s := skip_json_ws r in
        if starts_with ID_KEY s then
          match skip_json_ws (skipn 4 s) with
          | c :: r2 =>
              if code c =? 58 then
                match skip_json_ws r2 with
                | q :: r3 =>
                    if code q =? 34 then
                      match json_unquote r3 with
                      | Some (i, _) => if nonempty i then Some i else None   (* validate_object_id: not blank *)
                      | None => None
                      end
                    else None
                | [] => None
                end
              else None
          | [] => None
          end
        else None
      else None
  | [] => None
  end.

(** fs.rs:1271-1319 [parse_inventory] / [resolve_inventory_path]: the mutable-HEAD inventory wins if that
    path exists, else <root>/inventory.json; the result here is the parsed id *)
Definition parse_inventory (ces : entries) : res bytes :=
  let parse c := match parse_inventory_id c with Some i => Ok i | None => Err end in
  match lookup_path (Dir ces) MUTABLE_HEAD_INV with
  | Some (File c) => parse c
  | Some (Dir _) => Err
  | None =>
      match lookup1 ces INV with
      | Some (File c) => parse c
      | _ => Err
      end
  end.

(** * The iterator: fs.rs:1036-1054 [create_if_matches] *)
Inductive item :=
| IOk (p : path) (id : bytes)      (* Some(Ok(inventory)) *)
| IErr (p : path).                 (* Some(Err(_)): the iterator continues *)

Definition item_of_res (p : path) (r : res bytes) : item :=
  match r with Ok i => IOk p i | _ => IErr p end.

Definition create_if_matches (matcher : option (bytes -> bool)) (r : objroot) : list item :=
  let '(p, ces) := r in
  match matcher with
  | None => [item_of_res p (parse_inventory ces)]                          (* l.1052 *)
  | Some m =>
      match lookup1 ces INV with
      | Some (File c) =>
          match extract_object_id c with
          | Some x => if m x then [item_of_res p (parse_inventory ces)] else []   (* l.1041-1047 *)
          | None => [IErr p]                                               (* l.1084: no match *)
          end
      | _ => [IErr p]                                                      (* l.1075: search_path failed *)
      end
  end.

Definition iter_items (matcher : option (bytes -> bool)) (t : tree) : list item :=
  flat_map (create_if_matches matcher) (walk t).

(** repo.rs:237-248 / fs.rs:350-365: [glob = None] lists everything, else the
    compiled glob is applied to the EXTRACTED id (fs.rs:1008-1018). *)
Definition list_objects (gmatch : bytes -> bytes -> bool) (t : tree) (glob : option bytes) : list item :=
  iter_items (option_map gmatch glob) t.

(** repo.rs:256-271: the same iterator over the staging root (an FsOcflStore of
    its own, repo.rs:1459) *)
Definition list_staged_objects (gmatch : bytes -> bytes -> bool) (staging : tree) (glob : option bytes) : list item :=
  list_objects gmatch staging glob.

Definition listed_ids (l : list item) : list bytes :=
  flat_map (fun it => match it with IOk _ i => [i] | IErr _ => [] end) l.
Definition listed_errors (l : list item) : list path :=
  flat_map (fun it => match it with IOk _ _ => [] | IErr p => [p] end) l.

(** * Lookup: fs.rs:126-274, 338-345 *)
Inductive getres :=
| Found (p : path) (id : bytes)
| NotFound
| Corrupt          (* RocflError::CorruptObject: another id lives at that path *)
| GenErr.          (* the path exists but no inventory can be parsed there *)

(** fs.rs:1309-1319 [resolve_inventory_path(..).0.exists()]: the mutable-HEAD
    inventory path exists (whatever it is), else <dir>/inventory.json exists *)
Definition has_inventory (ces : entries) : bool :=
  match lookup_path (Dir ces) MUTABLE_HEAD_INV with
  | Some _ => true
  | None => match lookup1 ces INV with Some _ => true | None => false end
  end.

(** fs.rs:253-254 (01aa490): only a DIRECTORY that holds an object declaration or
    an inventory file is taken for an object *)
Definition object_like (t : tree) (p : path) : bool :=
  match lookup_path t p with
  | Some (Dir ces) => is_object_root ces || has_inventory ces
  | _ => false                                          (* nothing there, or a regular file *)
  end.

(** some PROPER prefix of [p] is an object root: the walk over the components of
    fs.rs:239-247 (3802aa0) and, identically, of validate_object_root l.185-193
    ([components.peek().is_some() && dir.is_dir() && is_object_root(dir)]) *)
Fixpoint nested_in_object (t : tree) (p : path) : bool :=
  match p with
  | [] => false
  | n :: q =>
      match q with
      | [] => false                                     (* the last component is not tested *)
      | _ :: _ =>
          match t with
          | File _ => false
          | Dir es =>
              match lookup1 es n with
              | Some (Dir ces) => is_object_root ces || nested_in_object (Dir ces) q
              | _ => false                              (* missing or a file: is_dir() fails from here on *)
              end
          end
      end
  end.

(** fs.rs:232-274.  is_relative_descendant (l.235-237, 1245-1255, 3fb070d): of
    the paths representable here (Normal components) only the empty one fails. *)
Definition get_inventory_by_path (t : tree) (id : bytes) (p : path) : getres :=
  match p with
  | [] => NotFound                                      (* l.235-237 *)
  | _ :: _ =>
      if nested_in_object t p then NotFound             (* l.239-247: inside another object *)
      else if object_like t p then                      (* l.253-256 *)
        match lookup_path t p with
        | Some (Dir ces) =>
            match parse_inventory ces with
            | Ok i => if bytes_eqb i id then Found p i else Corrupt    (* l.257-270 *)
            | _ => GenErr                               (* l.257: a declaration without readable inventory *)
            end
        | _ => NotFound                                 (* unreachable: object_like *)
        end
      else NotFound                                     (* l.271-273: a plain directory, a file, nothing *)
  end.

(** the lookup BEFORE 01aa490 and 3802aa0: anything that exists at the path was
    parsed as an object (historical lemmas only) *)
Definition get_inventory_by_path_before_fix (t : tree) (id : bytes) (p : path) : getres :=
  match lookup_path t p with
  | None => NotFound
  | Some (File _) => GenErr
  | Some (Dir ces) =>
      match parse_inventory ces with
      | Ok i => if bytes_eqb i id then Found p i else Corrupt
      | _ => GenErr
      end
  end.

Fixpoint first_ok (l : list item) : getres :=
  match l with
  | [] => NotFound                                      (* l.227 *)
  | IOk p i :: _ => Found p i                           (* l.217-222: NO comparison of inventory.id with the request *)
  | IErr _ :: r => first_ok r                           (* l.223-226: logged, continue *)
  end.

(** fs.rs:206-230, 997-1004: the matcher compares the EXTRACTED id with the request *)
Definition scan_for_inventory (t : tree) (id : bytes) : getres :=
  first_ok (iter_items (Some (bytes_eqb id)) t).

(** the handle's id->path cache (fs.rs:48-50; a HashMap: at most one path per id).
    Written by get_object_root_path (l.149-151), scan_for_inventory (l.218-220)
    and, since 4564259, evicted by purge_object (l.580-583). *)
Definition cache := list (bytes * path).

Fixpoint cache_get (c : cache) (id : bytes) : option path :=
  match c with
  | [] => None
  | e :: r => if bytes_eqb (fst e) id then Some (snd e) else cache_get r id
  end.

Definition cache_remove (c : cache) (id : bytes) : cache :=
  filter (fun e => negb (bytes_eqb (fst e) id)) c.

(** fs.rs:139-156 + 328-335.  [layout] is the mapping of the configured storage
    layout ([None]: no layout declared). *)
Definition get_inventory (layout : option (bytes -> path)) (c : cache) (t : tree) (id : bytes)
  : getres * cache :=
  match cache_get c id with
  | Some p => (get_inventory_by_path t id p, c)                          (* l.140-144 *)
  | None =>
      match layout with
      | Some m => (get_inventory_by_path t id (m id), (id, m id) :: c)   (* l.146-152 *)
      | None =>
          match scan_for_inventory t id with
          | Found p i => (Found p i, (id, p) :: c)                       (* l.217-221 *)
          | r => (r, c)
          end
      end
  end.

(** fs.rs:126-135 [lookup_or_find_object_root_path]: the root path only
    ([None]: NotFound; a scan has no other failure, see [first_ok]) *)
Definition find_root (layout : option (bytes -> path)) (c : cache) (t : tree) (id : bytes)
  : option path * cache :=
  match cache_get c id with
  | Some p => (Some p, c)
  | None =>
      match layout with
      | Some m => (Some (m id), (id, m id) :: c)
      | None =>
          match scan_for_inventory t id with
          | Found p _ => (Some p, (id, p) :: c)
          | _ => (None, c)
          end
      end
  end.

(** * Guards of create and purge: fs.rs:160-204 [validate_object_root] on a path
    of Normal components.  Refused: the empty path (l.196-201), a first component
    named [extensions] (l.168-174), a PROPER prefix that is an object root
    (l.185-193, [nested_in_object] above). *)
Definition validate_object_root (t : tree) (p : path) : bool :=
  match p with
  | [] => false
  | n :: _ => negb (bytes_eqb n EXT) && negb (nested_in_object t p)
  end.

(** fs.rs:1258-1266 [contains_object_root]: WalkDir with min_depth 2 - a FILE
    named like an object declaration in some sub-directory, at any depth *)
Fixpoint has_decl_file (t : tree) : bool :=
  match t with
  | File _ => false
  | Dir es => existsb (fun e => is_decl_entry e || (let '(_, c) := e in has_decl_file c)) es
  end.

Definition contains_object_root (ces : entries) : bool :=
  existsb (fun e => match snd e with Dir _ => has_decl_file (snd e) | File _ => false end) ces.

(** * purge: removal of a directory tree (fs.rs:613-621).  (clean_dirs_up,
    l.623-633, then removes EMPTY ancestors, which no listing can observe.) *)
Fixpoint remove_at (t : tree) (p : path) : tree :=
  match t with
  | File c => File c
  | Dir es =>
      match p with
      | [] => Dir es
      | [n] => Dir (filter (fun e => negb (bytes_eqb (fst e) n)) es)
      | n :: q =>
          Dir (map (fun e => let '(m, c) := e in
                             if bytes_eqb m n then (m, remove_at c q) else (m, c)) es)
      end
  end.

Inductive purge_res := POk | PErr.

(** fs.rs:588-621: what purge does once the object root path [p] is resolved *)
Definition purge_at (t : tree) (id : bytes) (p : path) : purge_res * tree :=
  if negb (validate_object_root t p) then (PErr, t)                (* l.588 *)
  else
    let removed := (POk, remove_at t p) in                         (* l.613-621 *)
    let kept := (POk, t) in
    match lookup_path t p with
    | None => kept                                                 (* l.590, 613: nothing there *)
    | Some (File _) => kept                                        (* l.591-593 *)
    | Some (Dir ces) =>
        if is_object_root ces then
          match parse_inventory ces with
          | Ok i => if bytes_eqb i id then removed else kept       (* l.596-600: another object's root *)
          | _ => removed                                           (* no readable inventory: debris *)
          end
        else if contains_object_root ces then kept                 (* l.601-604 *)
        else removed                                               (* debris without objects beneath *)
    end.

(** fs.rs:569-636 [purge_object]: result, repository afterwards, cache afterwards.
    The cached path is forgotten as soon as the root is resolved (l.580-583,
    4564259), whatever happens next. *)
Definition purge_object (layout : option (bytes -> path)) (c : cache) (t : tree) (id : bytes)
  : purge_res * tree * cache :=
  match find_root layout c t id with
  | (None, c1) => (POk, t, c1)                                     (* l.573 *)
  | (Some p, c1) => (purge_at t id p, cache_remove c1 id)
  end.

(** the cache as purge left it BEFORE 4564259 (no eviction); historical lemmas only *)
Definition purge_cache_before_fix (layout : option (bytes -> path)) (c : cache) (t : tree) (id : bytes) : cache :=
  snd (find_root layout c t id).

(** * Specification side: the objects a repository holds.
    OCFL reserves only the [extensions] directory of the STORAGE ROOT; an object
    root is any directory with an object declaration that is not inside another
    object.  The listing is compared with this, not with the code's own skip rule. *)
Definition drop_top_ext (t : tree) : tree :=
  match t with
  | File c => File c
  | Dir es => Dir (filter (fun e => negb (bytes_eqb (fst e) EXT)) es)
  end.

Definition spec_roots (t : tree) : list objroot := walk_gen false (drop_top_ext t).

Definition root_id (r : objroot) : list bytes :=
  match parse_inventory (snd r) with Ok i => [i] | _ => [] end.

Definition committed_ids (t : tree) : list bytes := flat_map root_id (spec_roots t).

(** [p] is the root of the object [id] *)
Definition root_is (id : bytes) (p : path) (r : objroot) : bool :=
  path_eqb (fst r) p && existsb (bytes_eqb id) (root_id r).

(** every entry of a handle's cache names the root of that very object
    (what the cache of a handle without layout holds, Proofs/ListingHandle.v) *)
Definition cache_sound (c : cache) (t : tree) : bool :=
  forallb (fun e => existsb (root_is (fst e) (snd e)) (spec_roots t)) c.

(** every entry is the layout's own mapping (what the cache of a handle with a
    layout holds: l.146-152 is the only writer then) *)
Definition cache_of_layout (m : bytes -> path) (c : cache) : bool :=
  forallb (fun e => path_eqb (snd e) (m (fst e))) c.

(** the path lies at or below the storage root's own extensions directory *)
Definition in_root_ext (p : path) : bool :=
  match p with [] => false | n :: _ => bytes_eqb n EXT end.

(** some component is NAMED extensions (the rule before 38fe584; historical lemmas only) *)
Definition has_ext (p : path) : bool := existsb (bytes_eqb EXT) p.
