(** C13 - model of rocfl's per-object lock (src/ocfl/lock.rs) and of the way every
    mutating operation of src/ocfl/repo.rs uses it.  Definitions only.

    lock.rs:32-47   LockManager::acquire: lock_path = locks_dir/<sha256(id)>.lock;
                    OpenOptions::new().write(true).create_new(true).open(lock_path)
                    (O_CREAT|O_EXCL): Ok -> guard ObjectLock, any error -> Err(LockAcquire).
                    = [acquire]: ONE atomic test-and-insert on the lock table, fails fast.
    lock.rs:50-59   Drop for ObjectLock removes the file: runs on every exit path of the
                    scope that owns the guard (return Ok, `?`/return Err, unwinding panic).
                    = the [Running (Done out)] -> [Finished] step, for every [out].
    repo.rs:600, 659, 773, 843, 901, 981, 999, 1195  (547, 606, 701, 763, 821, 901, 919, 1110 at the
                    revision of properties.jsonl)
                    `let _lock = self.get_lock_manager()?.acquire(object_id)?;` is the first
                    statement that touches the object in create_object, copy_files_internal,
                    move_files_internal, remove_files, reset, commit, upgrade_object and
                    operate_on_external_source (cp/mv of external files); the guard lives to
                    the end of the function.  = every operation is  acquire o ; body ; release o.
                    ONE guard per operation: no function of the list drops the guard early, calls
                    another function of the list (they would refuse each other: the lock is not
                    reentrant) or takes the lock a second time; upgrade_object (repo.rs:989-1035)
                    ends with the private commit_inner under the guard it took at repo.rs:999.
                    = [pc] has exactly one way through Waiting -> Running -> Finished, and the
                    per-operation automaton [ob_step] / [one_bracket] below says so on traces.
    (reset_all, repo.rs:836, and purge_object, repo.rs:521, take no lock: they are not
    operations of this model, and not in the property's list.)

    The body of an operation is arbitrary: a tree of atomic steps, each of which reads the data
    of the operation's object, replaces it and chooses the continuation; it ends with an
    outcome Ok / Err / Panic.  A system state holds the lock table, the data of every object
    and any number of in-flight operations with their program counters; [step st i] lets
    operation i perform its next atomic step (small-step interleaving semantics); a schedule
    is a list of operation indices.

    Assumptions of the model (C13 is "partial"): the test-and-insert is atomic (O_EXCL on a
    local file system) and concurrent executions are interleavings of atomic steps. *)
From Coq Require Import List Bool Arith.
Import ListNotations.

(** hypotheses on the external functions, named so that the theorems stay readable *)
Definition eqb_correct {A} (f : A -> A -> bool) : Prop := forall a b, f a b = true <-> a = b.
Definition injective {A B} (f : A -> B) : Prop := forall a b, f a = f b -> a = b.

Inductive outcome := OOk | OErr | OPanic.

(** what the caller of an operation gets back: the outcome of its body, or
    Err(RocflError::LockAcquire) when the lock was taken *)
Inductive result := RRet (o : outcome) | RLock.

(** kinds of events of the (ghost) trace; they are the abstraction of the traced system calls:
    KAcq = successful create_new of the lock file, KFail = failed create_new,
    KMut = any mutating call below the object's staged or main root, KRel = unlink of the lock file *)
Inductive evkind := KAcq | KMut | KRel | KFail.

(** state of the per-operation automaton [ob_step]: no event yet / between its acquire and its
    release / closed (released, or refused): a closed operation emits nothing any more *)
Inductive phase := PFresh | PInside | PClosed.

Section LockModel.
  Variables oid key data : Type.
  Variable oid_eqb : oid -> oid -> bool.
  Variable key_eqb : key -> key -> bool.
  Variable hash : oid -> key.            (* sha256 hex of the id, lock.rs:33 *)

  (** body of an operation *)
  Inductive prog :=
  | Done (out : outcome)
  | Step (u : data -> data) (next : data -> prog).

  (** serial execution of a body on the data of its object *)
  Fixpoint run_prog (p : prog) (d : data) : data * outcome :=
    match p with
    | Done out => (d, out)
    | Step u next => run_prog (next d) (u d)
    end.

  Record op := mkOp { op_obj : oid; op_body : prog }.

  Inductive pc :=
  | Waiting                    (* called, lock not yet requested *)
  | Running (rest : prog)      (* holds the lock, [rest] still to execute *)
  | Finished (r : result).     (* returned to the caller *)

  Record ev := mkEv { ev_tid : nat; ev_kind : evkind; ev_key : key }.

  Record sys := mkSys {
    locks : list key;               (* the lock table: names present in <staging>/extensions/rocfl-locks *)
    store : oid -> data;            (* staged + committed state of every object *)
    ops : list op;                  (* the operations that were started (static) *)
    pcs : list pc;                  (* their program counters *)
    held : list (key * nat);        (* ghost: owner of every lock *)
    acq_log : list nat;             (* ghost: operations in the order in which they acquired their lock *)
    events : list ev                (* ghost: trace, oldest first *)
  }.

  Definition mem_key (k : key) (l : list key) : bool := existsb (key_eqb k) l.
  Definition remove_key (k : key) (l : list key) : list key := filter (fun x => negb (key_eqb k x)) l.
  Definition remove_held (k : key) (l : list (key * nat)) : list (key * nat) :=
    filter (fun e => negb (key_eqb k (fst e))) l.
  Definition owns (h : list (key * nat)) (k : key) (i : nat) : bool :=
    existsb (fun e => key_eqb k (fst e) && Nat.eqb i (snd e)) h.

  Definition upd (s : oid -> data) (o : oid) (v : data) : oid -> data :=
    fun o' => if oid_eqb o o' then v else s o'.

  Fixpoint upd_nth {A} (l : list A) (i : nat) (a : A) : list A :=
    match l, i with
    | [], _ => []
    | _ :: t, O => a :: t
    | h :: t, S j => h :: upd_nth t j a
    end.

  (** what operation i does next, computed from its own view of the state *)
  Inductive action :=
  | ANone
  | AAcq (k : key) (body : prog)
  | AFail (k : key)
  | AMut (k : key) (o : oid) (v : data) (rest : prog)
  | ARel (k : key) (out : outcome).

  Definition action_of (st : sys) (i : nat) : action :=
    match nth_error (ops st) i, nth_error (pcs st) i with
    | Some o, Some Waiting =>
        let k := hash (op_obj o) in
        if mem_key k (locks st) then AFail k else AAcq k (op_body o)
    | Some o, Some (Running (Step u next)) =>
        let d := store st (op_obj o) in AMut (hash (op_obj o)) (op_obj o) (u d) (next d)
    | Some o, Some (Running (Done out)) => ARel (hash (op_obj o)) out
    | _, _ => ANone
    end.

  Definition apply_action (st : sys) (i : nat) (a : action) : sys :=
    match a with
    | ANone => st
    | AAcq k body =>
        mkSys (k :: locks st) (store st) (ops st) (upd_nth (pcs st) i (Running body))
              ((k, i) :: held st) (acq_log st ++ [i]) (events st ++ [mkEv i KAcq k])
    | AFail k =>
        mkSys (locks st) (store st) (ops st) (upd_nth (pcs st) i (Finished RLock))
              (held st) (acq_log st) (events st ++ [mkEv i KFail k])
    | AMut k o v rest =>
        mkSys (locks st) (upd (store st) o v) (ops st) (upd_nth (pcs st) i (Running rest))
              (held st) (acq_log st) (events st ++ [mkEv i KMut k])
    | ARel k out =>
        mkSys (remove_key k (locks st)) (store st) (ops st) (upd_nth (pcs st) i (Finished (RRet out)))
              (remove_held k (held st)) (acq_log st) (events st ++ [mkEv i KRel k])
    end.

  (** one atomic step of operation i (a finished or unknown operation stutters) *)
  Definition step (st : sys) (i : nat) : sys := apply_action st i (action_of st i).

  Fixpoint run_sched (st : sys) (sched : list nat) : sys :=
    match sched with
    | [] => st
    | i :: s => run_sched (step st i) s
    end.

  Definition init (os : list op) (d0 : oid -> data) : sys :=
    mkSys [] d0 os (map (fun _ => Waiting) os) [] [] [].

  (** specification vocabulary *)
  Definition running_at (st : sys) (i : nat) (o : op) (p : prog) : Prop :=
    nth_error (ops st) i = Some o /\ nth_error (pcs st) i = Some (Running p).
  Definition reachable (os : list op) (d0 : oid -> data) (st : sys) : Prop :=
    exists sched, st = run_sched (init os d0) sched.
  (** equality of the real (non-ghost) state: lock table as a set, data pointwise *)
  Definition sys_equiv (a c : sys) : Prop :=
    (forall k, In k (locks a) <-> In k (locks c)) /\
    (forall o, store a o = store c o) /\
    pcs a = pcs c /\ ops a = ops c.
  (** the operation got its lock (it is inside its body or returned the outcome of its body) *)
  Definition acquired (p : pc) : bool :=
    match p with Running _ => true | Finished (RRet _) => true | _ => false end.

  Definition is_running (p : pc) : bool := match p with Running _ => true | _ => false end.
  Definition is_finished (p : pc) : bool := match p with Finished _ => true | _ => false end.
  Definition all_finished (st : sys) : bool := forallb is_finished (pcs st).

  (** serial execution: the operations of [log], one after the other, each run to completion *)
  Definition serial_step (os : list op) (o : oid) (d : data) (i : nat) : data :=
    match nth_error os i with
    | Some x => if oid_eqb (op_obj x) o then fst (run_prog (op_body x) d) else d
    | None => d
    end.
  Definition serial_data (os : list op) (d0 : oid -> data) (log : list nat) (o : oid) : data :=
    fold_left (serial_step os o) log (d0 o).

  (** the same with the whole store threaded through, recording the outcome of every operation *)
  Fixpoint serial_run (os : list op) (s : oid -> data) (log : list nat) : (oid -> data) * list (nat * outcome) :=
    match log with
    | [] => (s, [])
    | i :: r =>
        match nth_error os i with
        | Some x =>
            let (d, out) := run_prog (op_body x) (s (op_obj x)) in
            let (s', outs) := serial_run os (upd s (op_obj x) d) r in
            (s', (i, out) :: outs)
        | None => serial_run os s r
        end
    end.

  (** the trace automaton: which event sequences are well bracketed.  The state is the list of
      held locks with their owners. *)
  Definition wb_step (h : list (key * nat)) (e : ev) : option (list (key * nat)) :=
    let k := ev_key e in
    let i := ev_tid e in
    match ev_kind e with
    | KAcq => if mem_key k (map fst h) then None else Some ((k, i) :: h)
    | KMut => if owns h k i then Some h else None
    | KRel => if owns h k i then Some (remove_held k h) else None
    | KFail => if mem_key k (map fst h) then Some h else None
    end.

  Fixpoint wb_run (h : list (key * nat)) (es : list ev) : option (list (key * nat)) :=
    match es with
    | [] => Some h
    | e :: r => match wb_step h e with Some h' => wb_run h' r | None => None end
    end.

  (** the STRICT per-operation automaton ("one bracket"): the events of ONE operation, whose lock key is
      [k], must spell   Acq k ; (Mut k)* ; Rel k   and then nothing (or, for a refused operation, the single
      event Fail k and then nothing): the lock is taken exactly once, every mutation of the operation lies
      between that acquire and the matching release, and no event of the operation follows the release -
      in particular no second acquire.  (The automaton [wb_step] alone accepts (Acq Mut* Rel)* per
      operation.) *)
  Definition ob_step (k : key) (ph : phase) (e : ev) : option phase :=
    if key_eqb (ev_key e) k then
      match ph, ev_kind e with
      | PFresh, KAcq => Some PInside
      | PFresh, KFail => Some PClosed
      | PInside, KMut => Some PInside
      | PInside, KRel => Some PClosed
      | _, _ => None
      end
    else None.

  Fixpoint ob_run (k : key) (ph : phase) (es : list ev) : option phase :=
    match es with
    | [] => Some ph
    | e :: r => match ob_step k ph e with Some ph' => ob_run k ph' r | None => None end
    end.

  (** the events of operation i *)
  Definition proj (i : nat) (es : list ev) : list ev := filter (fun e => Nat.eqb (ev_tid e) i) es.

  Definition one_bracket (k : key) (i : nat) (es : list ev) : option phase := ob_run k PFresh (proj i es).

  (** where the program counter of an operation says its automaton must be *)
  Definition phase_of (p : option pc) : phase :=
    match p with
    | Some (Running _) => PInside
    | Some (Finished _) => PClosed
    | _ => PFresh
    end.

  (** the same as an explicit shape (what [one_bracket] accepts, see Proofs/LockBracketFacts.v) *)
  Definition op_shape (i : nat) (k : key) (p : pc) (tr : list ev) : Prop :=
    match p with
    | Waiting => tr = []
    | Running _ => exists n, tr = mkEv i KAcq k :: repeat (mkEv i KMut k) n
    | Finished RLock => tr = [mkEv i KFail k]
    | Finished (RRet _) => exists n, tr = mkEv i KAcq k :: repeat (mkEv i KMut k) n ++ [mkEv i KRel k]
    end.

  (** the strict trace automaton on a whole (interleaved) trace = the lock-table automaton [wb_run]
      AND one [one_bracket] automaton per operation; [ks] = the lock key of operation 0, 1, ...;
      an event of an operation outside [ks] is rejected.
      [strict_ok]: acceptable so far (prefix);  [strict_done]: acceptable as the trace of a run in which
      every operation returned: no lock held, no operation between its acquire and its release. *)
  Definition tids_known (n : nat) (es : list ev) : bool := forallb (fun e => Nat.ltb (ev_tid e) n) es.

  Definition brackets (ks : list key) (es : list ev) : list (option phase) :=
    map (fun ik => one_bracket (snd ik) (fst ik) es) (combine (seq 0 (length ks)) ks).

  Definition strict_ok (ks : list key) (es : list ev) : bool :=
    match wb_run [] es with Some _ => true | None => false end
    && tids_known (length ks) es
    && forallb (fun r => match r with Some _ => true | None => false end) (brackets ks es).

  Definition strict_done (ks : list key) (es : list ev) : bool :=
    match wb_run [] es with Some [] => true | _ => false end
    && tids_known (length ks) es
    && forallb (fun r => match r with Some PFresh => true | Some PClosed => true | _ => false end) (brackets ks es).

End LockModel.

(** a schedule without interleaving: one block of [n] consecutive steps of operation [i] per pair (i, n) *)
Definition blocks_sched (bl : list (nat * nat)) : list nat := flat_map (fun b => repeat (fst b) (snd b)) bl.

Arguments Done {data}.
Arguments Step {data}.
Arguments mkOp {oid data}.
Arguments op_obj {oid data}.
Arguments op_body {oid data}.
Arguments Waiting {data}.
Arguments Running {data}.
Arguments Finished {data}.
Arguments mkEv {key}.
Arguments ev_tid {key}.
Arguments ev_kind {key}.
Arguments ev_key {key}.
Arguments mkSys {oid key data}.
Arguments locks {oid key data}.
Arguments store {oid key data}.
Arguments ops {oid key data}.
Arguments pcs {oid key data}.
Arguments held {oid key data}.
Arguments acq_log {oid key data}.
Arguments events {oid key data}.
Arguments ANone {oid key data}.
Arguments AAcq {oid key data}.
Arguments AFail {oid key data}.
Arguments AMut {oid key data}.
Arguments ARel {oid key data}.
Arguments upd_nth {A}.
Arguments run_prog {data}.
Arguments is_running {data}.
Arguments acquired {data}.
Arguments is_finished {data}.
