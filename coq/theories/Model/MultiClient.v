(** C14, second half: several clients that share one storage root but use
    different staging roots (CLI: [rocfl -r ROOT -s STAGING_A ...] against
    [-s STAGING_B]).  Executable definitions only; lemmas live in
    Proofs/MultiClientFacts.v.

    What is modelled, line by line:
    - src/ocfl/repo.rs:541-596   create_object           -> [New]
    - src/ocfl/repo.rs:1089-1123 get_or_created_staged_inventory
      + src/ocfl/inventory.rs:139-146 create_staging_head -> first half of [Stage]
    - src/ocfl/repo.rs:1033-1084 commit_inner            -> [Commit]
    - src/ocfl/store/fs.rs:371-413 write_new_object      -> [Commit], new object
    - src/ocfl/store/fs.rs:426-520 write_new_version     -> [Commit], new version
      (with the comparison of the base versions added by fix e1679ed, fs.rs:446-459,
       and Version::same_as, inventory.rs:681-689)
    - src/ocfl/repo.rs:838-843   reset_all               -> [ResetAll]
    - src/ocfl/repo.rs:521-534   purge_object            -> [Purge]

    Abstractions: the bytes of a version are abstracted to its logical state
    (logical path -> digest token); an object directory is abstracted to the
    list of its committed versions v1..vh (each = what the code compares: a
    METADATA token standing for the triple created/message/user, and the
    state), the head version number recorded in
    its root inventory and a LINEAGE token (a number that is fresh at every
    creation of an object directory, so purge + re-creation of the same id
    yields a different lineage - the code keeps no such token, it is how the
    model tells the two directories apart).  Every operation is atomic (the
    interleavings are those of whole operations). *)
From Rocfl Require Export Base.Bytes Model.VersionNum.
Open Scope N_scope.

(** * States of one version *)

(** logical path -> digest token, as an association list (compared as a finite map) *)
Definition vstate := list (bytes * N).
(** one staged change: [(p, Some d)] puts content [d] at logical path [p]
    (cp / mv into the object), [(p, None)] removes [p] (rm) *)
Definition edit := (bytes * option N)%type.

Definition st_remove (p : bytes) (s : vstate) : vstate :=
  filter (fun x => negb (bytes_eqb (fst x) p)) s.
Definition apply_edit (e : edit) (s : vstate) : vstate :=
  match snd e with
  | Some d => (fst e, d) :: st_remove (fst e) s
  | None => st_remove (fst e) s
  end.
Definition apply_edits (es : list edit) (s : vstate) : vstate :=
  fold_left (fun acc e => apply_edit e acc) es s.

(** A committed version as far as the code ever compares two of them
    (Version::same_as, inventory.rs:681-689): the metadata - [created], [message],
    [user], abstracted to one token: equal tokens = equal triples - and the state.
    rocfl stamps [created] with Local::now() (nanoseconds) unless the caller
    passes an explicit time, so the token of a commit is fresh unless two
    commits are given the same explicit metadata. *)
Definition cver := (N * vstate)%type.

(** same_as on states: same size and every (path -> digest) of one found in the other *)
Definition vstate_same (a c : vstate) : bool :=
  Nat.eqb (List.length a) (List.length c)
  && forallb (fun x => existsb (fun y => bytes_eqb (fst x) (fst y) && (snd x =? snd y)) c) a.
Definition cver_same (a c : cver) : bool := (fst a =? fst c) && vstate_same (snd a) (snd c).

(** fs.rs:448-459: every version of the object in the main repository must be in the staged
    inventory under the same number (VersionNum keys compare by number) and be [same_as] it *)
Fixpoint base_same (main stg : list cver) : bool :=
  match main, stg with
  | [], _ => true
  | x :: main', y :: stg' => cver_same x y && base_same main' stg'
  | _ :: _, [] => false
  end.

(** * Association lists (executable finite maps) *)
Section AMap.
  Variables K V : Type.
  Variable eqb : K -> K -> bool.
  Fixpoint aget (k : K) (m : list (K * V)) : option V :=
    match m with
    | [] => None
    | (k', v) :: r => if eqb k k' then Some v else aget k r
    end.
  Fixpoint adel (k : K) (m : list (K * V)) : list (K * V) :=
    match m with
    | [] => []
    | (k', v) :: r => if eqb k k' then adel k r else (k', v) :: adel k r
    end.
  Definition aput (k : K) (v : V) (m : list (K * V)) : list (K * V) := (k, v) :: adel k m.
End AMap.
Arguments aget {K V} eqb k m.
Arguments adel {K V} eqb k m.
Arguments aput {K V} eqb k v m.

(** * Objects, staged inventories, system state *)

(** An object of the main repository: the root inventory's head and the states
    of its versions v1..vh in order. *)
Record obj := mkObj { o_lineage : N; o_head : vnum; o_versions : list cver; o_cfg : N }.
(** [o_cfg]: one token for the object-level settings the commit compares besides the padding
    width (fix 5c18ef1, fs.rs:446-456): digest algorithm and content directory. *)

(** A staged inventory: a copy of the main inventory it was cloned from
    ([s_versions], [s_base] = the lineage it was cloned from, [None] for an
    object created by [New]) plus one new head version [s_head] with state
    [s_state].  [s_edits] is a ghost field: the staged changes made since the
    clone, in order (it never influences a result). *)
Record staged := mkStg {
  s_base : option N; s_head : vnum; s_versions : list cver;
  s_state : vstate; s_edits : list edit; s_cfg : N }.

Definition skey := (N * bytes)%type.      (* client, object id *)
Definition skey_eqb (a c : skey) : bool := (fst a =? fst c) && bytes_eqb (snd a) (snd c).

Record mc := mkMC {
  mc_main : list (bytes * obj);           (* the storage root *)
  mc_stag : list (skey * staged);         (* all staging roots, keyed by client *)
  mc_next : N }.                          (* next fresh lineage *)

Definition mc_init : mc := mkMC [] [] 0.

Definition mget (st : mc) (id : bytes) : option obj := aget bytes_eqb id (mc_main st).
Definition sget (st : mc) (c : N) (id : bytes) : option staged := aget skey_eqb (c, id) (mc_stag st).

Definition set_stag (st : mc) (c : N) (id : bytes) (s : staged) : mc :=
  mkMC (mc_main st) (aput skey_eqb (c, id) s (mc_stag st)) (mc_next st).
Definition del_stag (st : mc) (c : N) (id : bytes) : mc :=
  mkMC (mc_main st) (adel skey_eqb (c, id) (mc_stag st)) (mc_next st).
(** a successful commit of client [c]: object [o] becomes the content of [id] in the main
    repository, the client's staged copy is removed (repo.rs:1080 staging.purge_object) *)
Definition install (st : mc) (c : N) (id : bytes) (o : obj) (n : N) : mc :=
  mkMC (aput bytes_eqb id o (mc_main st)) (adel skey_eqb (c, id) (mc_stag st)) n.
(** repo.rs:524-530: purge removes the client's staged copy, then the object *)
Definition purge_st (st : mc) (c : N) (id : bytes) : mc :=
  mkMC (adel bytes_eqb id (mc_main st)) (adel skey_eqb (c, id) (mc_stag st)) (mc_next st).

(** * Operations of one client *)
Inductive op :=
| New (id : bytes) (w k : N)      (* rocfl new -z w [-d alg -c contentdir] id; k = token of (alg, contentdir) *)
| Stage (id : bytes) (e : edit)   (* rocfl cp / mv / rm ... id *)
| Commit (id : bytes) (m : N)     (* rocfl commit id; m = metadata token of the new version *)
| ResetAll (id : bytes)           (* rocfl reset id *)
| Purge (id : bytes).             (* rocfl purge id *)

(** [VersionNum::v1_with_width(w)] (types.rs:277) as every later command reads
    it back from the staged inventory.json: "v1" for w = 1 has no leading
    zero, so it parses with width 0 (types.rs:343-349); for every other width
    display/parse is the identity (Proofs: [v1_stored_reparse], all widths).
    Not modelled: the file system's limit on the length of a directory name - with
    a padding width above 254 the version directory "v00..01" cannot be created
    and every cp / commit of such an object is refused by the operating system. *)
Definition v1_stored (w : N) : vnum := if w =? 1 then mkV 1 0 else mkV 1 w.

Definition last_state (vs : list cver) : vstate := snd (last vs (0, [])).

(** One atomic operation of client [c].  [dbg]: overflow checks of the build
    (see Model/VersionNum.v).  Result [Err]: the command fails, [Panic]: the
    process aborts; in both cases nothing was written. *)
Definition step (dbg : bool) (st : mc) (c : N) (o : op) : mc * res unit :=
  match o with
  | New id w k =>
      (* repo.rs:576-585: refuse when the id exists in the main repository;
         fs.rs:678-687 (stage_object): refuse when it exists in this staging root *)
      match mget st id with
      | Some _ => (st, Err)
      | None =>
          match sget st c id with
          | Some _ => (st, Err)
          | None => (set_stag st c id (mkStg None (v1_stored w) [] [] [] k), Ok tt)
          end
      end
  | Stage id e =>
      match sget st c id with
      | Some s =>
          (* repo.rs:1092-1093: the staged inventory is used as it is *)
          (set_stag st c id (mkStg (s_base s) (s_head s) (s_versions s)
                                   (apply_edit e (s_state s)) (s_edits s ++ [e]) (s_cfg s)), Ok tt)
      | None =>
          (* repo.rs:1095: NotFound when the object is not in the main repository either *)
          match mget st id with
          | None => (st, Err)
          | Some o =>
              (* inventory.rs:139-146: head := head.next()?, new head version = copy of the old head's state *)
              match vnext dbg (o_head o) with
              | Ok h =>
                  (set_stag st c id (mkStg (Some (o_lineage o)) h (o_versions o)
                                           (apply_edit e (last_state (o_versions o))) [e] (o_cfg o)), Ok tt)
              | Err => (st, Err)
              | Panic => (st, Panic)
              end
          end
      end
  | Commit id m =>
      match sget st c id with
      | None => (st, Err)                          (* repo.rs:1043-1048 "No staged changes" *)
      | Some s =>
          if vn_number (s_head s) =? 1 then        (* inventory.rs:149 is_new: head.number == 1 *)
            (* fs.rs:397-403 write_new_object: the target path must not exist *)
            match mget st id with
            | Some _ => (st, Err)
            | None =>
                (install st c id (mkObj (mc_next st) (s_head s) (s_versions s ++ [(m, s_state s)]) (s_cfg s))
                         (mc_next st + 1), Ok tt)
            end
          else
            (* fs.rs:430 get_inventory(id)? *)
            match mget st id with
            | None => (st, Err)
            | Some o =>
                (* fs.rs:433 existing.head != inventory.head.previous().unwrap();
                   VersionNum equality compares the NUMBER only (types.rs:407-411) *)
                match vprev dbg (s_head s) with
                | Ok p =>
                    if vn_number (o_head o) =? vn_number p then
                      (* fs.rs:446-456 (fix 5c18ef1): same padding width, digest algorithm, content directory *)
                      if (vn_width (o_head o) =? vn_width (s_head s)) && (o_cfg o =? s_cfg s) then
                        (* fs.rs:458-469 (fix e1679ed): the staged inventory - its head already carries the
                           commit metadata (repo.rs:1056 update_meta) - must contain every version of the main
                           object, same_as it *)
                        if base_same (o_versions o) (s_versions s ++ [(m, s_state s)]) then
                          (* fs.rs:474 destination exists: the directory v<head> cannot exist in an object
                             whose head is head-1 (model abstraction: versions = directories);
                             the version directory is moved in and the ROOT inventory is replaced by the
                             staged inventory *)
                          (install st c id (mkObj (o_lineage o) (s_head s) (s_versions s ++ [(m, s_state s)]) (s_cfg s))
                                   (mc_next st), Ok tt)
                        else (st, Err)
                      else (st, Err)
                    else (st, Err)
                | Err => (st, Panic)               (* unwrap of Err *)
                | Panic => (st, Panic)
                end
            end
      end
  | ResetAll id => (del_stag st c id, Ok tt)       (* repo.rs:838-843 *)
  | Purge id =>                                    (* repo.rs:524-530: staging first, then main *)
      (purge_st st c id, Ok tt)
  end.

(** * Interleavings: any list of (client, operation) *)
Definition event := (N * op)%type.

Fixpoint run (dbg : bool) (st : mc) (es : list event) : mc :=
  match es with
  | [] => st
  | (c, o) :: r => run dbg (fst (step dbg st c o)) r
  end.

Fixpoint run_results (dbg : bool) (st : mc) (es : list event) : list (res unit) :=
  match es with
  | [] => []
  | (c, o) :: r => snd (step dbg st c o) :: run_results dbg (fst (step dbg st c o)) r
  end.

(** the events in [es] that leave client [c]'s staged copy of [id] in place and do not purge [id] *)
Definition ev_keeps (c : N) (id : bytes) (e : event) : bool :=
  match snd e with
  | Purge id' => negb (bytes_eqb id' id)
  | ResetAll id' | Commit id' _ => negb ((fst e =? c) && bytes_eqb id' id)
  | _ => true
  end.

(** prefix order on version lists *)
Definition extends (old new : list cver) : Prop := exists tl, new = old ++ tl.

(** * Metadata tokens in use: those of every committed version and of every staged copy *)
Definition metas (l : list cver) : list N := map fst l.
Definition st_metas (st : mc) : list N :=
  flat_map (fun x => metas (o_versions (snd x))) (mc_main st)
  ++ flat_map (fun x => metas (s_versions (snd x))) (mc_stag st).

(** the commit's metadata is not that of any version known to anyone (what Local::now() gives) *)
Definition step_fresh (st : mc) (c : N) (o : op) : bool :=
  match o with
  | Commit _ m => negb (existsb (N.eqb m) (st_metas st))
  | _ => true
  end.
Fixpoint run_fresh (dbg : bool) (st : mc) (es : list event) : bool :=
  match es with
  | [] => true
  | (c, o) :: r => step_fresh st c o && run_fresh dbg (fst (step dbg st c o)) r
  end.
