(** C14, second half: several clients that share one storage root but use
    different staging roots (CLI: [rocfl -r ROOT -s STAGING_A ...] against
    [-s STAGING_B]).  Executable definitions only; lemmas live in
    Proofs/MultiClientFacts.v.

    What is modelled, line by line:
    - src/ocfl/repo.rs:541-596   create_object           -> [New]
    - src/ocfl/repo.rs:1089-1123 get_or_created_staged_inventory
      + src/ocfl/inventory.rs:139-146 create_staging_head -> first half of [Stage]
    - src/ocfl/repo.rs:1033-1084 commit_inner            -> [Commit]
    - src/ocfl/store/fs.rs:371-413 write_new_object      -> [Commit], new object
    - src/ocfl/store/fs.rs:420-494 write_new_version     -> [Commit], new version
    - src/ocfl/repo.rs:838-843   reset_all               -> [ResetAll]
    - src/ocfl/repo.rs:521-534   purge_object            -> [Purge]

    Abstractions: the bytes of a version are abstracted to its logical state
    (logical path -> digest token); an object directory is abstracted to the
    list of its committed versions v1..vh, the head version number recorded in
    its root inventory and a LINEAGE token (a number that is fresh at every
    creation of an object directory, so purge + re-creation of the same id
    yields a different lineage - the code keeps no such token, it is how the
    model tells the two directories apart).  Every operation is atomic (the
    interleavings are those of whole operations). *)
From Rocfl Require Export Base.Bytes Model.VersionNum.
Open Scope N_scope.

(** * States of one version *)

(** logical path -> digest token, as an association list (compared as a finite map) *)
Definition vstate := list (bytes * N).
(** one staged change: [(p, Some d)] puts content [d] at logical path [p]
    (cp / mv into the object), [(p, None)] removes [p] (rm) *)
Definition edit := (bytes * option N)%type.

Definition st_remove (p : bytes) (s : vstate) : vstate :=
  filter (fun x => negb (bytes_eqb (fst x) p)) s.
Definition apply_edit (e : edit) (s : vstate) : vstate :=
  match snd e with
  | Some d => (fst e, d) :: st_remove (fst e) s
  | None => st_remove (fst e) s
  end.
Definition apply_edits (es : list edit) (s : vstate) : vstate :=
  fold_left (fun acc e => apply_edit e acc) es s.

(** * Association lists (executable finite maps) *)
Section AMap.
  Variables K V : Type.
  Variable eqb : K -> K -> bool.
  Fixpoint aget (k : K) (m : list (K * V)) : option V :=
    match m with
    | [] => None
    | (k', v) :: r => if eqb k k' then Some v else aget k r
    end.
  Fixpoint adel (k : K) (m : list (K * V)) : list (K * V) :=
    match m with
    | [] => []
    | (k', v) :: r => if eqb k k' then adel k r else (k', v) :: adel k r
    end.
  Definition aput (k : K) (v : V) (m : list (K * V)) : list (K * V) := (k, v) :: adel k m.
End AMap.
Arguments aget {K V} eqb k m.
Arguments adel {K V} eqb k m.
Arguments aput {K V} eqb k v m.

(** * Objects, staged inventories, system state *)

(** An object of the main repository: the root inventory's head and the states
    of its versions v1..vh in order. *)
Record obj := mkObj { o_lineage : N; o_head : vnum; o_versions : list vstate }.

(** A staged inventory: a copy of the main inventory it was cloned from
    ([s_versions], [s_base] = the lineage it was cloned from, [None] for an
    object created by [New]) plus one new head version [s_head] with state
    [s_state].  [s_edits] is a ghost field: the staged changes made since the
    clone, in order (it never influences a result). *)
Record staged := mkStg {
  s_base : option N; s_head : vnum; s_versions : list vstate;
  s_state : vstate; s_edits : list edit }.

Definition skey := (N * bytes)%type.      (* client, object id *)
Definition skey_eqb (a c : skey) : bool := (fst a =? fst c) && bytes_eqb (snd a) (snd c).

Record mc := mkMC {
  mc_main : list (bytes * obj);           (* the storage root *)
  mc_stag : list (skey * staged);         (* all staging roots, keyed by client *)
  mc_next : N }.                          (* next fresh lineage *)

Definition mc_init : mc := mkMC [] [] 0.

Definition mget (st : mc) (id : bytes) : option obj := aget bytes_eqb id (mc_main st).
Definition sget (st : mc) (c : N) (id : bytes) : option staged := aget skey_eqb (c, id) (mc_stag st).

Definition set_stag (st : mc) (c : N) (id : bytes) (s : staged) : mc :=
  mkMC (mc_main st) (aput skey_eqb (c, id) s (mc_stag st)) (mc_next st).
Definition del_stag (st : mc) (c : N) (id : bytes) : mc :=
  mkMC (mc_main st) (adel skey_eqb (c, id) (mc_stag st)) (mc_next st).
(** a successful commit of client [c]: object [o] becomes the content of [id] in the main
    repository, the client's staged copy is removed (repo.rs:1080 staging.purge_object) *)
Definition install (st : mc) (c : N) (id : bytes) (o : obj) (n : N) : mc :=
  mkMC (aput bytes_eqb id o (mc_main st)) (adel skey_eqb (c, id) (mc_stag st)) n.
(** repo.rs:524-530: purge removes the client's staged copy, then the object *)
Definition purge_st (st : mc) (c : N) (id : bytes) : mc :=
  mkMC (adel bytes_eqb id (mc_main st)) (adel skey_eqb (c, id) (mc_stag st)) (mc_next st).

(** * Operations of one client *)
Inductive op :=
| New (id : bytes) (w : N)        (* rocfl new -z w id *)
| Stage (id : bytes) (e : edit)   (* rocfl cp / mv / rm ... id *)
| Commit (id : bytes)             (* rocfl commit id *)
| ResetAll (id : bytes)           (* rocfl reset id *)
| Purge (id : bytes).             (* rocfl purge id *)

(** [VersionNum::v1_with_width(w)] (types.rs:277) as every later command reads
    it back from the staged inventory.json: "v1" for w = 1 has no leading
    zero, so it parses with width 0 (types.rs:343-349); for every other width
    display/parse is the identity (Proofs: [v1_stored_reparse], all widths).
    Not modelled: the file system's limit on the length of a directory name - with
    a padding width above 254 the version directory "v00..01" cannot be created
    and every cp / commit of such an object is refused by the operating system. *)
Definition v1_stored (w : N) : vnum := if w =? 1 then mkV 1 0 else mkV 1 w.

Definition last_state (vs : list vstate) : vstate := last vs [].

(** One atomic operation of client [c].  [dbg]: overflow checks of the build
    (see Model/VersionNum.v).  Result [Err]: the command fails, [Panic]: the
    process aborts; in both cases nothing was written. *)
Definition step (dbg : bool) (st : mc) (c : N) (o : op) : mc * res unit :=
  match o with
  | New id w =>
      (* repo.rs:576-585: refuse when the id exists in the main repository;
         fs.rs:678-687 (stage_object): refuse when it exists in this staging root *)
      match mget st id with
      | Some _ => (st, Err)
      | None =>
          match sget st c id with
          | Some _ => (st, Err)
          | None => (set_stag st c id (mkStg None (v1_stored w) [] [] []), Ok tt)
          end
      end
  | Stage id e =>
      match sget st c id with
      | Some s =>
          (* repo.rs:1092-1093: the staged inventory is used as it is *)
          (set_stag st c id (mkStg (s_base s) (s_head s) (s_versions s)
                                   (apply_edit e (s_state s)) (s_edits s ++ [e])), Ok tt)
      | None =>
          (* repo.rs:1095: NotFound when the object is not in the main repository either *)
          match mget st id with
          | None => (st, Err)
          | Some o =>
              (* inventory.rs:139-146: head := head.next()?, new head version = copy of the old head's state *)
              match vnext dbg (o_head o) with
              | Ok h =>
                  (set_stag st c id (mkStg (Some (o_lineage o)) h (o_versions o)
                                           (apply_edit e (last_state (o_versions o))) [e]), Ok tt)
              | Err => (st, Err)
              | Panic => (st, Panic)
              end
          end
      end
  | Commit id =>
      match sget st c id with
      | None => (st, Err)                          (* repo.rs:1043-1048 "No staged changes" *)
      | Some s =>
          if vn_number (s_head s) =? 1 then        (* inventory.rs:149 is_new: head.number == 1 *)
            (* fs.rs:397-403 write_new_object: the target path must not exist *)
            match mget st id with
            | Some _ => (st, Err)
            | None =>
                (install st c id (mkObj (mc_next st) (s_head s) (s_versions s ++ [s_state s]))
                         (mc_next st + 1), Ok tt)
            end
          else
            (* fs.rs:430 get_inventory(id)? *)
            match mget st id with
            | None => (st, Err)
            | Some o =>
                (* fs.rs:433 existing.head != inventory.head.previous().unwrap();
                   VersionNum equality compares the NUMBER only (types.rs:407-411) *)
                match vprev dbg (s_head s) with
                | Ok p =>
                    if vn_number (o_head o) =? vn_number p then
                      (* fs.rs:443 destination exists: the directory v<head> cannot exist in an object
                         whose head is head-1 (model abstraction: versions = directories);
                         fs.rs:462-464: the version directory is moved in and the ROOT inventory is
                         replaced by the staged inventory - lineages are never compared *)
                      (install st c id (mkObj (o_lineage o) (s_head s) (s_versions s ++ [s_state s]))
                               (mc_next st), Ok tt)
                    else (st, Err)
                | Err => (st, Panic)               (* unwrap of Err *)
                | Panic => (st, Panic)
                end
            end
      end
  | ResetAll id => (del_stag st c id, Ok tt)       (* repo.rs:838-843 *)
  | Purge id =>                                    (* repo.rs:524-530: staging first, then main *)
      (purge_st st c id, Ok tt)
  end.

(** * Interleavings: any list of (client, operation) *)
Definition event := (N * op)%type.

Fixpoint run (dbg : bool) (st : mc) (es : list event) : mc :=
  match es with
  | [] => st
  | (c, o) :: r => run dbg (fst (step dbg st c o)) r
  end.

Fixpoint run_results (dbg : bool) (st : mc) (es : list event) : list (res unit) :=
  match es with
  | [] => []
  | (c, o) :: r => snd (step dbg st c o) :: run_results dbg (fst (step dbg st c o)) r
  end.

(** the events in [es] that leave client [c]'s staged copy of [id] in place and do not purge [id] *)
Definition ev_keeps (c : N) (id : bytes) (e : event) : bool :=
  match snd e with
  | Purge id' => negb (bytes_eqb id' id)
  | ResetAll id' | Commit id' => negb ((fst e =? c) && bytes_eqb id' id)
  | _ => true
  end.

(** prefix order on version lists *)
Definition extends (old new : list vstate) : Prop := exists tl, new = old ++ tl.
