(** * ObjTree: the stored form of one OCFL object as an abstract tree (C06)

    The tree is the recursive leaf listing of the object root, exactly what
    [FsStorage::list(root, recursive = true)] (src/ocfl/store/fs.rs:1058-1096) returns:
    regular files, EMPTY directories, and everything else (symlinks, devices ...).
    A non-empty directory is implicit: it exists iff some entry lies below it.

    File contents are abstract tokens (two files hold the same bytes iff they carry the
    same token).  Everything rocfl computes from bytes enters through oracles
    (Section variables; hypotheses about them live in Proofs/):
      digest a k         the [a]-digest of the bytes [k]             (injective per algorithm)
      fdigest i k        digest with the i-th non-manifest algorithm of a fixity block
      parse_inv k        Some inv iff serde::parse (validate/serde.rs:44) accepts the bytes
                         without any error; inv is what it returns
      parse_sidecar k    the digest recorded in a sidecar file (mod.rs:1098-1108), None = E061
      parse_decl k       Some v iff the bytes are the declaration text of spec version v

    Path segments are abstract as well; the abstraction is injective on file names
    (checks/c06.py builds it):  the names the validator looks for have their own
    constructors, every other name is [SName k].

    No proofs here (Model/ holds executable definitions only). *)

From Coq Require Import List NArith Bool.
Import ListNotations.
Open Scope N_scope.

Inductive alg := Sha512 | Sha256.
Inductive spec_version := V10 | V11.

Inductive seg :=
| SDecl (v : spec_version)     (* 0=ocfl_object_1.0 / 0=ocfl_object_1.1 *)
| SInv                         (* inventory.json *)
| SSidecar (a : alg)           (* inventory.json.sha512 / inventory.json.sha256 *)
| SVer (w n : N)               (* v<n> printed with zero-padding width w (VersionNum::to_string, types.rs) *)
| SLogs | SExt                 (* logs, extensions *)
| SSelf                        (* the empty relative name WalkDir reports for a listed path that is no directory *)
| SName (k : N).               (* any other file name *)

Definition path := list seg.
Definition token := N.

Inductive node := Dir | File (tok : token) | Symlink | Other.
(* [Dir] entries are EMPTY directories *)

Definition tree := list (path * node).

Definition lpath := list N.    (* logical path *)

Record inventory := mkInv {
  inv_id : N;
  inv_spec : spec_version;                   (* "type" *)
  inv_alg : alg;                             (* "digestAlgorithm" *)
  inv_pad : N;                               (* zero-padding width of the version keys *)
  inv_cdir : N;                              (* "contentDirectory" is the name [SName inv_cdir] *)
  inv_manifest : list (N * path);            (* digest, content path relative to the object root *)
  inv_versions : list (list (N * lpath));    (* state of v1, v2, ...; the keys are contiguous from 1 (E010 inside parse) *)
  inv_fixity : list (N * N * path)           (* (algorithm index, digest, content path) *)
}.

(** head = highest version = number of versions (serde.rs rejects anything else: E040/E010) *)
Fixpoint nlength {A} (l : list A) : N :=
  match l with [] => 0 | _ :: r => N.succ (nlength r) end.
Definition inv_head (i : inventory) : N := nlength (inv_versions i).

(** ** decidable equalities *)

Definition alg_eqb (a b : alg) : bool :=
  match a, b with Sha512, Sha512 | Sha256, Sha256 => true | _, _ => false end.
Definition spec_eqb (a b : spec_version) : bool :=
  match a, b with V10, V10 | V11, V11 => true | _, _ => false end.
Definition spec_leb (a b : spec_version) : bool :=
  match a, b with V11, V10 => false | _, _ => true end.

Definition seg_eqb (a b : seg) : bool :=
  match a, b with
  | SDecl v, SDecl v' => spec_eqb v v'
  | SInv, SInv => true
  | SSidecar x, SSidecar y => alg_eqb x y
  | SVer w n, SVer w' n' => N.eqb w w' && N.eqb n n'
  | SLogs, SLogs | SExt, SExt | SSelf, SSelf => true
  | SName k, SName k' => N.eqb k k'
  | _, _ => false
  end.

Fixpoint list_eqb {A} (eqb : A -> A -> bool) (a b : list A) : bool :=
  match a, b with
  | [], [] => true
  | x :: a', y :: b' => eqb x y && list_eqb eqb a' b'
  | _, _ => false
  end.

Definition path_eqb : path -> path -> bool := list_eqb seg_eqb.
Definition lpath_eqb : lpath -> lpath -> bool := list_eqb N.eqb.

Definition opt_eqb {A} (eqb : A -> A -> bool) (a b : option A) : bool :=
  match a, b with
  | Some x, Some y => eqb x y
  | None, None => true
  | _, _ => false
  end.

Definition nilb {A} (l : list A) : bool := match l with [] => true | _ => false end.

(** ** paths and listings *)

(** [strip d q = Some r] iff [q = d ++ r] *)
Fixpoint strip (d q : path) : option path :=
  match d, q with
  | [], _ => Some q
  | x :: d', y :: q' => if seg_eqb x y then strip d' q' else None
  | _ :: _, [] => None
  end.

Definition is_prefix (d q : path) : bool :=
  match strip d q with Some _ => true | None => false end.

Fixpoint lookup (p : path) (t : tree) : option node :=
  match t with
  | [] => None
  | (q, n) :: r => if path_eqb q p then Some n else lookup p r
  end.

Definition file_tok (p : path) (t : tree) : option token :=
  match lookup p t with Some (File k) => Some k | _ => None end.

(** [files.contains(&Listing::file(name))] for the listing of directory [d] *)
Definition has_file (d : path) (s : seg) (t : tree) : bool :=
  match file_tok (d ++ [s]) t with Some _ => true | None => false end.

(** some entry lies strictly below [d]  (d is a non-empty directory) *)
Definition below (d : path) (t : tree) : bool :=
  existsb (fun e => match strip d (fst e) with Some (_ :: _) => true | _ => false end) t.

(** [files.contains(&Listing::dir(name))] *)
Definition has_dir (d : path) (s : seg) (t : tree) : bool :=
  below (d ++ [s]) t || match lookup (d ++ [s]) t with Some Dir => true | _ => false end.

Inductive lkind := KFile | KDir | KOther.   (* Listing::File | Directory | Other *)
Definition node_kind (n : node) : lkind :=
  match n with File _ => KFile | Dir => KDir | Symlink | Other => KOther end.

(** non-recursive listing (fs.rs:1066-1093 with max_depth 1).  A child directory appears
    once per entry below it; the validator only tests membership and iterates, so
    repetitions do not change which checks fail.  A listed path that is itself a file or
    a symlink yields itself under the empty name (WalkDir yields its root). *)
Definition list_dir (d : path) (t : tree) : list (lkind * seg) :=
  flat_map (fun e =>
    match strip d (fst e) with
    | Some [] => match snd e with Dir => [] | n => [(node_kind n, SSelf)] end
    | Some [s] => [(node_kind (snd e), s)]
    | Some (s :: _ :: _) => [(KDir, s)]
    | None => []
    end) t.

(** recursive listing: leaves only, paths relative to [d] *)
Definition list_rec (d : path) (t : tree) : list (lkind * path) :=
  flat_map (fun e =>
    match strip d (fst e) with
    | Some [] => match snd e with Dir => [] | n => [(node_kind n, [])] end
    | Some r => [(node_kind (snd e), r)]
    | None => []
    end) t.

(** version numbers 1 .. head *)
Fixpoint vnums_from {A} (n : N) (l : list A) : list N :=
  match l with [] => [] | _ :: r => n :: vnums_from (N.succ n) r end.
Definition vnums (i : inventory) : list N := vnums_from 1 (inv_versions i).
Definition in_versions (i : inventory) (n : N) : bool := (1 <=? n) && (n <=? inv_head i).

(** state of version n (1-based) *)
Fixpoint nth_state {A} (l : list (list A)) (n : N) (cur : N) : list A :=
  match l with
  | [] => []
  | s :: r => if N.eqb n cur then s else nth_state r n (N.succ cur)
  end.
Definition get_version (i : inventory) (n : N) : list (N * lpath) := nth_state (inv_versions i) n 1.

Definition version_dir (i : inventory) (n : N) : path := [SVer (inv_pad i) n].
Definition content_root (i : inventory) (n : N) : path := [SVer (inv_pad i) n; SName (inv_cdir i)].

(** version a content path belongs to (ContentPath::try_from, types.rs:800-822) *)
Definition path_version (p : path) : option N :=
  match p with SVer _ n :: _ => Some n | _ => None end.

(** digest_for_content_path (inventory.rs:192) *)
Fixpoint mdigest (m : list (N * path)) (p : path) : option N :=
  match m with
  | [] => None
  | (d, q) :: r => if path_eqb q p then Some d else mdigest r p
  end.

(** Version::lookup_digest *)
Fixpoint sdigest (s : list (N * lpath)) (p : lpath) : option N :=
  match s with
  | [] => None
  | (d, q) :: r => if lpath_eqb q p then Some d else sdigest r p
  end.

Definition mem_path (p : path) (l : list path) : bool := existsb (path_eqb p) l.
Definition mem_lpath (p : lpath) (l : list lpath) : bool := existsb (lpath_eqb p) l.
Definition mem_N (x : N) (l : list N) : bool := existsb (N.eqb x) l.
Definition mem_alg (a : alg) (l : list alg) : bool := existsb (alg_eqb a) l.

Fixpoint assoc_alg {A} (a : alg) (l : list (alg * A)) : option A :=
  match l with
  | [] => None
  | (b, x) :: r => if alg_eqb a b then Some x else assoc_alg a r
  end.

(** ** the object as rocfl commits it *)

Section Written.
  Variable digest : alg -> token -> N.
  Variable parse_inv : token -> option inventory.
  Variable parse_sidecar : token -> option N.
  Variable parse_decl : token -> option spec_version.

  Fixpoint nodup_pathb (l : list path) : bool :=
    match l with [] => true | p :: r => negb (mem_path p r) && nodup_pathb r end.
  Fixpoint nodup_lpathb (l : list lpath) : bool :=
    match l with [] => true | p :: r => negb (mem_lpath p r) && nodup_lpathb r end.

  (** keys are distinct, non-empty, and no key is a prefix of another (entries are leaves) *)
  Fixpoint leavesb (t : tree) : bool :=
    match t with
    | [] => true
    | (q, _) :: r =>
        negb (nilb q)
        && forallb (fun e => negb (is_prefix q (fst e)) && negb (is_prefix (fst e) q)) r
        && leavesb r
    end.

  (** the inventory stored in version directory n: the root inventory for the head
      (rocfl copies the same staged file to both places, store/fs.rs) *)
  Definition vinv (t : tree) (root : inventory) (n : N) : option inventory :=
    if N.eqb n (inv_head root) then Some root
    else match file_tok (version_dir root n ++ [SInv]) t with
         | Some k => parse_inv k
         | None => None
         end.

  Definition pair_eqb (x y : N * path) : bool := N.eqb (fst x) (fst y) && path_eqb (snd x) (snd y).
  Definition mem_pair (x : N * path) (l : list (N * path)) : bool := existsb (pair_eqb x) l.
  Definition incl_pairs (a b : list (N * path)) : bool := forallb (fun x => mem_pair x b) a.

  Definition version_le (p : path) (n : N) : bool :=
    match path_version p with Some k => k <=? n | None => false end.

  Fixpoint firstn_N {A} (n : N) (cur : N) (l : list A) : list A :=
    (* the versions numbered cur, cur+1, ... that are <= n *)
    match l with
    | [] => []
    | x :: r => if cur <=? n then x :: firstn_N n (N.succ cur) r else []
    end.

  Definition state_eqb (a b : list (N * lpath)) : bool :=
    list_eqb (fun x y => N.eqb (fst x) (fst y) && lpath_eqb (snd x) (snd y)) a b.

  (** a version directory as rocfl leaves it *)
  Definition version_okb (t : tree) (root : inventory) (itok : token) (n : N) : bool :=
    let a := inv_alg root in
    let vd := version_dir root n in
    match file_tok (vd ++ [SInv]) t, file_tok (vd ++ [SSidecar a]) t with
    | Some k, Some sk =>
        opt_eqb N.eqb (parse_sidecar sk) (Some (digest a k))
        && (if N.eqb n (inv_head root) then N.eqb k itok
            else match parse_inv k with
                 | None => false
                 | Some i =>
                     N.eqb (inv_id i) (inv_id root)
                     && alg_eqb (inv_alg i) a
                     && N.eqb (inv_pad i) (inv_pad root)
                     && N.eqb (inv_cdir i) (inv_cdir root)
                     && list_eqb state_eqb (inv_versions i) (firstn_N n 1 (inv_versions root))
                     && incl_pairs (inv_manifest i) (filter (fun dp => version_le (snd dp) n) (inv_manifest root))
                     && incl_pairs (filter (fun dp => version_le (snd dp) n) (inv_manifest root)) (inv_manifest i)
                     && nilb (inv_fixity i)
                     && match vinv t root (N.succ n) with
                        | Some j => spec_leb (inv_spec i) (inv_spec j)     (* upgrades only go up *)
                        | None => false
                        end
                 end)
    | _, _ => false
    end.

  (** the only places where rocfl puts something: all of them regular files *)
  Definition allowed_entryb (root : inventory) (e : path * node) : bool :=
    match snd e with
    | File _ =>
        match fst e with
        | [SDecl v] => spec_eqb v (inv_spec root)
        | [SInv] => true
        | [SSidecar a] => alg_eqb a (inv_alg root)
        | [SVer w n; SInv] => N.eqb w (inv_pad root) && in_versions root n
        | [SVer w n; SSidecar a] => N.eqb w (inv_pad root) && in_versions root n && alg_eqb a (inv_alg root)
        | SVer w n :: SName c :: _ :: _ =>
            N.eqb w (inv_pad root) && in_versions root n && N.eqb c (inv_cdir root)
            && mem_path (fst e) (map snd (inv_manifest root))
        | _ => false
        end
    | _ => false        (* no empty directory, no symlink *)
    end.

  Definition manifest_entry_okb (t : tree) (root : inventory) (dp : N * path) : bool :=
    match snd dp with
    | SVer w n :: SName c :: _ :: _ =>
        N.eqb w (inv_pad root) && in_versions root n && N.eqb c (inv_cdir root)
        && match file_tok (snd dp) t with
           | Some k => N.eqb (digest (inv_alg root) k) (fst dp)
           | None => false
           end
    | _ => false
    end.

  (** every manifest digest is used by some state and every state digest is in the manifest *)
  Definition closedb (i : inventory) : bool :=
    forallb (fun dp => existsb (fun st => mem_N (fst dp) (map fst st)) (inv_versions i)) (inv_manifest i)
    && forallb (fun st => forallb (fun dl => mem_N (fst dl) (map fst (inv_manifest i))) st) (inv_versions i).

  Definition written_by_rocflb (t : tree) : bool :=
    leavesb t &&
    match file_tok [SInv] t with
    | None => false
    | Some itok =>
      match parse_inv itok with
      | None => false
      | Some root =>
          let a := inv_alg root in
          negb (nilb (inv_versions root))
          && match file_tok [SDecl (inv_spec root)] t with
             | Some dk => opt_eqb spec_eqb (parse_decl dk) (Some (inv_spec root))
             | None => false
             end
          && match file_tok [SSidecar a] t with
             | Some sk => opt_eqb N.eqb (parse_sidecar sk) (Some (digest a itok))
             | None => false
             end
          && forallb (allowed_entryb root) t
          && forallb (version_okb t root itok) (vnums root)
          && forallb (manifest_entry_okb t root) (inv_manifest root)
          && nodup_pathb (map snd (inv_manifest root))
          && forallb (fun st => nodup_lpathb (map snd st)) (inv_versions root)
          && closedb root
          && nilb (inv_fixity root)          (* rocfl never writes a fixity block *)
      end
    end.

  Definition written_by_rocfl (t : tree) : Prop := written_by_rocflb t = true.

  (** the root inventory of a tree, when it parses *)
  Definition root_inv (t : tree) : option inventory :=
    match file_tok [SInv] t with Some k => parse_inv k | None => None end.
End Written.
