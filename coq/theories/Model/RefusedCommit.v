(** A commit that the store refuses or that fails (repo.rs commit_inner + keep_staged_on_failure, since the
    repair of the former known finding failed-commit-dedup-persisted): the version stays staged.  commit_inner
    has de-duplicated the head by then (inventory.rs dedup_head); the staged files that were removed only because
    ANOTHER STAGED file has the same content are put back (inventory.rs undo_dedup + copy_staged_file) and the
    inventory is staged again.  What stays removed are the head content paths whose digest also has a content
    path in an earlier version: those staged files were never needed.

    Definitions only. *)
From Coq Require Import NArith Ascii.
From stdpp Require Import gmap.
From Rocfl Require Import Model.Inventory Model.InvSpec.

(** the staged inventory after a refused commit *)
Definition refused_commit (i : inventory) : inventory :=
  mkInv (i_prev i) (i_hstate i)
        (filter (fun kv : cpath * digest => negb (is_head_cp i (fst kv)) || negb (has_nonhead i (snd kv))) (i_manifest i)).

(** the life cycle of an object with refused commits: [ORefusedCommit] leaves the main object alone and the staged
    inventory as [refused_commit] says; a refusal that happens before the de-duplication (nothing staged, lock held)
    changes nothing and is the identity step of any history *)
Inductive oop_r :=
| OBase (o : oop)
| ORefusedCommit.

Definition ostep_r (s : ostate) (o : oop_r) : ostate :=
  match o with
  | OBase o => ostep s o
  | ORefusedCommit => match o_staged s with
                      | Some i => mkO (o_main s) (Some (refused_commit i))
                      | None => s
                      end
  end.
