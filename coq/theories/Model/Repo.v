(** A repository of several objects: object id -> life-cycle state (Model/InvSpec.v).
    Operations address one object; staging operations never touch the committed
    inventory; reads are functions of the committed inventory only. *)
From Coq Require Import NArith Ascii.
From stdpp Require Import gmap.
From Rocfl Require Import Model.Inventory Model.InvSpec.

Notation oid := (list ascii).
Notation repo := (gmap (list ascii) ostate).

Definition oget (r : repo) (x : oid) : ostate := default oinit (r !! x).

Definition rstep (r : repo) (xo : oid * oop) : repo :=
  <[fst xo := ostep (oget r (fst xo)) (snd xo)]> r.

(** the read API (ls, cat, log, diff, show, validate) is a function of the committed inventory *)
Definition read_listing (r : repo) (x : oid) (v : N) : option (gmap (list (list ascii)) N) :=
  match o_main (oget r x) with Some m => get_state m v | None => None end.
Definition read_candidates (r : repo) (x : oid) (v : N) (d : N) : list (N * list (list ascii)) :=
  match o_main (oget r x) with Some m => cpath_candidates m d v | None => [] end.

Definition is_staging_op (o : oop) : bool :=
  match o with ONew | OStage _ | OResetAll => true | OCommit _ | OPurge => false end.
