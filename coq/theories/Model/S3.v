(** Model of the S3 back end (src/ocfl/store/s3.rs, src/ocfl/paths.rs:113-141).
    Executable definitions only.

    Part A (C15): paths::join / join_with_trailing_slash, the byte slicing of
    S3Client::list_prefix (prefix_offset), the ListObjectsV2 paging loop against a model of
    the listing server (the stand-in vplib/s3stub.py), S3Storage::list, the InventoryIter scan,
    keys of a directory tree.
    Part B (C16): the request programs of write_new_object / write_new_version
    (upload_all_files_with_rollback, the reads of what a version commit replaces,
    install_inventory_in_root_with_rollback, do_with_rollback, the declaration swap of an
    upgrade, the undoing of a failed install) in a state + error monad with a fault oracle
    [fa : option N] = "the k-th mutating request of this commit fails and has no effect". *)
From Rocfl Require Export Base.Bytes.
From Rocfl Require Import Generated.Consts.
Open Scope N_scope.

(* ------------------------------------------------------------------ strings *)

Definition slash : ascii := "/"%char.
Definition is_slash (c : ascii) : bool := Ascii.eqb c slash.
Definition is_nil {A} (l : list A) : bool := match l with [] => true | _ => false end.

Fixpoint last_is_slash (s : bytes) : bool :=
  match s with
  | [] => false
  | [c] => is_slash c
  | _ :: s' => last_is_slash s'
  end.
Definition head_is_slash (s : bytes) : bool :=
  match s with c :: _ => is_slash c | [] => false end.

(** paths::join, paths.rs:114-129 *)
Definition join (part1 part2 : bytes) : bytes :=
  let joined := if last_is_slash part1 then removelast part1 else part1 in
  match part2 with
  | [] => joined
  | _ :: _ =>
      (if (negb (is_nil joined) || bytes_eqb part1 [slash]) && negb (head_is_slash part2)
       then joined ++ [slash] else joined) ++ part2
  end.

(** paths::join_with_trailing_slash, paths.rs:133-141 *)
Definition join_ts (part1 part2 : bytes) : bytes :=
  let joined := join part1 part2 in
  if negb (is_nil joined) && negb (last_is_slash joined) then joined ++ [slash] else joined.

(** a relative path as rocfl produces them (object roots of a layout, version names,
    WalkDir-relative file names): not empty, no slash at either end *)
Definition relb (s : bytes) : bool :=
  negb (is_nil s) && negb (head_is_slash s) && negb (last_is_slash s).
(** a stored repository prefix is usable by prefix_offset (s3.rs:832-836) iff it does not end
    with a slash; since commit 1405318 S3Client::new guarantees this (see [client_prefix]) *)
Definition pfx_ok (p : bytes) : bool := negb (last_is_slash p).

(** util::trim_trailing_slashes, util.rs:70-72: [path.trim_end_matches('/')] removes every
    trailing '/' (a string of slashes only becomes empty) *)
Fixpoint trim_trailing_slashes (s : bytes) : bytes :=
  match s with
  | [] => []
  | c :: r => match trim_trailing_slashes r with
              | [] => if is_slash c then [] else [c]
              | r' => c :: r'
              end
  end.

(** the repository prefix S3Client::new stores, s3.rs:793:
    [util::trim_trailing_slashes(prefix.unwrap_or_default())]; [raw] is the option value the
    caller gave ([None] = empty).  Everything below ([cprefix] arguments) works on the STORED
    prefix, as the methods of S3Client do ([self.prefix], s3.rs:813,832-836,866,895,925,945,975,1004).
    A leading slash is kept (nothing trims it): "/pre" stores keys "/pre/..." and lists
    "/pre/"; "/" alone becomes the empty prefix = the bucket root. *)
Definition client_prefix (raw : bytes) : bytes := trim_trailing_slashes raw.

(** historical note only: before commit 1405318 S3Client::new kept the raw value
    ([prefix.unwrap_or_default().to_owned()]); used by nothing but the lemma
    [prefix_trailing_slash_before_fix] in Proofs/S3Facts.v *)
Definition client_prefix_before_fix (raw : bytes) : bytes := raw.

(** Rust's [&s[off..]] on a String: panics when off is past the end or not on a UTF-8
    character boundary (a continuation byte 10xxxxxx follows) *)
Definition is_cont_byte (c : ascii) : bool := (128 <=? code c) && (code c <? 192).
Definition head_is_boundary (s : bytes) : bool :=
  match s with c :: _ => negb (is_cont_byte c) | [] => true end.
Definition slice_from (off : nat) (s : bytes) : res bytes :=
  if Nat.ltb (List.length s) off then Panic
  else let r := skipn off s in if head_is_boundary r then Ok r else Panic.
(** [&p[off..p.len() - 1]] (s3.rs:846-848) *)
Definition slice_dir (off : nat) (p : bytes) : res bytes :=
  match p with
  | [] => Panic                                   (* 0usize - 1 *)
  | _ => if is_cont_byte (last p "a"%char) then Panic else slice_from off (removelast p)
  end.

(* ------------------------------------------------------------------ the listing server *)

Inductive entry := EKey (k : bytes) | EPre (p : bytes).

(** the part of [s] up to and including the first '/', if there is one *)
Fixpoint upto_slash (s : bytes) : option bytes :=
  match s with
  | [] => None
  | c :: r => if is_slash c then Some [c]
              else match upto_slash r with Some x => Some (c :: x) | None => None end
  end.

(** ListObjectsV2 on one key: not under the prefix / a key / rolled up into a common prefix
    (delimiter "/" is the only one s3.rs uses: list_dir, s3.rs:801) *)
Definition classify (prefix : bytes) (delim : bool) (key : bytes) : option entry :=
  if starts_with prefix key then
    if delim then
      match upto_slash (skipn (List.length prefix) key) with
      | Some seg => Some (EPre (prefix ++ seg))
      | None => Some (EKey key)
      end
    else Some (EKey key)
  else None.

(** all entries of a listing in key order, each common prefix once *)
Fixpoint entries_of (seen : list bytes) (prefix : bytes) (delim : bool) (keys : list bytes) : list entry :=
  match keys with
  | [] => []
  | k :: ks =>
      match classify prefix delim k with
      | None => entries_of seen prefix delim ks
      | Some (EKey k') => EKey k' :: entries_of seen prefix delim ks
      | Some (EPre p) =>
          if existsb (bytes_eqb p) seen then entries_of seen prefix delim ks
          else EPre p :: entries_of (p :: seen) prefix delim ks
      end
  end.

Record page := mkPage { pg_entries : list entry; pg_truncated : bool; pg_next : nat }.

(** one ListObjectsV2 answer: at most [psize] entries from the continuation token (an offset,
    as in the stand-in) on; IsTruncated; NextContinuationToken *)
Definition tok_start (tok : option nat) : nat := match tok with Some t => t | None => O end.
Definition serve (psize : nat) (ents : list entry) (tok : option nat) : page :=
  let start := tok_start tok in
  mkPage (firstn psize (skipn start ents))
         (Nat.ltb (start + psize)%nat (List.length ents))
         (start + psize)%nat.

(* ------------------------------------------------------------------ S3Client::list_prefix *)

Definition prefix_offset (cprefix : bytes) : nat :=
  match cprefix with [] => O | _ => S (List.length cprefix) end.           (* s3.rs:832-836 *)

Fixpoint map_res {A B} (f : A -> res B) (l : list A) : res (list B) :=
  match l with
  | [] => Ok []
  | a :: r => match f a with
              | Ok x => match map_res f r with Ok xs => Ok (x :: xs) | Err => Err | Panic => Panic end
              | Err => Err
              | Panic => Panic
              end
  end.

Definition keys_of_entries (l : list entry) : list bytes :=
  flat_map (fun e => match e with EKey k => [k] | EPre _ => [] end) l.
Definition pres_of_entries (l : list entry) : list bytes :=
  flat_map (fun e => match e with EPre p => [p] | EKey _ => [] end) l.

(** s3.rs:838-850 on one answer: contents, then common prefixes *)
Definition process_page (off : nat) (ents : list entry) : res (list bytes * list bytes) :=
  match map_res (slice_from off) (keys_of_entries ents) with
  | Ok objs => match map_res (slice_dir off) (pres_of_entries ents) with
               | Ok dirs => Ok (objs, dirs)
               | Err => Err
               | Panic => Panic
               end
  | Err => Err
  | Panic => Panic
  end.

Definition res_app (acc : list bytes * list bytes) (r : res (list bytes * list bytes)) :=
  match r with
  | Ok (o, d) => Ok (fst acc ++ o, snd acc ++ d)
  | Err => Err
  | Panic => Panic
  end.

(** the loop of s3.rs:821-857; [None] = fuel exhausted (shown unreachable for psize >= 1) *)
Fixpoint list_loop (fuel psize : nat) (ents : list entry) (off : nat) (tok : option nat)
         (acc : list bytes * list bytes) : option (res (list bytes * list bytes)) :=
  match fuel with
  | O => None
  | S f =>
      let pg := serve psize ents tok in
      match res_app acc (process_page off (pg_entries pg)) with
      | Ok acc' => if pg_truncated pg then list_loop f psize ents off (Some (pg_next pg)) acc'
                   else Some (Ok acc')
      | Err => Some Err
      | Panic => Some Panic
      end
  end.

Definition request_prefix (cprefix path : bytes) : bytes := join_ts cprefix path.   (* s3.rs:813 *)

Definition list_paged (psize : nat) (keys : list bytes) (cprefix path : bytes) (delim : bool)
  : option (res (list bytes * list bytes)) :=
  let ents := entries_of [] (request_prefix cprefix path) delim keys in
  list_loop (S (List.length ents)) psize ents (prefix_offset cprefix) None ([], []).

(** the same listing answered in one page *)
Definition list_all (keys : list bytes) (cprefix path : bytes) (delim : bool)
  : res (list bytes * list bytes) :=
  process_page (prefix_offset cprefix) (entries_of [] (request_prefix cprefix path) delim keys).

(** continuation tokens the client sends for one listing (for the request-log comparison) *)
Fixpoint tokens_from (fuel psize start len : nat) : list nat :=
  match fuel with
  | O => []
  | S f => if Nat.ltb (start + psize)%nat len then (start + psize)%nat :: tokens_from f psize (start + psize)%nat len else []
  end.
Definition list_tokens (psize : nat) (keys : list bytes) (cprefix path : bytes) (delim : bool) : list nat :=
  let n := List.length (entries_of [] (request_prefix cprefix path) delim keys) in
  tokens_from (S n) psize O n.

(** S3Storage::list, s3.rs:1236-1267 (kind: false = file, true = directory) *)
Definition storage_list (keys : list bytes) (cprefix path : bytes) (recursive : bool)
  : res (list (bool * bytes)) :=
  let plen := if is_nil path || last_is_slash path then List.length path else S (List.length path) in
  match list_all keys cprefix path (negb recursive) with
  | Ok (objs, dirs) =>
      match map_res (slice_from plen) objs with
      | Ok fs =>
          if recursive then Ok (map (pair false) fs)
          else match map_res (slice_from plen) dirs with
               | Ok ds => Ok (map (pair false) fs ++ map (pair true) ds)
               | Err => Err | Panic => Panic
               end
      | Err => Err | Panic => Panic
      end
  | Err => Err
  | Panic => Panic
  end.

(** is_object_dir, s3.rs:1468-1475 *)
Definition is_object_dir (objects : list bytes) : bool :=
  existsb (fun o => ends_with K_OBJECT_NAMASTE_FILE_1_0 o || ends_with K_OBJECT_NAMASTE_FILE_1_1 o) objects.

Definition extensions_dir_suffix : bytes := slash :: K_EXTENSIONS_DIR.       (* s3.rs:51 *)

(** InventoryIter::next, s3.rs:1176-1218, run to exhaustion: the object roots found (in
    order) and the paths listed (in order).  [None] = fuel exhausted. *)
Fixpoint scan (fuel : nat) (keys : list bytes) (cprefix : bytes)
         (current : option (list bytes)) (stack : list (list bytes))
         (found listed : list bytes) : option (res (list bytes * list bytes)) :=
  match fuel with
  | O => None
  | S f =>
      match current with
      | None => match stack with
                | [] => Some (Ok (rev found, rev listed))
                | top :: rest => scan f keys cprefix (Some top) rest found listed
                end
      | Some [] => scan f keys cprefix None stack found listed
      | Some (e :: more) =>
          if ends_with extensions_dir_suffix e then scan f keys cprefix (Some more) stack found listed
          else match list_all keys cprefix e true with
               | Ok (objs, dirs) =>
                   if is_object_dir objs
                   then scan f keys cprefix (Some more) stack (e :: found) (e :: listed)
                   else scan f keys cprefix (Some dirs) (more :: stack) found (e :: listed)
               | Err => Some Err
               | Panic => Some Panic
               end
      end
  end.
Definition scan_roots (fuel : nat) (keys : list bytes) (cprefix : bytes) :=
  scan fuel keys cprefix (Some [[]]) [] [] [].

(* ------------------------------------------------------------------ trees and keys *)

(** a directory tree as WalkDir sees it: a file with a content token or a directory *)
Inductive tree :=
| TFile (content : bytes)
| TDir (children : list (bytes * tree)).

(** the files of a tree with their path segments (directories without files vanish) *)
Fixpoint flatten (t : tree) : list (list bytes * bytes) :=
  match t with
  | TFile c => [([], c)]
  | TDir cs =>
      (fix go (l : list (bytes * tree)) : list (list bytes * bytes) :=
         match l with
         | [] => []
         | (n, t') :: r => map (fun pc => (n :: fst pc, snd pc)) (flatten t') ++ go r
         end) cs
  end.

(** the keys under which the files of tree [t], rooted at storage path [at_path], are stored:
    one paths::join per directory level (upload_all_files_with_rollback joins the destination
    with the WalkDir-relative name, put_object_file joins the repository prefix, s3.rs:296,975) *)
Fixpoint keys_under (at_path : bytes) (t : tree) : list (bytes * bytes) :=
  match t with
  | TFile c => [(at_path, c)]
  | TDir cs =>
      (fix go (l : list (bytes * tree)) : list (bytes * bytes) :=
         match l with
         | [] => []
         | (n, t') :: r => keys_under (join at_path n) t' ++ go r
         end) cs
  end.
Definition keys_of_tree (cprefix : bytes) (t : tree) : list (bytes * bytes) :=
  map (fun kc => (join cprefix (fst kc), snd kc)) (keys_under [] t).

(** back: the path segments of a key, relative to the repository prefix *)
Fixpoint split_slash (cur : bytes) (s : bytes) : list bytes :=
  match s with
  | [] => [rev cur]
  | c :: r => if is_slash c then rev cur :: split_slash [] r else split_slash (c :: cur) r
  end.
Definition segments (s : bytes) : list bytes := split_slash [] s.
Definition path_of_key (cprefix key : bytes) : res (list bytes) :=
  match slice_from (prefix_offset cprefix) key with
  | Ok rel => Ok (segments rel)
  | Err => Err
  | Panic => Panic
  end.
Fixpoint concat_slash (segs : list bytes) : bytes :=
  match segs with
  | [] => []
  | [s] => s
  | s :: r => s ++ slash :: concat_slash r
  end.
(** a file or directory name: not empty, no slash, does not begin with a continuation byte *)
Definition nameb (s : bytes) : bool :=
  negb (is_nil s) && forallb (fun c => negb (is_slash c)) s && head_is_boundary s.
Fixpoint tree_wf (t : tree) : bool :=
  match t with
  | TFile _ => true
  | TDir cs =>
      (fix go (l : list (bytes * tree)) : bool :=
         match l with
         | [] => true
         | (n, t') :: r => nameb n && tree_wf t' && go r
         end) cs
  end.

(* ------------------------------------------------------------------ Part B: request programs *)

Definition bucket := list (bytes * bytes).          (* key -> content token *)
Fixpoint bk_remove (k : bytes) (bk : bucket) : bucket :=
  match bk with
  | [] => []
  | (k', v) :: r => if bytes_eqb k k' then bk_remove k r else (k', v) :: bk_remove k r
  end.
Definition bk_put (k v : bytes) (bk : bucket) : bucket := (k, v) :: bk_remove k bk.
Fixpoint bk_get (k : bytes) (bk : bucket) : option bytes :=
  match bk with
  | [] => None
  | (k', v) :: r => if bytes_eqb k k' then Some v else bk_get k r
  end.
Definition bk_keys (bk : bucket) : list bytes := map fst bk.

(** the requests of a commit: the mutating ones (numbered by the fault oracle [fa]) and the GETs by
    which write_new_version reads what it is about to replace (s3.rs:589-599; logged, numbered by
    the separate read oracle [fr] together with the find_files listing of an upgrade).  Listings
    are not logged. *)
Inductive req :=
| RPut (k : bytes)
| RDelete (k : bytes)
| RMpCreate (k : bytes)
| RMpPart (k : bytes) (n : N)
| RMpComplete (k : bytes)
| RMpAbort (k : bytes)
| RGet (k : bytes).

Record st := mkSt { st_b : bucket; st_n : N; st_log : list req }.

(** one mutating request: logged and counted; the request numbered [fa] fails without effect.
    The oracle names ONE request: a second failure in the same commit (e.g. of a request that
    puts something back during the rollback) is outside the single-failure model of C16; the
    rollback programs below nevertheless treat a failed request as the code does (logged by
    [error!], ignored). *)
Definition mreq (fa : option N) (r : req) (eff : bucket -> bucket) (s : st) : res unit * st :=
  let failed := match fa with Some k => st_n s =? k | None => false end in
  (if failed then Err else Ok tt,
   mkSt (if failed then st_b s else eff (st_b s)) (st_n s + 1) (st_log s ++ [r])).

Definition same (bk : bucket) : bucket := bk.

(** the read oracle: [fr = Some j] = the j-th read of the version commit (the GETs and the
    find_files listing between the emptiness test and the upload, numbered from 0 in program
    order) fails; C16 proper quantifies over the mutating requests ([fa]), the reads are added
    because /repo commit 862b96a makes them harmless: they all precede the first write *)
Definition read_fails (fr : option N) (rn : N) : bool :=
  match fr with Some j => j =? rn | None => false end.

(** S3Client::get_object, s3.rs:942-969: [Ok None] for NoSuchKey, [Err] when the request fails.
    A read: logged, not numbered by [fa]; [rn] is its number for the read oracle. *)
Definition get_object (fr : option N) (rn : N) (cprefix path : bytes) (s : st) : res (option bytes) * st :=
  let key := join cprefix path in
  let s' := mkSt (st_b s) (st_n s) (st_log s ++ [RGet key]) in
  if read_fails fr rn then (Err, s') else (Ok (bk_get key (st_b s)), s').

(** number of upload_part requests: reads of PART_SIZE bytes until end of file, s3.rs:1091-1150 *)
Definition n_parts (len : N) : N := (len + K_S3_PART_SIZE - 1) / K_S3_PART_SIZE.

Fixpoint mp_parts (fa : option N) (key : bytes) (i : N) (todo : nat) (s : st) : res unit * st :=
  match todo with
  | O => (Ok tt, s)
  | S t =>
      match mreq fa (RMpPart key i) same s with
      | (Ok _, s1) => mp_parts fa key (i + 1) t s1
      | (_, s1) => (Err, snd (mreq fa (RMpAbort key) same s1))         (* abort_multipart, s3.rs:1139-1142 *)
      end
  end.

(** multipart_put_file, s3.rs:1074-1168: a failed create or complete is returned as is (no abort) *)
Definition multipart_put (fa : option N) (key : bytes) (len : N) (tok : bytes) (s : st) : res unit * st :=
  match mreq fa (RMpCreate key) same s with
  | (Ok _, s1) =>
      match mp_parts fa key 1 (N.to_nat (n_parts len)) s1 with
      | (Ok _, s2) => mreq fa (RMpComplete key) (bk_put key tok) s2
      | (_, s2) => (Err, s2)
      end
  | (_, s1) => (Err, s1)
  end.

(** put_object_file, s3.rs:1041-1072 *)
Definition put_object_file (fa : option N) (cprefix path : bytes) (len : N) (tok : bytes) (s : st) : res unit * st :=
  let key := join cprefix path in
  if K_S3_PART_SIZE <? len then multipart_put fa key len tok s
  else mreq fa (RPut key) (bk_put key tok) s.

(** put_object_bytes, s3.rs:1016-1039 *)
Definition put_object_bytes (fa : option N) (cprefix path tok : bytes) (s : st) : res unit * st :=
  let key := join cprefix path in mreq fa (RPut key) (bk_put key tok) s.

(** delete_object, s3.rs:1001-1014 *)
Definition delete_object (fa : option N) (cprefix path : bytes) (s : st) : res unit * st :=
  let key := join cprefix path in mreq fa (RDelete key) (bk_remove key) s.

Record ufile := mkUf { uf_rel : bytes; uf_len : N; uf_tok : bytes }.

(** the sort key of upload_all_files_with_rollback, s3.rs:294-300 (/repo commit 4953bf6): the
    name relative to the uploaded directory is INVENTORY_FILE -> 1, begins with
    INVENTORY_SIDECAR_PREFIX -> 2, anything else (every name with a directory part) -> 0 *)
Definition upload_rank (rel : bytes) : N :=
  if bytes_eqb rel K_INVENTORY_FILE then 1
  else if starts_with K_INVENTORY_SIDECAR_PREFIX rel then 2 else 0.
Definition rank_is (n : N) (f : ufile) : bool := upload_rank (uf_rel f) =? n.

(** [files.sort_by_key] (stable) on a key with three values: the files of rank 0 in walk order,
    then those of rank 1, then those of rank 2.  For a new object the last two are the root
    inventory and its sidecar, for a version directory the version inventory and its sidecar. *)
Definition upload_order (files : list ufile) : list ufile :=
  filter (rank_is 0) files ++ filter (rank_is 1) files ++ filter (rank_is 2) files.

(** the upload loop of upload_all_files_with_rollback, s3.rs:302-315, over the sorted files *)
Fixpoint upload_loop (fa : option N) (cprefix dst : bytes) (files : list ufile) (done : list bytes) (s : st)
  : (res unit * list bytes) * st :=
  match files with
  | [] => ((Ok tt, done), s)
  | f :: fs =>
      let sp := join dst (uf_rel f) in
      match put_object_file fa cprefix sp (uf_len f) (uf_tok f) s with
      | (Ok _, s1) => upload_loop fa cprefix dst fs (done ++ [sp]) s1
      | (_, s1) => ((Err, done), s1)
      end
  end.

(** the rollback of do_with_rollback, s3.rs:354-358: failures of the deletes are only logged *)
Fixpoint rollback (fa : option N) (cprefix : bytes) (done : list bytes) (s : st) : st :=
  match done with
  | [] => s
  | p :: r => rollback fa cprefix r (snd (delete_object fa cprefix p s))
  end.

(** do_with_rollback, s3.rs:348-363 *)
Definition do_with_rollback (fa : option N) (cprefix : bytes)
           (body : list bytes -> st -> (res unit * list bytes) * st) (done : list bytes) (s : st)
  : res (list bytes) * st :=
  match body done s with
  | ((Ok _, d), s1) => (Ok d, s1)
  | ((_, d), s1) => (Err, rollback fa cprefix d s1)
  end.

(** upload_all_files_with_rollback, s3.rs:276-318; [files] = the WalkDir sequence of the
    regular files of the source directory (s3.rs:284-289) *)
Definition upload_all (fa : option N) (cprefix dst : bytes) (files : list ufile) (s : st) :=
  do_with_rollback fa cprefix (upload_loop fa cprefix dst (upload_order files)) [] s.

(** the closure of install_inventory_in_root_with_rollback, s3.rs:337-343 (/repo commit
    9053efb): the two keys written here replace the root inventory pair of the previous
    version and are NOT recorded in [done] - do_with_rollback must not delete them, the
    caller puts the previous contents back *)
Definition install_body (fa : option N) (cprefix inv_dst sc_dst : bytes) (inv sc : ufile)
           (done : list bytes) (s : st) : (res unit * list bytes) * st :=
  match put_object_file fa cprefix inv_dst (uf_len inv) (uf_tok inv) s with
  | (Ok _, s1) =>
      match put_object_file fa cprefix sc_dst (uf_len sc) (uf_tok sc) s1 with
      | (Ok _, s2) => ((Ok tt, done), s2)
      | (_, s2) => ((Err, done), s2)
      end
  | (_, s1) => ((Err, done), s1)
  end.

Definition listing_empty (r : res (list bytes * list bytes)) : res bool :=
  match r with
  | Ok (o, d) => Ok (is_nil o && is_nil d)
  | Err => Err
  | Panic => Panic
  end.

(** what a commit of a new version hands to the store *)
Record nv_input := mkNv {
  nv_root : bytes;             (* existing_inventory.object_root *)
  nv_vstr : bytes;             (* inventory.head.to_string() *)
  nv_files : list ufile;       (* WalkDir of the staged version directory (its inventory and sidecar included) *)
  nv_inv : ufile;              (* staged vN/inventory.json; uf_rel = INVENTORY_FILE *)
  nv_sidecar : ufile;          (* staged vN/inventory.json.<alg>; uf_rel = its file name *)
  nv_old_sidecar : bytes;      (* paths::sidecar_name(existing_inventory.digest_algorithm), s3.rs:587-590; rocfl never
                                  changes the digest algorithm of an object (it is set by create_object only,
                                  repo.rs:616), so this is the name of nv_sidecar *)
  nv_upgrade : option (bytes * bytes)   (* Some (new declaration file name, content) iff the type declaration changed *)
}.

(** find_files, s3.rs:396-405 *)
Definition find_files (keys : list bytes) (cprefix dir name_prefix : bytes) : res (list bytes) :=
  let p := join dir name_prefix in
  match list_all keys cprefix dir true with
  | Ok (objs, _) =>
      Ok (filter (fun e => Nat.ltb (List.length p) (List.length e) && starts_with p e) objs)
  | Err => Err
  | Panic => Panic
  end.

Fixpoint delete_each (fa : option N) (cprefix : bytes) (paths : list bytes) (s : st) : res unit * st :=
  match paths with
  | [] => (Ok tt, s)
  | p :: r => match delete_object fa cprefix p s with
              | (Ok _, s1) => delete_each fa cprefix r s1
              | (_, s1) => (Err, s1)
              end
  end.

(** s3.rs:597-600: the old declaration files are read, in listing order; the first failure ends it *)
Fixpoint get_each (fr : option N) (rn : N) (cprefix : bytes) (paths : list bytes) (s : st)
  : res (list (bytes * option bytes)) * st :=
  match paths with
  | [] => (Ok [], s)
  | p :: r =>
      match get_object fr rn cprefix p s with
      | (Ok c, s1) =>
          match get_each fr (rn + 1) cprefix r s1 with
          | (Ok l, s2) => (Ok ((p, c) :: l), s2)
          | (_, s2) => (Err, s2)
          end
      | (_, s1) => (Err, s1)
      end
  end.

(** the path of the new declaration, s3.rs:601-604 *)
Definition new_namaste (root : bytes) (up : option (bytes * bytes)) : option bytes :=
  match up with Some (name, _) => Some (join root name) | None => None end.
Definition is_path (p : bytes) (o : option bytes) : bool :=
  match o with Some q => bytes_eqb p q | None => false end.

(** the closure [install], s3.rs:608-626: the root inventory, its sidecar, and on an upgrade the
    new declaration (write_object_namaste, s3.rs:365-373), then the DELETE of every old
    declaration that is not the new one; the first failure ends it *)
Definition install_version (fa : option N) (cprefix : bytes) (i : nv_input) (olds : list bytes) (s : st)
  : res unit * st :=
  let inv_dst := join (nv_root i) K_INVENTORY_FILE in
  let sc_dst := join (nv_root i) (uf_rel (nv_sidecar i)) in
  match do_with_rollback fa cprefix (install_body fa cprefix inv_dst sc_dst (nv_inv i) (nv_sidecar i)) [] s with
  | (Ok _, s1) =>
      match nv_upgrade i with
      | None => (Ok tt, s1)
      | Some (name, content) =>
          match put_object_bytes fa cprefix (join (nv_root i) name) content s1 with
          | (Ok _, s2) =>
              delete_each fa cprefix
                (filter (fun o => negb (is_path o (new_namaste (nv_root i) (nv_upgrade i)))) olds) s2
          | (_, s2) => (Err, s2)
          end
      end
  | (_, s1) => (Err, s1)
  end.

(** [restore], s3.rs:629-638: what had been read is PUT back (put_object_bytes: one PUT whatever
    the size); a key that did not exist is left alone; a failure is only logged *)
Definition restore_object (fa : option N) (cprefix path : bytes) (content : option bytes) (s : st) : st :=
  match content with
  | Some c => snd (put_object_bytes fa cprefix path c s)
  | None => s
  end.
Fixpoint restore_each (fa : option N) (cprefix : bytes) (prev : list (bytes * option bytes)) (s : st) : st :=
  match prev with
  | [] => s
  | (p, c) :: r => restore_each fa cprefix r (restore_object fa cprefix p c s)
  end.

(** the error branch of write_new_version, s3.rs:628-660 (/repo commit 9053efb): DELETE the new
    declaration unless it replaced one of the same name, PUT back the old declarations, the
    previous root inventory and the previous root sidecar, DELETE the uploaded version files *)
Definition undo_install (fa : option N) (cprefix : bytes) (i : nv_input) (olds : list bytes)
           (prev_namastes : list (bytes * option bytes)) (prev_inv prev_sc : option bytes)
           (uploaded : list bytes) (s : st) : st :=
  let s1 := match new_namaste (nv_root i) (nv_upgrade i) with
            | Some nn => if existsb (bytes_eqb nn) olds then s else snd (delete_object fa cprefix nn s)
            | None => s
            end in
  let s2 := restore_each fa cprefix prev_namastes s1 in
  let s3 := restore_object fa cprefix (join (nv_root i) K_INVENTORY_FILE) prev_inv s2 in
  let s4 := restore_object fa cprefix (join (nv_root i) (nv_old_sidecar i)) prev_sc s3 in
  rollback fa cprefix uploaded s4.

(** write_new_version once what will be replaced has been read, s3.rs:606-664 (upload at s3.rs:606): the upload of the
    version directory (its own inventory and sidecar last; a failure deletes what was uploaded
    and returns, nothing has been replaced yet), the install, and its undoing when it fails *)
Definition commit_version (fa : option N) (cprefix : bytes) (i : nv_input) (olds : list bytes)
           (prev_namastes : list (bytes * option bytes)) (prev_inv prev_sc : option bytes) (s4 : st)
  : res unit * st :=
  match upload_all fa cprefix (join (nv_root i) (nv_vstr i)) (nv_files i) s4 with
  | (Ok uploaded, s5) =>
      match install_version fa cprefix i olds s5 with
      | (Ok _, s6) => (Ok tt, s6)
      | (_, s6) => (Err, undo_install fa cprefix i olds prev_namastes prev_inv prev_sc uploaded s6)
      end
  | (_, s5) => (Err, s5)
  end.

(** write_new_version, s3.rs:547-665 (/repo commits 9053efb, 862b96a), from the emptiness test of
    the version prefix on (the head comparison before it reads only): the reads of what will be
    replaced (s3.rs:589-599: root inventory = read 0, root sidecar = read 1, on an upgrade the
    find_files listing = read 2 and the old declarations = reads 3...), all BEFORE anything is
    written: a failing read returns with nothing left behind; then [commit_version] *)
Definition write_new_version (fa fr : option N) (cprefix : bytes) (i : nv_input) (s : st) : res unit * st :=
  let vdst := join (nv_root i) (nv_vstr i) in
  match listing_empty (list_all (bk_keys (st_b s)) cprefix vdst true) with
  | Ok true =>
      match get_object fr 0 cprefix (join (nv_root i) K_INVENTORY_FILE) s with
      | (Ok prev_inv, s2) =>
          match get_object fr 1 cprefix (join (nv_root i) (nv_old_sidecar i)) s2 with
          | (Ok prev_sc, s3) =>
              match (match nv_upgrade i with
                     | Some _ => if read_fails fr 2 then Err
                                 else find_files (bk_keys (st_b s3)) cprefix (nv_root i) K_OBJECT_NAMASTE_FILE_PREFIX
                     | None => Ok []
                     end) with
              | Ok olds =>
                  match get_each fr 3 cprefix olds s3 with
                  | (Ok prev_namastes, s4) => commit_version fa cprefix i olds prev_namastes prev_inv prev_sc s4
                  | (_, s4) => (Err, s4)
                  end
              | Err => (Err, s3)
              | Panic => (Panic, s3)
              end
          | (_, s3) => (Err, s3)
          end
      | (_, s2) => (Err, s2)
      end
  | Ok false => (Err, s)
  | Err => (Err, s)
  | Panic => (Panic, s)
  end.

(** write_new_object, s3.rs:499-540, from the "existing files" test on: the whole staged object
    directory, its root inventory and then its root sidecar last (upload_order) *)
Definition write_new_object (fa : option N) (cprefix root : bytes) (files : list ufile) (s : st) : res unit * st :=
  match listing_empty (list_all (bk_keys (st_b s)) cprefix root true) with
  | Ok true =>
      match upload_all fa cprefix root files s with
      | (Ok _, s1) => (Ok tt, s1)
      | (_, s1) => (Err, s1)
      end
  | Ok false => (Err, s)
  | Err => (Err, s)
  | Panic => (Panic, s)
  end.

(** number of mutating requests a successful put_object_file issues *)
Definition put_cost (len : N) : N := if K_S3_PART_SIZE <? len then n_parts len + 2 else 1.
Definition upload_cost (files : list ufile) : N := fold_right (fun f a => put_cost (uf_len f) + a) 0 files.

(** the requests of a successful put_object_file *)
Fixpoint part_reqs (key : bytes) (i : N) (todo : nat) : list req :=
  match todo with O => [] | S t => RMpPart key i :: part_reqs key (i + 1) t end.
Definition put_reqs (key : bytes) (len : N) : list req :=
  if K_S3_PART_SIZE <? len
  then RMpCreate key :: part_reqs key 1 (N.to_nat (n_parts len)) ++ [RMpComplete key]
  else [RPut key].

Definition req_key (r : req) : bytes :=
  match r with
  | RPut k | RDelete k | RMpCreate k | RMpPart k _ | RMpComplete k | RMpAbort k | RGet k => k
  end.
(** the request that makes a key visible *)
Definition stores_key (r : req) : option bytes :=
  match r with RPut k | RMpComplete k => Some k | _ => None end.
Definition is_get (r : req) : bool := match r with RGet _ => true | _ => false end.

Definition init_st (bk : bucket) : st := mkSt bk 0 [].

(* ---- historical note only: the commit programs BEFORE /repo commits 4953bf6 and 9053efb, used by
   nothing but the lemmas [..._before_fix] in Proofs/S3CommitFacts.v (they show that the old
   behaviour violated C16).  Uploads in plain walk order; the root inventory key recorded in
   [done], so that a failed sidecar PUT made do_with_rollback delete it; declaration swap
   without any rollback. *)
Definition upload_all_before_fix (fa : option N) (cprefix dst : bytes) (files : list ufile) (s : st) :=
  do_with_rollback fa cprefix (upload_loop fa cprefix dst files) [] s.
Definition install_body_before_fix (fa : option N) (cprefix inv_dst sc_dst : bytes) (inv sc : ufile)
           (done : list bytes) (s : st) : (res unit * list bytes) * st :=
  match put_object_file fa cprefix inv_dst (uf_len inv) (uf_tok inv) s with
  | (Ok _, s1) =>
      let done1 := done ++ [inv_dst] in
      match put_object_file fa cprefix sc_dst (uf_len sc) (uf_tok sc) s1 with
      | (Ok _, s2) => ((Ok tt, done1), s2)
      | (_, s2) => ((Err, done1), s2)
      end
  | (_, s1) => ((Err, done), s1)
  end.
Definition swap_declaration_before_fix (fa : option N) (cprefix root : bytes) (up : option (bytes * bytes)) (s : st)
  : res unit * st :=
  match up with
  | None => (Ok tt, s)
  | Some (name, content) =>
      match find_files (bk_keys (st_b s)) cprefix root K_OBJECT_NAMASTE_FILE_PREFIX with
      | Ok olds =>
          match put_object_bytes fa cprefix (join root name) content s with
          | (Ok _, s1) => delete_each fa cprefix olds s1
          | (_, s1) => (Err, s1)
          end
      | Err => (Err, s)
      | Panic => (Panic, s)
      end
  end.
Definition write_new_version_before_fix (fa : option N) (cprefix : bytes) (i : nv_input) (s : st) : res unit * st :=
  let vdst := join (nv_root i) (nv_vstr i) in
  match listing_empty (list_all (bk_keys (st_b s)) cprefix vdst true) with
  | Ok true =>
      match upload_all_before_fix fa cprefix vdst (nv_files i) s with
      | (Ok uploaded, s1) =>
          let inv_dst := join (nv_root i) K_INVENTORY_FILE in
          let sc_dst := join (nv_root i) (uf_rel (nv_sidecar i)) in
          match do_with_rollback fa cprefix
                  (install_body_before_fix fa cprefix inv_dst sc_dst (nv_inv i) (nv_sidecar i)) uploaded s1 with
          | (Ok _, s2) => swap_declaration_before_fix fa cprefix (nv_root i) (nv_upgrade i) s2
          | (_, s2) => (Err, s2)
          end
      | (_, s1) => (Err, s1)
      end
  | Ok false => (Err, s)
  | Err => (Err, s)
  | Panic => (Panic, s)
  end.
Definition write_new_object_before_fix (fa : option N) (cprefix root : bytes) (files : list ufile) (s : st) : res unit * st :=
  match listing_empty (list_all (bk_keys (st_b s)) cprefix root true) with
  | Ok true =>
      match upload_all_before_fix fa cprefix root files s with
      | (Ok _, s1) => (Ok tt, s1)
      | (_, s1) => (Err, s1)
      end
  | Ok false => (Err, s)
  | Err => (Err, s)
  | Panic => (Panic, s)
  end.

(* ------------------------------------------------------------------ C15: purge_object *)

(** the loop of purge_object, s3.rs:622-633, over the keys list_objects returned: a failed
    delete is logged and remembered, the loop goes on *)
Fixpoint purge_loop (fa : option N) (cprefix : bytes) (files : list bytes) (failed : bool) (s : st) : bool * st :=
  match files with
  | [] => (failed, s)
  | f :: r => match delete_object fa cprefix f s with
              | (Ok _, s1) => purge_loop fa cprefix r failed s1
              | (_, s1) => purge_loop fa cprefix r true s1
              end
  end.

(** the deletion part of S3OcflStore::purge_object, s3.rs:618-646: everything the recursive
    listing [list_objects(object_root)] (s3.rs:622, 806-808: list_prefix without delimiter)
    returns is deleted *)
Definition purge_delete (fa : option N) (cprefix root : bytes) (s : st) : res unit * st :=
  match list_all (bk_keys (st_b s)) cprefix root false with
  | Ok (objs, _) =>
      let (failed, s') := purge_loop fa cprefix objs false s in
      (if failed then Err else Ok tt, s')
  | Err => (Err, s)
  | Panic => (Panic, s)
  end.

(* ------------------------------------------------------------------ C15: the root of a new object *)

(** S3OcflStore::validate_object_root, s3.rs:242-274 (/repo commits 1c63a11, 900305c), called by
    write_new_object (s3.rs:505) before the "existing files" test and by purge_object (s3.rs:605): [object_root.split('/')] =
    [segments]; an empty, "." or ".." part is refused; a first part `extensions` is refused; for
    every proper ancestor (the parts joined so far) the delimited listing must not show an
    object declaration (is_object_dir, s3.rs:1468-1475) *)
Fixpoint validate_parts (keys : list bytes) (cprefix current : bytes) (first : bool) (parts : list bytes) : res unit :=
  match parts with
  | [] => Ok tt
  | part :: rest =>
      if is_nil part || bytes_eqb part (b ".") || bytes_eqb part (b "..") then Err
      else if first && bytes_eqb part K_EXTENSIONS_DIR then Err
      else
        let cur := join current part in
        match rest with
        | [] => Ok tt
        | _ :: _ =>
            match list_all keys cprefix cur true with
            | Ok (objs, _) => if is_object_dir objs then Err else validate_parts keys cprefix cur false rest
            | Err => Err
            | Panic => Panic
            end
        end
  end.
Definition s3_validate_object_root (keys : list bytes) (cprefix root : bytes) : res unit :=
  validate_parts keys cprefix [] true (segments root).

(* ------------------------------------------------------------------ C15: purge_object with its guards *)

(** util::trim_leading_slashes / trim_slashes, util.rs:75-82 (applied to an explicitly given object root only,
    s3.rs:495; layout-mapped roots get [trim_trailing_slashes], s3.rs:492, 599) *)
Fixpoint trim_leading_slashes (s : bytes) : bytes :=
  match s with
  | c :: r => if is_slash c then trim_leading_slashes r else s
  | [] => []
  end.
Definition trim_slashes (s : bytes) : bytes := trim_trailing_slashes (trim_leading_slashes s).

Definition mutable_head_inventory_file : bytes := K_MUTABLE_HEAD_EXT_DIR ++ b "/head/inventory.json".   (* consts.rs:43 *)

(** [self.parse_inventory(object_root)] reduced to the id it yields, s3.rs:191-238: the mutable
    HEAD inventory if that key exists, else <root>/inventory.json; [inv_id] maps a stored
    content to the id an inventory with that content names ([None]: it does not parse, which
    makes parse_inventory an Err, i.e. not [Ok(Some(_))]) *)
Definition stored_inventory_id (inv_id : bytes -> option bytes) (bk : bucket) (cprefix root : bytes) : option bytes :=
  match bk_get (join cprefix (join root mutable_head_inventory_file)) bk with
  | Some tok => inv_id tok
  | None => match bk_get (join cprefix (join root K_INVENTORY_FILE)) bk with
            | Some tok => inv_id tok
            | None => None
            end
  end.

(** S3OcflStore::purge_object, s3.rs:593-646 (/repo commits 900305c, 2517003), from the looked-up root
    [mapped] on (layout mapping / cache / scan read only; NotFound returns Ok before):
    trailing slashes of the root are trimmed (s3.rs:599, /repo commit 2517003: a leading slash stays and
    fails the validation) and it is validated (s3.rs:605); a root that is an object
    directory whose inventory names ANOTHER id is left alone (s3.rs:607-612); a root that is no
    object directory but has an object declaration somewhere below it is left alone
    (s3.rs:613-616); otherwise everything below the root is deleted *)
Definition purge_object (inv_id : bytes -> option bytes) (fa : option N) (cprefix oid mapped : bytes) (s : st)
  : res unit * st :=
  let root := trim_trailing_slashes mapped in
  let keys := bk_keys (st_b s) in
  match s3_validate_object_root keys cprefix root with
  | Ok _ =>
      match list_all keys cprefix root true with
      | Ok (objs, _) =>
          if is_object_dir objs then
            match stored_inventory_id inv_id (st_b s) cprefix root with
            | Some id' => if bytes_eqb id' oid then purge_delete fa cprefix root s else (Ok tt, s)
            | None => purge_delete fa cprefix root s
            end
          else
            match list_all keys cprefix root false with
            | Ok (below, _) => if is_object_dir below then (Ok tt, s) else purge_delete fa cprefix root s
            | Err => (Err, s)
            | Panic => (Panic, s)
            end
      | Err => (Err, s)
      | Panic => (Panic, s)
      end
  | Err => (Err, s)
  | Panic => (Panic, s)
  end.
