(** Model of the staging commands of repo.rs at the level of the library API:
    destination rules of external and internal cp/mv (operate_on_external_source
    repo.rs:1098-1210, resolve_internal_moves repo.rs:1262-1365), rm (751-790),
    reset (807-883), glob resolution (inventory.rs:715-793), LogicalPath::try_from
    (types.rs:765-788).  Each command is reduced to the resolved operations
    [sop] of Model/InvSpec.v whose algebra is proved in Proofs/InventoryFacts.v. *)
From Coq Require Import NArith Ascii.
From stdpp Require Import gmap.
From Rocfl Require Import Model.Inventory Model.InvSpec.

Definition slash : ascii := "/"%char.
Definition is_slash (c : ascii) : bool := bool_decide (c = slash).

(** * Strings <-> segment lists *)
Fixpoint drop_slashes (s : list ascii) : list ascii :=
  match s with c :: s' => if is_slash c then drop_slashes s' else s | [] => [] end.
Definition trim_slashes (s : list ascii) : list ascii := rev (drop_slashes (rev (drop_slashes s))).

(** str::split('/') : "" -> [""] *)
Fixpoint split_slash_acc (cur : list ascii) (s : list ascii) : list (list ascii) :=
  match s with
  | [] => [rev cur]
  | c :: s' => if is_slash c then rev cur :: split_slash_acc [] s' else split_slash_acc (c :: cur) s'
  end.
Definition split_slash (s : list ascii) : list (list ascii) := split_slash_acc [] s.

Definition dot : list ascii := ["."%char].
Definition dotdot : list ascii := ["."%char; "."%char].

(** InventoryPathInner::try_from, types.rs:765-788 *)
Definition parse_lpath (s : list ascii) : option lpath :=
  let t := trim_slashes s in
  match t with
  | [] => Some []
  | _ => let parts := split_slash t in
         if existsb (fun p => bool_decide (p = dot) || bool_decide (p = dotdot) || bool_decide (p = [])) parts
         then None else Some parts
  end.

Fixpoint flat (p : lpath) : list ascii :=
  match p with
  | [] => []
  | [x] => x
  | x :: p' => x ++ slash :: flat p'
  end.

Definition ends_with_slash (s : list ascii) : bool :=
  match rev s with c :: _ => is_slash c | [] => false end.

(** * Glob matching: the subset literal / '*' / '?' of globset with
    literal_separator(true) (wildcards never match '/') *)
Fixpoint gmatch (pat : list ascii) : list ascii → bool :=
  match pat with
  | [] => fun s => match s with [] => true | _ => false end
  | pc :: pat' =>
      if bool_decide (pc = "*"%char) then
        fix star (s : list ascii) : bool :=
          gmatch pat' s ||
          match s with
          | c :: s' => negb (is_slash c) && star s'
          | [] => false
          end
      else if bool_decide (pc = "?"%char) then
        fun s => match s with c :: s' => negb (is_slash c) && gmatch pat' s' | [] => false end
      else
        fun s => match s with c :: s' => bool_decide (c = pc) && gmatch pat' s' | [] => false end
  end.

Definition state_paths (st : state) : list lpath := map fst (map_to_list st).

(** all logical directories of a state incl. the root (get_logical_dirs, inventory.rs:887-899) *)
Definition logical_dirs (st : state) : list lpath :=
  remove_dups ([] :: concat (map ancestors (state_paths st))).

(** paths_with_prefix(dir), inventory.rs:777-793 *)
Definition paths_with_prefix (st : state) (dir : lpath) : list lpath :=
  filter (fun q => pprefixb dir q) (state_paths st).

Definition norm_glob (g : list ascii) : list ascii := drop_slashes g.

(** resolve_glob, inventory.rs:716-752 *)
Definition resolve_glob (st : state) (g : list ascii) (recursive : bool) : list lpath :=
  let g0 := norm_glob g in
  let g1 := match g0 with [] => ["*"%char] | _ => g0 end in
  let ts := ends_with_slash g1 in
  let files := filter (fun q => gmatch g1 (flat q)) (state_paths st) in
  let rec_files :=
    if recursive then
      concat (map (fun dir =>
        if (ts && gmatch g1 (flat dir ++ [slash])) || (negb ts && gmatch g1 (flat dir))
        then paths_with_prefix st dir else []) (logical_dirs st))
    else [] in
  remove_dups (files ++ rec_files).

(** resolve_glob_to_dirs, inventory.rs:755-774 *)
Definition resolve_glob_to_dirs (st : state) (g : list ascii) : list lpath :=
  filter (fun dir => gmatch (norm_glob g) (flat dir)) (logical_dirs st).

(** * Result classes of a library call *)
Inductive rclass := ROk | RPartial | RErr.   (* Ok / CopyMoveError / any other Err *)

Definition rclass_eqb (a c : rclass) : bool :=
  match a, c with ROk, ROk | RPartial, RPartial | RErr, RErr => true | _, _ => false end.

(** * External copy / move *)
Inductive esrc :=
| EFile (name : seg) (d : digest)
| EDir (name : seg) (files : list (lpath * digest))
| EMissing.

Definition try_add (d : digest) (p : lpath) (acc : inventory * nat) : inventory * nat :=
  match add_file_to_head d p (fst acc) with
  | Some i' => (i', snd acc)
  | None => (fst acc, S (snd acc))
  end.

Definition ext_apply (srcs : list esrc) (dst : list ascii) (recursive : bool) (i : inventory)
  : inventory * rclass :=
  match parse_lpath dst with
  | None => (i, RErr)
  | Some dsegs =>
      let D := is_dirb (i_hstate i) dsegs in
      let N := (1 <? length srcs)%nat in
      let T := ends_with_slash dst in
      let step (acc : inventory * nat) (s : esrc) : inventory * nat :=
        match s with
        | EMissing => (fst acc, S (snd acc))
        | EFile n d => try_add d (if D || N || T then dsegs ++ [n] else dsegs) acc
        | EDir n files =>
            if recursive then
              foldl (fun a fd => try_add (snd fd)
                       (if D || N then dsegs ++ n :: fst fd else dsegs ++ fst fd) a) acc files
            else (fst acc, S (snd acc))
        end in
      let r := foldl step (i, O) srcs in
      (fst r, match snd r with O => ROk | _ => RPartial end)
  end.

(** * Internal copy / move: resolve_internal_moves.  The result map is built by
    hash-set iteration; we build it in canonical order and flag the cases where
    an insertion overrides a different destination (order sensitive). *)
Definition parent (p : lpath) : lpath := removelast p.

Record resolved := mkRes { r_pairs : gmap lpath lpath; r_errors : nat; r_ambiguous : bool }.

Definition res_insert (src dst : lpath) (r : resolved) : resolved :=
  match r_pairs r !! src with
  | Some old => mkRes (<[src := dst]> (r_pairs r)) (r_errors r)
                      (r_ambiguous r || negb (bool_decide (old = dst)))
  | None => mkRes (<[src := dst]> (r_pairs r)) (r_errors r) (r_ambiguous r)
  end.

Definition filename (p : lpath) : lpath := match rev p with x :: _ => [x] | [] => [] end.

Definition resolve_internal (stv : state) (hst : state) (srcs : list (list ascii)) (dst : list ascii)
  (recursive : bool) : option resolved :=
  match parse_lpath dst with
  | None => None
  | Some dsegs =>
      let D := is_dirb hst dsegs in
      let N := (1 <? length srcs)%nat in
      let T := ends_with_slash dst in
      Some (foldl (fun (r : resolved) (g : list ascii) =>
        let files := resolve_glob stv g false in
        let many_files := (1 <? length files)%nat in
        let dirs := if recursive then resolve_glob_to_dirs stv g else [] in
        let many_dirs := (1 <? length dirs)%nat in
        let r1 := foldl (fun (r : resolved) (dir : lpath) =>
                    let children := paths_with_prefix stv dir in
                    let many_children := (1 <? length children)%nat in
                    foldl (fun (r : resolved) (file : lpath) =>
                      let base := if D || N || many_children || many_dirs || negb (bool_decide (files = []))
                                  then parent dir else dir in
                      res_insert file (dsegs ++ drop (length base) file) r) r children) r dirs in
        let r2 := foldl (fun (r : resolved) (file : lpath) =>
                    let lp := if D || N || T || many_files || negb (bool_decide (r_pairs r = ∅))
                              then dsegs ++ filename file else dsegs in
                    res_insert file lp r) r1 files in
        let has_matches := negb (bool_decide (files = [])) ||
                           existsb (fun dir => negb (bool_decide (paths_with_prefix stv dir = []))) dirs in
        if has_matches then r2 else mkRes (r_pairs r2) (S (r_errors r2)) (r_ambiguous r2))
      (mkRes ∅ O false) srcs)
  end.

(** does the resolved operation report an error?  (refused = Err of the attempt closure) *)
Definition sop_fails (o : sop) (i : inventory) : bool :=
  match o with
  | SAdd d p => negb (bool_decide (is_Some (add_file_to_head d p i)))
  | SCopyInt v src dst =>
      if bool_decide (src = dst) && (v =? head i)%N then true
      else match staged_source i v src with
           | None => true
           | Some (Some d) => negb (bool_decide (is_Some (add_file_to_head d dst i)))
           | Some None => negb (bool_decide (is_Some (copy_file_to_head v src dst i)))
           end
  | SMoveInt src dst =>
      if bool_decide (src = dst) then true
      else match staged_source i (head i) src with
           | None => true
           | Some (Some d) => negb (bool_decide (is_Some (move_new_in_head_file d src dst i)))
           | Some None => negb (bool_decide (is_Some (move_file_in_head src dst i)))
           end
  | SRemove _ => false
  | SResetPrev p =>
      if (head i =? 1)%N then false
      else let i1 := fst (remove_from_head p i) in
           negb (bool_decide (is_Some (copy_file_to_head (head i - 1) p p i1)))
  end.

Definition exec_sops (ops : list sop) (i : inventory) : inventory * nat :=
  foldl (fun (acc : inventory * nat) (o : sop) =>
           (sapply o (fst acc), if sop_fails o (fst acc) then S (snd acc) else snd acc)) (i, O) ops.

Definition resolve_version (i : inventory) (v : option N) : N :=
  match v with Some n => n | None => head i end.

(** copy_files_internal / move_files_internal with the pairs executed in the given order *)
Definition int_apply_order (mv : bool) (v : N) (order : list (lpath * lpath)) (errs0 : nat) (i : inventory)
  : inventory * rclass :=
  let ops := map (fun sd => if mv then SMoveInt (fst sd) (snd sd) else SCopyInt v (fst sd) (snd sd)) order in
  let r := exec_sops ops i in
  (fst r, match (errs0 + snd r)%nat with O => ROk | _ => RPartial end).

(** * rm and reset *)
Definition rm_apply (paths : list (list ascii)) (recursive : bool) (i : inventory) : inventory * rclass :=
  let ps := remove_dups (concat (map (fun g => resolve_glob (i_hstate i) g recursive) paths)) in
  (foldl (fun a p => sapply (SRemove p) a) i ps, ROk).

(** reset: add-resets first, then every path of the previous version; a path that
    cannot be re-pointed (its name is a directory now, a part of it is a file) is
    skipped, the others are restored, the inventory is re-staged and the call
    reports Err (since fix 9f7da71; before it the call returned at the first such
    path WITHOUT re-staging the inventory although staged files of the paths
    already processed were deleted). *)
Definition reset_apply (paths : list (list ascii)) (recursive : bool) (order_prev : list lpath → list lpath)
  (i : inventory) : inventory * rclass :=
  let hps := remove_dups (concat (map (fun g => resolve_glob (i_hstate i) g recursive) paths)) in
  let pps := match last (i_prev i) with
             | Some pst => remove_dups (concat (map (fun g => resolve_glob pst g recursive) paths))
             | None => []
             end in
  let adds := filter (fun p => negb (bool_decide (p ∈ pps))) hps in
  let i1 := foldl (fun a p => sapply (SRemove p) a) i adds in
  let r := exec_sops (map SResetPrev (order_prev pps)) i1 in
  match snd r with
  | O => (fst r, ROk)
  | _ => (fst r, RErr)
  end.
