(** * TreeValidate: rocfl's object validator over abstract trees (C06)

    Transcription of [Validator::validate_object] (src/ocfl/validate/mod.rs:538-656) and the
    functions it calls, with everything below the byte level delegated to the oracles of
    Model/ObjTree.v.  Line numbers refer to src/ocfl/validate/mod.rs.

    Result: the list of error codes (warnings are not errors: W010 "version inventory
    missing", W002 "extra directory in a version directory", W003 "empty content
    directory" produce nothing here).  Codes are for diagnosis; the verdict compared with
    rocfl is [tree_errors fixity t = []].

    Not modelled (each can only ADD an error to an object that already has one, or is
    unreachable for abstract trees): E083 (id given on the command line differs from the
    inventory id, :925-936), E081 (object newer than the storage root, only with a root
    version), E108 (content directory containing a path separator: a segment has none),
    a fixity block naming sha256/sha512 being overridden by a version inventory (:1798).
    A symlink is a leaf of the abstract tree: WalkDir follows a symlink that is the ROOT of a
    listing, so the real validator still sees the files below a symlinked content or version
    directory where the model reports them missing (E092); the link itself is E090 in both,
    the verdict is the same.  A run in which serde::parse PANICS (C17 known findings, e.g.
    uri-colon-segment) has no verdict and is outside this model, which describes runs that return.

    No proofs here. *)

From Coq Require Import List NArith Bool.
From Rocfl Require Import Model.ObjTree.
Import ListNotations.
Open Scope N_scope.

Inductive code :=
| ENotFound        (* not a validation result: RocflError::NotFound, :552-561 *)
| E001 | E003 | E007 | E010 | E015 | E019 | E023 | E024
| E034             (* stands for every error serde::parse reports *)
| E038 | E040 | E058 | E060 | E061 | E063 | E064 | E066 | E067
| E090 | E092 | E093 | E103 | E110.

Section Validate.
  Variable digest : alg -> token -> N.
  Variable fdigest : N -> token -> N.
  Variable parse_inv : token -> option inventory.
  Variable parse_sidecar : token -> option N.
  Variable parse_decl : token -> option spec_version.

  (** identify_object_spec_version (:873-883): first File of the SORTED root listing whose
      name is a known declaration name; "0=ocfl_object_1.0" sorts first *)
  Definition identify_spec (t : tree) : option spec_version :=
    if has_file [] (SDecl V10) t then Some V10
    else if has_file [] (SDecl V11) t then Some V11
    else None.

  (** validate_object_namaste (:778-846), root_version = None *)
  Definition namaste_errors (t : tree) : list code :=
    match identify_spec t with
    | Some v =>
        match file_tok [SDecl v] t with
        | Some k => if opt_eqb spec_eqb (parse_decl k) (Some v) then [] else [E007]
        | None => [E003]
        end
    | None => [E003]
    end.

  (** validate_sidecar (:1089-1129) *)
  Definition sidecar_errors (sk : token) (dg : N) : list code :=
    match parse_sidecar sk with
    | None => [E061]
    | Some x => if N.eqb x dg then [] else [E060]
    end.

  (** sidecar files with a known algorithm in the listing of d (:903-911) *)
  Definition sidecar_algs (d : path) (t : tree) : list alg :=
    filter (fun a => has_file d (SSidecar a) t) [Sha512; Sha256].

  (** validate_inventory_and_sidecar (:886-979) + validate_inventory (:981-1048).
      Returns errors, the inventory when it has no error, the algorithm whose sidecar
      is expected, the digest of the inventory file. *)
  Definition inv_and_sidecar (d : path) (vnum : option N) (required maxv : option spec_version) (t : tree)
    : list code * option inventory * option alg * option N :=
    match file_tok (d ++ [SInv]) t with
    | None => ([E063], None, None, None)                                            (* :970-976 *)
    | Some k =>
        let algs := sidecar_algs d t in
        let '(e, oinv, odg) :=
          match parse_inv k with
          | None => ([E034], None, None)                                            (* :1040-1044 *)
          | Some i =>
              let e_type :=                                                         (* validate_inv_type :1050-1087 *)
                match required with
                | Some r => if spec_eqb r (inv_spec i) then [] else [E038]
                | None => match maxv with
                          | Some m => if spec_leb (inv_spec i) m then [] else [E103]
                          | None => []
                          end
                end in
              let e_head :=                                                         (* :1008-1019 *)
                match vnum with
                | Some n => if N.eqb (inv_head i) n then [] else [E040]
                | None => []
                end in
              let e := e_type ++ e_head in
              (e, if nilb e then Some i else None,
               (* :1035 the digest exists only for algorithms that have a sidecar file *)
               if mem_alg (inv_alg i) algs then Some (digest (inv_alg i) k) else None)
          end in
        let oalg :=                                                                 (* :939-948 *)
          match oinv with
          | Some i => Some (inv_alg i)
          | None => match algs with [a] => Some a | _ => None end
          end in
        let e_sc :=                                                                 (* :950-969 *)
          match oalg with
          | None => []
          | Some a =>
              match file_tok (d ++ [SSidecar a]) t with
              | Some sk => match odg with Some dg => sidecar_errors sk dg | None => [] end
              | None => [E058]
              end
          end in
        (e ++ e_sc, oinv, oalg, odg)
    end.

  (** validate_object_root_contents (:1131-1217).  [expected_versions.remove(entry)] is
      modelled as membership: a real listing has no repeated entry. *)
  Definition root_entry_errors (ov : option spec_version) (oinv : option inventory) (oalg : option alg)
             (e : lkind * seg) : list code :=
    let is_version :=
      match oinv, e with
      | Some i, (KDir, SVer w n) => N.eqb w (inv_pad i) && in_versions i n
      | _, _ => false
      end in
    let expected :=
      match e with
      | (KFile, SDecl v) => match ov with Some v' => spec_eqb v v' | None => false end
      | (KFile, SInv) => true
      | (KDir, SLogs) => true
      | (KDir, SExt) => true
      | (KFile, SSidecar a) => match oalg with Some a' => alg_eqb a a' | None => false end
      | _ => false
      end in
    if is_version || expected then []
    else match e with
         | (KOther, _) => [E090]
         | (KFile, SDecl _) => [E003]
         | _ => [E001]
         end.

  Definition root_contents_errors (t : tree) (ov : option spec_version) (oinv : option inventory)
             (oalg : option alg) : list code :=
    flat_map (root_entry_errors ov oinv oalg) (list_dir [] t)
    ++ match oinv with
       | Some i => flat_map (fun n => if has_dir [] (SVer (inv_pad i) n) t then [] else [E010]) (vnums i)   (* :1197-1208 *)
       | None => []
       end
    ++ (if has_dir [] SExt t                                                        (* :1210-1214, :1219-1253 *)
        then flat_map (fun e => match fst e with KDir => [] | _ => [E067] end) (list_dir [SExt] t)
        else []).

  (** find_all_content_files (:1255-1298): the files, tagged with their version *)
  Definition content_files (root : inventory) (t : tree) : list (N * path) :=
    flat_map (fun n =>
      flat_map (fun kr => match fst kr with
                          | KFile => [(n, content_root root n ++ snd kr)]
                          | _ => []
                          end) (list_rec (content_root root n) t)) (vnums root).

  Definition content_errors (root : inventory) (t : tree) : list code :=
    flat_map (fun n =>
      flat_map (fun kr => match fst kr with
                          | KFile => []
                          | KDir => [E024]
                          | KOther => [E090]
                          end) (list_rec (content_root root n) t)) (vnums root).

  (** validate_manifest (:1300-1375); [content_files.iter(head)] = files of versions <= head (:2079-2112) *)
  Definition manifest_errors (i : inventory) (cfs : list (N * path)) (root : inventory)
             (invs : list (alg * inventory)) : list code :=
    let comparing := if alg_eqb (inv_alg root) (inv_alg i) then Some root else assoc_alg (inv_alg i) invs in
    let files := filter (fun vp => fst vp <=? inv_head i) cfs in
    flat_map (fun vp =>
      match mdigest (inv_manifest i) (snd vp) with
      | Some d =>
          match comparing with
          | Some c => match mdigest (inv_manifest c) (snd vp) with
                      | Some x => if N.eqb x d then [] else [E092]
                      | None => []
                      end
          | None => []
          end
      | None => [E023]
      end) files
    ++ flat_map (fun dp => if mem_path (snd dp) (map snd files) then [] else [E092]) (inv_manifest i)
    ++ flat_map (fun f => if mem_path (snd f) (map snd files) then [] else [E093]) (inv_fixity i).

  (** validate_version_contents (:1709-1768) *)
  Definition version_contents_errors (t : tree) (vd : path) (cdir : N) (a : alg) : list code :=
    flat_map (fun e =>
      match e with
      | (KFile, SInv) => []
      | (KFile, SSidecar a') => if alg_eqb a a' then [] else [E015]
      | (KFile, _) => [E015]
      | (KDir, _) => []                      (* the content directory, or W002 *)
      | (KOther, _) => [E090]
      end) (list_dir vd t).

  (** validate_head_version (:1377-1430) *)
  Definition head_version_errors (t : tree) (root : inventory) (rootdg : N) : list code :=
    let vd := version_dir root (inv_head root) in
    let a := inv_alg root in
    match file_tok (vd ++ [SInv]) t with
    | Some k =>
        let dg := digest a k in
        (if N.eqb dg rootdg then [] else [E064])
        ++ match file_tok (vd ++ [SSidecar a]) t with
           | Some sk => sidecar_errors sk dg
           | None => [E058]
           end
    | None => []                                                                    (* W010 *)
    end
    ++ version_contents_errors t vd (inv_cdir root) a.

  (** validate_state_consistent (:1615-1707) *)
  Definition mpaths_of (i : inventory) (d : N) : list path :=
    map snd (filter (fun dp => N.eqb (fst dp) d) (inv_manifest i)).
  Definition incl_path (a b : list path) : bool := forallb (fun p => mem_path p b) a.
  Definition set_eq_path (a b : list path) : bool := incl_path a b && incl_path b a.

  Definition state_consistent_errors (cur : N) (c i : inventory) (compare_digests : bool) : list code :=
    let cv := get_version c cur in
    let v := get_version i cur in
    flat_map (fun dl =>
      match sdigest v (snd dl) with
      | None => [E066]
      | Some d =>
          if compare_digests then (if N.eqb (fst dl) d then [] else [E066])
          else
            let ccp := mpaths_of c (fst dl) in
            let cp := mpaths_of i d in
            match ccp with
            | [_] => if set_eq_path ccp cp then [] else [E066]
            | _ => let filtered := filter (fun p => match path_version p with
                                                    | Some n => n <=? cur | None => false end) ccp in
                   if set_eq_path filtered cp then [] else [E066]
            end
      end) cv
    ++ flat_map (fun dl => if mem_lpath (snd dl) (map snd cv) then [] else [E066]) v.

  (** validate_version_consistent (:1534-1613): versions n, n-1, ... 1 *)
  Definition consistent_errors (n : N) (root i : inventory) (invs : list (alg * inventory)) : list code :=
    let comparing := if alg_eqb (inv_alg root) (inv_alg i) then Some root else assoc_alg (inv_alg i) invs in
    flat_map (fun cur =>
      match comparing with
      | Some c => state_consistent_errors cur c i true
      | None => state_consistent_errors cur root i false
      end) (vnums i).

  (** validate_version (:1433-1532) for a non-head version *)
  Definition version_errors (t : tree) (root : inventory) (invs : list (alg * inventory))
             (maxv : option spec_version) (cfs : list (N * path)) (n : N) : list code * option inventory :=
    let vd := version_dir root n in
    let '(e1, oinv) :=
      if has_file vd SInv t then
        let '(e, oinv, _, _) := inv_and_sidecar vd (Some n) None maxv t in
        match oinv with
        | Some i =>
            (e ++ (if N.eqb (inv_id i) (inv_id root) then [] else [E110])
               ++ (if N.eqb (inv_cdir i) (inv_cdir root) then [] else [E019])
               ++ (if N.eqb (inv_pad i) (inv_pad root) then [] else [E040])          (* :1484 compares the strings *)
               ++ consistent_errors n root i invs
               ++ manifest_errors i cfs root invs, Some i)
        | None => (e, None)
        end
      else ([], None)                                                               (* W010 *)
    in
    let a := match oinv with Some i => inv_alg i | None => inv_alg root end in
    (e1 ++ version_contents_errors t vd (inv_cdir root) a, oinv).

  Definition spec_min (a b : spec_version) : spec_version := if spec_leb a b then a else b.

  (** the loop :607-641 over the non-head versions, newest first *)
  Fixpoint versions_loop (t : tree) (root : inventory) (cfs : list (N * path)) (ns : list N)
           (invs : list (alg * inventory)) (maxv : option spec_version)
    : list code * list (alg * inventory) :=
    match ns with
    | [] => ([], invs)
    | n :: r =>
        let '(e, oinv) := version_errors t root invs maxv cfs n in
        let invs' := match oinv with
                     | Some i => match assoc_alg (inv_alg i) invs with
                                 | Some _ => invs
                                 | None => invs ++ [(inv_alg i, i)]
                                 end
                     | None => invs
                     end in
        let maxv' := match oinv with
                     | Some i => match maxv with
                                 | Some m => Some (spec_min (inv_spec i) m)
                                 | None => Some (inv_spec i)
                                 end
                     | None => maxv
                     end in
        let '(e', invs'') := versions_loop t root cfs r invs' maxv' in
        (e ++ e', invs'')
    end.

  (** |l|, |l|-1, ..., 1 *)
  Fixpoint desc {A} (l : list A) : list N :=
    match l with [] => [] | _ :: r => N.succ (nlength r) :: desc r end.

  (** head-1, head-2, ..., 1 *)
  Definition older (root : inventory) : list N := desc (tl (inv_versions root)).

  (** fixity_check (:1770-1837) *)
  Definition fixity_errors (t : tree) (root : inventory) (invs : list (alg * inventory))
             (cfs : list (N * path)) : list code :=
    flat_map (fun vp =>
      let p := snd vp in
      match mdigest (inv_manifest root) p, file_tok p t with
      | Some d, Some k =>
          flat_map (fun a =>
            let expected :=
              match assoc_alg a invs with
              | Some i => match mdigest (inv_manifest i) p with
                          | Some x => Some x
                          | None => if alg_eqb a (inv_alg root) then Some d else None
                          end
              | None => if alg_eqb a (inv_alg root) then Some d else None
              end in
            match expected with
            | Some x => if N.eqb (digest a k) x then [] else [E092]
            | None => []
            end) [Sha512; Sha256]
          ++ flat_map (fun f => match f with
                                | (fa, fd, fp) => if path_eqb fp p
                                                  then (if N.eqb (fdigest fa k) fd then [] else [E093])
                                                  else []
                                end) (inv_fixity root)
      | _, _ => []
      end) (filter (fun vp => fst vp <=? inv_head root) cfs).

  (** validate_object (:538-656) *)
  Definition tree_errors (fixity : bool) (t : tree) : list code :=
    if nilb (list_dir [] t) then [ENotFound]
    else
      let ov := identify_spec t in
      let '(e_i, oinv, oalg, odg) := inv_and_sidecar [] None ov None t in
      let e1 := namaste_errors t ++ e_i in
      if nilb e1 then
        root_contents_errors t ov oinv oalg
        ++ match oinv, odg with
           | Some root, Some dg =>
               let cfs := content_files root t in
               content_errors root t
               ++ manifest_errors root cfs root []
               ++ head_version_errors t root dg
               ++ (let '(ev, invs) := versions_loop t root cfs (older root) [] ov in
                   ev ++ (if fixity then fixity_errors t root invs cfs else []))
           | _, _ => []
           end
      else e1.
End Validate.
