(** C17 - "validate always terminates with a verdict": literal models of the
    code fragments the property's anchors name.  Definitions only.

    (line numbers of /repo at commit 389bfd0)
    1. validate_version_nums            src/ocfl/validate/serde.rs:1321-1322, 1338-1405 (after commits 719e6a5, f842f41)
    2. InventoryVisitor::visit_map      src/ocfl/validate/serde.rs:152-517 (field loop, final guards,
       Inventory::new(..).unwrap(); blank id after commit b116ae5) and Inventory::new, src/ocfl/inventory.rs:95-131
    3. the cross-inventory checks       src/ocfl/validate/mod.rs:607-641, 1534-1711
       (get_version(..).unwrap(); content_paths(..).unwrap_or(&no_paths) after commit 7c90d82;
       PrettyPrintSet types.rs:1350-1362 with saturating_sub after commit 547c92e)
    4. validate_non_conflicting         src/ocfl/validate/serde.rs:1487-1501 (cost)
    5. ContentPathsIter::next           src/ocfl/validate/mod.rs:2110-2131
    6. IncrementalValidatorImpl::next   src/ocfl/validate/mod.rs:1927-2026
    7. Display for VersionNum           src/ocfl/types.rs:396-406 (after commit d5a9e2d)
    8. is_uri                           src/ocfl/validate/serde.rs:1324-1336 (commit 389bfd0), the guard in front of
       uriparse's URI::try_from at its two call sites serde.rs:191 ("id") and serde.rs:1220 (user "address") *)
From Rocfl Require Export Base.Bytes Model.VersionNum.
From Rocfl Require Import Generated.Consts.
Open Scope N_scope.

(** [.unwrap()] : a refusal ([Err]) becomes a panic *)
Definition unwrap {A} (r : res A) : res A := match r with Err => Panic | x => x end.

(* ------------------------------------------------------------------ *)
(** * 1. validate_version_nums *)

(** VersionNum::next is [vnext] of Model/VersionNum.v (types.rs:297-315 after commit 476b184):
    [Err] when the number has reached the maximum of its width (u32::MAX for width 0). *)

(** serde.rs:1321-1322 [const MAX_MISSING_VERSIONS_LISTED: u32 = 100], read from the source on every run *)
Definition MAX_LISTED : N := K_MAX_MISSING_VERSIONS_LISTED.

(** what the function costs: E010 errors recorded (memory) and loop iterations (time: one per
    element of the set plus one per turn of the inner while loop) *)
Record vcost := mkC { c_errors : N; c_iters : N }.
Definition c0 : vcost := mkC 0 0.

(** The constructor [Err] stands for "fuel exhausted" in the results of this section
    (a Rust-level [Err] is either unwrapped => [Panic], or handled by [break]). *)

(** serde.rs:1373-1379, the inner loop (entered for small gaps only)
      while next_version < *version {
          result.error(E010, ..);                       <- errors + 1
          next_version = next_version.next().unwrap();
      }
    [Ord for VersionNum] compares numbers only (types.rs:434-438). *)
Fixpoint gap_loop (dbg : bool) (fuel : nat) (next : vnum) (target : N) (c : vcost) : res (vnum * vcost) :=
  if vn_number next <? target then
    match fuel with
    | O => Err
    | S f => match unwrap (vnext dbg next) with
             | Ok n' => gap_loop dbg f n' target (mkC (c_errors c + 1) (c_iters c + 1))
             | _ => Panic
             end
    end
  else Ok (next, c).

(** serde.rs:1353-1381, the [if next_version < *version] statement.
    [version.number - next_version.number] and [version.number - 1] cannot underflow under the
    guard; the two numbers of the range message are printed with next_version's width. *)
Definition gap_stmt (dbg : bool) (fuel : nat) (next v : vnum) (c : vcost) : res (vnum * vcost) :=
  if vn_number next <? vn_number v then
    if MAX_LISTED <? vn_number v - vn_number next
    then Ok (mkV (vn_number v) (vn_width next), mkC (c_errors c + 1) (c_iters c))   (* one E010 for the range *)
    else gap_loop dbg fuel next (vn_number v) c
  else Ok (next, c).

(** serde.rs:1343-1388, the [for version in version_nums] loop; [vs] is the iteration order
    of the BTreeSet *)
Fixpoint vnums_go (dbg : bool) (fuel : nat) (vs : list vnum) (next : vnum) (c : vcost) : res vcost :=
  match vs with
  | [] => Ok c
  | v :: rest =>
      match gap_stmt dbg fuel next v (mkC (c_errors c) (c_iters c + 1)) with
      | Ok (next', c') =>
          match vnext dbg next' with             (* serde.rs:1383-1387 (commit f842f41) *)
          | Ok next'' => vnums_go dbg fuel rest next'' c'         (* Ok(next) => next *)
          | Err => Ok c'                                          (* Err(_) => break *)
          | Panic => Panic
          end
      | Err => Err
      | Panic => Panic
      end
  end.

Definition vn_v1 : vnum := mkV 1 0.                            (* VersionNum::v1(), types.rs:269-274 *)
(** the inner loop is entered with at most MAX_LISTED numbers to go: that much fuel is enough
    (theorem C17_vnums_exact: the result is [Ok], never "fuel exhausted", never [Panic]) *)
Definition validate_version_nums (dbg : bool) (vs : list vnum) : res vcost :=
  vnums_go dbg (N.to_nat MAX_LISTED) vs vn_v1 c0.

(** serde.rs:1344-1351, 1390-1404: (E013 inconsistent padding, W001 zero padded) *)
Definition vnums_padding (vs : list vnum) : bool * bool :=
  match vs with
  | [] => (false, false)
  | v :: rest => (negb (forallb (fun x => vn_width x =? vn_width v) rest), 0 <? vn_width v)
  end.

(** closed form of the loop over the numbers (what the correspondence evaluates): an element
    at distance g from the expected next number adds g errors and g inner iterations when
    g <= MAX_LISTED, one error and no inner iteration otherwise; the loop ends at u32::MAX *)
Definition gap_errors (g : N) : N := if MAX_LISTED <? g then 1 else g.
Definition gap_iters (g : N) : N := if MAX_LISTED <? g then 0 else g.
Fixpoint vnums_fast (vs : list N) (next : N) (c : vcost) : vcost :=
  match vs with
  | [] => c
  | v :: rest =>
      let c' := mkC (c_errors c + gap_errors (v - next)) (c_iters c + 1 + gap_iters (v - next)) in
      if U32MAX <=? N.max next v then c' else vnums_fast rest (N.max next v + 1) c'
  end.
Definition vnums_cost (vs : list N) : N := c_errors (vnums_fast vs 1 c0).
Definition vnums_iters (vs : list N) : N := c_iters (vnums_fast vs 1 c0).

(** the gaps the loop meets, one per element *)
Fixpoint vnums_gaps (vs : list N) (next : N) : list N :=
  match vs with
  | [] => []
  | v :: rest => (v - next) :: vnums_gaps rest (N.max next v + 1)
  end.

(** BTreeSet<VersionNum>::insert: ordered by number, an equal element (same
    number, any width) is kept, the new one dropped *)
Fixpoint vset_insert (v : vnum) (s : list vnum) : list vnum :=
  match s with
  | [] => [v]
  | x :: r => if vn_number v <? vn_number x then v :: s
              else if vn_number v =? vn_number x then s
              else x :: vset_insert v r
  end.
Definition vset_mem (v : vnum) (s : list vnum) : bool :=
  existsb (fun x => vn_number x =? vn_number v) s.
Definition vset_of (l : list vnum) : list vnum := fold_left (fun s v => vset_insert v s) l [].

(* ------------------------------------------------------------------ *)
(** * 2. The inventory visitor and Inventory::new *)

Inductive alg := Sha512 | Sha256 | OtherAlg.
(** DigestAlgorithm::from_str (strum, src/ocfl/digest.rs:25-56): exact names *)
Definition alg_of_str (s : bytes) : option alg :=
  if bytes_eqb s (b "sha512") then Some Sha512
  else if bytes_eqb s (b "sha256") then Some Sha256
  else if existsb (bytes_eqb s)
            [b "md5"; b "sha1"; b "sha512/256"; b "blake2b-512"; b "blake2b-160"; b "blake2b-256"; b "blake2b-384"]
       then Some OtherAlg
  else None.
Definition alg_allowed (a : alg) : bool := match a with OtherAlg => false | _ => true end.

Inductive ecode :=
| E008 | E010 | E013 | E017 | E018 | E025 | E033 | E036 | E037 | E038 | E040 | E041 | E044
| E102 | E104 | E106 | E111
| EBody.  (** some error recorded while a version body was read (E047-E054, E094, E095 ...) *)

Definition ecode_n (c : ecode) : N :=
  match c with
  | E008 => 8 | E010 => 10 | E013 => 13 | E017 => 17 | E018 => 18 | E025 => 25 | E033 => 33 | E036 => 36
  | E037 => 37 | E038 => 38 | E040 => 40 | E041 => 41 | E044 => 44 | E102 => 102 | E104 => 104
  | E106 => 106 | E111 => 111 | EBody => 0
  end.

(** recorded errors with multiplicity *)
Definition errs := list (ecode * N).
Definition has_errors (e : errs) : bool := existsb (fun x => 0 <? snd x) e.
Definition err_count (c : ecode) (e : errs) : N :=
  fold_left (fun acc x => if ecode_n (fst x) =? ecode_n c then acc + snd x else acc) e 0.

(** a JSON value at a place where the visitor asks for a string.  Since commit 2f36fc5 the
    visitors read [Cow<str>] (id, digestAlgorithm, head, contentDirectory, version keys) or an
    owned [String] (type): a string token with escape sequences is decoded and then treated like
    any other string, so [s] is the DECODED value. *)
Inductive sval :=
| SStr (s : bytes)   (** a JSON string, [s] = its decoded value *)
| SOther.            (** number, bool, null, array, object *)

(** a JSON value at a place where the visitor asks for an object.  When serde_json refuses a
    value with "invalid type ... expected ROCFL" the visitor records its own error and goes on;
    a scalar has been consumed by then, but of an array only nothing: the next [next_key] then
    meets '[' and fails with a syntax error, which ends the parse (E033 added by parse(), serde.rs:63-74) *)
Inductive cval :=
| CObj               (** an object whose content records no error *)
| CScalar            (** number, string, bool, null *)
| CSeq.              (** array *)

(** the value of one version key *)
Inductive body :=
| BSome              (** an object giving Some(version) *)
| BNone              (** an object or scalar for which an error is recorded and no version results *)
| BSeq.              (** a non-empty array: E047 recorded, then the syntax error described above
                         (deserialize_struct consumes an empty array completely: that is BNone) *)

Inductive vval := VObj (l : list (bytes * body)) | VScalar | VSeq.

(** one key/value of the top-level object, in document order *)
Inductive item :=
| IId (v : sval) | IType (v : sval) | IAlg (v : sval) | IHead (v : sval) | ICdir (v : sval)
| IManifest (v : cval)
| IVersions (v : vval)
| IFixity (v : cval)
| IUnknown.

Record pst := mkP {
  p_id : option bytes; p_type : bool; p_alg : option alg; p_head : option vnum; p_cdir : option bytes;
  p_manifest : bool;
  p_versions : option (list vnum * list vnum);   (** (VersionsResult.nums, keys of VersionsResult.map) *)
  p_fixity : bool;
  f_digest : bool; f_head : bool; f_manifest : bool; f_versions : bool;
  p_errs : errs }.

Definition p0 : pst := mkP None false None None None false None false false false false false [].

Definition add (c : ecode) (st : pst) : pst :=
  mkP (p_id st) (p_type st) (p_alg st) (p_head st) (p_cdir st) (p_manifest st) (p_versions st) (p_fixity st)
      (f_digest st) (f_head st) (f_manifest st) (f_versions st) (p_errs st ++ [(c, 1)]).
Definition addn (c : ecode) (n : N) (st : pst) : pst :=
  mkP (p_id st) (p_type st) (p_alg st) (p_head st) (p_cdir st) (p_manifest st) (p_versions st) (p_fixity st)
      (f_digest st) (f_head st) (f_manifest st) (f_versions st) (p_errs st ++ [(c, n)]).

Definition is_nil' {A} (l : list A) : bool := match l with [] => true | _ => false end.
Definition contains_slash (s : bytes) : bool := existsb (fun c => Ascii.eqb c "/"%char) s.
(** serde.rs:306-314 and validate_content_dir (validate/mod.rs:53-61) use the same three tests *)
Definition cdir_kind (s : bytes) : option ecode :=
  if bytes_eqb s (b ".") || bytes_eqb s (b "..") then Some E018
  else if contains_slash s then Some E017 else None.

(** VersionsVisitor::visit_map, serde.rs:566-626: nums, map keys, errors, aborted by a syntax error *)
Fixpoint versions_fold (l : list (bytes * body)) (nums keys : list vnum) (e : errs)
  : list vnum * list vnum * errs * bool :=
  match l with
  | [] => (nums, keys, e, false)
  | (k, bd) :: rest =>
      let pk := vparse k in
      let nums' := match pk with Ok num => vset_insert num nums | _ => nums end in
      let e1 := match pk with Ok _ => e | _ => e ++ [(E104, 1)] end in
      match bd with
      | BSome => versions_fold rest nums' (match pk with Ok num => vset_insert num keys | _ => keys end) e1
      | BNone => versions_fold rest nums' keys (e1 ++ [(EBody, 1)])
      | BSeq => (nums', keys, e1 ++ [(EBody, 1); (E033, 1)], true)
      end
  end.

Definition versions_value (l : list (bytes * body)) : list vnum * list vnum * errs * bool :=
  let '(nums, keys, e, aborted) := versions_fold l [] [] [] in
  if aborted then (nums, keys, e, true)
  else
    (* validate_version_nums, serde.rs:619: by C17_vnums_exact it records [vnums_cost] E010 errors *)
    let e1 := e ++ [(E010, vnums_cost (map vn_number nums))] in
    let e2 := if fst (vnums_padding nums) then e1 ++ [(E013, 1)] else e1 in
    (nums, keys, e2, false).

Definition set_errs (st : pst) (e : errs) : pst :=
  mkP (p_id st) (p_type st) (p_alg st) (p_head st) (p_cdir st) (p_manifest st) (p_versions st) (p_fixity st)
      (f_digest st) (f_head st) (f_manifest st) (f_versions st) e.

(** one iteration of the field loop, serde.rs:172-400.
    [inl st'] : continue;  [inr e] : [return Err(e)] - the visitor aborts with these recorded errors *)
Definition step (st : pst) (it : item) : pst + errs :=
  match it with
  | IId v =>
      if p_id st then inl (add E033 st)                                 (* duplicate_field *)
      else match v with
           | SStr s =>                                                   (* serde.rs:184-201 *)
               (* [if value.is_empty() { E037 "must not be blank" } else if !is_uri(value) { W005 }]
                  ([is_uri]: section 8, total since commit 389bfd0 - C17_is_uri_total; warnings are not
                  part of [pst]), then [id = Some(value)] in either case *)
               inl (mkP (Some s) (p_type st) (p_alg st) (p_head st) (p_cdir st) (p_manifest st)
                        (p_versions st) (p_fixity st) (f_digest st) (f_head st) (f_manifest st)
                        (f_versions st)
                        (if is_nil' s then p_errs st ++ [(E037, 1)] else p_errs st))
           | _ => inr (p_errs (add E037 st))
           end
  | IType v =>
      if p_type st then inl (add E033 st)
      else match v with
           | SOther => inr (p_errs (add E038 st))
           | _ => inl (mkP (p_id st) true (p_alg st) (p_head st) (p_cdir st) (p_manifest st)
                           (p_versions st) (p_fixity st) (f_digest st) (f_head st) (f_manifest st)
                           (f_versions st) (p_errs st))
           end
  | IAlg v =>
      if p_alg st then inl (add E033 st)
      else match v with
           | SStr s =>
               match alg_of_str s with
               | Some a =>
                   if alg_allowed a
                   then inl (mkP (p_id st) (p_type st) (Some a) (p_head st) (p_cdir st) (p_manifest st)
                                 (p_versions st) (p_fixity st) (f_digest st) (f_head st) (f_manifest st)
                                 (f_versions st) (p_errs st))
                   else inl (mkP (p_id st) (p_type st) None (p_head st) (p_cdir st) (p_manifest st)
                                 (p_versions st) (p_fixity st) true (f_head st) (f_manifest st)
                                 (f_versions st) (p_errs st ++ [(E025, 1)]))
               | None => inl (mkP (p_id st) (p_type st) None (p_head st) (p_cdir st) (p_manifest st)
                                  (p_versions st) (p_fixity st) true (f_head st) (f_manifest st)
                                  (f_versions st) (p_errs st ++ [(E025, 1)]))
               end
           | _ => inr (p_errs (add E033 st))
           end
  | IHead v =>
      if p_head st then inl (add E033 st)
      else match v with
           | SStr s =>
               match vparse s with
               | Ok num => inl (mkP (p_id st) (p_type st) (p_alg st) (Some num) (p_cdir st) (p_manifest st)
                                    (p_versions st) (p_fixity st) (f_digest st) (f_head st) (f_manifest st)
                                    (f_versions st) (p_errs st))
               | _ => inl (mkP (p_id st) (p_type st) (p_alg st) None (p_cdir st) (p_manifest st)
                               (p_versions st) (p_fixity st) (f_digest st) true (f_manifest st)
                               (f_versions st) (p_errs st ++ [(E104, 1)]))
               end
           | _ => inr (p_errs (add E040 st))
           end
  | ICdir v =>
      if p_cdir st then inl (add E033 st)
      else match v with
           | SStr s =>
               match cdir_kind s with
               | Some c => inl (add c st)
               | None => inl (mkP (p_id st) (p_type st) (p_alg st) (p_head st) (Some s) (p_manifest st)
                                  (p_versions st) (p_fixity st) (f_digest st) (f_head st) (f_manifest st)
                                  (f_versions st) (p_errs st))
               end
           | _ => inr (p_errs (add E033 st))
           end
  | IManifest v =>
      if p_manifest st then inl (add E033 st)
      else match v with
           | CObj => inl (mkP (p_id st) (p_type st) (p_alg st) (p_head st) (p_cdir st) true
                              (p_versions st) (p_fixity st) (f_digest st) (f_head st) (f_manifest st)
                              (f_versions st) (p_errs st))
           | CScalar => inl (mkP (p_id st) (p_type st) (p_alg st) (p_head st) (p_cdir st) false
                                 (p_versions st) (p_fixity st) (f_digest st) (f_head st) true
                                 (f_versions st) (p_errs st ++ [(E106, 1)]))
           | CSeq => inr (p_errs st ++ [(E106, 1); (E033, 1)])
           end
  | IVersions v =>
      if p_versions st then inl (add E033 st)
      else match v with
           | VObj l =>
               let '(nums, keys, e, aborted) := versions_value l in
               if aborted then inr (p_errs st ++ e)
               else inl (mkP (p_id st) (p_type st) (p_alg st) (p_head st) (p_cdir st) (p_manifest st)
                             (Some (nums, keys)) (p_fixity st) (f_digest st) (f_head st) (f_manifest st)
                             (f_versions st) (p_errs st ++ e))
           | VScalar => inl (mkP (p_id st) (p_type st) (p_alg st) (p_head st) (p_cdir st) (p_manifest st)
                                 None (p_fixity st) (f_digest st) (f_head st) (f_manifest st)
                                 true (p_errs st ++ [(E044, 1)]))
           | VSeq => inr (p_errs st ++ [(E044, 1); (E033, 1)])
           end
  | IFixity v =>
      if p_fixity st then inl (add E033 st)
      else match v with
           | CObj => inl (mkP (p_id st) (p_type st) (p_alg st) (p_head st) (p_cdir st) (p_manifest st)
                              (p_versions st) true (f_digest st) (f_head st) (f_manifest st)
                              (f_versions st) (p_errs st))
           | CScalar => inl (add E111 st)
           | CSeq => inr (p_errs st ++ [(E111, 1); (E033, 1)])
           end
  | IUnknown => inl (add E102 st)                                       (* unknown_field *)
  end.

Fixpoint run (st : pst) (items : list item) : pst + errs :=
  match items with
  | [] => inl st
  | it :: rest => match step st it with inl st' => run st' rest | inr e => inr e end
  end.

Definition some {A} (o : option A) : bool := match o with Some _ => true | None => false end.

Definition opt_err (c : bool) (code : ecode) : errs := if c then [(code, 1)] else [].

(** serde.rs:402-453: the checks after the loop that the model covers
    (E096/E050/E107, serde.rs:455-496, and validate_fixity only ever add errors) *)
Definition final_errs (st : pst) : errs :=
  opt_err (negb (some (p_id st))) E036                                   (* missing_inv_field *)
  ++ opt_err (negb (p_type st)) E036
  ++ opt_err (negb (some (p_alg st)) && negb (f_digest st)) E036
  ++ opt_err (negb (some (p_head st)) && negb (f_head st)) E036
  ++ opt_err (negb (p_manifest st) && negb (f_manifest st)) E041
  ++ opt_err (negb (some (p_versions st)) && negb (f_versions st)) E041
  ++ match p_versions st with
     | Some (nums, _) => opt_err (is_nil' nums) E008
     | None => []
     end
  ++ match p_head st, p_versions st with
     | Some h, Some (nums, _) =>
         opt_err (negb (vset_mem h nums)) E010
         ++ match rev nums with
            (* [head != highest_version || head.width != highest_version.width] (commit 88a7bdc) *)
            | hi :: _ => opt_err (negb (vn_number h =? vn_number hi) || negb (vn_width h =? vn_width hi)) E040
            | [] => []
            end
     | _, _ => []
     end.

(** Inventory::new, src/ocfl/inventory.rs:95-131 *)
Definition inventory_new (id : bytes) (a : alg) (head : vnum) (cdir : option bytes) (keys : list vnum)
  : res unit :=
  if blen id =? 0 then Err                                              (* validate_object_id *)
  else if negb (alg_allowed a) then Err                                 (* validate_digest_algorithm *)
  else if match cdir with Some d => if cdir_kind d then true else false | None => false end then Err
  else if negb (vset_mem head keys) then Err                            (* versions.contains_key(&head) *)
  else Ok tt.

Inductive pres :=
| PInv          (** Ok(Some(inventory)) *)
| PNoInv        (** Ok(None): errors were recorded *)
| PAbort        (** Err(e): serde error, the recorded errors are kept *)
| PPanicked.

(** serde.rs:500-516 *)
Definition finish (st : pst) : pres * errs :=
  let e := p_errs st ++ final_errs st in
  if has_errors e then (PNoInv, e)
  else
    match p_id st, p_type st, p_alg st, p_head st, p_manifest st, p_versions st with
    | Some id, true, Some a, Some h, true, Some (_, keys) =>           (* the six .unwrap()s on Options *)
        match unwrap (inventory_new id a h (p_cdir st) keys) with
        | Ok _ => (PInv, e)
        | _ => (PPanicked, e)
        end
    | _, _, _, _, _, _ => (PPanicked, e)
    end.

Definition visit (items : list item) : pres * errs :=
  match run p0 items with
  | inl st => finish st
  | inr e => (PAbort, e)
  end.

(* ------------------------------------------------------------------ *)
(** * 3. Cross-inventory checks *)

(** abstract inventories: digests, logical paths and content paths are numbers *)
Definition astate := list (N * N).                 (** logical path |-> digest *)
Record ainv := mkI {
  i_alg : N;
  i_head : N;
  i_versions : list (N * astate);                  (** version number |-> state *)
  i_manifest : list (N * list (N * N)) }.          (** digest |-> content paths (version of the path, path) as in the JSON *)

Definition is_nil {A} (l : list A) : bool := match l with [] => true | _ => false end.
Definition nlen {A} (l : list A) : N := N.of_nat (List.length l).

Definition lookup {A} (k : N) (l : list (N * A)) : option A :=
  match find (fun e => fst e =? k) l with Some e => Some (snd e) | None => None end.

(** Inventory::get_version, inventory.rs:166-171 *)
Definition get_version (inv : ainv) (n : N) : option astate := lookup n (i_versions inv).

(** Inventory::content_paths = PathBiMap::get_paths (inventory.rs:279, bimap.rs:105): the bimap
    was filled by insert_multiple_rc (bimap.rs:88-102) which ignores an empty array, so a manifest
    entry ["digest": []] has no entry here *)
Definition content_paths (inv : ainv) (d : N) : option (list (N * N)) :=
  match lookup d (i_manifest inv) with
  | Some ps => if is_nil ps then None else Some ps
  | None => None
  end.

(** mod.rs:1657-1661 (commit 7c90d82): [let no_paths = HashSet::new(); ... .unwrap_or(&no_paths)] -
    a missing entry is compared as the empty set *)
Definition paths_or_empty (o : option (list (N * N))) : list (N * N) :=
  match o with Some ps => ps | None => [] end.

Definition pair_eqb (x y : N * N) : bool := (fst x =? fst y) && (snd x =? snd y).
Definition subset (x y : list (N * N)) : bool := forallb (fun e => existsb (pair_eqb e) y) x.
Definition set_eqb (x y : list (N * N)) : bool := subset x y && subset y x.

Inductive psite := SGetVersion | SContentPaths | SPrettyPrint.
Inductive xres := XOk (errors : N) | XPanic (s : psite) | XFuel.

(** usize arithmetic.  [a - b]: overflow check in a debug build, wrap-around in a release build;
    [a.saturating_sub(b)]: 0 when b > a, in both build modes (N subtraction is truncated at 0) *)
Definition USIZE_MOD : N := 18446744073709551616.
Definition usize_sub (dbg : bool) (a c : N) : res N :=
  if a <? c then (if dbg then Panic else Ok (a + USIZE_MOD - c)) else Ok (a - c).
Definition usize_saturating_sub (a c : N) : res N := Ok (a - c).

(** Display for PrettyPrintSet, types.rs:1350-1362 (commit 547c92e):
      f.write_char('[')?;
      let max = self.0.len().saturating_sub(1);
      for (i, entry) in self.0.iter().enumerate() { write!(f, "{}", entry)?; if i < max { write!(f, ", ")?; } }
      f.write_char(']')
    [pps_display dbg len] = the number of separators written for a set of [len] elements (the
    indices i < len with i < max), or [Panic] *)
Definition pps_max (dbg : bool) (len : N) : res N := usize_saturating_sub len 1.        (* types.rs:1353 *)
Definition pps_display (dbg : bool) (len : N) : res N :=
  match pps_max dbg len with
  | Ok max => Ok (N.min len max)
  | Err => Err
  | Panic => Panic
  end.
Definition pps_panics (dbg : bool) (len : N) : bool :=
  match pps_display dbg len with Panic => true | _ => false end.

(** historical, NOT the current code: before 547c92e the line read [let max = self.0.len() - 1] *)
Definition pps_max_before_fix (dbg : bool) (len : N) : res N := usize_sub dbg len 1.
Definition pps_display_before_fix (dbg : bool) (len : N) : res N :=
  match pps_max_before_fix dbg len with
  | Ok max => Ok (N.min len max)
  | Err => Err
  | Panic => Panic
  end.
Definition pps_panics_before_fix (dbg : bool) (len : N) : bool :=
  match pps_display_before_fix dbg len with Panic => true | _ => false end.

(** the comparison of the two sets of content paths, mod.rs:1663-1697; [pp] = does printing a
    set of that many elements panic (both sets are printed in the E066 message) *)
Definition compare_paths (pp : N -> bool) (cur : N) (cps ps : list (N * N)) : xres :=
  if nlen cps =? 1 then
    if set_eqb cps ps then XOk 0
    else if pp (nlen cps) || pp (nlen ps) then XPanic SPrettyPrint
    else XOk 1
  else
    let f := filter (fun cp => fst cp <=? cur) cps in                  (* mod.rs:1677-1685 *)
    if set_eqb f ps then XOk 0
    else if pp (nlen f) || pp (nlen ps) then XPanic SPrettyPrint
    else XOk 1.

(** body of the [for (comparing_path, comparing_digest)] loop, mod.rs:1629-1699 *)
Definition entry_check (dbg : bool) (cur : N) (cmp inv : ainv) (st : astate) (compare_digests : bool)
           (e : N * N) : xres :=
  let '(p, cd) := e in
  match lookup p st with
  | None => XOk 1
  | Some d =>
      if compare_digests then XOk (if cd =? d then 0 else 1)
      else
        compare_paths (pps_panics dbg) cur
          (paths_or_empty (content_paths cmp cd))                      (* mod.rs:1658-1660 *)
          (paths_or_empty (content_paths inv d))                       (* mod.rs:1661 *)
  end.

(** historical, NOT the current code: the same loop body before the commits 7c90d82
    ([content_paths(..).unwrap()] twice) and 547c92e *)
Definition entry_check_before_fix (dbg : bool) (cur : N) (cmp inv : ainv) (st : astate) (compare_digests : bool)
           (e : N * N) : xres :=
  let '(p, cd) := e in
  match lookup p st with
  | None => XOk 1
  | Some d =>
      if compare_digests then XOk (if cd =? d then 0 else 1)
      else
        match content_paths cmp cd, content_paths inv d with
        | Some cps, Some ps => compare_paths (pps_panics_before_fix dbg) cur cps ps
        | _, _ => XPanic SContentPaths
        end
  end.

Fixpoint entries_check (dbg : bool) (cur : N) (cmp inv : ainv) (st : astate) (cd : bool)
         (l : list (N * N)) (acc : N) : xres :=
  match l with
  | [] => XOk acc
  | e :: rest =>
      match entry_check dbg cur cmp inv st cd e with
      | XOk n => entries_check dbg cur cmp inv st cd rest (acc + n)
      | x => x
      end
  end.

(** validate_state_consistent, mod.rs:1615-1711 *)
Definition state_consistent (dbg : bool) (cur : N) (cmp inv : ainv) (compare_digests : bool) : xres :=
  match get_version cmp cur, get_version inv cur with                  (* mod.rs:1624-1625 *)
  | Some cst, Some st =>
      match entries_check dbg cur cmp inv st compare_digests cst 0 with
      | XOk n => XOk (n + nlen (filter (fun e => negb (existsb (fun c => fst c =? fst e) cst)) st))
      | x => x
      end
  | _, _ => XPanic SGetVersion
  end.

(** validate_version_consistent, mod.rs:1534-1613: the loop from [version_num] down to v1 *)
Fixpoint version_consistent (dbg : bool) (fuel : nat) (cur : N) (root other : ainv)
         (cmp : option ainv) (acc : N) : xres :=
  match get_version root cur, get_version other cur with               (* mod.rs:1551-1552 *)
  | Some _, Some _ =>
      match (match cmp with
             | Some c => state_consistent dbg cur c other true
             | None => state_consistent dbg cur root other false
             end) with
      | XOk n =>
          if cur =? 1 then XOk (acc + n)                               (* current_num == VersionNum::v1() *)
          else match fuel with
               | O => XFuel
               | S f => version_consistent dbg f (cur - 1) root other cmp (acc + n)   (* previous().unwrap() *)
               end
      | x => x
      end
  | _, _ => XPanic SGetVersion
  end.

(** the version loop of validate_object, mod.rs:607-641, for the versions below the head that
    have a valid inventory in their directory ([dirs], descending); [seen] = the HashMap
    [inventories] (first inventory found for an algorithm, i.e. the latest version) *)
Fixpoint cross_loop (dbg : bool) (root : ainv) (dirs : list (N * ainv)) (seen : list (N * ainv))
         (acc : N) : xres :=
  match dirs with
  | [] => XOk acc
  | (num, inv) :: rest =>
      let cmp := if i_alg root =? i_alg inv then Some root else lookup (i_alg inv) seen in
      match version_consistent dbg (List.length (i_versions inv)) num root inv cmp 0 with
      | XOk n =>
          let seen' := match lookup (i_alg inv) seen with Some _ => seen | None => seen ++ [(i_alg inv, inv)] end in
          cross_loop dbg root rest seen' (acc + n)
      | x => x
      end
  end.

Definition cross_check (dbg : bool) (root : ainv) (dirs : list (N * ainv)) : xres :=
  cross_loop dbg root dirs [] 0.

(** Which inventories reach that loop.  validate_inventory, mod.rs:1008-1019 with 1031-1038: the
    inventory read from version directory [num] gets E040 in its own parse result when its head
    is not [num] ([!=] on VersionNum: numbers only) and is then NOT returned ([if !has_errors
    { inventory = Some(inv) }]); validate_version (mod.rs:1460-1502) runs the cross-inventory
    checks only for a returned inventory and only such an inventory enters [inventories]
    (mod.rs:621-638).  [found] = the inventories that parse without error in the version
    directories below the head (directory number, inventory), descending.
    The [get_version(..).unwrap()]s of mod.rs:1551-1552 rely on this rejection: an accepted
    inventory has every version from its directory number down to v1. *)
Definition head_accepted (d : N * ainv) : bool := i_head (snd d) =? fst d.
Definition object_cross_check (dbg : bool) (root : ainv) (found : list (N * ainv)) : xres :=
  cross_check dbg root (filter head_accepted found).
(** E040 errors recorded for the rejected ones, one each *)
Definition head_rejected_count (found : list (N * ainv)) : N :=
  nlen (filter (fun d => negb (head_accepted d)) found).

(* ------------------------------------------------------------------ *)
(** * 4. validate_non_conflicting (cost) *)

(** serde.rs:1492-1500, for one path:
      while let Some(index) = part.rfind('/') { part = &part[0..index]; if paths.contains(part) {..break} }
    every [contains] hashes the prefix: cost = sum of the prefix lengths (no conflict: no break).
    [slash_prefix_cost pos s] : s is the rest of the path, pos the index of its first character *)
Fixpoint slash_prefix_cost (pos : N) (s : bytes) : N :=
  match s with
  | [] => 0
  | c :: r => (if Ascii.eqb c "/"%char then pos else 0) + slash_prefix_cost (pos + 1) r
  end.
Definition nonconflict_cost (path : bytes) : N := slash_prefix_cost 0 path.
Definition count_slash (s : bytes) : N := nlen (filter (fun c => Ascii.eqb c "/"%char) s).

Fixpoint rep_seg (n : nat) : bytes :=         (** "a/a/a/.../" n times "a/" *)
  match n with O => [] | S k => "a"%char :: "/"%char :: rep_seg k end.

(* ------------------------------------------------------------------ *)
(** * 5. ContentPathsIter::next *)

(** mod.rs:2117-2126: [while self.current_version != VersionNum::v1()] with
    [previous().unwrap()]; [eq] is the equality used for [!=]; [has n] = path_map has paths for n.
    Result: the version whose paths are iterated next, or None at v1.  [Err] = fuel exhausted. *)
Fixpoint cpi_walk (eq : vnum -> vnum -> bool) (dbg : bool) (fuel : nat) (cur : vnum) (has : N -> bool)
  : res (option vnum) :=
  if eq cur vn_v1 then Ok None
  else match fuel with
       | O => Err
       | S f => match unwrap (vprev dbg cur) with
                | Ok p => if has (vn_number p) then Ok (Some p) else cpi_walk eq dbg f p has
                | _ => Panic
                end
       end.

(** PartialEq for VersionNum, types.rs:414-418: numbers only *)
Definition vnum_eq_rust (a c : vnum) : bool := vn_number a =? vn_number c.

(* ------------------------------------------------------------------ *)
(** * 6. IncrementalValidatorImpl::next *)

(** what a directory entry of the storage hierarchy is to the iterator *)
Inductive tree :=
| TObj (ok : bool)          (** a directory holding an object declaration; validate_object gives Ok / Err *)
| TDir (children : list tree)
| TBadDir                   (** storage.list fails *)
| TLeaf.                    (** a file, a link, or the storage root's own "extensions" directory (mod.rs:1948-1953) *)

(** one element of the iteration *)
Inductive vitem := VResult (ok : bool) | VListErr.

(** all calls of next() until it returns None: [cur] = current_iter, [stack] = dir_iters *)
Fixpoint iter_run (fuel : nat) (cur : list tree) (stack : list (list tree)) : list vitem :=
  match fuel with
  | O => []
  | S f =>
      match cur with
      | [] => match stack with
              | [] => []                                              (* return None *)
              | c :: st => iter_run f c st                            (* current_iter = dir_iters.pop() *)
              end
      | TObj ok :: rest => VResult ok :: iter_run f rest stack        (* return Some(Ok|Err); next call goes on *)
      | TBadDir :: rest => VListErr :: iter_run f rest stack          (* Err(e) => return Some(Err(e)) *)
      | TLeaf :: rest => iter_run f rest stack
      | TDir ch :: rest => iter_run f ch (rest :: stack)              (* dir_iters.push(current_iter.replace(dir)) *)
      end
  end.

(** the specification: one element per object root / unreadable directory, depth first *)
Fixpoint objs (t : tree) : list vitem :=
  match t with
  | TObj ok => [VResult ok]
  | TDir ch => (fix go (l : list tree) : list vitem :=
                  match l with [] => [] | x :: r => objs x ++ go r end) ch
  | TBadDir => [VListErr]
  | TLeaf => []
  end.
Definition objs_list (l : list tree) : list vitem := flat_map objs l.

Fixpoint tsize (t : tree) : nat :=
  match t with
  | TDir ch => S (S ((fix go (l : list tree) : nat :=
                        match l with [] => O | x :: r => (tsize x + go r)%nat end) ch))
  | _ => 1%nat
  end.
Definition lsize (l : list tree) : nat := fold_right (fun t n => (tsize t + n)%nat) O l.
Definition ssize (s : list (list tree)) : nat := fold_right (fun l n => (S (lsize l) + n)%nat) O s.

(* ------------------------------------------------------------------ *)
(** * 7. Display of a VersionNum *)

(** types.rs:396-406 (after commit d5a9e2d): no run-time format width any more
      let digits = self.number.to_string();
      f.write_str("v")?;
      for _ in digits.len()..self.width as usize { f.write_str("0")?; }
      f.write_str(&digits)
    The text written is [vdisplay] of Model/VersionNum.v ('v', width - digits zeros, the digits);
    nothing in it can panic and its cost is the length of the text (C17_display_linear). *)
Definition vdisplay_writes (v : vnum) : N :=            (** calls of write_str *)
  2 + (vn_width v - blen (dec_digits (vn_number v))).

(* ------------------------------------------------------------------ *)
(** * 8. is_uri (serde.rs:1324-1336, commit 389bfd0) in front of URI::try_from of uriparse 0.6.4 (third-party) *)

(** The parser's own defect.  uri.rs:913-916 [URIReference::try_from(value).map_err(|e| URIError::try_from(e).unwrap())]:
    the conversion has no image for SchemelessPathStartsWithColonSegment (uri.rs:1535-1552), raised by
    validate_schemeless_path (uri_reference.rs:1764-1782) when there is no scheme, no authority and
    the first path segment contains ':'.  [uri_try_from_panics] approximates the set of values on
    which the call panics from above: the characters of the path are not checked (an invalid path
    character gives a Path error first, which is converted). *)
Definition is_alpha (c : ascii) : bool :=
  ((65 <=? code c) && (code c <=? 90)) || ((97 <=? code c) && (code c <=? 122)).
Definition scheme_char (c : ascii) : bool :=
  is_alpha c || is_digit c || Ascii.eqb c "+"%char || Ascii.eqb c "-"%char || Ascii.eqb c "."%char.
(** RFC 3986 scheme = ALPHA *( ALPHA / DIGIT / "+" / "-" / "." ).  The same test is written out in is_uri:
      chars.next().map_or(false, |c| c.is_ascii_alphabetic())
        && chars.all(|c| c.is_ascii_alphanumeric() || c == '+' || c == '-' || c == '.')
    (serde.rs:1329-1331; a byte >= 128 of a multi-byte character is neither) *)
Definition scheme_ok (p : bytes) : bool :=
  match p with [] => false | c :: _ => is_alpha c && forallb scheme_char p end.
Fixpoint take_until (f : ascii -> bool) (s : bytes) : bytes :=
  match s with [] => [] | c :: r => if f c then [] else c :: take_until f r end.
Definition is_colon (c : ascii) : bool := Ascii.eqb c ":"%char.
Definition uri_try_from_panics (s : bytes) : bool :=
  let seg := take_until (fun c => Ascii.eqb c "/"%char || Ascii.eqb c "?"%char || Ascii.eqb c "#"%char) s in
  existsb is_colon seg
  && negb (scheme_ok (take_until is_colon s)).

(** [value.split_once(':')] (serde.rs:1327): the text before the first ':' when there is one *)
Definition split_scheme (s : bytes) : option bytes :=
  if existsb is_colon s then Some (take_until is_colon s) else None.

(** the guard: the first two conjuncts of serde.rs:1330-1331; [None => false] serde.rs:1334 *)
Definition uri_guard (s : bytes) : bool :=
  match split_scheme s with Some scheme => scheme_ok scheme | None => false end.

Section IsUri.
  (** what [URI::try_from(value).is_ok()] answers where the call returns: the third-party parser
      enters as a total function, nothing else is assumed about it *)
  Variable uri_ok : bytes -> bool.

  (** one call of the external parser *)
  Definition uri_try_from (s : bytes) : res bool :=
    if uri_try_from_panics s then Panic else Ok (uri_ok s).

  (** is_uri, serde.rs:1326-1336.  [&&] is lazy: the parser is called (serde.rs:1332) only when
      the scheme test has passed.  Result and the arguments of the parser calls made. *)
  Definition is_uri_run (s : bytes) : res bool * list bytes :=
    if uri_guard s then (uri_try_from s, [s]) else (Ok false, []).
  Definition is_uri (s : bytes) : res bool := fst (is_uri_run s).
  Definition is_uri_calls (s : bytes) : list bytes := snd (is_uri_run s).

  (** historical, NOT the current code: before 389bfd0 both call sites read
      [URI::try_from(value).is_err()] with no guard *)
  Definition is_uri_before_fix (s : bytes) : res bool := uri_try_from s.
End IsUri.
