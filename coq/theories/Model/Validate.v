(** C07 - an independent implementation of the OCFL 1.0 / 1.1 object validation
    rules, written from the specification text (resources/main/specs/ocfl_1.1.md,
    ocfl_1.0.txt; section numbers in comments) and NOT from rocfl's validator.

    Layer 1  [inv_errors sv j]      : the rules about one inventory document (a [jv]).
             One boolean per rule; every rule reads the document through
             "all values under key k" ([vals]), so that duplicates and member
             order never change a rule's answer.
    Layer 3  [object_errors fx o]   : the rules about an object root given as an
             abstract directory listing [node]; inventories, sidecars and
             declarations come with their bytes, every file with the digests
             the driver computed for it.
    Codes are for diagnosis only; the verdict is [errors = []].
    Definitions only; lemmas are in Proofs/ValidateFacts.v. *)
From Rocfl Require Export Base.Bytes Model.JsonValue.
From Rocfl Require Import Model.Json.
Open Scope N_scope.

Definition ecode := N.

Inductive spec_version := V10 | V11.

Definition spec_version_eqb (x y : spec_version) : bool :=
  match x, y with V10, V10 | V11, V11 => true | _, _ => false end.
Definition spec_version_leb (x y : spec_version) : bool :=
  match x, y with V11, V10 => false | _, _ => true end.

(** 3.5.1 type: the URI of the inventory section of the specification version *)
Definition type_uri (sv : spec_version) : bytes :=
  match sv with
  | V10 => b "https://ocfl.io/1.0/spec/#inventory"
  | V11 => b "https://ocfl.io/1.1/spec/#inventory"
  end.

(** * Generic helpers *)
Definition nil_b {A} (l : list A) : bool := match l with [] => true | _ => false end.

Definition mem_b (x : bytes) (l : list bytes) : bool := existsb (bytes_eqb x) l.

Fixpoint nodup_b (l : list bytes) : bool :=
  match l with
  | [] => true
  | x :: r => negb (mem_b x r) && nodup_b r
  end.

Definition memN_b (x : N) (l : list N) : bool := existsb (N.eqb x) l.
Fixpoint nodupN_b (l : list N) : bool :=
  match l with
  | [] => true
  | x :: r => negb (memN_b x r) && nodupN_b r
  end.

Definition lower_c (c : ascii) : ascii :=
  if (65 <=? code c) && (code c <=? 90) then ascii_of_N (code c + 32) else c.
Definition lower (s : bytes) : bytes := map lower_c s.

Definition omem (j : jv) : list (bytes * jv) := match j with JObj m => m | _ => [] end.
Definition aelems (j : jv) : list jv := match j with JArr l => l | _ => [] end.
Definition is_obj (j : jv) : bool := match j with JObj _ => true | _ => false end.
Definition is_str (j : jv) : bool := match j with JStr _ => true | _ => false end.
Definition keys {A} (m : list (bytes * A)) : list bytes := map fst m.

(** all values stored under key [k] *)
Definition vals (k : bytes) (m : list (bytes * jv)) : list jv :=
  map snd (filter (fun kv => bytes_eqb (fst kv) k) m).

Definition tvals (k : bytes) (j : jv) : list jv := vals k (omem j).

(** the strings of an array value *)
Definition strs (j : jv) : list bytes :=
  flat_map (fun e => match e with JStr s => [s] | _ => [] end) (aelems j).

(** the value of a digest key is an array of strings (3.5.2, 3.5.3.1, 3.5.4) *)
Definition str_array_ok (v : jv) : bool :=
  match v with JArr l => forallb is_str l | _ => false end.

(** Two things no MUST of the specification forbids and which are therefore NOT rules:
    an empty array as the value of a manifest or state digest (3.5.2 E092 / 3.5.3.1 only fix
    "an array containing the ... paths ... that have content with the given digest"), and the same
    digest twice as a key of one state object (RFC 8259 section 4: names SHOULD be unique; the
    once-only clauses E096 / E097 speak of the manifest and fixity blocks only).  The named
    fields (id, head, created, ...) and version names are different: the specification speaks of
    THE value of the key, so a repeated field is not the described structure (E033). *)

(** * The blocks of an inventory *)
Definition K_id := b "id".
Definition K_type := b "type".
Definition K_alg := b "digestAlgorithm".
Definition K_head := b "head".
Definition K_cdir := b "contentDirectory".
Definition K_manifest := b "manifest".
Definition K_versions := b "versions".
Definition K_fixity := b "fixity".
Definition K_created := b "created".
Definition K_state := b "state".
Definition K_message := b "message".
Definition K_user := b "user".
Definition K_name := b "name".
Definition K_address := b "address".

Definition top_keys : list bytes :=
  [K_id; K_type; K_alg; K_head; K_cdir; K_manifest; K_versions; K_fixity].
Definition version_keys : list bytes := [K_created; K_state; K_message; K_user].
Definition user_keys : list bytes := [K_name; K_address].

Definition manifest_m (j : jv) : list (bytes * jv) := flat_map omem (tvals K_manifest j).
Definition versions_m (j : jv) : list (bytes * jv) := flat_map omem (tvals K_versions j).
Definition fixity_m (j : jv) : list (bytes * jv) := flat_map omem (tvals K_fixity j).
Definition vblocks (j : jv) : list jv := map snd (versions_m j).
Definition state_m (vb : jv) : list (bytes * jv) := flat_map omem (vals K_state (omem vb)).

Definition paths_of (m : list (bytes * jv)) : list bytes := flat_map (fun dv => strs (snd dv)) m.
Definition content_paths (j : jv) : list bytes := paths_of (manifest_m j).
Definition logical_paths (vb : jv) : list bytes := paths_of (state_m vb).

(** * Strings with a grammar *)

(** ** paths: 3.5.2 / 3.5.3.1 - one or more elements joined by '/', no element empty, "." or ".." *)
Fixpoint split_on (sep : ascii) (s : bytes) : list bytes :=
  match s with
  | [] => [[]]
  | c :: r =>
      if Ascii.eqb c sep then [] :: split_on sep r
      else match split_on sep r with
           | h :: t => (c :: h) :: t
           | [] => [[c]]
           end
  end.

Definition seg_bad (p : bytes) : bool :=
  is_empty p || bytes_eqb p (b ".") || bytes_eqb p (b "..").

Definition path_ok (p : bytes) : bool := negb (existsb seg_bad (split_on "/"%char p)).

(** no path is the directory-prefix of another (E101 / E095 "non-conflicting") *)
Definition prefix_free (l : list bytes) : bool :=
  forallb (fun p => forallb (fun q => negb (starts_with (p ++ ["/"%char]) q)) l) l.

(** ** 3.3.1 contentDirectory: a direct child - not empty, no '/', not "." or ".." *)
Definition cdir_ok (s : bytes) : bool :=
  negb (is_empty s) && negb (existsb (fun c => Ascii.eqb c "/"%char) s)
  && negb (bytes_eqb s (b ".")) && negb (bytes_eqb s (b "..")).

(** ** 3.3 version directory names: 'v' then a positive base-ten integer *)
Definition vname_num (k : bytes) : option N :=
  match k with
  | c :: ds =>
      if Ascii.eqb c "v"%char && negb (is_empty ds) && forallb is_digit ds then dec_value ds else None
  | [] => None
  end.

Definition vname_ok (k : bytes) : bool :=
  match vname_num k with Some n => 1 <=? n | None => false end.

Definition vnum0 (k : bytes) : N := match vname_num k with Some n => n | None => 0 end.

(** zero-padded name: 'v' then '0' (E011) *)
Definition v_padded (k : bytes) : bool :=
  match k with
  | c :: d :: _ => Ascii.eqb c "v"%char && Ascii.eqb d "0"%char
  | _ => false
  end.

(** E012/E013: either no name is zero-padded or all are, with one length *)
Definition padding_ok (ks : list bytes) : bool :=
  forallb (fun k => negb (v_padded k)) ks
  || match ks with
     | k0 :: _ => forallb (fun k => v_padded k && (blen k =? blen k0)) ks
     | [] => true
     end.

(** E009/E010: the numbers are exactly 1..count *)
Definition vnums_ok (ks : list bytes) : bool :=
  let ns := map vnum0 ks in
  nodupN_b ns && forallb (fun n => (1 <=? n) && (n <=? N.of_nat (List.length ks))) ns.

(** E040: head names a version and no version has a larger number *)
Definition head_ok (ks : list bytes) (h : bytes) : bool :=
  mem_b h ks && forallb (fun k => vnum0 k <=? vnum0 h) ks.

(** ** RFC 3339 section 5.6 date-time ("T"/"Z" in either case, section 5.6 NOTE) *)
Definition two_digits (x y : ascii) : option N :=
  if is_digit x && is_digit y then Some (10 * digit_val x + digit_val y) else None.

Definition leap_year (y : N) : bool :=
  ((y mod 4 =? 0) && negb (y mod 100 =? 0)) || (y mod 400 =? 0).

Definition days_in_month (y m : N) : N :=
  if m =? 2 then (if leap_year y then 29 else 28)
  else if (m =? 4) || (m =? 6) || (m =? 9) || (m =? 11) then 30 else 31.

Fixpoint skip_digits (s : bytes) : bytes :=
  match s with
  | c :: r => if is_digit c then skip_digits r else s
  | [] => []
  end.

(** time-offset = "Z" / ("+" / "-") time-hour ":" time-minute *)
Definition zone_ok (z : bytes) : bool :=
  match z with
  | [c] => (code c =? 90) || (code c =? 122)
  | [sg; h1; h2; col; m1; m2] =>
      ((code sg =? 43) || (code sg =? 45)) && (code col =? 58) &&
      match two_digits h1 h2, two_digits m1 m2 with
      | Some h, Some m => (h <=? 23) && (m <=? 59)
      | _, _ => false
      end
  | _ => false
  end.

(** [time-secfrac] time-offset ;  time-secfrac = "." 1*DIGIT *)
Definition frac_zone_ok (r : bytes) : bool :=
  match r with
  | c :: r1 =>
      if code c =? 46 then
        match r1 with
        | d :: _ => is_digit d && zone_ok (skip_digits r1)
        | [] => false
        end
      else zone_ok r
  | [] => false
  end.

Definition rfc3339_ok (s : bytes) : bool :=
  match s with
  | y1 :: y2 :: y3 :: y4 :: da :: mo1 :: mo2 :: db :: dd1 :: dd2 :: t ::
    h1 :: h2 :: ca :: mi1 :: mi2 :: cb :: s1 :: s2 :: rest =>
      match two_digits y1 y2, two_digits y3 y4, two_digits mo1 mo2, two_digits dd1 dd2,
            two_digits h1 h2, two_digits mi1 mi2, two_digits s1 s2 with
      | Some ya, Some yb, Some mo, Some dd, Some h, Some mi, Some se =>
          (code da =? 45) && (code db =? 45) && ((code t =? 84) || (code t =? 116))
          && (code ca =? 58) && (code cb =? 58)
          && (1 <=? mo) && (mo <=? 12) && (1 <=? dd) && (dd <=? days_in_month (100 * ya + yb) mo)
          && (h <=? 23) && (mi <=? 59) && (se <=? 60)
          && frac_zone_ok rest
      | _, _, _, _, _, _, _ => false
      end
  | _ => false
  end.

(** ** digests: 3.4 - hex (base16), full length of the algorithm *)
Definition digest_len (alg : bytes) : option N :=
  if bytes_eqb alg (b "sha512") then Some 128
  else if bytes_eqb alg (b "sha256") then Some 64
  else if bytes_eqb alg (b "md5") then Some 32
  else if bytes_eqb alg (b "sha1") then Some 40
  else if bytes_eqb alg (b "blake2b-512") then Some 128
  else None.

Definition hex_of_len (n : N) (d : bytes) : bool := forallb is_hex d && (blen d =? n).

(** a digest key under algorithm name [alg]; names outside the table are not judged (E028) *)
Definition digest_ok (alg d : bytes) : bool :=
  match digest_len alg with Some n => hex_of_len n d | None => true end.

Definition content_alg (a : bytes) : bool := bytes_eqb a (b "sha512") || bytes_eqb a (b "sha256").

(** * Layer 1: the rules of one inventory *)

Definition jstr_is (s : bytes) (v : jv) : bool := match v with JStr x => bytes_eqb x s | _ => false end.
Definition jstr_sat (p : bytes -> bool) (v : jv) : bool := match v with JStr x => p x | _ => false end.

(** 3.5.3.1 user: an object with a [name]; [address] optional; both strings *)
Definition user_ok (u : jv) : bool :=
  is_obj u && nodup_b (keys (omem u)) && forallb (fun k => mem_b k user_keys) (keys (omem u))
  && existsb is_str (vals K_name (omem u))
  && forallb is_str (vals K_address (omem u)).

(** 3.5.4 one block of the fixity section *)
Definition fixity_block_ok (j : jv) (alg : bytes) (blk : jv) : bool :=
  is_obj blk
  && nodup_b (keys (omem blk))
  && nodup_b (map lower (keys (omem blk)))                                  (* E097 *)
  && forallb (digest_ok alg) (keys (omem blk))                             (* E057 *)
  && forallb (fun dv => str_array_ok (snd dv)) (omem blk)                  (* E057 *)
  && forallb path_ok (paths_of (omem blk))                                 (* E099 E100 *)
  && nodup_b (paths_of (omem blk))                                         (* E101 *)
  && forallb (fun p => mem_b p (content_paths j)) (paths_of (omem blk)).   (* E057: content paths of the object *)

Definition all_blocks (f : jv -> bool) (j : jv) : bool := forallb f (vblocks j).
Definition AB (f : jv -> bool) (_ : spec_version) (j : jv) : bool := all_blocks f j.

Record rule := mkRule { r_code : ecode; r_check : spec_version -> jv -> bool }.

Definition R (c : ecode) (f : spec_version -> jv -> bool) : rule := mkRule c f.

Definition rules : list rule := [
  (* 3.5 the inventory is a JSON object; no key twice; no key outside the specification *)
  R 33  (fun _ j => is_obj j);
  R 33  (fun _ j => nodup_b (keys (omem j)));
  R 102 (fun _ j => forallb (fun k => mem_b k top_keys) (keys (omem j)));
  (* 3.5.1 id, type, digestAlgorithm, head *)
  R 36  (fun _ j => existsb (jstr_sat (fun s => negb (is_empty s))) (tvals K_id j));
  R 38  (fun sv j => existsb (jstr_is (type_uri sv)) (tvals K_type j));
  R 25  (fun _ j => existsb (jstr_sat content_alg) (tvals K_alg j));
  R 40  (fun _ j => existsb (jstr_sat (head_ok (keys (versions_m j)))) (tvals K_head j));
  (* 3.3.1 contentDirectory *)
  R 17  (fun _ j => forallb (jstr_sat cdir_ok) (tvals K_cdir j));
  (* 3.5.1 manifest and versions blocks; 3.3 at least one version *)
  R 41  (fun _ j => existsb is_obj (tvals K_manifest j));
  R 41  (fun _ j => existsb (fun v => is_obj v && negb (nil_b (omem v))) (tvals K_versions j));
  R 111 (fun _ j => forallb is_obj (tvals K_fixity j));
  (* 3.5.3 / 3.3 version names *)
  R 33  (fun _ j => nodup_b (keys (versions_m j)));
  R 104 (fun _ j => forallb vname_ok (keys (versions_m j)));
  R 10  (fun _ j => vnums_ok (keys (versions_m j)));
  R 12  (fun _ j => padding_ok (keys (versions_m j)));
  (* 3.5.3.1 version blocks *)
  R 47  (AB is_obj);
  R 33  (AB (fun vb => nodup_b (keys (omem vb))));
  R 102 (AB (fun vb => forallb (fun k => mem_b k version_keys) (keys (omem vb))));
  R 49  (AB (fun vb => existsb (jstr_sat rfc3339_ok) (vals K_created (omem vb))));
  R 48  (AB (fun vb => existsb is_obj (vals K_state (omem vb))));
  R 94  (AB (fun vb => forallb is_str (vals K_message (omem vb))));
  R 54  (AB (fun vb => forallb user_ok (vals K_user (omem vb))));
  (* state *)
  R 50  (fun _ j => all_blocks (fun vb => forallb (fun d => mem_b d (keys (manifest_m j))) (keys (state_m vb))) j);
  R 51  (AB (fun vb => forallb (fun dv => str_array_ok (snd dv)) (state_m vb)));
  R 52  (AB (fun vb => forallb path_ok (logical_paths vb)));
  R 95  (AB (fun vb => nodup_b (logical_paths vb)));
  R 95  (AB (fun vb => prefix_free (logical_paths vb)));
  (* 3.5.2 manifest *)
  R 33  (fun _ j => nodup_b (keys (manifest_m j)));
  R 96  (fun _ j => nodup_b (map lower (keys (manifest_m j))));
  R 96  (fun _ j => forallb (fun v => match v with
                                      | JStr a => negb (content_alg a) || forallb (digest_ok a) (keys (manifest_m j))
                                      | _ => true
                                      end) (tvals K_alg j));
  R 92  (fun _ j => forallb (fun dv => str_array_ok (snd dv)) (manifest_m j));
  R 99  (fun _ j => forallb path_ok (content_paths j));
  R 101 (fun _ j => nodup_b (content_paths j));
  R 101 (fun _ j => prefix_free (content_paths j));
  R 107 (fun _ j => forallb (fun d => existsb (fun vb => mem_b d (keys (state_m vb))) (vblocks j))
                      (keys (manifest_m j)));
  (* 3.5.4 fixity *)
  R 33  (fun _ j => nodup_b (keys (fixity_m j)));
  R 57  (fun _ j => forallb (fun ab => fixity_block_ok j (fst ab) (snd ab)) (fixity_m j))
].

Definition rule_errors (sv : spec_version) (j : jv) (r : rule) : list ecode :=
  if r_check r sv j then [] else [r_code r].

Definition inv_errors (sv : spec_version) (j : jv) : list ecode :=
  flat_map (rule_errors sv j) rules.

Definition inv_valid (sv : spec_version) (j : jv) : bool := nil_b (inv_errors sv j).

(** an inventory given as bytes: E033 when it is not JSON *)
Definition inv_errors_bytes (sv : spec_version) (s : bytes) : list ecode :=
  match parse_json s with
  | Some j => inv_errors sv j
  | None => [33]
  end.

(** * Layer 3: the object root *)

Inductive node :=
| NFile (digs : list (bytes * bytes)) (content : option bytes)
      (* (algorithm name, lower-case hex digest) pairs computed by the driver; the bytes
         of inventories, sidecars and declarations *)
| NDir (entries : list (bytes * node))
| NOther.                                              (* symbolic link, device ... *)

Definition entries (n : node) : list (bytes * node) := match n with NDir e => e | _ => [] end.
Definition is_dir (n : node) : bool := match n with NDir _ => true | _ => false end.
Definition is_file (n : node) : bool := match n with NFile _ _ => true | _ => false end.

Fixpoint assoc {A} (k : bytes) (m : list (bytes * A)) : option A :=
  match m with
  | [] => None
  | (k', v) :: r => if bytes_eqb k' k then Some v else assoc k r
  end.

Definition file_bytes (n : node) : option bytes := match n with NFile _ (Some c) => Some c | _ => None end.
Definition file_digest (alg : bytes) (n : node) : option bytes :=
  match n with NFile digs _ => assoc alg digs | _ => None end.

(** first string stored under a key of an inventory *)
Definition str_field (k : bytes) (j : jv) : option bytes :=
  match tvals k j with JStr s :: _ => Some s | _ => None end.

Definition inv_alg (j : jv) : option bytes :=
  match str_field K_alg j with Some a => if content_alg a then Some a else None | None => None end.
Definition inv_cdir (j : jv) : bytes :=
  match str_field K_cdir j with Some c => c | None => b "content" end.
Definition inv_type_version (j : jv) : option spec_version :=
  match str_field K_type j with
  | Some t => if bytes_eqb t (type_uri V10) then Some V10
              else if bytes_eqb t (type_uri V11) then Some V11 else None
  | None => None
  end.

(** ** 3.2 conformance declaration *)
Definition decl_version (name : bytes) : option spec_version :=
  if bytes_eqb name (b "0=ocfl_object_1.0") then Some V10
  else if bytes_eqb name (b "0=ocfl_object_1.1") then Some V11 else None.

Definition NL : ascii := ascii_of_N 10.

Definition declaration (es : list (bytes * node)) : list ecode * option spec_version :=
  match filter (fun e => starts_with (b "0=") (fst e)) es with
  | [(name, nd)] =>
      match decl_version name with
      | Some sv =>
          match nd with
          | NFile _ (Some c) => (if bytes_eqb c (skipn 2 name ++ [NL]) then [] else [7], Some sv)
          | _ => ([3], Some sv)
          end
      | None => ([6], None)
      end
  | _ => ([3], None)
  end.

(** ** 3.6 sidecar:  DIGEST 1*(SP / HTAB) "inventory.json" ; trailing white space is not significant *)
Fixpoint span_hex (s : bytes) : bytes * bytes :=
  match s with
  | c :: r => if is_hex c then let '(a, rest) := span_hex r in (c :: a, rest) else ([], s)
  | [] => ([], [])
  end.
Fixpoint skip_blank (s : bytes) : bytes :=
  match s with
  | c :: r => if (code c =? 32) || (code c =? 9) then skip_blank r else s
  | [] => []
  end.

(** what may follow the file name: blanks and line ends *)
Definition is_trail (c : ascii) : bool :=
  (code c =? 32) || (code c =? 9) || (code c =? 10) || (code c =? 13).

Definition sidecar_digest (c : bytes) : option bytes :=
  let '(d, r) := span_hex c in
  if is_empty d then None
  else match r with
       | sp :: _ =>
           if (code sp =? 32) || (code sp =? 9) then
             let t := skip_blank r in
             if starts_with (b "inventory.json") t && forallb is_trail (skipn 14 t)
             then Some (lower d) else None
           else None
       | [] => None
       end.

Definition SIDE := b "inventory.json.".
Definition INV := b "inventory.json".

(** a name an inventory digest file can have at all: inventory.json.sha512 / inventory.json.sha256
    (3.6 with 3.4 E025); used where no legal digestAlgorithm is known *)
Definition sidecar_name (name : bytes) : bool :=
  bytes_eqb name (SIDE ++ b "sha512") || bytes_eqb name (SIDE ++ b "sha256").

(** the sidecar of an inventory file [invn] in directory [es]; [alg] = its digestAlgorithm if legal *)
Definition sidecar_errors (es : list (bytes * node)) (invn : node) (alg : option bytes) : list ecode :=
  match alg with
  | Some a =>
      match assoc (SIDE ++ a) es with
      | Some sn =>
          match file_bytes sn with
          | Some c =>
              match sidecar_digest c with
              | Some d => match file_digest a invn with
                          | Some d' => if bytes_eqb d d' then [] else [60]
                          | None => [60]
                          end
              | None => [61]
              end
          | None => [58]
          end
      | None => [58]
      end
  | None =>
      (* no legal algorithm: some sidecar must at least exist *)
      if existsb (fun e => sidecar_name (fst e)) es then [] else [58]
  end.

(** ** content files *)
Definition SLASH : bytes := ["/"%char].

Fixpoint walk (pre : bytes) (n : node) : list (bytes * node) :=
  match n with
  | NDir es => flat_map (fun e => walk (pre ++ SLASH ++ fst e) (snd e)) es
  | _ => [(pre, n)]
  end.

Fixpoint has_empty_dir (n : node) : bool :=
  match n with
  | NDir [] => true
  | NDir es => existsb (fun e => has_empty_dir (snd e)) es
  | _ => false
  end.

(** files below [vname/cdir] with their object-relative paths *)
Definition version_content (cdir : bytes) (vname : bytes) (vdir : node) : list (bytes * node) :=
  match assoc cdir (entries vdir) with
  | Some (NDir es) => walk (vname ++ SLASH ++ cdir) (NDir es)
  | _ => []
  end.

(** E024: empty directories strictly inside the content directory *)
Definition version_empty_dirs (cdir : bytes) (vdir : node) : bool :=
  match assoc cdir (entries vdir) with
  | Some (NDir es) => existsb (fun e => has_empty_dir (snd e)) es
  | _ => false
  end.

(** (content path, lower-case digest) pairs of a manifest-shaped member list *)
Definition path_digests (m : list (bytes * jv)) : list (bytes * bytes) :=
  flat_map (fun dv => map (fun p => (p, lower (fst dv))) (strs (snd dv))) m.

Definition subset_b (x y : list bytes) : bool := forallb (fun p => mem_b p y) x.

Definition pair_mem_b (p : bytes * bytes) (l : list (bytes * bytes)) : bool :=
  existsb (fun q => bytes_eqb (fst p) (fst q) && bytes_eqb (snd p) (snd q)) l.

(** E023 / E092 for one inventory against the files of the version directories it covers;
    with [fx] the digest of every file under the inventory's algorithm *)
Definition manifest_vs_files (fx : bool) (j : jv) (files : list (bytes * node)) : list ecode :=
  let mp := path_digests (manifest_m j) in
  (if subset_b (keys files) (keys mp) then [] else [23])
  ++ (if subset_b (keys mp) (keys files) then [] else [92])
  ++ (if forallb (fun f => is_file (snd f)) files then [] else [90])
  ++ (if fx then
        match inv_alg j with
        | Some a =>
            if forallb (fun pd => match assoc (fst pd) files with
                                  | Some n => match file_digest a n with
                                              | Some d => bytes_eqb d (snd pd)
                                              | None => true
                                              end
                                  | None => true
                                  end) mp
            then [] else [92]
        | None => []
        end
      else []).

(** E093: the fixity section against the files (algorithms the driver has digests for) *)
Definition fixity_vs_files (j : jv) (files : list (bytes * node)) : list ecode :=
  if forallb (fun ab =>
                forallb (fun pd => match assoc (fst pd) files with
                                   | Some n => match file_digest (fst ab) n with
                                               | Some d => bytes_eqb d (snd pd)
                                               | None => true
                                               end
                                   | None => true
                                   end) (path_digests (omem (snd ab))))
             (fixity_m j)
  then [] else [93].

(** ** 3.7 a prior version's inventory against the root inventory *)

(** logical path -> lower-case digest of one version block *)
Definition state_map (vb : jv) : list (bytes * bytes) := path_digests (state_m vb).

(** content paths a digest stands for in an inventory *)
Definition digest_paths (j : jv) (d : bytes) : list bytes :=
  map fst (filter (fun pd => bytes_eqb (snd pd) d) (path_digests (manifest_m j))).

Definition intersects (x y : list bytes) : bool := existsb (fun p => mem_b p y) x.

Definition same_state (same_alg : bool) (vj rj : jv) (vb rb : jv) : bool :=
  let a1 := state_map vb in
  let a2 := state_map rb in
  if same_alg then
    forallb (fun p => pair_mem_b p a2) a1 && forallb (fun p => pair_mem_b p a1) a2
  else
    subset_b (keys a1) (keys a2) && subset_b (keys a2) (keys a1)
    && forallb (fun pd =>
                  existsb (fun qd => bytes_eqb (fst pd) (fst qd)
                                     && intersects (digest_paths vj (snd pd)) (digest_paths rj (snd qd))) a2) a1.

Definition opt_bytes_eqb (x y : option bytes) : bool :=
  match x, y with
  | Some p, Some q => bytes_eqb p q
  | None, None => true
  | _, _ => false
  end.

Definition prior_vs_root (vname : bytes) (vj rj : jv) : list ecode :=
  let same_alg := opt_bytes_eqb (inv_alg vj) (inv_alg rj) in
  (if opt_bytes_eqb (str_field K_id vj) (str_field K_id rj) then [] else [37])
  ++ (if bytes_eqb (inv_cdir vj) (inv_cdir rj) then [] else [19])
  ++ (if opt_bytes_eqb (str_field K_head vj) (Some vname) then [] else [40])
  ++ (if forallb (fun kv => match assoc (fst kv) (versions_m rj) with
                            | Some rb => same_state same_alg vj rj (snd kv) rb
                            | None => false
                            end) (versions_m vj)
      then [] else [66])
  ++ (if same_alg then
        (* one content path, one digest: both manifests describe the same files *)
        if forallb (fun pd => match assoc (fst pd) (path_digests (manifest_m rj)) with
                              | Some d => bytes_eqb d (snd pd)
                              | None => true
                              end) (path_digests (manifest_m vj))
        then [] else [92]
      else []).

(** ** the object *)

Fixpoint sorted_sv (l : list spec_version) : bool :=
  match l with
  | x :: ((y :: _) as r) => spec_version_leb x y && sorted_sv r
  | _ => true
  end.

(** insertion sort of version names by number *)
Fixpoint insert_v (k : bytes) (l : list bytes) : list bytes :=
  match l with
  | [] => [k]
  | x :: r => if vnum0 k <=? vnum0 x then k :: l else x :: insert_v k r
  end.
Definition sort_v (l : list bytes) : list bytes := fold_right insert_v [] l.

(** per version directory: (errors, files below its content directory, spec version of its inventory) *)
Definition version_dir (fx : bool) (rj : jv) (rinv : node) (rbytes : bytes) (all_files : bytes -> list (bytes * node))
           (vname : bytes) (vdir : node) : list ecode * option spec_version :=
  let es := entries vdir in
  let is_head := opt_bytes_eqb (str_field K_head rj) (Some vname) in
  match assoc INV es with
  | Some invn =>
      match file_bytes invn with
      | Some vb =>
          if is_head then
            let side := sidecar_errors es invn (inv_alg rj) in
            let stray := if forallb (fun e => is_dir (snd e) || bytes_eqb (fst e) INV
                                               || (is_file (snd e) &&
                                                   match inv_alg rj with
                                                   | Some a => bytes_eqb (fst e) (SIDE ++ a)
                                                   | None => sidecar_name (fst e)
                                                   end)) es
                         then [] else [15] in
            ((if bytes_eqb vb rbytes then [] else [64]) ++ side ++ stray, inv_type_version rj)
          else
            match parse_json vb with
            | Some vj =>
                let side := sidecar_errors es invn (inv_alg vj) in
                let stray := if forallb (fun e => is_dir (snd e) || bytes_eqb (fst e) INV
                                                   || (is_file (snd e) &&
                                                       match inv_alg vj with
                                                       | Some a => bytes_eqb (fst e) (SIDE ++ a)
                                                       | None => sidecar_name (fst e)
                                                       end)) es
                             then [] else [15] in
                let own := match inv_type_version vj with
                           | Some sv => inv_errors sv vj
                           | None => [38]
                           end in
                (own ++ side ++ stray ++ prior_vs_root vname vj rj
                 ++ manifest_vs_files fx vj (all_files vname),
                 inv_type_version vj)
            | None => ([33], None)
            end
      | None => ([15], None)
      end
  | None =>
      (* W010: no inventory in the version directory; still no stray files *)
      (if forallb (fun e => is_dir (snd e) || (is_file (snd e) && sidecar_name (fst e))) es then [] else [15], None)
  end.

Definition opt_list {A} (o : option A) : list A := match o with Some x => [x] | None => [] end.

Definition object_errors (fx : bool) (root : node) : list ecode :=
  match root with
  | NDir es =>
      let '(derr, dsv) := declaration es in
      match assoc INV es with
      | Some rinv =>
          match file_bytes rinv with
          | Some rbytes =>
              match parse_json rbytes with
              | Some rj =>
                  let sv := match dsv with
                            | Some sv => sv
                            | None => match inv_type_version rj with Some sv => sv | None => V11 end
                            end in
                  let ierr := inv_errors sv rj in
                  let alg := inv_alg rj in
                  let cdir := inv_cdir rj in
                  let vks := keys (versions_m rj) in
                  let side := sidecar_errors es rinv alg in
                  (* 3.1 E001: nothing else in the object root *)
                  let rooterr :=
                    flat_map (fun e =>
                      let '(name, nd) := e in
                      if starts_with (b "0=") name then (if is_file nd then [] else [1])
                      else if bytes_eqb name INV then []
                      else if starts_with SIDE name then
                        (if is_file nd && match alg with Some a => bytes_eqb name (SIDE ++ a) | None => sidecar_name name end
                         then [] else [1])
                      else if mem_b name vks then (if is_dir nd then [] else [1])
                      else if bytes_eqb name (b "logs") then (if is_dir nd then [] else [1])
                      else if bytes_eqb name (b "extensions") then
                        (if is_dir nd then (if forallb (fun x => is_dir (snd x)) (entries nd) then [] else [67]) else [1])
                      else [1]) es in
                  (* E010: every version of the inventory has its directory *)
                  let missing := if forallb (fun k => match assoc k es with Some (NDir _) => true | _ => false end) vks
                                 then [] else [10] in
                  let vdirs := flat_map (fun k => match assoc k es with Some (NDir x) => [(k, NDir x)] | _ => [] end)
                                        (sort_v vks) in
                  (* content files of the version directories up to and including [vname] *)
                  let files_upto := fun vname =>
                    flat_map (fun kv => if vnum0 (fst kv) <=? vnum0 vname
                                        then version_content cdir (fst kv) (snd kv) else []) vdirs in
                  let all_files := flat_map (fun kv => version_content cdir (fst kv) (snd kv)) vdirs in
                  let per := map (fun kv => version_dir fx rj rinv rbytes files_upto (fst kv) (snd kv)) vdirs in
                  let verr := flat_map fst per in
                  let svs := flat_map (fun x => opt_list (snd x)) per in
                  let e103 := if sorted_sv (svs ++ [sv]) then [] else [103] in
                  let e024 := if existsb (fun kv => version_empty_dirs cdir (snd kv)) vdirs then [24] else [] in
                  derr ++ ierr ++ side ++ rooterr ++ missing ++ verr ++ e103 ++ e024
                  ++ manifest_vs_files fx rj all_files
                  ++ (if fx then fixity_vs_files rj all_files else [])
              | None => derr ++ [33]
              end
          | None => derr ++ [63]
          end
      | None => derr ++ [63]
      end
  | _ => [3]
  end.

Definition object_valid (fx : bool) (root : node) : bool := nil_b (object_errors fx root).
