(** C07 - how rocfl validate reads the string tokens of an inventory (the only part of
    rocfl's validator that is modelled; the verdict itself is compared with the
    independent validator of Model/Validate.v by the correspondence check).

    Now (fix 2f36fc5): every string the visitors of src/ocfl/validate/serde.rs look at is
    deserialised as [Cow<str>] - id 184, digestAlgorithm 235, head 280, contentDirectory 306,
    version names 572, created 743, manifest digests 919 and paths 921 ([Vec<Cow<str>>]),
    state digests and paths 1032, user address 1216 - or as [String] (type, message, name).
    serde_json hands a [Cow<str>] / [String] visitor the decoded text whether or not the token
    has an escape (read.rs:455-467: Reference::Borrowed or Reference::Copied, both accepted),
    so the reader is the conforming decoder at every position.

    Before the fix the same positions were [&str] / [Vec<&str>]; a visitor of [&str] only
    accepts Reference::Borrowed, i.e. a token without a backslash ([Json.read_borrowed]).
    Kept as a separate definition for the historical note of Props/C07.v. *)
From Rocfl Require Import Base.Bytes Model.Json.

Definition validator_read (t : bytes) : option bytes := decode_string t.

Definition validator_read_before_fix (t : bytes) : option bytes := read_borrowed t.
