(** C07 - the MUST clauses of the OCFL 1.0 / 1.1 specification about ONE inventory
    document, stated declaratively (relations, quantifiers, [In], [NoDup]) and
    independently of the executable checker of Model/Validate.v.  Each clause is
    numbered by the section of resources/main/specs/ocfl_1.1.md it transcribes
    and by the validation code the specification attaches to the sentence.
    Only [spec_version] / [type_uri] (the two inventory type URIs) and the key
    names are shared with Model/Validate.v.

    Reading conventions (places where the text leaves room; each was confronted
    with rocfl and with the second independent validator on the C07 corpus):
    - a named field (id, head, created, ...) or a version name that occurs twice
      is not "the structure described in this section" (3.5, E033);
    - `id` is a non-empty string; `contentDirectory` names a direct child (3.3.1, E108);
    - `created`: RFC 3339 section 5.6 grammar, "T"/"Z" in either case (5.6 NOTE),
      seconds up to 60, real calendar dates, offsets within 23:59;
    - the keys of the manifest (and of a fixity block under a tabled algorithm) are
      hex strings of the algorithm's length (3.4 E025-E032, 3.5.1 E039);
    - fixity paths are content paths of the object (3.5.4 "any subset of content paths in the object");
    - NOT clauses, because no MUST says so: an empty array under a manifest or state
      digest; the same digest twice as a key of one state object. *)
From Rocfl Require Import Base.Bytes Model.JsonValue Model.Validate.
Open Scope N_scope.

(** * Reading a document *)
Definition Has (j : jv) (k : bytes) (v : jv) : Prop := exists m, j = JObj m /\ In (k, v) m.
Definition IsObj (j : jv) : Prop := exists m, j = JObj m.
Definition IsStr (j : jv) : Prop := exists s, j = JStr s.
Definition UniqueKeys (j : jv) : Prop := forall m, j = JObj m -> NoDup (map fst m).
Definition KeysAmong (j : jv) (allowed : list bytes) : Prop := forall k v, Has j k v -> In k allowed.
(** [v] is the array of the strings [l] *)
Definition StrArray (v : jv) (l : list bytes) : Prop := v = JArr (map JStr l).

(** the version block [vb] named [k] *)
Definition Ver (j : jv) (k : bytes) (vb : jv) : Prop := exists vs, Has j K_versions vs /\ Has vs k vb.
(** the state block [st] of version [k] *)
Definition StateOf (j : jv) (k : bytes) (st : jv) : Prop := exists vb, Ver j k vb /\ Has vb K_state st.
(** digest [d] with value [v] in the state of version [k] / in the manifest / in the fixity block of algorithm [a] *)
Definition St (j : jv) (k d : bytes) (v : jv) : Prop := exists st, StateOf j k st /\ Has st d v.
Definition Man (j : jv) (d : bytes) (v : jv) : Prop := exists mv, Has j K_manifest mv /\ Has mv d v.
Definition Fix (j : jv) (a : bytes) (blk : jv) : Prop := exists fv, Has j K_fixity fv /\ Has fv a blk.

(** all the paths of a digest -> [paths] block, in document order *)
Inductive AllPaths : list (bytes * jv) -> list bytes -> Prop :=
| ap_nil : AllPaths [] []
| ap_cons d v l m r : StrArray v l -> AllPaths m r -> AllPaths ((d, v) :: m) (l ++ r).

Definition IsContentPath (j : jv) (p : bytes) : Prop :=
  exists d v l, Man j d v /\ StrArray v l /\ In p l.

(** * Strings with a grammar *)
Definition Digit (c : ascii) : Prop := 48 <= code c <= 57.
Definition HexChar (c : ascii) : Prop :=
  48 <= code c <= 57 \/ 97 <= code c <= 102 \/ 65 <= code c <= 70.

(** 3.3: "v" followed by the base-ten numeral of [n] (leading zeros allowed, E011) *)
Definition VersionNumber (k : bytes) (n : N) : Prop :=
  exists ds, k = "v"%char :: ds /\ ds <> [] /\ Forall Digit ds /\ dec_value ds = Some n.

Definition ZeroPadded (k : bytes) : Prop := exists r, k = "v"%char :: "0"%char :: r.

(** 3.5.2 E098-E100, 3.5.3.1 E051-E053: one or more elements joined by "/", none empty, "." or ".." *)
Fixpoint join_slash (segs : list bytes) : bytes :=
  match segs with
  | [] => []
  | [s] => s
  | s :: r => s ++ "/"%char :: join_slash r
  end.

Definition PathOK (p : bytes) : Prop :=
  exists segs, segs <> [] /\ p = join_slash segs /\
    forall s, In s segs -> s <> [] /\ ~ In "/"%char s /\ s <> b "." /\ s <> b "..".

(** E101 / E095: [p] as a directory prefix of [q] *)
Definition PrefixOf (p q : bytes) : Prop := exists r, q = p ++ "/"%char :: r.

(** 3.3.1 E017 E018 E108 *)
Definition DirectChildName (s : bytes) : Prop :=
  s <> [] /\ ~ In "/"%char s /\ s <> b "." /\ s <> b "..".

(** 3.4: hex (base16) encoding of the algorithm's full length *)
Definition HexDigest (n : N) (d : bytes) : Prop := blen d = n /\ Forall HexChar d.

Inductive AlgLength : bytes -> N -> Prop :=
| al_sha512 : AlgLength (b "sha512") 128
| al_sha256 : AlgLength (b "sha256") 64
| al_md5 : AlgLength (b "md5") 32
| al_sha1 : AlgLength (b "sha1") 40
| al_blake2b : AlgLength (b "blake2b-512") 128.

Definition DigestFor (a d : bytes) : Prop := forall n, AlgLength a n -> HexDigest n d.

(** RFC 3339 section 5.6 *)
Definition Num2 (x y : ascii) (n : N) : Prop := Digit x /\ Digit y /\ n = 10 * (code x - 48) + (code y - 48).

Definition LeapYear (y : N) : Prop := (y mod 4 = 0 /\ y mod 100 <> 0) \/ y mod 400 = 0.

Definition DaysInMonth (y m d : N) : Prop :=
  (m = 2 /\ ((LeapYear y /\ d = 29) \/ (~ LeapYear y /\ d = 28)))
  \/ ((m = 4 \/ m = 6 \/ m = 9 \/ m = 11) /\ d = 30)
  \/ ((m = 1 \/ m = 3 \/ m = 5 \/ m = 7 \/ m = 8 \/ m = 10 \/ m = 12) /\ d = 31).

(** time-secfrac = "." 1*DIGIT (optional) *)
Definition SecFrac (f : bytes) : Prop :=
  f = [] \/ exists ds, f = "."%char :: ds /\ ds <> [] /\ Forall Digit ds.

(** time-offset = "Z" / ("+" / "-") time-hour ":" time-minute *)
Definition TimeOffset (z : bytes) : Prop :=
  z = b "Z" \/ z = b "z" \/
  exists sg h1 h2 m1 m2 h m,
    z = [sg; h1; h2; ":"%char; m1; m2] /\ (sg = "+"%char \/ sg = "-"%char) /\
    Num2 h1 h2 h /\ Num2 m1 m2 m /\ h <= 23 /\ m <= 59.

Definition Rfc3339 (s : bytes) : Prop :=
  exists y1 y2 y3 y4 mo1 mo2 dd1 dd2 t h1 h2 mi1 mi2 s1 s2 frac zone ya yb mo dd dim h mi se,
    s = [y1; y2; y3; y4; "-"%char; mo1; mo2; "-"%char; dd1; dd2; t; h1; h2; ":"%char; mi1; mi2; ":"%char; s1; s2]
        ++ frac ++ zone /\
    (t = "T"%char \/ t = "t"%char) /\
    Num2 y1 y2 ya /\ Num2 y3 y4 yb /\ Num2 mo1 mo2 mo /\ Num2 dd1 dd2 dd /\
    Num2 h1 h2 h /\ Num2 mi1 mi2 mi /\ Num2 s1 s2 se /\
    1 <= mo <= 12 /\ DaysInMonth (100 * ya + yb) mo dim /\ 1 <= dd <= dim /\
    h <= 23 /\ mi <= 59 /\ se <= 60 /\
    SecFrac frac /\ TimeOffset zone.

(** * The clauses *)
Section Clauses.
Variable sv : spec_version.
Variable j : jv.

(** 3.5 (E033): the inventory is a JSON object whose fields occur once; E102: no other keys *)
Definition S_object := IsObj j.
Definition S_top_once := UniqueKeys j.
Definition S_top_known := KeysAmong j [K_id; K_type; K_alg; K_head; K_cdir; K_manifest; K_versions; K_fixity].

(** 3.5.1 (E036): id *)
Definition S_id := exists s, Has j K_id (JStr s) /\ s <> [].
(** 3.5.1 (E036, E038): type is the URI of the declared specification version *)
Definition S_type := Has j K_type (JStr (type_uri sv)).
(** 3.5.1 (E036), 3.4 (E025): digestAlgorithm is sha512 or sha256 *)
Definition S_alg := exists a, Has j K_alg (JStr a) /\ (a = b "sha512" \/ a = b "sha256").
(** 3.5.1 (E036, E040): head is the version name with the highest number *)
Definition S_head :=
  exists h hn vb, Has j K_head (JStr h) /\ Ver j h vb /\ VersionNumber h hn /\
    forall k vb' n, Ver j k vb' -> VersionNumber k n -> n <= hn.
(** 3.3.1 (E017, E018, E108): contentDirectory, when present *)
Definition S_cdir := forall v, Has j K_cdir v -> exists s, v = JStr s /\ DirectChildName s.
(** 3.5.1 (E041), 3.5.2 (E106): manifest block *)
Definition S_manifest := exists mv, Has j K_manifest mv /\ IsObj mv.
(** 3.5.3 (E043-E045), 3.3 (E008): versions block with one or more versions *)
Definition S_versions := exists vs k vb, Has j K_versions vs /\ Has vs k vb.
Definition S_versions_obj := forall vs, Has j K_versions vs -> IsObj vs /\ UniqueKeys vs.
(** 3.5.4 (E111): fixity, when present, is an object *)
Definition S_fixity := forall fv, Has j K_fixity fv -> IsObj fv /\ UniqueKeys fv.

(** 3.3 (E104, E105): version names *)
Definition S_vnames := forall k vb, Ver j k vb -> exists n, VersionNumber k n /\ 1 <= n.
(** 3.3 (E009, E010): 1, 2, 3 ... without a gap, each number once *)
Definition S_vcontiguous :=
  (forall k vb n m, Ver j k vb -> VersionNumber k n -> 1 <= m < n -> exists k' vb', Ver j k' vb' /\ VersionNumber k' m)
  /\ (forall k vb k' vb' n, Ver j k vb -> Ver j k' vb' -> VersionNumber k n -> VersionNumber k' n -> k = k').
(** 3.3 (E011-E013): one naming convention *)
Definition S_vpadding :=
  (forall k vb, Ver j k vb -> ~ ZeroPadded k)
  \/ (exists w, forall k vb, Ver j k vb -> ZeroPadded k /\ blen k = w).

(** 3.5.3 (E047), 3.5 (E033, E102): every version is an object with the described keys, each once *)
Definition S_vblock :=
  forall k vb, Ver j k vb -> IsObj vb /\ UniqueKeys vb /\ KeysAmong vb [K_created; K_state; K_message; K_user].
(** 3.5.3.1 (E048, E049): created *)
Definition S_created := forall k vb, Ver j k vb -> exists c, Has vb K_created (JStr c) /\ Rfc3339 c.
(** 3.5.3.1 (E048): state *)
Definition S_state := forall k vb, Ver j k vb -> exists st, Has vb K_state st /\ IsObj st.
(** 3.5.3.1 (E094): message *)
Definition S_message := forall k vb v, Ver j k vb -> Has vb K_message v -> IsStr v.
(** 3.5.3.1 (E054): user has a name; name and address are strings *)
Definition S_user :=
  forall k vb u, Ver j k vb -> Has vb K_user u ->
    IsObj u /\ UniqueKeys u /\ KeysAmong u [K_name; K_address]
    /\ (exists n, Has u K_name (JStr n)) /\ (forall a, Has u K_address a -> IsStr a).

(** 3.5.3.1 (E050): a state digest exactly matches a manifest key *)
Definition S_state_digests := forall k d v, St j k d v -> exists pv, Man j d pv.
(** 3.5.3.1: the value is an array of logical paths *)
Definition S_state_arrays := forall k d v, St j k d v -> exists l, StrArray v l.
(** 3.5.3.1 (E051-E053) *)
Definition S_lpaths := forall k d v l p, St j k d v -> StrArray v l -> In p l -> PathOK p.
(** 3.5.3.1 (E095): within a version, logical paths are unique and non-conflicting *)
Definition S_lpaths_unique :=
  forall k st m ps, StateOf j k st -> st = JObj m -> AllPaths m ps ->
    NoDup ps /\ forall p q, In p ps -> In q ps -> ~ PrefixOf p q.

(** 3.5.2 (E096): each digest once, regardless of case *)
Definition S_man_once := forall mv m, Has j K_manifest mv -> mv = JObj m -> NoDup (map (fun dv => lower (fst dv)) m).
(** 3.4 (E025-E031), 3.5.1 (E039): manifest keys are digests of the digestAlgorithm *)
Definition S_man_digests :=
  forall a d v, Has j K_alg (JStr a) -> (a = b "sha512" \/ a = b "sha256") -> Man j d v -> DigestFor a d.
(** 3.5.2 (E092): the value is an array of content paths *)
Definition S_man_arrays := forall d v, Man j d v -> exists l, StrArray v l.
(** 3.5.2 (E098-E100) *)
Definition S_cpaths := forall d v l p, Man j d v -> StrArray v l -> In p l -> PathOK p.
(** 3.5.2 (E101): within an inventory, content paths are unique and non-conflicting *)
Definition S_cpaths_unique :=
  forall mv m ps, Has j K_manifest mv -> mv = JObj m -> AllPaths m ps ->
    NoDup ps /\ forall p q, In p ps -> In q ps -> ~ PrefixOf p q.
(** 3.5.2 (E107): every manifest digest is used by some version *)
Definition S_man_used := forall d v, Man j d v -> exists k v', St j k d v'.

(** 3.5.4 (E057, E097, E099-E101): every fixity block follows the structure of the manifest *)
Definition S_fixity_blocks :=
  forall a blk, Fix j a blk ->
    IsObj blk
    /\ (forall m, blk = JObj m -> NoDup (map (fun dv => lower (fst dv)) m))
    /\ (forall d v, Has blk d v -> DigestFor a d /\ exists l, StrArray v l /\ forall p, In p l -> PathOK p /\ IsContentPath j p)
    /\ (forall m ps, blk = JObj m -> AllPaths m ps -> NoDup ps).

Definition InvSpecOK : Prop :=
  S_object /\ S_top_once /\ S_top_known /\ S_id /\ S_type /\ S_alg /\ S_head /\ S_cdir /\ S_manifest
  /\ S_versions /\ S_versions_obj /\ S_fixity /\ S_vnames /\ S_vcontiguous /\ S_vpadding
  /\ S_vblock /\ S_created /\ S_state /\ S_message /\ S_user
  /\ S_state_digests /\ S_state_arrays /\ S_lpaths /\ S_lpaths_unique
  /\ S_man_once /\ S_man_digests /\ S_man_arrays /\ S_cpaths /\ S_cpaths_unique /\ S_man_used
  /\ S_fixity_blocks.
End Clauses.

(** * The same document up to the order of object members (3.5: "The order of entries
      in ... the JSON objects ... has no significance")

    [permR R] : permutations whose elements are related by [R] (the inductive
    definition of [Permutation] with a relation in the "skip" case);
    [jv_perm] : two JSON values that differ only by the order of the members of
    their objects, at any depth (arrays are compared position by position). *)
Inductive permR {A : Type} (R : A -> A -> Prop) : list A -> list A -> Prop :=
| pr_nil : permR R [] []
| pr_skip x y l l' : R x y -> permR R l l' -> permR R (x :: l) (y :: l')
| pr_swap x y l : permR R (x :: y :: l) (y :: x :: l)
| pr_trans l1 l2 l3 : permR R l1 l2 -> permR R l2 l3 -> permR R l1 l3.

Inductive jv_perm : jv -> jv -> Prop :=
| jp_refl j : jv_perm j j
| jp_arr l l' : Forall2 jv_perm l l' -> jv_perm (JArr l) (JArr l')
| jp_obj m m' : permR (fun x y => fst x = fst y /\ jv_perm (snd x) (snd y)) m m' -> jv_perm (JObj m) (JObj m').
