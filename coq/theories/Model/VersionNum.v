(** Model of [VersionNum] (src/ocfl/types.rs:45-48, 265-420): parse, display,
    next, previous with the u32 arithmetic written out.  Two evaluation modes:
    [dbg = true]  : overflow checks on (debug build) - an overflow is a panic;
    [dbg = false] : release build - the operation wraps modulo 2^32. *)
From Rocfl Require Export Base.Bytes.
Open Scope N_scope.

Definition U32MAX : N := 4294967295.
Definition U32MOD : N := 4294967296.

Record vnum := mkV { vn_number : N; vn_width : N }.

Definition vnum_eqb (a c : vnum) : bool :=
  (vn_number a =? vn_number c) && (vn_width a =? vn_width c).

(** u32 arithmetic: [None] = overflow in a debug build *)
Definition u32_wrap (x : N) : N := x mod U32MOD.
Definition u32_op (dbg : bool) (x : N) : res N :=
  if x <=? U32MAX then Ok x else if dbg then Panic else Ok (u32_wrap x).

(** u32::pow(10, e): repeated multiplication; any intermediate overflow
    panics in debug, wraps in release (wrapping the final value is the same as
    wrapping every step). *)
Definition u32_pow10 (dbg : bool) (e : N) : res N :=
  if e <=? 9 then Ok (10 ^ e)                    (* 10^9 < 2^32 *)
  else if dbg then Panic
  else if 32 <=? e then Ok 0                     (* 2^32 divides 10^32 *)
  else Ok (u32_wrap (10 ^ e)).

(** [x - 1] for u32 : underflow when x = 0 *)
Definition u32_pred (dbg : bool) (x : N) : res N :=
  if x =? 0 then (if dbg then Panic else Ok U32MAX) else Ok (x - 1).

(** VersionNum::next, types.rs:297-314 *)
Definition vnext (dbg : bool) (v : vnum) : res vnum :=
  res_bind
    (if vn_width v =? 0 then Ok U32MAX
     else res_bind (u32_pow10 dbg (vn_width v - 1)) (u32_pred dbg))
    (fun max =>
       res_bind (u32_op dbg (vn_number v + 1))
         (fun n1 => if max <? n1 then Err else Ok (mkV n1 (vn_width v)))).

(** VersionNum::previous, types.rs:283-294: [self.number - 1 < 1] *)
Definition vprev (dbg : bool) (v : vnum) : res vnum :=
  res_bind (u32_pred dbg (vn_number v))
    (fun p => if p <? 1 then Err else Ok (mkV p (vn_width v))).

(** Display: "v{:0width$}" *)
Definition vdisplay (v : vnum) : bytes :=
  "v"%char :: pad_left0 (vn_width v) (dec_digits (vn_number v)).

(** TryFrom<&str>, types.rs:319-356.  VERSION_REGEX = ^v\d+$ ; \d is Unicode
    aware but the following [parse::<u32>] rejects everything that is not an
    ASCII digit, so the accepted language is 'v' [0-9]+ with value in 1..=u32::MAX. *)
Definition vparse (s : bytes) : res vnum :=
  match s with
  | c :: ds =>
      if negb (Ascii.eqb c "v"%char) then Err
      else match ds with
           | [] => Err
           | d0 :: _ =>
               if negb (forallb is_digit ds) then Err
               else match dec_value ds with
                    | None => Err
                    | Some n =>
                        if U32MAX <? n then Err
                        else if n <? 1 then Err
                        else Ok (mkV n (if Ascii.eqb d0 "0"%char then blen ds else 0))
                    end
           end
  | [] => Err
  end.

(** The specification the property states. *)
Definition max_for_width (w : N) : N := if w =? 0 then U32MAX else 10 ^ (w - 1) - 1.

Definition vnext_spec (v : vnum) : res vnum :=
  if vn_number v + 1 <=? max_for_width (vn_width v)
  then Ok (mkV (vn_number v + 1) (vn_width v)) else Err.

(** well-formed version numbers: what [vparse] / [v1_with_width] + [vnext] produce *)
Definition vwf (v : vnum) : bool :=
  (1 <=? vn_number v) && (vn_number v <=? U32MAX) && (vn_width v <=? U32MAX).

(** representable under its own width: padded numbers keep a leading zero *)
Definition vfits (v : vnum) : bool := vn_number v <=? max_for_width (vn_width v).
