(** Model of [VersionNum] (src/ocfl/types.rs:45-48, 265-420, at fix 476b184): parse, display,
    next, previous with the u32 arithmetic written out.  Two evaluation modes:
    [dbg = true]  : overflow checks on (debug build) - an overflow is a panic;
    [dbg = false] : release build - the operation wraps modulo 2^32. *)
From Rocfl Require Export Base.Bytes.
Open Scope N_scope.

Definition U32MAX : N := 4294967295.
Definition U32MOD : N := 4294967296.

Record vnum := mkV { vn_number : N; vn_width : N }.

Definition vnum_eqb (a c : vnum) : bool :=
  (vn_number a =? vn_number c) && (vn_width a =? vn_width c).

(** u32 arithmetic: [None] = overflow in a debug build *)
Definition u32_wrap (x : N) : N := x mod U32MOD.
Definition u32_op (dbg : bool) (x : N) : res N :=
  if x <=? U32MAX then Ok x else if dbg then Panic else Ok (u32_wrap x).

(** [x - 1] for u32 : underflow when x = 0 *)
Definition u32_pred (dbg : bool) (x : N) : res N :=
  if x =? 0 then (if dbg then Panic else Ok U32MAX) else Ok (x - 1).

(** 10u32.checked_pow(e): [None] as soon as an intermediate product leaves u32,
    in every build mode (10^9 < 2^32 <= 10^10).  Never computes 10^e for e > 9. *)
Definition u32_checked_pow10 (e : N) : option N :=
  if e <=? 9 then Some (10 ^ e) else None.

(** VersionNum::next, types.rs:297-315 (after fix 476b184):
      let max = match self.width { 0 => u32::MAX,
                                   w => 10u32.checked_pow(w - 1).map_or(u32::MAX, |pow| pow - 1) };
      if self.number >= max { return Err(..) }
      Ok(Self { number: self.number + 1, width: self.width })
    The u32 operations [pow - 1] and [number + 1] are written with their
    overflow behaviour; the lemmas show they never overflow here. *)
Definition vnext (dbg : bool) (v : vnum) : res vnum :=
  res_bind
    (if vn_width v =? 0 then Ok U32MAX
     else match u32_checked_pow10 (vn_width v - 1) with
          | Some p => u32_pred dbg p
          | None => Ok U32MAX
          end)
    (fun max =>
       if max <=? vn_number v then Err
       else res_bind (u32_op dbg (vn_number v + 1)) (fun n1 => Ok (mkV n1 (vn_width v)))).

(** Historical note, NOT the current code: VersionNum::next before fix 476b184
      let max = match self.width { 0 => u32::MAX, _ => u32::pow(10, self.width - 1) - 1 };
      if self.number + 1 > max { Err } else { Ok(number + 1) }
    [u32::pow(10, e)]: any intermediate overflow panics in debug, wraps in release. *)
Definition u32_pow10_before_fix (dbg : bool) (e : N) : res N :=
  if e <=? 9 then Ok (10 ^ e)                    (* 10^9 < 2^32 *)
  else if dbg then Panic
  else if 32 <=? e then Ok 0                     (* 2^32 divides 10^32 *)
  else Ok (u32_wrap (10 ^ e)).
Definition vnext_before_fix (dbg : bool) (v : vnum) : res vnum :=
  res_bind
    (if vn_width v =? 0 then Ok U32MAX
     else res_bind (u32_pow10_before_fix dbg (vn_width v - 1)) (u32_pred dbg))
    (fun max =>
       res_bind (u32_op dbg (vn_number v + 1))
         (fun n1 => if max <? n1 then Err else Ok (mkV n1 (vn_width v)))).

(** VersionNum::previous, types.rs:283-294: [self.number - 1 < 1] *)
Definition vprev (dbg : bool) (v : vnum) : res vnum :=
  res_bind (u32_pred dbg (vn_number v))
    (fun p => if p <? 1 then Err else Ok (mkV p (vn_width v))).

(** Display, types.rs:396-406 (after fix d5a9e2d): "v", then one '0' for every position from
    len(digits) up to width (none when width <= len(digits)), then the decimal digits;
    no format width, so no limit on the padding width *)
Definition vdisplay (v : vnum) : bytes :=
  "v"%char :: pad_left0 (vn_width v) (dec_digits (vn_number v)).

(** TryFrom<&str>, types.rs:319-356.  VERSION_REGEX = ^v\d+$ ; \d is Unicode
    aware but the following [parse::<u32>] rejects everything that is not an
    ASCII digit, so the accepted language is 'v' [0-9]+ with value in 1..=u32::MAX. *)
Definition vparse (s : bytes) : res vnum :=
  match s with
  | c :: ds =>
      if negb (Ascii.eqb c "v"%char) then Err
      else match ds with
           | [] => Err
           | d0 :: _ =>
               if negb (forallb is_digit ds) then Err
               else match dec_value ds with
                    | None => Err
                    | Some n =>
                        if U32MAX <? n then Err
                        else if n <? 1 then Err
                        else Ok (mkV n (if Ascii.eqb d0 "0"%char then blen ds else 0))
                    end
           end
  | [] => Err
  end.

(** The specification the property states.  The largest number a padded object
    can reach keeps one leading zero: 10^(w-1) - 1; a u32 never exceeds
    u32::MAX, which is below 10^(w-1) - 1 for every w > 10
    (Proofs: [max_for_width_min]).  Written without computing 10^(w-1) for large w. *)
Definition max_for_width (w : N) : N :=
  if w =? 0 then U32MAX else if w <=? 10 then 10 ^ (w - 1) - 1 else U32MAX.

Definition vnext_spec (v : vnum) : res vnum :=
  if vn_number v + 1 <=? max_for_width (vn_width v)
  then Ok (mkV (vn_number v + 1) (vn_width v)) else Err.

(** a version number that is a u32 >= 1 (what parse / v1_with_width / next produce) *)
Definition vnumok (v : vnum) : bool := (1 <=? vn_number v) && (vn_number v <=? U32MAX).

(** well-formed version numbers: number and width are u32 values *)
Definition vwf (v : vnum) : bool :=
  (1 <=? vn_number v) && (vn_number v <=? U32MAX) && (vn_width v <=? U32MAX).

(** representable under its own width: padded numbers keep a leading zero *)
Definition vfits (v : vnum) : bool := vn_number v <=? max_for_width (vn_width v).
