From Rocfl Require Import Base.Bytes.
From Coq Require Import ZArith Lia ZifyBool ZifyN ZifyNat.
Ltac Zify.zify_post_hook ::= Z.div_mod_to_equations.
Open Scope N_scope.
Arguments N.add : simpl never.
Arguments N.mul : simpl never.
Arguments N.sub : simpl never.
Arguments N.div : simpl never.
Arguments N.modulo : simpl never.
Arguments N.pow : simpl never.
Arguments N.ltb : simpl never.
Arguments N.leb : simpl never.
Arguments N.eqb : simpl never.

(** * bytes equality *)
Lemma bytes_eqb_refl x : bytes_eqb x x = true.
Proof. induction x as [|c x IH]; cbn; [reflexivity|]. now rewrite Ascii.eqb_refl, IH. Qed.

Lemma bytes_eqb_eq x y : bytes_eqb x y = true <-> x = y.
Proof.
  revert y; induction x as [|c x IH]; intros [|d y]; cbn; split; try congruence; try reflexivity.
  - intros H. apply andb_true_iff in H as [H1 H2]. apply Ascii.eqb_eq in H1. apply IH in H2. congruence.
  - intros H. injection H as -> ->. now rewrite Ascii.eqb_refl, bytes_eqb_refl.
Qed.

(** * digits *)
Lemma digit_char_val d : d < 10 -> digit_val (digit_char d) = d /\ is_digit (digit_char d) = true.
Proof.
  intros H.
  assert (E : d = 0 \/ d = 1 \/ d = 2 \/ d = 3 \/ d = 4 \/ d = 5 \/ d = 6 \/ d = 7 \/ d = 8 \/ d = 9) by lia.
  repeat (destruct E as [-> | E]; [split; reflexivity|]). subst; split; reflexivity.
Qed.

Lemma digit_char_zero d : d < 10 -> Ascii.eqb (digit_char d) "0"%char = (d =? 0).
Proof.
  intros H.
  assert (E : d = 0 \/ d = 1 \/ d = 2 \/ d = 3 \/ d = 4 \/ d = 5 \/ d = 6 \/ d = 7 \/ d = 8 \/ d = 9) by lia.
  repeat (destruct E as [-> | E]; [reflexivity|]). subst; reflexivity.
Qed.

Lemma is_digit_zero : is_digit "0"%char = true /\ digit_val "0"%char = 0.
Proof. split; reflexivity. Qed.

(** least-significant-first value *)
Fixpoint lval (ds : list N) : N :=
  match ds with [] => 0 | d :: r => d + 10 * lval r end.

Lemma digs_all_lt10 fuel : forall n, Forall (fun d => d < 10) (digs fuel n).
Proof.
  induction fuel as [|f IH]; intros n; cbn [digs]; [constructor|].
  destruct (n <? 10) eqn:E.
  - constructor; [lia|constructor].
  - constructor; [lia| apply IH].
Qed.

Lemma digs_lval fuel : forall n, n < 10 ^ N.of_nat fuel -> lval (digs fuel n) = n.
Proof.
  induction fuel as [|f IH]; intros n H.
  - cbn in H. assert (n = 0) by lia. subst. reflexivity.
  - cbn [digs]. destruct (n <? 10) eqn:E; cbn [lval]; [lia|].
    rewrite IH; [lia|].
    rewrite Nat2N.inj_succ, N.pow_succ_r' in H. lia.
Qed.

Lemma digs_nonempty fuel n : (0 < fuel)%nat -> digs fuel n <> [].
Proof. destruct fuel; [lia|]. intros _. cbn [digs]. destruct (n <? 10); discriminate. Qed.

(** number of digits is bounded by k when n < 10^k (k >= 1) *)
Lemma digs_length fuel : forall n k, (1 <= k)%nat -> n < 10 ^ N.of_nat k ->
  (List.length (digs fuel n) <= k)%nat.
Proof.
  induction fuel as [|f IH]; intros n k Hk H; cbn [digs]; [cbn; lia|].
  destruct (n <? 10) eqn:E; [cbn; lia|].
  cbn [List.length].
  destruct k as [|k]; [lia|].
  destruct k as [|k].
  { cbn in H. lia. }
  apply le_n_S. apply IH; [lia|].
  rewrite Nat2N.inj_succ, N.pow_succ_r' in H. lia.
Qed.

(** the most significant digit of a positive number is not 0 *)
Lemma digs_last_nonzero fuel : forall n, n < 10 ^ N.of_nat fuel -> 1 <= n ->
  last (digs fuel n) 0 <> 0.
Proof.
  induction fuel as [|f IH]; intros n H H1.
  - cbn in H. lia.
  - cbn [digs]. destruct (n <? 10) eqn:E; [cbn; lia|].
    assert (Hq : n / 10 < 10 ^ N.of_nat f).
    { rewrite Nat2N.inj_succ, N.pow_succ_r' in H. lia. }
    assert (Hq1 : 1 <= n / 10) by lia.
    specialize (IH _ Hq Hq1).
    destruct (digs f (n / 10)) eqn:D.
    + destruct f; [cbn in Hq; lia|]. cbn [digs] in D. destruct (n / 10 <? 10); discriminate.
    + exact IH.
Qed.

Lemma dec_fuel_ok n : n < 10 ^ N.of_nat (dec_fuel n).
Proof.
  unfold dec_fuel. rewrite Nat2N.inj_succ, N2Nat.id.
  destruct n as [|p]; [cbn; lia|].
  assert (H := N.size_gt (N.pos p)).
  eapply N.lt_le_trans; [exact H|].
  etransitivity; [apply N.pow_le_mono_l with (b := 10); lia|].
  apply N.pow_le_mono_r; lia.
Qed.

(** most-significant-first value over characters *)
Lemma dec_value_acc_app s : forall acc t,
  dec_value_acc acc (s ++ t) =
  match dec_value_acc acc s with Some a => dec_value_acc a t | None => None end.
Proof.
  induction s as [|c s IH]; intros acc t; cbn [app dec_value_acc]; [reflexivity|].
  destruct (is_digit c); [apply IH|reflexivity].
Qed.

Lemma dec_value_acc_digits ds : Forall (fun d => d < 10) ds -> forall acc,
  dec_value_acc acc (map digit_char (rev ds)) = Some (acc * 10 ^ N.of_nat (List.length ds) + lval ds).
Proof.
  induction 1 as [|d ds Hd _ IH]; intros acc; cbn [rev map dec_value_acc List.length lval].
  - f_equal. rewrite N.pow_0_r. lia.
  - rewrite map_app, dec_value_acc_app, IH. cbn [map dec_value_acc].
    destruct (digit_char_val d Hd) as [Hv Hi]. rewrite Hi, Hv.
    f_equal. rewrite Nat2N.inj_succ, N.pow_succ_r'. lia.
Qed.

Lemma dec_value_digits n : dec_value (dec_digits n) = Some n.
Proof.
  unfold dec_value, dec_digits.
  rewrite dec_value_acc_digits by apply digs_all_lt10.
  rewrite digs_lval by apply dec_fuel_ok. f_equal; try lia.
Qed.

Lemma forallb_is_digit_dec_digits n : forallb is_digit (dec_digits n) = true.
Proof.
  unfold dec_digits. apply forallb_forall. intros c Hc.
  apply in_map_iff in Hc as [d [<- Hd]]. apply in_rev in Hd.
  assert (H := digs_all_lt10 (dec_fuel n) n). rewrite Forall_forall in H.
  apply digit_char_val; auto.
Qed.

Lemma dec_digits_length n k : (1 <= k)%nat -> n < 10 ^ N.of_nat k ->
  (List.length (dec_digits n) <= k)%nat.
Proof.
  intros Hk H. unfold dec_digits. rewrite map_length, rev_length. now apply digs_length.
Qed.

Lemma dec_digits_nonempty n : dec_digits n <> [].
Proof.
  unfold dec_digits. intros H. apply map_eq_nil in H.
  assert (E : digs (dec_fuel n) n = []).
  { rewrite <- (rev_involutive (digs _ _)), H. reflexivity. }
  revert E. apply digs_nonempty. unfold dec_fuel; lia.
Qed.

(** a positive number is not rendered with a leading zero *)
Lemma dec_digits_head_nonzero n c r : 1 <= n -> dec_digits n = c :: r ->
  Ascii.eqb c "0"%char = false.
Proof.
  intros H1 E. unfold dec_digits in E.
  assert (Hl := digs_last_nonzero (dec_fuel n) n (dec_fuel_ok n) H1).
  assert (Hall := digs_all_lt10 (dec_fuel n) n).
  destruct (digs (dec_fuel n) n) as [|d0 ds] eqn:D using rev_ind.
  - cbn in E. discriminate.
  - clear IHds. rewrite rev_app_distr in E. cbn in E. injection E as <- _.
    rewrite last_last in Hl.
    apply Forall_app in Hall as [_ Hall]. inversion Hall; subst.
    rewrite digit_char_zero by assumption. lia.
Qed.

(** padding *)
Lemma replicate_length {A} n (a : A) : List.length (replicate n a) = n.
Proof. induction n; cbn; congruence. Qed.

Lemma dec_value_acc_zeros k : forall acc t,
  dec_value_acc acc (replicate k "0"%char ++ t) = dec_value_acc (acc * 10 ^ N.of_nat k) t.
Proof.
  induction k as [|k IH]; intros acc t; cbn [replicate app].
  - f_equal. cbn. lia.
  - cbn [dec_value_acc]. replace (is_digit "0") with true by reflexivity.
    replace (digit_val "0") with 0 by reflexivity.
    rewrite IH. f_equal. rewrite Nat2N.inj_succ, N.pow_succ_r'. lia.
Qed.

Lemma forallb_replicate {A} (f : A -> bool) k a : f a = true -> forallb f (replicate k a) = true.
Proof. intros H; induction k; cbn; [reflexivity|]. now rewrite H, IHk. Qed.
