(** * Concrete objects for C06: non-vacuity and witnesses inside the known classes *)

From Coq Require Import List NArith Bool Lia.
From Rocfl Require Import Model.ObjTree Model.TreeValidate Model.Corrupt Model.KnownC06.
Import ListNotations.
Open Scope N_scope.

(** oracles of the examples: digests 2k / 2k+1, tokens: 1 declaration 1.1, 2 root inventory,
    3 its sidecar, 4 inventory of v1, 5 its sidecar, 10.. contents *)
Definition ex_digest (a : alg) (k : token) : N := match a with Sha512 => 2 * k | Sha256 => 2 * k + 1 end.
Definition ex_fdigest (i : N) (k : token) : N := k.

Lemma ex_digest_inj : forall a k k', ex_digest a k = ex_digest a k' -> k = k'.
Proof. intros [] k k'; unfold ex_digest; lia. Qed.

Definition ex_cA := [SVer 0 1; SName 0; SName 1].
Definition ex_cB := [SVer 0 1; SName 0; SName 2].
Definition ex_cC := [SVer 0 2; SName 0; SName 5; SName 3].
Definition ex_st1 : list (N * lpath) := [(20, [1]); (22, [2])].
Definition ex_st2 : list (N * lpath) := [(20, [1]); (24, [5; 3])].   (* v2 adds dir/c, drops b *)
Definition ex_st2' : list (N * lpath) := [(20, [1])].               (* v2 only drops b *)

Definition ex_inv1 := mkInv 7 V10 Sha512 0 0 [(20, ex_cA); (22, ex_cB)] [ex_st1] [].
Definition ex_inv2 := mkInv 7 V11 Sha512 0 0 [(20, ex_cA); (22, ex_cB); (24, ex_cC)] [ex_st1; ex_st2] [].
Definition ex_inv2' := mkInv 7 V11 Sha512 0 0 [(20, ex_cA); (22, ex_cB)] [ex_st1; ex_st2'] [].

Definition ex_parse_sidecar (k : token) : option N :=
  match k with 3 => Some 4 | 5 => Some 8 | 6 => Some 9 | _ => None end.
Definition ex_parse_decl (k : token) : option spec_version :=
  match k with 1 => Some V11 | 9 => Some V10 | _ => None end.

(** object 1: v1 (spec 1.0) a, b; v2 (upgraded to 1.1) adds dir/c and drops b *)
Definition ex_parse_inv (k : token) : option inventory :=
  match k with 2 => Some ex_inv2 | 4 => Some ex_inv1 | _ => None end.
Definition ex_tree : tree :=
  [([SDecl V11], File 1); ([SInv], File 2); ([SSidecar Sha512], File 3);
   ([SVer 0 1; SInv], File 4); ([SVer 0 1; SSidecar Sha512], File 5);
   (ex_cA, File 10); (ex_cB, File 11);
   ([SVer 0 2; SInv], File 2); ([SVer 0 2; SSidecar Sha512], File 3);
   (ex_cC, File 12)].

(** object 2: the same first version; v2 only drops b, its directory holds no content *)
Definition ex_parse_inv' (k : token) : option inventory :=
  match k with 2 => Some ex_inv2' | 4 => Some ex_inv1 | _ => None end.
Definition ex_tree' : tree :=
  [([SDecl V11], File 1); ([SInv], File 2); ([SSidecar Sha512], File 3);
   ([SVer 0 1; SInv], File 4); ([SVer 0 1; SSidecar Sha512], File 5);
   (ex_cA, File 10); (ex_cB, File 11);
   ([SVer 0 2; SInv], File 2); ([SVer 0 2; SSidecar Sha512], File 3)].

Lemma ex_written : written_by_rocfl ex_digest ex_parse_inv ex_parse_sidecar ex_parse_decl ex_tree.
Proof. vm_compute. reflexivity. Qed.

Lemma ex_valid : tree_errors ex_digest ex_fdigest ex_parse_inv ex_parse_sidecar ex_parse_decl true ex_tree = [].
Proof. vm_compute. reflexivity. Qed.

Lemma ex_content_change_detected :
  exists t', apply_corruption ex_parse_inv ex_parse_sidecar ex_parse_decl (ChangeContent ex_cA 99) ex_tree = Some t'
    /\ known (ChangeContent ex_cA 99) ex_tree = false
    /\ tree_errors ex_digest ex_fdigest ex_parse_inv ex_parse_sidecar ex_parse_decl true t' = [E092]
    /\ tree_errors ex_digest ex_fdigest ex_parse_inv ex_parse_sidecar ex_parse_decl false t' = [].
Proof. eexists. repeat split; vm_compute; reflexivity. Qed.

Lemma ex_structural_detected :
  exists t', apply_corruption ex_parse_inv ex_parse_sidecar ex_parse_decl (ChangeInventoryByte [SVer 0 1; SInv] 77) ex_tree = Some t'
    /\ known (ChangeInventoryByte [SVer 0 1; SInv] 77) ex_tree = false
    /\ is_structural (ChangeInventoryByte [SVer 0 1; SInv] 77) = true
    /\ tree_errors ex_digest ex_fdigest ex_parse_inv ex_parse_sidecar ex_parse_decl false t' = [E034].
Proof. eexists. repeat split; vm_compute; reflexivity. Qed.

(** inside the known classes nothing is reported *)
Lemma contentless_version_dir_undetected :
  exists digest fdigest parse_inv parse_sidecar parse_decl t c t',
    (forall a k k', digest a k = digest a k' -> k = k')
    /\ written_by_rocfl digest parse_inv parse_sidecar parse_decl t
    /\ apply_corruption parse_inv parse_sidecar parse_decl c t = Some t'
    /\ is_structural c = true
    /\ c06_contentless_version_dir c t = true
    /\ tree_errors digest fdigest parse_inv parse_sidecar parse_decl true t' = [].
Proof.
  exists ex_digest, ex_fdigest, ex_parse_inv', ex_parse_sidecar, ex_parse_decl, ex_tree',
         (ReplaceDirByEmptyDir [SVer 0 2]).
  eexists. split; [exact ex_digest_inj|]. repeat split; vm_compute; reflexivity.
Qed.

Lemma version_inventory_dropped_undetected :
  exists digest fdigest parse_inv parse_sidecar parse_decl t c1 t1 c2 t2,
    (forall a k k', digest a k = digest a k' -> k = k')
    /\ written_by_rocfl digest parse_inv parse_sidecar parse_decl t
    /\ apply_corruption parse_inv parse_sidecar parse_decl c1 t = Some t1
    /\ apply_corruption parse_inv parse_sidecar parse_decl c2 t = Some t2
    /\ c06_version_inventory_dropped c1 t = true /\ c06_version_inventory_dropped c2 t = true
    /\ tree_errors digest fdigest parse_inv parse_sidecar parse_decl true t1 = []
    /\ tree_errors digest fdigest parse_inv parse_sidecar parse_decl true t2 = [].
Proof.
  exists ex_digest, ex_fdigest, ex_parse_inv, ex_parse_sidecar, ex_parse_decl, ex_tree,
         (ReplaceFileByEmptyDir [SVer 0 1; SInv]).
  eexists. exists (DeleteFile [SVer 0 2; SInv]). eexists.
  split; [exact ex_digest_inj|]. repeat split; vm_compute; reflexivity.
Qed.
