(** Lemmas about the command-line model (C20). *)
From Coq Require Import ZArith Lia ZifyBool ZifyN ZifyNat.
From Rocfl Require Import Base.Bytes Generated.Consts Model.Cli.
Open Scope N_scope.

Arguments N.add : simpl never.
Arguments N.ltb : simpl never.
Arguments N.of_nat : simpl never.

(* ------------------------------------------------------------------ pinned constants *)

(** The exit statuses found in the sources by vplib/gen_consts.py on this run.  A
    changed [process::exit(..)] in src/bin/rocfl.rs or src/cmd/validate.rs breaks
    these two obligations and everything that depends on them. *)
Lemma main_exit_codes_pinned : K_MAIN_EXIT_CODES = [1].
Proof. reflexivity. Qed.

Lemma validate_exit_codes_pinned : K_VALIDATE_EXIT_CODES = [1; 2].
Proof. reflexivity. Qed.

Lemma exit_main_err_val : EXIT_MAIN_ERR = 1.
Proof. unfold EXIT_MAIN_ERR. rewrite main_exit_codes_pinned. reflexivity. Qed.

Lemma exit_validate_operational_val : EXIT_VALIDATE_OPERATIONAL = 1.
Proof. unfold EXIT_VALIDATE_OPERATIONAL. rewrite validate_exit_codes_pinned. reflexivity. Qed.

Lemma exit_validate_invalid_val : EXIT_VALIDATE_INVALID = 2.
Proof. unfold EXIT_VALIDATE_INVALID. rewrite validate_exit_codes_pinned. reflexivity. Qed.

(* ------------------------------------------------------------------ main *)

Lemma main_exit_zero_iff : forall o, main_exit o = 0 <-> forallb is_lok o = true.
Proof.
  induction o as [|r o IH]; cbn [main_exit forallb].
  - split; reflexivity.
  - destruct r as [|e]; cbn [is_lok andb].
    + exact IH.
    + rewrite exit_main_err_val. split; discriminate.
Qed.

Lemma main_exit_range : forall o, main_exit o = 0 \/ main_exit o = 1.
Proof.
  induction o as [|r o IH]; cbn [main_exit].
  - left; reflexivity.
  - destruct r as [|e]; [exact IH | right; exact exit_main_err_val].
Qed.

Lemma main_exit_err_in : forall o e, In (LErr e) o -> main_exit o = 1.
Proof.
  intros o e Hin.
  destruct (main_exit_range o) as [H0|H1]; [|exact H1].
  apply main_exit_zero_iff in H0.
  rewrite forallb_forall in H0. specialize (H0 _ Hin). discriminate.
Qed.

(** a partial failure of cp/mv (CopyMoveError after some sources were processed) *)
Lemma main_exit_partial_copy_move : forall pre n post,
  main_exit (pre ++ LErr (ECopyMove n) :: post) = 1.
Proof.
  intros pre n post. apply main_exit_err_in with (e := ECopyMove n).
  apply in_or_app. right. left. reflexivity.
Qed.

(* ------------------------------------------------------------------ validate: helper lemmas *)

Lemma filter_nonempty_existsb : forall (A : Type) (p : A -> bool) (l : list A),
  match filter p l with [] => false | _ :: _ => true end = existsb p l.
Proof.
  intros A p l. induction l as [|a l IH]; cbn [filter existsb].
  - reflexivity.
  - destruct (p a); cbn [orb]; [reflexivity | exact IH].
Qed.

Lemma has_errors_suppress : forall f r, has_errors (suppress f r) = unsuppressed f r.
Proof.
  intros f r. unfold has_errors, suppress, unsuppressed. cbn [vr_errors].
  apply filter_nonempty_existsb.
Qed.

Lemma memN_In : forall x l, memN x l = true <-> In x l.
Proof.
  intros x l. unfold memN. rewrite existsb_exists. split.
  - intros [y [Hin Heq]]. apply N.eqb_eq in Heq. subst y. exact Hin.
  - intro Hin. exists x. split; [exact Hin | apply N.eqb_refl].
Qed.

Lemma unsuppressed_spec : forall f r,
  unsuppressed f r = true <-> exists e, In e (vr_errors r) /\ ~ In e (vf_sup_e f).
Proof.
  intros f r. unfold unsuppressed. rewrite existsb_exists. split.
  - intros [e [Hin Hn]]. exists e. split; [exact Hin|].
    intro Hs. apply memN_In in Hs. rewrite Hs in Hn. discriminate.
  - intros [e [Hin Hn]]. exists e. split; [exact Hin|].
    destruct (memN e (vf_sup_e f)) eqn:Hm; [|reflexivity].
    apply memN_In in Hm. contradiction.
Qed.

(** a non-empty list of errors has an unsuppressed or a suppressed member *)
Lemma has_errors_split : forall f r,
  has_errors r = unsuppressed f r || existsb (fun e => memN e (vf_sup_e f)) (vr_errors r).
Proof.
  intros f r. unfold has_errors, unsuppressed.
  destruct (vr_errors r) as [|e l]; cbn [existsb].
  - reflexivity.
  - destruct (memN e (vf_sup_e f)); cbn [negb orb].
    + rewrite orb_true_r. reflexivity.
    + reflexivity.
Qed.

Lemma vloop_invalid : forall f objs st,
  (0 <? vs_invalid (vloop f objs st)) = (0 <? vs_invalid st) || existsb (vobj_invalid f) objs.
Proof.
  intros f objs. unfold vloop.
  induction objs as [|o objs IH]; intro st; cbn [fold_left existsb].
  - rewrite orb_false_r. reflexivity.
  - rewrite IH. destruct o as [r|]; cbn [vstep vobj_invalid vs_invalid].
    + rewrite has_errors_suppress. destruct (unsuppressed f r); cbn [vs_invalid orb].
      * assert (Hpos : (0 <? vs_invalid st + 1) = true) by (apply N.ltb_lt; lia).
        rewrite Hpos. rewrite orb_true_r. reflexivity.
      * reflexivity.
    + reflexivity.
Qed.

Lemma vloop_err : forall f objs st,
  vs_err (vloop f objs st) = vs_err st || existsb is_verr objs.
Proof.
  intros f objs. unfold vloop.
  induction objs as [|o objs IH]; intro st; cbn [fold_left existsb].
  - rewrite orb_false_r. reflexivity.
  - rewrite IH. destruct o as [r|]; cbn [vstep is_verr vs_err orb].
    + reflexivity.
    + rewrite orb_true_r. reflexivity.
Qed.

Lemma storage_errors_pos : forall a c : list N,
  (0 <? N.of_nat (List.length a) + N.of_nat (List.length c)) =
  match a with [] => false | _ :: _ => true end || match c with [] => false | _ :: _ => true end.
Proof.
  intros a c. destruct a as [|x a]; destruct c as [|y c]; cbn [List.length orb].
  - reflexivity.
  - apply N.ltb_lt. lia.
  - apply N.ltb_lt. lia.
  - apply N.ltb_lt. lia.
Qed.

Definition exit_of (invalid err : bool) : N := if invalid then 2 else if err then 1 else 0.

Lemma validate_objects_exit_spec : forall f objs,
  validate_objects_exit f objs =
  exit_of (objects_invalid_after_suppression f objs) (existsb is_verr objs).
Proof.
  intros f objs. unfold validate_objects_exit, exit_of, objects_invalid_after_suppression.
  rewrite vloop_invalid, vloop_err. cbn [vs_init vs_invalid vs_err orb].
  change (0 <? 0) with false. cbn [orb].
  rewrite exit_validate_invalid_val, exit_validate_operational_val. reflexivity.
Qed.

Lemma vr_app_empty_l : forall r, vr_app empty_vr r = r.
Proof. intros [e w]. reflexivity. Qed.

(** validate.rs:222-223: the root result and the hierarchy result are both counted after
    their suppression (:144 and :201) *)
Lemma storage_issues_pos : forall f rr,
  (0 <? validate_repo_storage_issues f rr) = unsuppressed f (rr_root rr) || unsuppressed f (rr_hier rr).
Proof.
  intros f rr. unfold validate_repo_storage_issues, validate_repo_root, validate_repo_hier.
  rewrite vr_app_empty_l, storage_errors_pos.
  fold (has_errors (suppress f (rr_root rr))). fold (has_errors (suppress f (rr_hier rr))).
  rewrite !has_errors_suppress. reflexivity.
Qed.

Lemma validate_repo_exit_spec : forall f rr,
  validate_repo_exit f rr =
  exit_of (repo_invalid_after_suppression f rr) (existsb is_verr (rr_objects rr)).
Proof.
  intros f rr. unfold validate_repo_exit, exit_of,
    repo_invalid_after_suppression, objects_invalid_after_suppression.
  rewrite vloop_invalid, vloop_err, storage_issues_pos. cbn [vs_init vs_invalid vs_err orb].
  change (0 <? 0) with false. cbn [orb].
  rewrite exit_validate_invalid_val, exit_validate_operational_val.
  destruct (unsuppressed f (rr_root rr)), (existsb (vobj_invalid f) (rr_objects rr)),
    (unsuppressed f (rr_hier rr)); reflexivity.
Qed.

Lemma exit_of_2 : forall i e, exit_of i e = 2 <-> i = true.
Proof. intros [|] [|]; unfold exit_of; split; intro H; try reflexivity; discriminate. Qed.

Lemma exit_of_1 : forall i e, exit_of i e = 1 <-> i = false /\ e = true.
Proof.
  intros [|] [|]; unfold exit_of; split; intro H; try (split; reflexivity); try discriminate;
    destruct H as [H1 H2]; discriminate.
Qed.

Lemma exit_of_0 : forall i e, exit_of i e = 0 <-> i = false /\ e = false.
Proof.
  intros [|] [|]; unfold exit_of; split; intro H; try (split; reflexivity); try discriminate;
    destruct H as [H1 H2]; discriminate.
Qed.

Lemma exit_of_range : forall i e, exit_of i e = 0 \/ exit_of i e = 1 \/ exit_of i e = 2.
Proof. intros [|] [|]; unfold exit_of; auto. Qed.

(* ------------------------------------------------------------------ validate: the property *)

(** objects mode: exit 2 exactly when some validated object keeps an error *)
Lemma validate_objects_exit_2_iff : forall f objs,
  validate_objects_exit f objs = 2 <-> objects_invalid_after_suppression f objs = true.
Proof. intros f objs. rewrite validate_objects_exit_spec. apply exit_of_2. Qed.

Lemma objects_invalid_spec : forall f objs,
  objects_invalid_after_suppression f objs = true <->
  exists r e, In (VRes r) objs /\ In e (vr_errors r) /\ ~ In e (vf_sup_e f).
Proof.
  intros f objs. unfold objects_invalid_after_suppression. rewrite existsb_exists. split.
  - intros [o [Hin Hinv]]. destruct o as [r|]; cbn [vobj_invalid] in Hinv; [|discriminate].
    apply unsuppressed_spec in Hinv. destruct Hinv as [e [He Hn]].
    exists r, e. auto.
  - intros [r [e [Hin [He Hn]]]]. exists (VRes r). split; [exact Hin|].
    cbn [vobj_invalid]. apply unsuppressed_spec. exists e. auto.
Qed.

Lemma validate_objects_exit_2_iff_prop : forall f objs,
  validate_objects_exit f objs = 2 <->
  exists r e, In (VRes r) objs /\ In e (vr_errors r) /\ ~ In e (vf_sup_e f).
Proof. intros f objs. rewrite validate_objects_exit_2_iff. apply objects_invalid_spec. Qed.

Lemma validate_objects_exit_1_iff : forall f objs,
  validate_objects_exit f objs = 1 <->
  objects_invalid_after_suppression f objs = false /\ existsb is_verr objs = true.
Proof. intros f objs. rewrite validate_objects_exit_spec. apply exit_of_1. Qed.

Lemma validate_objects_exit_0_iff : forall f objs,
  validate_objects_exit f objs = 0 <->
  objects_invalid_after_suppression f objs = false /\ existsb is_verr objs = false.
Proof. intros f objs. rewrite validate_objects_exit_spec. apply exit_of_0. Qed.

(** repository mode: unconditional *)
Lemma validate_repo_exit_2_iff : forall f rr,
  validate_repo_exit f rr = 2 <-> repo_invalid_after_suppression f rr = true.
Proof. intros f rr. rewrite validate_repo_exit_spec. apply exit_of_2. Qed.

Lemma repo_invalid_spec : forall f rr,
  repo_invalid_after_suppression f rr = true <->
  (exists e, In e (vr_errors (rr_root rr)) /\ ~ In e (vf_sup_e f)) \/
  (exists r e, In (VRes r) (rr_objects rr) /\ In e (vr_errors r) /\ ~ In e (vf_sup_e f)) \/
  (exists e, In e (vr_errors (rr_hier rr)) /\ ~ In e (vf_sup_e f)).
Proof.
  intros f rr. unfold repo_invalid_after_suppression.
  rewrite !orb_true_iff, !unsuppressed_spec, objects_invalid_spec. tauto.
Qed.

Lemma validate_repo_exit_2_iff_prop : forall f rr,
  validate_repo_exit f rr = 2 <->
  (exists e, In e (vr_errors (rr_root rr)) /\ ~ In e (vf_sup_e f)) \/
  (exists r e, In (VRes r) (rr_objects rr) /\ In e (vr_errors r) /\ ~ In e (vf_sup_e f)) \/
  (exists e, In e (vr_errors (rr_hier rr)) /\ ~ In e (vf_sup_e f)).
Proof.
  intros f rr. rewrite validate_repo_exit_2_iff. apply repo_invalid_spec.
Qed.

Lemma validate_repo_exit_1_iff : forall f rr,
  validate_repo_exit f rr = 1 <->
  repo_invalid_after_suppression f rr = false /\ existsb is_verr (rr_objects rr) = true.
Proof. intros f rr. rewrite validate_repo_exit_spec. apply exit_of_1. Qed.

Lemma validate_repo_exit_0_iff : forall f rr,
  validate_repo_exit f rr = 0 <->
  repo_invalid_after_suppression f rr = false /\ existsb is_verr (rr_objects rr) = false.
Proof. intros f rr. rewrite validate_repo_exit_spec. apply exit_of_0. Qed.

Lemma validate_exit_range : forall f objs rr,
  (validate_objects_exit f objs = 0 \/ validate_objects_exit f objs = 1 \/ validate_objects_exit f objs = 2) /\
  (validate_repo_exit f rr = 0 \/ validate_repo_exit f rr = 1 \/ validate_repo_exit f rr = 2).
Proof.
  intros f objs rr. rewrite validate_objects_exit_spec, validate_repo_exit_spec.
  split; apply exit_of_range.
Qed.

(** `validate -e E069` on a repository whose only problem is the missing root declaration
    (one valid object with a W005 warning): exit status 0, the root block lists nothing,
    "Storage issues: 0"; with a second, unsuppressed root error (E080): exit status 2 and
    only that error is listed *)
Lemma validate_root_suppression_examples :
  let f := mkVF false false LvInfo [] [69] in
  let rr := mkRR (mkVR [69] []) [VRes (mkVR [] [5])] empty_vr in
  let rr2 := mkRR (mkVR [69; 80] [16]) [VRes (mkVR [] [5])] empty_vr in
  repo_invalid_after_suppression f rr = false /\
  validate_repo_exit f rr = 0 /\
  validate_repo_root_block f rr = Some ([], []) /\
  validate_repo_storage_issues f rr = 0 /\
  validate_repo_exit f rr2 = 2 /\
  validate_repo_root_block f rr2 = Some ([80], [16]) /\
  validate_repo_storage_issues f rr2 = 1.
Proof. vm_compute. repeat split; reflexivity. Qed.

(* ------------------------------------------------------------------ validate: what is written about the storage *)

Lemma suppress_errors_spec : forall f r e,
  In e (vr_errors (suppress f r)) <-> In e (vr_errors r) /\ ~ In e (vf_sup_e f).
Proof.
  intros f r e. unfold suppress. cbn [vr_errors]. rewrite filter_In. split; intros [H1 H2]; (split; [exact H1|]).
  - intro Hs. apply memN_In in Hs. rewrite Hs in H2. discriminate.
  - destruct (memN e (vf_sup_e f)) eqn:Hm; [|reflexivity].
    apply memN_In in Hm. contradiction.
Qed.

Lemma suppress_warnings_spec : forall f r w,
  In w (vr_warnings (suppress f r)) <-> In w (vr_warnings r) /\ ~ In w (vf_sup_w f).
Proof.
  intros f r w. unfold suppress. cbn [vr_warnings]. rewrite filter_In. split; intros [H1 H2]; (split; [exact H1|]).
  - intro Hs. apply memN_In in Hs. rewrite Hs in H2. discriminate.
  - destruct (memN w (vf_sup_w f)) eqn:Hm; [|reflexivity].
    apply memN_In in Hm. contradiction.
Qed.

(** a written block lists exactly the unsuppressed errors, and only unsuppressed warnings *)
Lemma storage_block_sound : forall f r es ws,
  storage_block f (suppress f r) = Some (es, ws) ->
  (forall e, In e es <-> In e (vr_errors r) /\ ~ In e (vf_sup_e f)) /\
  (forall w, In w ws -> In w (vr_warnings r) /\ ~ In w (vf_sup_w f)).
Proof.
  intros f r es ws H. unfold storage_block in H.
  destruct (should_print f (suppress f r)); [|discriminate].
  inversion H as [[He Hw]]. split.
  - intro e. apply suppress_errors_spec.
  - intros w Hin. destruct (level_eqb (vf_level f) LvError).
    + destruct Hin.
    + apply suppress_warnings_spec. exact Hin.
Qed.

Lemma In_has_errors : forall r e, In e (vr_errors r) -> has_errors r = true.
Proof. intros r e Hin. unfold has_errors. destruct (vr_errors r); [destruct Hin | reflexivity]. Qed.

Lemma In_has_warnings : forall r w, In w (vr_warnings r) -> has_warnings r = true.
Proof. intros r w Hin. unfold has_warnings. destruct (vr_warnings r); [destruct Hin | reflexivity]. Qed.

(** an unsuppressed error is always written, whatever -l says *)
Lemma storage_block_error_shown : forall f r e,
  In e (vr_errors r) -> ~ In e (vf_sup_e f) ->
  exists es ws, storage_block f (suppress f r) = Some (es, ws) /\ In e es.
Proof.
  intros f r e Hin Hn.
  assert (Hs : In e (vr_errors (suppress f r))) by (apply suppress_errors_spec; auto).
  unfold storage_block, should_print. rewrite (In_has_errors _ _ Hs). cbn [orb].
  eexists. eexists. split; [reflexivity | exact Hs].
Qed.

(** an unsuppressed warning is written unless -l error *)
Lemma storage_block_warning_shown : forall f r w,
  In w (vr_warnings r) -> ~ In w (vf_sup_w f) -> vf_level f <> LvError ->
  exists es ws, storage_block f (suppress f r) = Some (es, ws) /\ In w ws.
Proof.
  intros f r w Hin Hn Hl.
  assert (Hs : In w (vr_warnings (suppress f r))) by (apply suppress_warnings_spec; auto).
  assert (Hlv : level_eqb (vf_level f) LvError = false)
    by (destruct (vf_level f); try reflexivity; exfalso; apply Hl; reflexivity).
  unfold storage_block, should_print. rewrite (In_has_warnings _ _ Hs), Hlv. cbn [negb andb].
  rewrite orb_true_r. cbn [orb].
  eexists. eexists. split; [reflexivity | exact Hs].
Qed.

Lemma validate_repo_hier_eq : forall f rr, validate_repo_hier f rr = suppress f (rr_hier rr).
Proof. intros f rr. unfold validate_repo_hier. rewrite vr_app_empty_l. reflexivity. Qed.

Lemma validate_repo_blocks_sound : forall f rr,
  (forall es ws, validate_repo_root_block f rr = Some (es, ws) ->
     (forall e, In e es <-> In e (vr_errors (rr_root rr)) /\ ~ In e (vf_sup_e f)) /\
     (forall w, In w ws -> In w (vr_warnings (rr_root rr)) /\ ~ In w (vf_sup_w f))) /\
  (forall es ws, validate_repo_hier_block f rr = Some (es, ws) ->
     (forall e, In e es <-> In e (vr_errors (rr_hier rr)) /\ ~ In e (vf_sup_e f)) /\
     (forall w, In w ws -> In w (vr_warnings (rr_hier rr)) /\ ~ In w (vf_sup_w f))).
Proof.
  intros f rr. unfold validate_repo_root_block, validate_repo_hier_block, validate_repo_root.
  rewrite validate_repo_hier_eq. split; intros es ws H; apply (storage_block_sound _ _ _ _ H).
Qed.

Lemma validate_repo_blocks_complete : forall f rr,
  (forall e, In e (vr_errors (rr_root rr)) -> ~ In e (vf_sup_e f) ->
     exists es ws, validate_repo_root_block f rr = Some (es, ws) /\ In e es) /\
  (forall e, In e (vr_errors (rr_hier rr)) -> ~ In e (vf_sup_e f) ->
     exists es ws, validate_repo_hier_block f rr = Some (es, ws) /\ In e es) /\
  (forall w, In w (vr_warnings (rr_root rr)) -> ~ In w (vf_sup_w f) -> vf_level f <> LvError ->
     exists es ws, validate_repo_root_block f rr = Some (es, ws) /\ In w ws) /\
  (forall w, In w (vr_warnings (rr_hier rr)) -> ~ In w (vf_sup_w f) -> vf_level f <> LvError ->
     exists es ws, validate_repo_hier_block f rr = Some (es, ws) /\ In w ws).
Proof.
  intros f rr. unfold validate_repo_root_block, validate_repo_hier_block, validate_repo_root.
  rewrite validate_repo_hier_eq. repeat split.
  - apply storage_block_error_shown.
  - apply storage_block_error_shown.
  - apply storage_block_warning_shown.
  - apply storage_block_warning_shown.
Qed.

(** "Storage issues: 0" exactly when neither storage result keeps an unsuppressed error *)
Lemma validate_repo_storage_issues_zero_iff : forall f rr,
  validate_repo_storage_issues f rr = 0 <->
  (forall e, In e (vr_errors (rr_root rr)) -> In e (vf_sup_e f)) /\
  (forall e, In e (vr_errors (rr_hier rr)) -> In e (vf_sup_e f)).
Proof.
  intros f rr.
  assert (Hz : validate_repo_storage_issues f rr = 0 <-> (0 <? validate_repo_storage_issues f rr) = false).
  { split; intro H.
    - rewrite H. reflexivity.
    - apply N.ltb_ge in H. lia. }
  rewrite Hz, storage_issues_pos, orb_false_iff.
  assert (Hu : forall r, unsuppressed f r = false <-> (forall e, In e (vr_errors r) -> In e (vf_sup_e f))).
  { intro r. split.
    - intros H e Hin. destruct (memN e (vf_sup_e f)) eqn:Hm; [apply memN_In; exact Hm|].
      assert (Ht : unsuppressed f r = true).
      { apply unsuppressed_spec. exists e. split; [exact Hin|].
        intro Hs. apply memN_In in Hs. rewrite Hs in Hm. discriminate. }
      rewrite Ht in H. discriminate.
    - intro H. destruct (unsuppressed f r) eqn:Hun; [|reflexivity].
      apply unsuppressed_spec in Hun. destruct Hun as [e [Hin Hn]]. exfalso. apply Hn, H, Hin. }
  rewrite !Hu. reflexivity.
Qed.

(* ------------------------------------------------------------------ before the repair (historical note) *)

(** validate_repo as it was before commit 33c0c45 counted the root result unsuppressed *)
Lemma validate_repo_exit_before_fix_spec : forall f rr,
  validate_repo_exit_before_fix f rr =
  exit_of (objects_invalid_after_suppression f (rr_objects rr)
           || (has_errors (rr_root rr) || unsuppressed f (rr_hier rr)))
          (existsb is_verr (rr_objects rr)).
Proof.
  intros f rr. unfold validate_repo_exit_before_fix, exit_of, objects_invalid_after_suppression.
  change (suppress f empty_vr) with empty_vr. rewrite vr_app_empty_l.
  rewrite vloop_invalid, vloop_err, storage_errors_pos. cbn [vs_init vs_invalid vs_err orb].
  change (0 <? 0) with false. cbn [orb].
  fold (has_errors (rr_root rr)). fold (has_errors (suppress f (rr_hier rr))).
  rewrite has_errors_suppress.
  rewrite exit_validate_invalid_val, exit_validate_operational_val. reflexivity.
Qed.

(** The repair changed the exit status exactly on the inputs of the former known finding
    `validate-root-suppression`: some error of the storage root is suppressed by the user
    and nothing invalid is left.  There the old code answered 2. *)
Lemma validate_repo_before_fix_differs_iff : forall f rr,
  validate_repo_exit_before_fix f rr <> validate_repo_exit f rr <->
  (exists e, In e (vr_errors (rr_root rr)) /\ In e (vf_sup_e f)) /\
  repo_invalid_after_suppression f rr = false.
Proof.
  intros f rr.
  assert (Hs : existsb (fun e => memN e (vf_sup_e f)) (vr_errors (rr_root rr)) = true <->
               exists e, In e (vr_errors (rr_root rr)) /\ In e (vf_sup_e f)).
  { rewrite existsb_exists. split; intros [e [H1 H2]]; exists e; (split; [exact H1|]); apply memN_In; exact H2. }
  rewrite <- Hs.
  rewrite validate_repo_exit_before_fix_spec, validate_repo_exit_spec.
  rewrite (has_errors_split f (rr_root rr)).
  unfold repo_invalid_after_suppression, exit_of.
  destruct (unsuppressed f (rr_root rr)), (objects_invalid_after_suppression f (rr_objects rr)),
    (unsuppressed f (rr_hier rr)),
    (existsb (fun e => memN e (vf_sup_e f)) (vr_errors (rr_root rr))),
    (existsb is_verr (rr_objects rr)); cbn [orb];
    (split; intro H;
     [ try (exfalso; apply H; reflexivity); split; reflexivity
     | destruct H as [H1 H2]; try discriminate H1; try discriminate H2; discriminate ]).
Qed.

Lemma validate_repo_before_fix_in_class : forall f rr,
  validate_repo_exit_before_fix f rr <> validate_repo_exit f rr ->
  validate_repo_exit_before_fix f rr = 2 /\ validate_repo_exit f rr <> 2.
Proof.
  intros f rr H. apply validate_repo_before_fix_differs_iff in H. destruct H as [[e [Hin Hs]] Hn].
  split.
  - rewrite validate_repo_exit_before_fix_spec. apply exit_of_2.
    rewrite (In_has_errors _ _ Hin). cbn [orb]. apply orb_true_r.
  - rewrite validate_repo_exit_2_iff, Hn. discriminate.
Qed.

(** the old behaviour violated the property: `validate -e E069`, only problem E069 *)
Lemma validate_before_fix_violated_property :
  exists f rr, validate_repo_exit_before_fix f rr = 2 /\ repo_invalid_after_suppression f rr = false /\
               validate_repo_exit f rr = 0.
Proof.
  exists (mkVF false false LvInfo [] [69]), (mkRR (mkVR [69] []) [VRes (mkVR [] [5])] empty_vr).
  vm_compute. repeat split; reflexivity.
Qed.

(* ------------------------------------------------------------------ monotonicity of suppression *)

Lemma unsuppressed_mono : forall f f' r,
  incl (vf_sup_e f) (vf_sup_e f') -> unsuppressed f' r = true -> unsuppressed f r = true.
Proof.
  intros f f' r Hincl H. apply unsuppressed_spec in H. destruct H as [e [Hin Hn]].
  apply unsuppressed_spec. exists e. split; [exact Hin|].
  intro Hs. apply Hn. apply Hincl. exact Hs.
Qed.

Lemma objects_invalid_mono : forall f f' objs,
  incl (vf_sup_e f) (vf_sup_e f') ->
  objects_invalid_after_suppression f' objs = true -> objects_invalid_after_suppression f objs = true.
Proof.
  intros f f' objs Hincl H. unfold objects_invalid_after_suppression in *.
  rewrite existsb_exists in *. destruct H as [o [Hin Hinv]]. exists o. split; [exact Hin|].
  destruct o as [r|]; cbn [vobj_invalid] in *; [|discriminate].
  apply (unsuppressed_mono f f' r Hincl Hinv).
Qed.

Lemma validate_objects_mono : forall f f' objs,
  incl (vf_sup_e f) (vf_sup_e f') ->
  validate_objects_exit f' objs = 2 -> validate_objects_exit f objs = 2.
Proof.
  intros f f' objs Hincl H. rewrite validate_objects_exit_2_iff in *.
  apply (objects_invalid_mono f f' objs Hincl H).
Qed.

Lemma validate_repo_mono : forall f f' rr,
  incl (vf_sup_e f) (vf_sup_e f') ->
  validate_repo_exit f' rr = 2 -> validate_repo_exit f rr = 2.
Proof.
  intros f f' rr Hincl H. rewrite validate_repo_exit_2_iff in *.
  unfold repo_invalid_after_suppression in *. rewrite !orb_true_iff in *.
  destruct H as [[Hr | Ho] | Hh].
  - left. left. apply (unsuppressed_mono f f' _ Hincl Hr).
  - left. right. apply (objects_invalid_mono f f' _ Hincl Ho).
  - right. apply (unsuppressed_mono f f' _ Hincl Hh).
Qed.

Lemma suppression_monotone_all : forall f f' objs rr,
  incl (vf_sup_e f) (vf_sup_e f') ->
  (validate_objects_exit f objs = 0 -> validate_objects_exit f' objs <> 2) /\
  (validate_repo_exit f rr = 0 -> validate_repo_exit f' rr <> 2).
Proof.
  intros f f' objs rr Hincl. split; intros H0 H2.
  - apply (validate_objects_mono f f' objs Hincl) in H2. rewrite H2 in H0. discriminate.
  - apply (validate_repo_mono f f' rr Hincl) in H2. rewrite H2 in H0. discriminate.
Qed.

(* ------------------------------------------------------------------ ls *)

Lemma ls_exit_zero_iff : forall o, ls_exit o = 0 <-> ls_success o = true.
Proof.
  intros [c items | c g]; destruct c as [|e]; cbn [ls_exit ls_success is_lok andb].
  - destruct (forallb is_lok items); split; intro H; try reflexivity; discriminate.
  - rewrite exit_main_err_val. split; discriminate.
  - destruct g; [split; reflexivity|]. rewrite exit_main_err_val. split; discriminate.
  - rewrite exit_main_err_val. split; discriminate.
Qed.

Lemma ls_exit_item_error : forall items e,
  In (LErr e) items -> ls_exit (LsObjects LOk items) = 1.
Proof.
  intros items e Hin. cbn [ls_exit].
  destruct (forallb is_lok items) eqn:Hall; [|reflexivity].
  rewrite forallb_forall in Hall. specialize (Hall _ Hin). discriminate.
Qed.

(* ------------------------------------------------------------------ one command *)

Lemma exit_zero_iff_success : forall c,
  cli_exit c = 0 <-> cmd_success c = true.
Proof.
  intros c. destruct c as [o | o | f objs | f call | | ]; cbn [cli_exit cmd_success].
  - apply main_exit_zero_iff.
  - apply ls_exit_zero_iff.
  - rewrite validate_objects_exit_0_iff.
    destruct (objects_invalid_after_suppression f objs), (existsb is_verr objs);
      cbn [negb andb]; split; intro H; try reflexivity; try discriminate;
      try (destruct H; discriminate); split; reflexivity.
  - destruct call as [rr|]; cbn [validate_repo_cmd_exit].
    + rewrite (validate_repo_exit_0_iff f rr).
      destruct (repo_invalid_after_suppression f rr), (existsb is_verr (rr_objects rr));
        cbn [negb andb]; split; intro H; try reflexivity; try discriminate;
        try (destruct H; discriminate); split; reflexivity.
    + rewrite exit_main_err_val. split; discriminate.
  - rewrite exit_main_err_val. split; discriminate.
  - unfold EXIT_USAGE. split; discriminate.
Qed.

(* ------------------------------------------------------------------ options -> calls *)

Definition fs_globals (g : globals) : Prop :=
  g_bucket g = None /\ g_region g = None /\ g_endpoint g = None.

Lemma calls_of_nonempty : forall root staging s,
  no_call_cmd s = false -> calls_of root staging s <> [].
Proof.
  intros root staging s Hn.
  destruct s as [v c l | v d c z id | r i v id src dst | i id src dst | r id paths | r id paths
                | p n a m c r id | v p n a m c id | f yes id | o id path | st v id path
                | c h t r n id path | st m id v | id l r | id | p n l w e ids | st id | ];
    cbn [calls_of no_call_cmd] in *.
  - discriminate.
  - discriminate.
  - destruct i; discriminate.
  - destruct i; discriminate.
  - discriminate.
  - destruct (is_nil paths); discriminate.
  - discriminate.
  - destruct id; discriminate.
  - apply negb_false_iff in Hn. rewrite Hn. discriminate.
  - destruct (ls_objects o || negb (is_some id)); discriminate.
  - destruct st; discriminate.
  - destruct path; discriminate.
  - destruct st; [destruct m|]; discriminate.
  - rewrite Hn. discriminate.
  - destruct id; discriminate.
  - destruct ids as [|x ids]; cbn [is_nil map]; discriminate.
  - destruct id; [destruct st|]; discriminate.
  - discriminate.
Qed.

Lemma argv_to_call_total : forall g s,
  fs_globals g -> clap_accepts s = true ->
  exists open_repo calls,
    argv_to_call g s = Calls open_repo (dflt (b ".") (g_root g)) (g_staging g) calls /\
    calls = calls_of (dflt (b ".") (g_root g)) (g_staging g) s /\
    (no_call_cmd s = false -> calls <> []) /\
    (open_repo = false <-> (exists v c l, s = SInit v c l) \/ s = SConfig).
Proof.
  intros g s [Hb [Hr He]] Hacc.
  unfold argv_to_call, repo_of_globals. rewrite Hacc, Hb, Hr, He. cbn [negb is_some orb].
  destruct s; eexists; eexists; (split; [reflexivity|]); (split; [reflexivity|]);
    (split; [apply calls_of_nonempty|]);
    try (split; [discriminate | intros [[v0 [c0 [l0 H]]] | H]; discriminate]).
  - split; [intros _; left; eauto | reflexivity].
  - split; [intros _; right; reflexivity | reflexivity].
Qed.

Lemma argv_to_call_rejected_iff : forall g s,
  argv_to_call g s = Rejected <-> clap_accepts s = false.
Proof.
  intros g s. unfold argv_to_call. destruct (clap_accepts s); cbn [negb].
  - split; [|discriminate]. destruct (repo_of_globals g); [destruct s| |]; discriminate.
  - split; reflexivity.
Qed.

(** region / endpoint without a bucket: refused before any library call (config/mod.rs:49-55) *)
Lemma argv_to_call_config_invalid : forall g s,
  clap_accepts s = true -> g_bucket g = None ->
  (is_some (g_region g) || is_some (g_endpoint g)) = true ->
  argv_to_call g s = NoRepo.
Proof.
  intros g s Hacc Hb Hre. unfold argv_to_call, repo_of_globals.
  rewrite Hacc, Hb. cbn [negb is_some]. rewrite Hre. reflexivity.
Qed.

(** The defaults of opts.rs, and the options that change the semantics reach the
    parameter they are documented for. *)
Lemma argv_defaults : forall root staging id,
  calls_of root staging (SInit None None None) = [InitFsRepo root staging Ocfl1_1 LyHashedNTuple None] /\
  calls_of root staging (SNew None None None None id) = [CreateObject id None Sha512 K_DEFAULT_CONTENT_DIR 0] /\
  calls_of root staging (SReset false id []) = [ResetAll id] /\
  calls_of root staging (SCat false None id (b "p")) = [LogicalPathTryFrom (b "p"); GetObjectFile id (b "p") VHead] /\
  calls_of root staging (SValidate false false None [] [] []) = [ValidateRepo true].
Proof. intros root staging id. repeat split; reflexivity. Qed.

Lemma argv_options_forwarded :
  forall root staging id src dst paths r v d c z sv n a m cr oroot p,
  calls_of root staging (SNew sv (Some d) (Some c) (Some z) id) = [CreateObject id sv d c z] /\
  calls_of root staging (SCp r false None id src dst) = [CopyFilesExternal id src dst r] /\
  calls_of root staging (SCp r true v id src dst) = [CopyFilesInternal id (vref_of v) src dst r] /\
  calls_of root staging (SMv true id src dst) = [MoveFilesInternal id src dst] /\
  calls_of root staging (SMv false id src dst) = [MoveFilesExternal id src dst] /\
  calls_of root staging (SRm r id paths) = [RemoveFiles id paths r] /\
  calls_of root staging (SCommit p n a m cr oroot id) = [CommitMetaWithUser n a; Commit id n a m cr oroot p] /\
  calls_of root staging (SCat true None id dst) = [LogicalPathTryFrom dst; GetStagedObjectFile id dst] /\
  calls_of root staging (SCat false v id dst) = [LogicalPathTryFrom dst; GetObjectFile id dst (vref_of v)] /\
  calls_of root staging (SValidate true true None [] [] [id]) = [ValidateObjectAt id false] /\
  calls_of root staging (SValidate false false None [] [] [id]) = [ValidateObject id true].
Proof. intros. repeat split; reflexivity. Qed.
