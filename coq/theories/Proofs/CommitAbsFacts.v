(** C01, file-system level: facts about the abstraction [abs] of Model/CommitAbs.v - the name numbering and the
    concrete name abstraction are injective, the token oracles read what was written, the entries of [abs t root]
    are the leaves of t below root, [abs t root] is a leaf listing (keys distinct and prefix free), file lookups in
    it are lookups in t. *)
From Coq Require Import List NArith Ascii Bool Arith Lia ZArith ZifyBool ZifyN ZifyNat.
From Rocfl Require Import Base.Bytes Model.FsOps Model.FsTree Model.Commit Model.CommitAbs
  Proofs.FsTreeFacts Proofs.CommitAbsRun.
From Rocfl Require Model.ObjTree Proofs.ObjTreeFacts Proofs.WrittenFacts.
Import ListNotations.
Ltac Zify.zify_post_hook ::= Z.div_mod_to_equations.
Open Scope N_scope.

(** * the numbering of names *)
Lemma enc_pos s : 1 <= enc s.
Proof. induction s as [|a s IH]; cbn [enc]; lia. Qed.

Lemma N_of_ascii_inj a c : N_of_ascii a = N_of_ascii c -> a = c.
Proof. intros E. rewrite <- (ascii_N_embedding a), <- (ascii_N_embedding c). now rewrite E. Qed.

Lemma enc_inj : forall x y, enc x = enc y -> x = y.
Proof.
  induction x as [|a x IH]; intros [|c y]; cbn [enc]; intros E.
  - reflexivity.
  - pose proof (enc_pos y). lia.
  - pose proof (enc_pos x). lia.
  - pose proof (N_ascii_bounded a). pose proof (N_ascii_bounded c).
    assert (enc x = enc y) by lia. assert (N_of_ascii a = N_of_ascii c) by lia.
    f_equal; [now apply N_of_ascii_inj | now apply IH].
Qed.

Lemma index_of_ge x vs : forall m j, index_of x vs m = Some j -> m <= j.
Proof.
  induction vs as [|v vs IH]; intros m j; cbn [index_of]; [discriminate|].
  destruct (seg_eqb v x); [intros X; injection X; lia|]. intros X. apply IH in X. lia.
Qed.

Lemma index_of_inj x y vs : forall n k, index_of x vs n = Some k -> index_of y vs n = Some k -> x = y.
Proof.
  induction vs as [|v vs IH]; intros n k; cbn [index_of]; [discriminate|].
  destruct (seg_eqb v x) eqn:Ex, (seg_eqb v y) eqn:Ey; intros H1 H2.
  - apply seg_eqb_eq in Ex, Ey. congruence.
  - injection H1 as <-. apply index_of_ge in H2. lia.
  - injection H2 as <-. apply index_of_ge in H1. lia.
  - eapply IH; eauto.
Qed.

Lemma aseg_tab_inj inv side a pad vs x y :
  aseg_tab inv side a pad vs x = aseg_tab inv side a pad vs y -> x = y.
Proof.
  unfold aseg_tab.
  destruct (seg_eqb x inv) eqn:X1; [apply seg_eqb_eq in X1|];
  destruct (seg_eqb y inv) eqn:Y1; try (apply seg_eqb_eq in Y1); try congruence;
  (destruct (seg_eqb x side) eqn:X2; [apply seg_eqb_eq in X2|]);
  (destruct (seg_eqb y side) eqn:Y2; try (apply seg_eqb_eq in Y2)); try congruence;
  (destruct (seg_eqb x decl10) eqn:X3; [apply seg_eqb_eq in X3|]);
  (destruct (seg_eqb y decl10) eqn:Y3; try (apply seg_eqb_eq in Y3)); try congruence;
  (destruct (seg_eqb x decl11) eqn:X4; [apply seg_eqb_eq in X4|]);
  (destruct (seg_eqb y decl11) eqn:Y4; try (apply seg_eqb_eq in Y4)); try congruence;
  try discriminate;
  destruct (index_of x vs 1) as [k|] eqn:IX, (index_of y vs 1) as [j|] eqn:IY; try discriminate; intros E.
  - injection E as <-. eapply index_of_inj; eauto.
  - injection E as E. now apply enc_inj.
Qed.

(** * tokens *)
Lemma tok_mod_inv k : (5 * k + 1) mod 5 = 1 /\ (5 * k + 1) / 5 = k.
Proof. split; lia. Qed.
Lemma tok_mod_side k : (5 * k + 2) mod 5 = 2 /\ (5 * k + 2) / 5 = k.
Proof. split; lia. Qed.
Lemma tok_mod_decl k : (5 * k + 3) mod 5 = 3 /\ (5 * k + 3) / 5 = k.
Proof. split; lia. Qed.

Section Facts.
  Variable aseg : fseg -> oseg.
  Hypothesis aseg_inj : forall x y, aseg x = aseg y -> x = y.
  Variable interp : N -> option oinv.
  Variable dg : oalg -> ObjTree.token -> N.
  Variable al : oalg.

  Notation apath := (apath aseg).
  Notation abs := (abs aseg).
  Notation parse_inv := (parse_inv interp).
  Notation parse_sidecar := (parse_sidecar dg al).

  Lemma parse_inv_tok k vs sp man dups : parse_inv (atok (CInv k vs sp man dups)) = interp k.
  Proof. unfold CommitAbs.parse_inv, atok. destruct (tok_mod_inv k) as [-> ->]. reflexivity. Qed.

  Lemma parse_sidecar_tok k : parse_sidecar (atok (CSide k)) = Some (dg al (5 * k + 1)).
  Proof. unfold CommitAbs.parse_sidecar, atok. destruct (tok_mod_side k) as [-> ->]. reflexivity. Qed.

  Lemma parse_decl_tok v : parse_decl (atok (CDecl (decl_name v))) = Some v.
  Proof.
    unfold parse_decl, atok. destruct (tok_mod_decl (enc (decl_name v))) as [-> ->]. cbn [N.eqb Pos.eqb].
    destruct v; cbn [decl_name].
    - now rewrite N.eqb_refl.
    - assert (X : N.eqb (enc decl11) (enc decl10) = false) by (vm_compute; reflexivity). rewrite X. now rewrite N.eqb_refl.
  Qed.

  (** * paths *)
  Lemma apath_inj x y : apath x = apath y -> x = y.
  Proof.
    revert y; induction x as [|a x IH]; intros [|c y]; cbn; intros E; try discriminate; [reflexivity|].
    injection E as E1 E2. f_equal; [now apply aseg_inj | now apply IH].
  Qed.

  Lemma apath_app x y : apath (x ++ y) = apath x ++ apath y.
  Proof. apply map_app. Qed.

  Lemma is_prefix_apath x y : ObjTree.is_prefix (apath x) (apath y) = true <-> under x y = true.
  Proof.
    rewrite ObjTreeFacts.is_prefix_true, under_iff. split.
    - intros [r E]. revert y E. induction x as [|a x IH]; intros y E; [now exists y|].
      destruct y as [|c y]; [discriminate|]. cbn in E. injection E as E1 E2. apply aseg_inj in E1. subst c.
      destruct (IH y E2) as [s ->]. now exists s.
    - intros [s ->]. exists (apath s). apply apath_app.
  Qed.

  Lemma apath_nil x : apath x = [] -> x = [].
  Proof. destruct x; [reflexivity | discriminate]. Qed.

  (** * the entries of [subtree] and of [abs] *)
  Lemma subtree_In t root rel n : twf t ->
    (In (rel, n) (subtree t root) <-> rel <> [] /\ lookup t (root ++ rel) = Some n).
  Proof.
    intros W. unfold subtree. rewrite in_map_iff. split.
    - intros [[p m] [E I]]. apply filter_In in I as [I B]. cbn [fst snd] in *. injection E as <- <-.
      apply below_iff in B as [U NE]. apply under_iff in U as [s ->].
      rewrite skipn_app, skipn_all, Nat.sub_diag. cbn [skipn app]. split.
      + intros ->. apply NE. now rewrite app_nil_r.
      + now apply (twf_In_lookup t (root ++ s) m W).
    - intros [NE L]. exists (root ++ rel, n). cbn [fst snd]. split.
      + now rewrite skipn_app, skipn_all, Nat.sub_diag.
      + apply filter_In. split; [now apply (twf_In_lookup t _ n W)|]. cbn [fst]. now apply below_app.
  Qed.

  Lemma subtree_keys_nodup t root : twf t -> NoDup (map fst (subtree t root)).
  Proof.
    intros [ND _]. unfold subtree. rewrite map_map. cbn [fst].
    assert (G : forall l, NoDup (map fst l) -> NoDup (map (fun e : fpath * node => skipn (List.length root) (fst e))
                                                     (filter (fun e => below root (fst e)) l))).
    { induction l as [|[p m] l IH]; cbn [map filter fst]; intros N; [constructor|].
      inversion N as [|? ? N1 N2]; subst. destruct (below root p) eqn:B; cbn [map fst]; [|now apply IH].
      constructor; [|now apply IH]. intros X. apply in_map_iff in X as [[q m'] [E I]]. apply filter_In in I as [I Bq].
      cbn [fst] in *. apply N1. apply in_map_iff. exists (q, m'). split; [|exact I]. cbn.
      apply below_under, under_skipn in B. apply below_under, under_skipn in Bq. congruence. }
    now apply G.
  Qed.

  Lemma abs_In t root q m :
    In (q, m) (abs t root) <->
    exists rel n, In (rel, n) (subtree t root) /\ q = apath rel /\
      ((exists c, n = File c /\ m = ObjTree.File (atok c)) \/
       (n = Dir /\ has_children t (root ++ rel) = false /\ m = ObjTree.Dir)).
  Proof.
    unfold CommitAbs.abs. rewrite in_flat_map. split.
    - intros [[rel n] [I X]]. cbn [fst snd] in X. exists rel, n. split; [exact I|].
      destruct n as [|c].
      + destruct (has_children t (root ++ rel)) eqn:H; [destruct X|]. destruct X as [X|[]]. injection X as <- <-. auto.
      + destruct X as [X|[]]. injection X as <- <-. split; [reflexivity|]. left. eauto.
    - intros (rel & n & I & -> & [(c & -> & ->) | (-> & H & ->)]).
      + exists (rel, File c). split; [exact I|]. cbn [fst snd]. now left.
      + exists (rel, Dir). split; [exact I|]. cbn [fst snd]. rewrite H. now left.
  Qed.

  (** the entries of [abs], by lookups *)
  Lemma abs_In_lookup t root q m : twf t ->
    (In (q, m) (abs t root) <->
     exists rel, rel <> [] /\ q = apath rel /\
       ((exists c, lookup t (root ++ rel) = Some (File c) /\ m = ObjTree.File (atok c)) \/
        (lookup t (root ++ rel) = Some Dir /\ has_children t (root ++ rel) = false /\ m = ObjTree.Dir))).
  Proof.
    intros W. rewrite abs_In. split.
    - intros (rel & n & I & -> & H). apply (subtree_In t root rel n W) in I as [NE L]. exists rel. split; [exact NE|].
      split; [reflexivity|]. destruct H as [(c & -> & ->) | (-> & H & ->)]; eauto.
    - intros (rel & NE & -> & [(c & L & ->) | (L & H & ->)]).
      + exists rel, (File c). split; [now apply subtree_In|]. split; [reflexivity|]. left. eauto.
      + exists rel, Dir. split; [now apply subtree_In|]. split; [reflexivity|]. right. auto.
  Qed.

  (** * [abs] is a leaf listing *)
  Lemma leavesb_intro (l : otree) :
    NoDup (map fst l) -> (forall e, In e l -> fst e <> []) ->
    (forall e e', In e l -> In e' l -> ObjTree.is_prefix (fst e) (fst e') = true -> fst e = fst e') ->
    ObjTree.leavesb l = true.
  Proof.
    induction l as [|[q n] l IH]; intros ND NE PF; [reflexivity|]. cbn [ObjTree.leavesb].
    inversion ND as [|? ? N1 N2]; subst.
    apply andb_true_iff. split; [apply andb_true_iff; split|].
    - specialize (NE (q, n) (or_introl eq_refl)). cbn in NE. destruct q; [contradiction | reflexivity].
    - apply forallb_forall. intros [q' n'] I. cbn [fst]. apply andb_true_iff. split; apply negb_true_iff.
      + destruct (ObjTree.is_prefix q q') eqn:E; [|reflexivity]. exfalso.
        specialize (PF (q, n) (q', n') (or_introl eq_refl) (or_intror I) E). cbn in PF. subst q'.
        apply N1. apply in_map_iff. now exists (q, n').
      + destruct (ObjTree.is_prefix q' q) eqn:E; [|reflexivity]. exfalso.
        specialize (PF (q', n') (q, n) (or_intror I) (or_introl eq_refl) E). cbn in PF. subst q'.
        apply N1. apply in_map_iff. now exists (q, n').
    - apply IH; auto.
      + intros e I. apply NE. now right.
      + intros e e' I I'. apply PF; now right.
  Qed.

  Lemma abs_keys_nodup t root : twf t -> NoDup (map fst (abs t root)).
  Proof.
    intros W. pose proof (subtree_keys_nodup t root W) as ND. unfold CommitAbs.abs.
    induction (subtree t root) as [|[rel n] l IH]; cbn [flat_map]; [constructor|].
    cbn [map fst] in ND. inversion ND as [|? ? N1 N2]; subst. specialize (IH N2).
    assert (G : ~ In (apath rel) (map fst (flat_map (fun e : fpath * node =>
                 match snd e with
                 | File c => [(apath (fst e), ObjTree.File (atok c))]
                 | Dir => if has_children t (root ++ fst e) then [] else [(apath (fst e), ObjTree.Dir)]
                 end) l))).
    { intros X. apply in_map_iff in X as [[q m] [E I]]. cbn in E. subst q. apply in_flat_map in I as [[rel' n'] [I X]].
      cbn [fst snd] in X. apply N1. apply in_map_iff. exists (rel', n'). split; [|exact I]. cbn.
      destruct n' as [|c']; [destruct (has_children t (root ++ rel')); [destruct X|]|];
        (destruct X as [X|[]]; injection X as X _; now apply apath_inj in X). }
    cbn [fst snd]. destruct n as [|c]; [destruct (has_children t (root ++ rel))|]; cbn [app map fst]; auto; now constructor.
  Qed.

  Lemma abs_leaves t root : twf t -> ObjTree.leavesb (abs t root) = true.
  Proof.
    intros W. apply leavesb_intro.
    - now apply abs_keys_nodup.
    - intros [q m] I. apply (abs_In_lookup t root q m W) in I as (rel & NE & -> & _). cbn. intros X. now apply apath_nil in X.
    - intros [q m] [q' m'] I I' P. cbn [fst] in *.
      apply (abs_In_lookup t root q m W) in I as (rel & NE & -> & H).
      apply (abs_In_lookup t root q' m' W) in I' as (rel' & NE' & -> & H').
      apply is_prefix_apath in P. f_equal.
      destruct (path_eq_dec rel rel') as [E|N]; [exact E|]. exfalso.
      assert (B : below (root ++ rel) (root ++ rel') = true).
      { apply below_iff. split; [now rewrite app_under_cancel|]. intros X. apply app_inv_head in X. congruence. }
      assert (L' : exists n', lookup t (root ++ rel') = Some n') by (destruct H' as [(c & L & _) | (L & _)]; eauto).
      destruct L' as [n' L'].
      destruct H as [(c & L & _) | (L & HC & _)].
      + rewrite (twf_no_children t (root ++ rel) _ W) in L'; [discriminate | now destruct root, rel | congruence | exact B].
      + rewrite (has_children_true t _ _ _ L' B) in HC. discriminate.
  Qed.

  (** * file lookups in [abs] *)
  Lemma abs_file_tok t root rel : twf t -> rel <> [] ->
    ObjTree.file_tok (apath rel) (abs t root) =
    match lookup t (root ++ rel) with Some (File c) => Some (atok c) | _ => None end.
  Proof.
    intros W NE. pose proof (abs_leaves t root W) as LV.
    destruct (lookup t (root ++ rel)) as [[|c]|] eqn:L.
    - destruct (ObjTree.file_tok (apath rel) (abs t root)) as [k|] eqn:E; [|reflexivity]. exfalso.
      apply ObjTreeFacts.file_tok_In in E. apply (abs_In_lookup t root _ _ W) in E as (rel' & _ & X & H).
      apply apath_inj in X. subst rel'. destruct H as [(c & L' & _) | (_ & _ & X)]; congruence.
    - apply ObjTreeFacts.file_tok_lookup. apply (WrittenFacts.leaves_lookup _ LV).
      apply (abs_In_lookup t root _ _ W). exists rel. split; [exact NE|]. split; [reflexivity|]. left. eauto.
    - destruct (ObjTree.file_tok (apath rel) (abs t root)) as [k|] eqn:E; [|reflexivity]. exfalso.
      apply ObjTreeFacts.file_tok_In in E. apply (abs_In_lookup t root _ _ W) in E as (rel' & _ & X & H).
      apply apath_inj in X. subst rel'. destruct H as [(c & L' & _) | (L' & _)]; congruence.
  Qed.

  Lemma abs_file_tok_inv t root q k : twf t ->
    ObjTree.file_tok q (abs t root) = Some k ->
    exists rel c, rel <> [] /\ q = apath rel /\ lookup t (root ++ rel) = Some (File c) /\ k = atok c.
  Proof.
    intros W E. apply ObjTreeFacts.file_tok_In in E. apply (abs_In_lookup t root _ _ W) in E as (rel & NE & -> & H).
    destruct H as [(c & L & X) | (_ & _ & X)]; [|discriminate]. injection X as ->. eauto 6.
  Qed.
End Facts.
