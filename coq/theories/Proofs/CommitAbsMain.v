(** C01, file-system level: the main theorems.

    [commit_yields_written]: under [commit_pre] (Model/Commit.v) and [commit_pre_tree] (Model/CommitAbs.v) the main
    object of the fault-free commit abstracts to a [written_by_rocfl] tree whose root inventory is the committed one;
    [reachable_written]: over histories of commits of one object, [main_written] is an invariant. *)
From Coq Require Import List NArith Ascii Bool Arith Lia.
From Rocfl Require Import Base.Bytes Model.FsOps Model.FsTree Model.Commit Model.CommitAbs
  Proofs.FsTreeFacts Proofs.CommitPre Proofs.CommitPhases Proofs.CommitAbsRun Proofs.CommitAbsPrep Proofs.CommitAbsFacts
  Proofs.CommitAbsWritten.
From Rocfl Require Model.ObjTree Model.TreeValidate Proofs.ObjTreeFacts Proofs.WrittenFacts Proofs.CorruptFacts.
Import ListNotations.
Open Scope N_scope.

(** * soundness of the boolean conditions *)
Lemma inv_eqb_eq x y : inv_eqb x y = true -> x = y.
Proof.
  unfold inv_eqb. intros H.
  apply andb_true_iff in H as [H Hfix]. apply andb_true_iff in H as [H Hvers]. apply andb_true_iff in H as [H Hman].
  apply andb_true_iff in H as [H Hcdir]. apply andb_true_iff in H as [H Hpad]. apply andb_true_iff in H as [H Halg].
  apply andb_true_iff in H as [Hid Hspec].
  destruct x, y. cbn in *.
  apply N.eqb_eq in Hid. apply ObjTreeFacts.spec_eqb_eq in Hspec. apply ObjTreeFacts.alg_eqb_eq in Halg.
  apply N.eqb_eq in Hpad. apply N.eqb_eq in Hcdir.
  assert (E4 : inv_manifest = inv_manifest0).
  { revert Hman. apply ObjTreeFacts.list_eqb_eq. intros [d p] [d' p']. unfold pair_N_path_eqb. cbn.
    rewrite andb_true_iff, N.eqb_eq, ObjTreeFacts.path_eqb_eq. split; [intros [-> ->]; reflexivity | intros E; injection E; auto]. }
  apply versions_eqb_eq in Hvers.
  assert (E6 : inv_fixity = inv_fixity0).
  { revert Hfix. apply ObjTreeFacts.list_eqb_eq. intros [[a d] p] [[a' d'] p']. unfold fix_eqb. cbn.
    rewrite !andb_true_iff, !N.eqb_eq, ObjTreeFacts.path_eqb_eq. split; [intros [[-> ->] ->]; reflexivity | intros E; injection E; auto]. }
  congruence.
Qed.

Lemma nodup_keysb_sound t : nodup_keysb t = true -> NoDup (map fst t).
Proof.
  induction t as [|e t IH]; cbn [nodup_keysb map]; intros H; [constructor|].
  apply andb_true_iff in H as [H1 H2]. constructor; [|now apply IH].
  intros I. apply in_map_iff in I as [e' [E I]]. apply negb_true_iff in H1.
  assert (X : existsb (fun e'0 : fpath * node => path_eqb (fst e'0) (fst e)) t = true).
  { apply existsb_exists. exists e'. split; [exact I|]. rewrite E. apply path_eqb_refl. }
  congruence.
Qed.

Lemma twf_b_sound t : twf_b t = true -> twf t.
Proof.
  unfold twf_b. intros H. apply andb_true_iff in H as [H1 H2]. split; [now apply nodup_keysb_sound|].
  intros p n I. rewrite forallb_forall in H2. specialize (H2 _ I). cbn [fst] in H2.
  destruct p as [|a p]; [discriminate|]. split; [discriminate | exact H2].
Qed.

Lemma nodup_fpathb_sound l : nodup_fpathb l = true -> NoDup l.
Proof.
  induction l as [|p l IH]; cbn [nodup_fpathb]; intros H; [constructor|].
  apply andb_true_iff in H as [H1 H2]. constructor; [|now apply IH].
  intros I. apply mem_path_In in I. apply negb_true_iff in H1. congruence.
Qed.

Lemma vs_ok_from_sound aseg pad : forall vs n, vs_ok_from aseg pad n vs = true ->
  forall j v, nth_error vs j = Some v -> aseg v = ObjTree.SVer pad (n + N.of_nat j) /\ is_decl_name v = false.
Proof.
  induction vs as [|x vs IH]; intros n H j v E; [destruct j; discriminate|].
  cbn [vs_ok_from] in H. apply andb_true_iff in H as [H H3]. apply andb_true_iff in H as [H1 H2].
  destruct j as [|j]; cbn [nth_error] in E.
  - injection E as <-. apply ObjTreeFacts.seg_eqb_eq in H1. apply negb_true_iff in H2.
    rewrite H1. split; [f_equal; lia | exact H2].
  - destruct (IH _ H3 j v E) as [X Y]. split; [rewrite X; f_equal; lia | exact Y].
Qed.

Lemma none_or_file_sound o : none_or_file o = true -> o <> Some Dir.
Proof. intros H ->. discriminate. Qed.

Lemma none_or_dir_sound o : none_or_dir o = true -> forall c0, o <> Some (File c0).
Proof. intros H c0 ->. discriminate. Qed.

Lemma none_or_dir_cases o : none_or_dir o = true -> o = None \/ o = Some Dir.
Proof. destruct o as [[|c0]|]; cbn; auto; discriminate. Qed.

Section Main.
  Variable aseg : fseg -> oseg.
  Hypothesis aseg_inj : forall x y, aseg x = aseg y -> x = y.
  Variable interp : N -> option oinv.
  Variable dg : oalg -> ObjTree.token -> N.
  Variable al : oalg.

  Notation apath := (apath aseg).
  Notation abs := (abs aseg).
  Notation pinv := (parse_inv interp).
  Notation pside := (parse_sidecar dg al).
  Notation WF := (WrittenFacts.wfP dg pinv pside parse_decl).
  Notation wrb := (writtenb interp dg al).

  (** what the commit establishes: the invariant of histories, and the new root inventory *)
  Definition committed (c : cfg) (t' : tree) : Prop :=
    twf t' /\ wrb (abs t' (c_mo c)) = true /\ decls_files_b c t' = true
    /\ ObjTree.root_inv pinv (abs t' (c_mo c)) = interp (c_newk c) /\ interp (c_newk c) <> None.

  Lemma decl_name_is_decl v : is_decl_name (decl_name v) = true.
  Proof. destruct v; vm_compute; reflexivity. Qed.

  Lemma installed_decls c t0 i0 t' : installed c t0 i0 t' -> decls_files_b c t' = true.
  Proof.
    intros N. unfold decls_files_b. apply forallb_forall. intros [x n] I. cbn [fst snd].
    destruct (is_child (c_mo c) x && is_decl_name (last x [])) eqn:E; [|reflexivity]. cbn [negb orb].
    apply andb_true_iff in E as [Cx Dx]. apply (twf_In_lookup t' x n (n_wf c t0 i0 t' N)) in I.
    destruct (path_eq_dec x (c_mo c ++ [i_spec i0])) as [-> | NE].
    - rewrite (n_decl c t0 i0 t' N) in I. now injection I as <-.
    - rewrite (n_decls c t0 i0 t' N x Cx Dx NE) in I. discriminate.
  Qed.

  Theorem commit_yields_written c t i :
    commit_pre c t i -> staged_pre aseg interp dg al c t i -> main_written aseg interp dg al c t ->
    committed c (run_tree (commit c) t NoInj).
  Proof.
    intros Pre SP MW. unfold staged_pre, staged_pre_b in SP.
    destruct (interp (i_k i)) as [sinv|] eqn:Esinv; [|discriminate].
    apply andb_true_iff in SP as [SP Hlink]. apply andb_true_iff in SP as [SP Hst].
    apply andb_true_iff in SP as [SP Hgood]. apply andb_true_iff in SP as [SP Hnew].
    apply andb_true_iff in SP as [Htwf Htok].
    pose proof (twf_b_sound t Htwf) as W0.
    set (ninv := dedup_inv sinv (map apath (i_dups i))) in *.
    assert (Knew : interp (c_newk c) = Some ninv).
    { destruct (interp (c_newk c)) as [x|]; cbn in Hnew; [|discriminate]. now apply inv_eqb_eq in Hnew as ->. }
    (* the token and the inventory *)
    unfold tok_ok_b in Htok.
    apply andb_true_iff in Htok as [Htok Kdups]. apply andb_true_iff in Htok as [Htok Knodup].
    apply andb_true_iff in Htok as [Htok Kman2]. apply andb_true_iff in Htok as [Htok Kman1].
    apply andb_true_iff in Htok as [Htok Kvs]. apply andb_true_iff in Htok as [Htok Khead].
    apply andb_true_iff in Htok as [Htok Kspec]. apply andb_true_iff in Htok as [Htok Kd11].
    apply andb_true_iff in Htok as [Htok Kd10]. apply andb_true_iff in Htok as [Htok Kcdir].
    apply andb_true_iff in Htok as [Htok Kside]. apply andb_true_iff in Htok as [Kalg Kinv].
    apply ObjTreeFacts.alg_eqb_eq in Kalg. apply ObjTreeFacts.seg_eqb_eq in Kinv, Kside, Kcdir, Kd10, Kd11.
    apply seg_eqb_eq in Kspec. apply N.eqb_eq in Khead. apply nodup_pathb_NoDup in Knodup. apply nodup_fpathb_sound in Kdups.
    assert (Kvs' : forall j v, nth_error (i_vs i) j = Some v ->
                     aseg v = ObjTree.SVer (ObjTree.inv_pad sinv) (N.of_nat (S j)) /\ is_decl_name v = false).
    { intros j v E. destruct (vs_ok_from_sound aseg _ _ 1 Kvs j v E) as [X Y]. split; [|exact Y]. rewrite X. f_equal. lia. }
    assert (Kman1' : forall dp, In dp (ObjTree.inv_manifest sinv) -> is_head_path (ObjTree.inv_head sinv) (snd dp) = true ->
                       In (snd dp) (map apath (i_man i))).
    { intros dp I HP. rewrite forallb_forall in Kman1. specialize (Kman1 _ I). rewrite <- Khead, HP in Kman1.
      cbn in Kman1. now apply ObjTreeFacts.mem_path_In. }
    assert (Kman2' : forall d, In d (i_man i) -> In (apath d) (map snd (ObjTree.inv_manifest sinv))).
    { intros d I. rewrite forallb_forall in Kman2. apply ObjTreeFacts.mem_path_In. now apply Kman2. }
    (* the staged tree *)
    unfold staged_tree_b in Hst. cbv zeta in Hst.
    apply andb_true_iff in Hst as [Hst Hfirst]. apply andb_true_iff in Hst as [Hst Hblob].
    apply andb_true_iff in Hst as [Hst Hshape]. apply andb_true_iff in Hst as [Hst Hcd].
    apply andb_true_iff in Hst as [Hst Hhside]. apply andb_true_iff in Hst as [Hst Hhinv].
    apply andb_true_iff in Hst as [Hst Hhd]. apply andb_true_iff in Hst as [Hnodecl Hside].
    apply negb_true_iff in Hnodecl.
    rewrite <- !snoc2 in *.
    assert (Kblob : forall d, In d (i_man i) -> exists n, lookup t (c_so c ++ d) = Some (File (CBlob n))
                      /\ ObjTree.mdigest (ObjTree.inv_manifest sinv) (apath d) = Some (dg al (atok (CBlob n)))).
    { intros d I. rewrite forallb_forall in Hblob. specialize (Hblob _ I).
      destruct (lookup t (c_so c ++ d)) as [[|[n| | | |]]|]; try discriminate. exists n. split; [reflexivity|].
      now apply WrittenFacts.opt_eqb_N. }
    assert (Hshape' : forall x n, lookup t x = Some n -> below (c_so c ++ [head_of i]) x = true ->
              x = c_so c ++ [head_of i; c_inv c] \/ x = c_so c ++ [head_of i; c_side c] \/ under (c_so c ++ [head_of i; c_cdir c]) x = true).
    { intros x n L B. rewrite forallb_forall in Hshape. specialize (Hshape _ (lookup_In _ _ _ L)). cbn [fst] in Hshape.
      rewrite B in Hshape. cbn [negb orb] in Hshape.
      apply orb_true_iff in Hshape as [Hshape | U]; [|auto].
      apply orb_true_iff in Hshape as [E | E]; apply path_eqb_eq in E; auto. }
    assert (Hspecd : is_decl_name (i_spec i) = true) by (rewrite Kspec; apply decl_name_is_decl).
    assert (Good : inv_good_b ninv = true) by exact Hgood.
    destruct (pre_main c t i Pre) as [VS1 Absent | k0 vs0 spec0 man0 dups0 V0 VS Hnotin MoD MInv Valid Knew0 Free SpecNew].
    - (* a first version *)
      assert (New : inv_is_new i = true) by (unfold inv_is_new; now rewrite VS1).
      rewrite New in Hfirst. unfold link_b in Hlink. rewrite New in Hlink.
      apply andb_true_iff in Hfirst as [Hso Hanc].
      assert (Inst : installed c t i (run_tree (commit c) t NoInj)).
      { apply commit_installed_new_object; auto.
        - now apply none_or_file_sound.
        - now apply none_or_dir_sound.
        - now apply none_or_file_sound.
        - now apply none_or_file_sound.
        - now apply none_or_dir_sound.
        - intros x n L B. rewrite forallb_forall in Hso. specialize (Hso _ (lookup_In _ _ _ L)). cbn [fst snd] in Hso.
          rewrite B in Hso. cbn [negb orb] in Hso.
          apply orb_true_iff in Hso as [Hso | X].
          + apply orb_true_iff in Hso as [Hso | X]; [|apply path_eqb_eq in X; auto].
            apply orb_true_iff in Hso as [X | X]; [auto | apply path_eqb_eq in X; auto].
          + right. right. right. apply andb_true_iff in X as [X F]. apply andb_true_iff in X as [X1 X2].
            repeat split; auto. destruct n as [|c0]; [discriminate | eauto].
        - intros q Nq U. rewrite forallb_forall in Hanc. apply none_or_dir_cases. apply Hanc.
          apply (prefixes_ne_In [] (parent (c_mo c)) q); auto. }
      assert (WFn : WF (abs (run_tree (commit c) t NoInj) (c_mo c)) (atok (tok_of (committed_inv c i))) ninv).
      { apply (written_first aseg aseg_inj interp dg al c t i _ sinv Pre Inst); auto.
        - intros dp I. rewrite forallb_forall in Hlink. rewrite Khead. now apply Hlink.
        - rewrite Khead. unfold head_no. now rewrite VS1. }
      split; [apply (n_wf c t i _ Inst)|]. split; [|split; [now apply (installed_decls c t i)|]].
      + eapply wf_fold; [exact WFn|]. unfold inv_good_b in Good. repeat (apply andb_true_iff in Good as [Good ?]). assumption.
      + rewrite (WrittenFacts.wf_root_inv _ _ _ _ _ _ _ WFn), Knew. split; [reflexivity | discriminate].
    - (* a further version *)
      assert (NotNew : inv_is_new i = false).
      { unfold inv_is_new. rewrite VS. destruct vs0 as [|a [|b l]]; [contradiction | reflexivity | reflexivity]. }
      unfold link_b in Hlink. rewrite NotNew in Hlink.
      unfold main_written, main_written_b in MW.
      assert (NU : none_under t (c_mo c) = false).
      { destruct (none_under t (c_mo c)) eqn:E; [|reflexivity].
        rewrite (none_under_sound _ _ E (c_mo c) (under_refl _)) in MoD. discriminate. }
      rewrite NU in MW. cbn [orb] in MW. apply andb_true_iff in MW as [MWw MWd].
      destruct (WrittenFacts.wf_unfold _ _ _ _ _ MWw) as (itok0 & inv0 & Old).
      rewrite (WrittenFacts.wf_root_inv _ _ _ _ _ _ _ Old) in Hlink.
      unfold extends_b in Hlink. cbv zeta in Hlink.
      apply andb_true_iff in Hlink as [Hlink Xman2]. apply andb_true_iff in Hlink as [Hlink Xman1].
      apply andb_true_iff in Hlink as [Hlink Xvers]. apply andb_true_iff in Hlink as [Hlink Xhead].
      apply andb_true_iff in Hlink as [Hlink Xspec]. apply andb_true_iff in Hlink as [Hlink Xcdir].
      apply andb_true_iff in Hlink as [Hlink Xpad]. apply andb_true_iff in Hlink as [Xid Xalg].
      apply N.eqb_eq in Xid, Xpad, Xcdir, Xhead. apply ObjTreeFacts.alg_eqb_eq in Xalg. apply versions_eqb_eq in Xvers.
      apply incl_pairs_incl in Xman1.
      assert (Inst : installed c t i (run_tree (commit c) t NoInj)).
      { apply (commit_installed_new_version c t i k0 vs0 spec0 man0 dups0); auto.
        - now apply none_or_file_sound.
        - now apply none_or_dir_sound.
        - now apply none_or_file_sound.
        - now apply none_or_file_sound.
        - now apply none_or_dir_sound.
        - intros NE. now destruct (SpecNew NE).
        - intros x n L Cx Dx. unfold decls_files_b in MWd. rewrite forallb_forall in MWd.
          specialize (MWd _ (lookup_In _ _ _ L)). cbn [fst snd] in MWd. rewrite Cx, Dx in MWd. cbn in MWd.
          destruct n as [|c0]; [discriminate | eauto]. }
      assert (WFn : WF (abs (run_tree (commit c) t NoInj) (c_mo c)) (atok (tok_of (committed_inv c i))) ninv).
      { apply (written_next aseg aseg_inj interp dg al c t i _ sinv Pre Inst) with (inv0 := inv0) (itok0 := itok0); auto.
        intros dp I. rewrite forallb_forall in Xman2. specialize (Xman2 _ I). apply orb_true_iff in Xman2 as [X|X]; [now left|].
        right. now apply mem_pair_In. }
      split; [apply (n_wf c t i _ Inst)|]. split; [|split; [now apply (installed_decls c t i)|]].
      + eapply wf_fold; [exact WFn|]. unfold inv_good_b in Good. repeat (apply andb_true_iff in Good as [Good ?]). assumption.
      + rewrite (WrittenFacts.wf_root_inv _ _ _ _ _ _ _ WFn), Knew. split; [reflexivity | discriminate].
  Qed.
End Main.

(** * histories *)
Section Hist.
  Variable aseg : fseg -> oseg.
  Hypothesis aseg_inj : forall x y, aseg x = aseg y -> x = y.
  Variable interp : N -> option oinv.
  Variable dg : oalg -> ObjTree.token -> N.
  Variable al : oalg.

  Notation abs := (abs aseg).
  Notation pinv := (parse_inv interp).
  Notation pside := (parse_sidecar dg al).
  Notation WF := (WrittenFacts.wfP dg pinv pside parse_decl).
  Notation wrb := (writtenb interp dg al).

  Lemma file_tok_ext o o' : ObjTree.leavesb o = true -> ObjTree.leavesb o' = true -> (forall e, In e o <-> In e o') ->
    forall p, ObjTree.file_tok p o = ObjTree.file_tok p o'.
  Proof.
    intros L L' E p.
    assert (G : forall a b, ObjTree.leavesb a = true -> ObjTree.leavesb b = true -> (forall e, In e a <-> In e b) ->
                forall k, ObjTree.file_tok p a = Some k -> ObjTree.file_tok p b = Some k).
    { intros a b' La Lb Eab k H. apply ObjTreeFacts.file_tok_In in H. apply Eab in H.
      apply ObjTreeFacts.file_tok_lookup. now apply (WrittenFacts.leaves_lookup _ Lb). }
    destruct (ObjTree.file_tok p o) as [k|] eqn:F.
    - symmetry. apply (G o o' L L' E k F).
    - destruct (ObjTree.file_tok p o') as [k|] eqn:F'; [|reflexivity].
      rewrite (G o' o L' L (fun e => iff_sym (E e)) k F') in F. discriminate.
  Qed.

  Lemma wfP_ext o o' itok root :
    ObjTree.leavesb o = true -> ObjTree.leavesb o' = true -> (forall e, In e o <-> In e o') -> WF o itok root -> WF o' itok root.
  Proof.
    intros L L' E W. pose proof (file_tok_ext o o' L L' E) as FT.
    destruct W as [W1 W2 W3 W4 W5 W6 W7 W8 W9 W10 W11].
    constructor; auto.
    - now rewrite <- FT.
    - destruct W4 as (dk & F & P). exists dk. now rewrite <- FT.
    - destruct W5 as (sk & F & P). exists sk. now rewrite <- FT.
    - intros e I. apply W6. now apply E.
    - intros n V. specialize (W7 n V). unfold ObjTree.version_okb, ObjTree.vinv in *. now rewrite <- !FT.
    - intros dp I. specialize (W8 dp I). unfold ObjTree.manifest_entry_okb in *. now rewrite <- !FT.
  Qed.

  (** two well-formed trees that agree below [mo] have the same object there *)
  Lemma main_written_same c t ts :
    twf t -> twf ts -> same_at (c_mo c) ts t -> main_written aseg interp dg al c t -> main_written aseg interp dg al c ts.
  Proof.
    intros W Ws S MW. unfold main_written, main_written_b in *. apply orb_true_iff in MW as [NU | MW]; apply orb_true_iff.
    - left. unfold none_under. apply forallb_forall. intros [x n] I. cbn [fst]. apply negb_true_iff.
      destruct (under (c_mo c) x) eqn:U; [|reflexivity]. exfalso.
      apply (twf_In_lookup ts x n Ws) in I. rewrite (S x U), (none_under_sound _ _ NU x U) in I. discriminate.
    - right. apply andb_true_iff in MW as [MWw MWd]. apply andb_true_iff. split.
      + destruct (WrittenFacts.wf_unfold _ _ _ _ _ MWw) as (itok0 & inv0 & Old).
        assert (CL : ObjTree.closedb inv0 = true).
        { unfold writtenb, ObjTree.written_by_rocflb in MWw. apply andb_true_iff in MWw as [_ MWw].
          destruct (WrittenFacts.w_inv _ _ _ _ _ _ _ Old) as [E1 E2]. rewrite E1, E2 in MWw.
          repeat (apply andb_true_iff in MWw as [MWw ?]). assumption. }
        eapply wf_fold; [|exact CL].
        apply (wfP_ext (abs t (c_mo c)) (abs ts (c_mo c)) itok0 inv0); [| | | exact Old].
        * apply (abs_leaves aseg aseg_inj), W.
        * apply (abs_leaves aseg aseg_inj), Ws.
        * intros [q m]. rewrite (abs_In_lookup aseg t _ q m W), (abs_In_lookup aseg ts _ q m Ws).
          assert (HC : forall rel, has_children ts (c_mo c ++ rel) = has_children t (c_mo c ++ rel)).
          { intros rel. destruct (has_children t (c_mo c ++ rel)) eqn:H.
            - apply has_children_true_iff in H as (y & k & B & Ly). apply has_children_true_iff. exists y, k. split; [exact B|].
              rewrite S; [exact Ly|]. apply (under_trans _ (c_mo c ++ rel)); [apply under_app | now apply below_under].
            - apply has_children_false_iff. intros y B. rewrite S; [|apply (under_trans _ (c_mo c ++ rel)); [apply under_app | now apply below_under]].
              eapply has_children_false; eauto. }
          split; intros (rel & NE & -> & H); exists rel; (split; [exact NE|]); (split; [reflexivity|]).
          -- rewrite HC, (S _ (under_app (c_mo c) rel)). exact H.
          -- rewrite HC, (S _ (under_app (c_mo c) rel)) in H. exact H.
      + unfold decls_files_b in *. apply forallb_forall. intros [x n] I. cbn [fst snd].
        destruct (is_child (c_mo c) x && is_decl_name (last x [])) eqn:E; [|reflexivity]. cbn [negb orb].
        apply (twf_In_lookup ts x n Ws) in I. apply andb_true_iff in E as [Cx Dx].
        rewrite (S x (is_child_under _ _ Cx)) in I. apply lookup_In in I.
        rewrite forallb_forall in MWd. specialize (MWd _ I). cbn [fst snd] in MWd. now rewrite Cx, Dx in MWd.
  Qed.

  Theorem reachable_written mo t :
    reach aseg interp dg al mo t -> twf t /\ forall c, c_mo c = mo -> main_written aseg interp dg al c t.
  Proof.
    induction 1 as [t W NU | t ts c i R IH Emo Ws S Pre SP].
    - split; [exact W|]. intros c <-. unfold main_written, main_written_b. now rewrite NU.
    - destruct IH as [W MW]. subst mo.
      assert (MWs : main_written aseg interp dg al c ts) by (apply (main_written_same c t ts); auto).
      destruct (commit_yields_written aseg aseg_inj interp dg al c ts i Pre SP MWs) as (W' & WR & DF & _).
      split; [exact W'|]. intros c' E. unfold main_written, main_written_b, decls_files_b in *. rewrite E.
      apply orb_true_iff. right. now rewrite WR, DF.
  Qed.
End Hist.

(** * the statements of Props/C01.v *)
Lemma same_underb_sound q t1 t2 : same_underb q t1 t2 = true -> same_at q t1 t2.
Proof.
  unfold same_underb. intros H. apply andb_true_iff in H as [_ H]. rewrite forallb_forall in H.
  intros p U.
  assert (G : forall n, (lookup t1 p = Some n \/ lookup t2 p = Some n) -> lookup t1 p = lookup t2 p).
  { intros n [L | L]; apply lookup_In in L;
      (assert (I : In (p, n) (t1 ++ t2)) by (apply in_or_app; auto));
      specialize (H _ I); cbn [fst] in H; rewrite U in H; cbn in H; now apply onode_eqb_eq. }
  destruct (lookup t1 p) as [n|] eqn:E1; [apply (G n); auto|].
  destruct (lookup t2 p) as [n|] eqn:E2; [apply (G n); auto | reflexivity].
Qed.

Section Statements.
  Variable aseg : fseg -> oseg.
  Hypothesis aseg_inj : forall x y, aseg x = aseg y -> x = y.
  Variable interp : N -> option oinv.
  Variable dg : oalg -> ObjTree.token -> N.
  Variable al : oalg.

  Notation abs := (abs aseg).
  Notation pinv := (parse_inv interp).
  Notation pside := (parse_sidecar dg al).
  Notation errs := (fun fd fixity o => TreeValidate.tree_errors dg fd pinv pside parse_decl fixity o).

  Theorem commit_yields_written_full :
    forall c t i, commit_pre c t i -> commit_pre_tree aseg interp dg al c t i ->
      let t' := run_tree (commit c) t NoInj in
      let o' := abs t' (c_mo c) in
      twf t' /\ written interp dg al o'
      /\ ObjTree.root_inv pinv o' = interp (c_newk c) /\ interp (c_newk c) <> None
      /\ main_written aseg interp dg al c t'
      /\ forall fd, errs fd true o' = [] /\ errs fd false o' = [].
  Proof.
    intros c t i Pre PT. unfold commit_pre_tree, commit_pre_tree_b in PT. apply andb_true_iff in PT as [SP MW].
    destruct (commit_yields_written aseg aseg_inj interp dg al c t i Pre SP MW) as (W' & WR & DF & RI & NN).
    cbv zeta. split; [exact W'|]. split; [exact WR|]. split; [exact RI|]. split; [exact NN|]. split.
    - unfold main_written, main_written_b. apply orb_true_iff. right. now rewrite WR, DF.
    - intros fd. now apply CorruptFacts.written_valid_lemma.
  Qed.

  (** the same, every hypothesis a boolean the correspondence check evaluates on real pre-states *)
  Theorem commit_yields_written_checkable :
    forall c t i, commit_pre_b c t i = true -> commit_pre_tree_b aseg interp dg al c t i = true ->
      writtenb interp dg al (abs (run_tree (commit c) t NoInj) (c_mo c)) = true.
  Proof.
    intros c t i P1 P2. apply commit_pre_b_sound in P1.
    now destruct (commit_yields_written_full c t i P1 P2) as (_ & WR & _).
  Qed.

  Theorem reachable_valid :
    forall mo t, reach aseg interp dg al mo t ->
      twf t /\ (none_under t mo = true \/
                (written interp dg al (abs t mo) /\ forall fd, errs fd true (abs t mo) = [] /\ errs fd false (abs t mo) = [])).
  Proof.
    intros mo t R. destruct (reachable_written aseg aseg_inj interp dg al mo t R) as [W MW]. split; [exact W|].
    specialize (MW (mkCfg [] [] [] mo [] [] [] 0 0 0 [] []) eq_refl).
    unfold main_written, main_written_b in MW. cbn [c_mo] in MW. apply orb_true_iff in MW as [NU | MW]; [now left|].
    right. apply andb_true_iff in MW as [WR _]. split; [exact WR|]. intros fd. now apply CorruptFacts.written_valid_lemma.
  Qed.
End Statements.
