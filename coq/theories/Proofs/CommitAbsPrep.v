(** C01, file-system level: what the fault-free commit leaves in the repository.

    From [commit_pre] and the tree-level conditions of [commit_pre_tree] (in their Prop form, hypotheses of the
    section below) the run  acquire ;; prep ;; install  is executed symbolically (Proofs/CommitAbsRun.v) and the
    object root afterwards is characterised completely: [installed]. *)
From Coq Require Import List NArith Ascii Bool Arith Lia.
From Rocfl Require Import Base.Bytes Model.FsOps Model.FsTree Model.Commit Model.CommitAbs
  Proofs.FsTreeFacts Proofs.CommitFacts Proofs.CommitPreserve Proofs.CommitPhases Proofs.CommitAbsRun.
Import ListNotations.

Lemma NoDup_map_inj {A B} (f : A -> B) (l : list A) :
  (forall x y, f x = f y -> x = y) -> NoDup l -> NoDup (map f l).
Proof.
  intros Inj ND. induction ND as [|x l NI ND IH]; cbn; constructor; [|exact IH].
  intros X. apply in_map_iff in X as [y [E Iy]]. apply Inj in E. now subst y.
Qed.

Lemma wp_ext {A} (m m' : M A) t (Q : A -> tree -> Prop) : (forall w, m w = m' w) -> wp m t Q -> wp m' t Q.
Proof.
  intros E (a & t' & R & HQ). exists a, t'. split; [|exact HQ]. intros w G T. rewrite <- E. now apply R.
Qed.

Lemma andthen_assoc_pt {A B C} (m : M A) (k : M B) (l : M C) w : (m ;; (k ;; l)) w = ((m ;; k) ;; l) w.
Proof. unfold andthen, bind. destruct (m w) as [[a|e|] w1]; reflexivity. Qed.

Lemma forM_map {A B} (g : A -> B) (f : B -> M unit) (l : list A) : forM_ (map g l) f = forM_ l (fun x => f (g x)).
Proof. induction l as [|x l IH]; cbn; [reflexivity|]. now rewrite IH. Qed.

(** create_dir_all of a directory that exists changes nothing *)
Lemma wp_cda_existing p t (Q : unit -> tree -> Prop) :
  twf t -> is_dir t p = true ->
  (forall t', twf t' -> (forall x, lookup t' x = lookup t x) -> Q tt t') ->
  wp (create_dir_all p) t Q.
Proof.
  intros W D HQ.
  assert (PreD : forall q, q <> [] -> under q p = true -> lookup t q = Some Dir).
  { intros q Nq U. apply under_iff in U as [s E]. destruct s as [|s0 s].
    - rewrite app_nil_r in E. subst q. apply is_dir_inv in D as [D|D]; [contradiction | exact D].
    - apply is_dir_inv in D as [D|D]; [subst p; now destruct q|]. rewrite E in D.
      apply (twf_prefix_dir t W (s0 :: s) q Dir D Nq). discriminate. }
  assert (Pre : forall q, q <> [] -> under q p = true -> lookup t q = None \/ lookup t q = Some Dir)
    by (intros q Nq U; right; now apply PreD).
  apply wp_create_dir_all; auto. intros t' W' D' F. apply HQ; [exact W'|].
  intros x. destruct (lookup t x) as [n|] eqn:L.
  - rewrite <- L. apply (create_dir_all_keeps t t' p); auto. congruence.
  - destruct (under x p) eqn:U; [|rewrite F; auto].
    destruct x as [|a x].
    + destruct (lookup t' []) as [m|] eqn:E; [|reflexivity]. now destruct (twf_parent _ _ _ W' E).
    + rewrite PreD in L; [discriminate | discriminate | exact U].
Qed.

(** removing regular files below [cd = hd/cdir], each followed by clean_dirs_up: the directories above cd
    survive because [hd] holds a file outside cd (the version's inventory) *)
Lemma prefix_of_cd (hd : fpath) (cdir : fseg) r x :
  under x ((hd ++ [cdir]) ++ r) = true -> under (hd ++ [cdir]) x = false -> under x hd = true.
Proof.
  intros U N. destruct (under_comparable x (hd ++ [cdir]) _ U (under_app _ r)) as [X|X]; [|congruence].
  apply prefix_app_single in X as [-> | X]; [now rewrite under_refl in N | exact X].
Qed.

Lemma wp_rm_files (hd : fpath) (cdir ai : fseg) (files : list fpath) tb ac (Q : unit -> tree -> Prop) :
  let cd := hd ++ [cdir] in
  twf tb -> ai <> cdir -> lookup tb (hd ++ [ai]) = Some (File ac) ->
  NoDup files -> (forall f, In f files -> below cd f = true /\ exists c, lookup tb f = Some (File c)) ->
  (forall t1, shrunk tb t1 ->
              (forall x, under cd x = false -> lookup t1 x = lookup tb x) ->
              (forall x c, lookup tb x = Some (File c) -> ~ In x files -> lookup t1 x = Some (File c)) ->
              (forall f, In f files -> lookup t1 f = None) -> Q tt t1) ->
  wp (forM_ files (fun f => remove_file_inf f ;; clean_dirs_up (parent f))) tb Q.
Proof.
  intros cd W NA LA ND HF HQ.
  set (I := fun (rest : list fpath) (tc : tree) =>
    incl rest files /\ NoDup rest /\ shrunk tb tc /\
    (forall x, under cd x = false -> lookup tc x = lookup tb x) /\
    (forall x c, lookup tb x = Some (File c) -> In x rest \/ ~ In x files -> lookup tc x = Some (File c)) /\
    (forall f, In f files -> ~ In f rest -> lookup tc f = None)).
  assert (AncNotCd : under cd (hd ++ [ai]) = false).
  { unfold cd. apply (under_single_neq hd cdir ai []). congruence. }
  eapply wp_conseq.
  - apply (wp_forM I).
    + intros f rest tc (IN & NDr & S & F & K & G).
      assert (Inf : In f files) by (apply IN; now left).
      destruct (HF f Inf) as [Bf [c Lb]].
      assert (Lc : lookup tc f = Some (File c)) by (apply K; [exact Lb | left; now left]).
      inversion NDr as [|? ? NIf NDr']; subst.
      apply wp_andthen. apply (wp_remove_file tc f c); [apply S | exact Lc|].
      intros t1 S1 L1 F1.
      destruct (twf_parent _ _ _ (proj1 S) Lc) as [Nf Dp].
      assert (Dp1 : is_dir t1 (parent f) = true).
      { rewrite (is_dir_ext tc); [exact Dp|]. intros _. apply F1. intros X.
        pose proof (parent_below f Nf) as B. rewrite X in B. apply below_iff in B as [_ B]. now apply B. }
      apply wp_clean_dirs_up; [apply S1 | exact Dp1|].
      intros t2 S2 C2.
      assert (KeepFile : forall x c', lookup t1 x = Some (File c') -> lookup t2 x = Some (File c')).
      { intros x c' L. destruct (C2 x) as [E | (_ & D & _)]; congruence. }
      assert (LA2 : lookup t2 (hd ++ [ai]) = Some (File ac)).
      { apply KeepFile. rewrite F1.
        - rewrite F; [exact LA | exact AncNotCd].
        - intros X. rewrite X in AncNotCd. apply below_under in Bf. congruence. }
      assert (F2 : forall x, under cd x = false -> lookup t2 x = lookup t1 x).
      { intros x U. destruct (C2 x) as [E | (Ux & D & NC)]; [exact E|]. exfalso.
        apply below_iff in Bf as [Uf NEf]. apply under_iff in Uf as [r Ef].
        assert (Upar : under (parent f) (cd ++ r) = true) by (rewrite <- Ef; apply under_parent).
        assert (Uxr : under x (cd ++ r) = true) by (eapply under_trans; eauto).
        pose proof (prefix_of_cd hd cdir r x Uxr U) as Uh.
        assert (B : below x (hd ++ [ai]) = true).
        { apply below_iff. split; [eapply under_trans; [exact Uh | apply under_app]|].
          intros X. apply under_length in Uh. rewrite <- X, app_length in Uh. cbn in Uh. lia. }
        rewrite (has_children_true _ _ _ _ LA2 B) in NC. discriminate. }
      split; [intros y Iy; apply IN; now right|]. split; [exact NDr'|].
      split; [eapply shrunk_trans; [exact S|]; eapply shrunk_trans; eauto|].
      split; [|split].
      * intros x U. rewrite F2 by exact U. rewrite F1; [now apply F|].
        intros ->. apply below_under in Bf. congruence.
      * intros x c' L Hx. apply KeepFile. rewrite F1.
        -- apply K; [exact L|]. destruct Hx as [Hx|Hx]; [left; now right | now right].
        -- intros ->. destruct Hx as [Hx|Hx]; contradiction.
      * intros g Ig NIg. destruct (path_eq_dec g f) as [-> | NE].
        -- destruct S2 as [_ S2]. destruct (S2 f) as [E|E]; congruence.
        -- assert (Lg : lookup tc g = None) by (apply G; [exact Ig | intros [X|X]; [congruence | contradiction]]).
           destruct S1 as [_ S1]. destruct S2 as [_ S2].
           destruct (S2 g) as [E|E]; [|exact E]. rewrite E. destruct (S1 g) as [E'|E']; congruence.
    + split; [apply incl_refl|]. split; [exact ND|]. split; [now apply shrunk_refl|]. repeat split; auto.
      intros f If NIf. contradiction.
  - intros [] t1 (_ & _ & S & F & K & G). apply HQ; auto.
Qed.

Section Run.
  Variable c : cfg.
  Variable t0 : tree.
  Variable i0 : invr.
  Hypothesis Pre : commit_pre c t0 i0.
  Hypothesis W0 : twf t0.

  Let So := c_so c.
  Let Mo := c_mo c.
  Let L := lockp c.
  Let h := head_of i0.
  Let i := committed_inv c i0.
  Let cdir := c_cdir c.
  Let inv := c_inv c.
  Let side := c_side c.
  Let tok := tok_of i.
  Let sd := CSide (c_newk c).
  Let CO := pre_cfg c t0 i0 Pre.
  Let SO := pre_staged c t0 i0 Pre.

  (** the conditions of [staged_tree_b] that the run itself needs *)
  Hypothesis Hnd : NoDup (i_dups i0).
  Hypothesis Hside : lookup t0 (So ++ [side]) <> Some Dir.
  Hypothesis Hhd : forall c0, lookup t0 (So ++ [h]) <> Some (File c0).
  Hypothesis Hhinv : lookup t0 (So ++ [h; inv]) <> Some Dir.
  Hypothesis Hhside : lookup t0 (So ++ [h; side]) <> Some Dir.
  Hypothesis Hcd : forall c0, lookup t0 (So ++ [h; cdir]) <> Some (File c0).
  Hypothesis Hshape : forall x n, lookup t0 x = Some n -> below (So ++ [h]) x = true ->
                        x = So ++ [h; inv] \/ x = So ++ [h; side] \/ under (So ++ [h; cdir]) x = true.

  Lemma So_ne' : So <> []. Proof. apply (So_ne c t0 i0 Pre). Qed.
  Lemma h_inv' : h <> inv. Proof. apply (h_inv c t0 i0 Pre). Qed.
  Lemma h_side' : h <> side. Proof. apply (h_side c t0 i0 Pre). Qed.
  Lemma inv_side' : inv <> side. Proof. apply (inv_side c t0 i0 Pre). Qed.
  Lemma cdir_inv' : cdir <> inv. Proof. apply (cdir_inv c t0 i0 Pre). Qed.
  Lemma cdir_side' : cdir <> side. Proof. apply (cdir_side c t0 i0 Pre). Qed.
  Lemma SoL x : So ++ x <> L. Proof. apply (So_sub_neq_L c t0 i0 Pre). Qed.
  Lemma MoL x : Mo ++ x <> L. Proof. apply (Mo_sub_neq_L c t0 i0 Pre). Qed.

  Lemma inv_nodecl : is_decl_name inv = false. Proof. apply (ok_inv_nodecl c CO). Qed.
  Lemma side_nodecl : is_decl_name side = false. Proof. apply (ok_side_nodecl c CO). Qed.

  Lemma So_dir0 : lookup t0 So = Some Dir.
  Proof. apply (st_anc c t0 i0 SO); [apply So_ne' | apply under_refl]. Qed.

  Lemma So_neq_L : So <> L.
  Proof. rewrite <- (app_nil_r So). apply SoL. Qed.

  (** paths below the staged root: equal iff their relative parts are *)
  Lemma So_app_neq x y : x <> y -> So ++ x <> So ++ y.
  Proof. intros N E. apply app_inv_head in E. contradiction. Qed.

  Lemma So_nsub a x : So ++ a :: x <> So.
  Proof.
    intros E. rewrite <- (app_nil_r So) in E at 2. apply app_inv_head in E. discriminate.
  Qed.

  Ltac seg_facts :=
    pose proof inv_side'; pose proof h_inv'; pose proof h_side'; pose proof cdir_inv'; pose proof cdir_side';
    unfold inv, side, h, cdir in *.
  Ltac so_neq := apply So_app_neq; let X := fresh "X" in intros X; seg_facts; congruence.

  (** ** acquire *)
  Lemma wp_acquire (Q : unit -> tree -> Prop) :
    (forall ta, twf ta -> lookup ta L = Some (File (CBlob 0)) -> (forall x, x <> L -> lookup ta x = lookup t0 x) -> Q tt ta) ->
    wp (acquire c) t0 Q.
  Proof.
    intros HQ. unfold acquire. apply wp_andthen.
    apply wp_cda_existing; [exact W0 | apply (pre_locks c t0 i0 Pre)|].
    intros t1 W1 E1. apply wp_catch.
    assert (NL : L <> []) by (unfold L, lockp; now destruct (c_locks c)).
    assert (LN : lookup t1 L = None) by (rewrite E1; apply (pre_lock_free c t0 i0 Pre)).
    assert (DL : is_dir t1 (parent L) = true).
    { unfold L, lockp. rewrite parent_app. rewrite (is_dir_ext t0); [apply (pre_locks c t0 i0 Pre) | intros _; apply E1]. }
    eapply wp_step; [cbn [apply_step]; apply (fs_create_new_new t1 L (CBlob 0) NL LN DL)|].
    apply HQ.
    - apply twf_insert; auto.
    - apply lookup_insert_eq.
    - intros x NE. rewrite lookup_insert_neq by congruence. apply E1.
  Qed.

  (** ** the staged inventory, finalised *)
  Definition StagedInv (tb : tree) : Prop :=
    twf tb
    /\ lookup tb (So ++ [inv]) = Some (File tok) /\ lookup tb (So ++ [side]) = Some (File sd)
    /\ lookup tb (So ++ [h]) = Some Dir
    /\ lookup tb (So ++ [h; inv]) = Some (File tok) /\ lookup tb (So ++ [h; side]) = Some (File sd)
    /\ forall x, x <> So ++ [inv] -> x <> So ++ [side] -> x <> So ++ [h] -> x <> So ++ [h; inv] -> x <> So ++ [h; side] ->
                 x <> L -> lookup tb x = lookup t0 x.

  Lemma is_dir_parent_So t a : lookup t So = Some Dir -> is_dir t (parent (So ++ [a])) = true.
  Proof. intros D. rewrite parent_app. now apply is_dir_lookup. Qed.

  Lemma snoc2 (p : fpath) (a e : fseg) : p ++ [a; e] = (p ++ [a]) ++ [e].
  Proof. now rewrite <- app_assoc. Qed.

  Lemma wp_stage_inventory ta (Q : unit -> tree -> Prop) :
    twf ta -> (forall x, x <> L -> lookup ta x = lookup t0 x) ->
    (forall tb, StagedInv tb -> lookup tb L = lookup ta L -> Q tt tb) ->
    wp (stage_inventory c i true) ta Q.
  Proof.
    intros Wa Fa HQ. unfold stage_inventory.
    change (head_of i) with h. change (i_k i) with (c_newk c). change (tok_of i) with tok. change (CSide (c_newk c)) with sd.
    fold So inv side.
    assert (A0 : forall x, lookup ta (So ++ x) = lookup t0 (So ++ x)) by (intros x; apply Fa, SoL).
    (* inventory.json *)
    apply wp_andthen. apply wp_write_file; [exact Wa | now destruct So | |].
    { right. exists (tok_of i0). rewrite A0. pose proof (st_inv c t0 i0 SO) as R. fold So inv in R.
      apply (read_file_inv _ _ _ R). now destruct So. }
    intros t1 (W1 & L1 & F1).
    (* sidecar *)
    assert (SoD1 : lookup t1 So = Some Dir).
    { rewrite F1; [rewrite Fa; [apply So_dir0 | apply So_neq_L]|]. apply not_eq_sym, So_nsub. }
    apply wp_andthen. apply wp_write_file; [exact W1 | now destruct So | |].
    { rewrite F1 by so_neq. rewrite A0.
      destruct (lookup t0 (So ++ [side])) as [[|c0]|] eqn:E; [now contradiction Hside | right; eauto | left].
      split; [reflexivity | now apply is_dir_parent_So]. }
    intros t2 (W2 & L2 & F2).
    (* the version directory *)
    assert (SoD2 : lookup t2 So = Some Dir).
    { rewrite F2; [exact SoD1|]. apply not_eq_sym, So_nsub. }
    assert (E2 : forall x, x <> So ++ [inv] -> x <> So ++ [side] -> lookup t2 x = lookup ta x).
    { intros x N1 N2. rewrite F2, F1; auto. }
    apply wp_andthen. apply wp_create_dir_all; [exact W2 | |].
    { intros q Nq U. apply prefix_app_single in U as [-> | U].
      - rewrite E2, A0.
        + destruct (lookup t0 (So ++ [h])) as [[|c0]|] eqn:E; [now right | now contradiction (Hhd c0) | now left].
        + so_neq.
        + so_neq.
      - right. apply under_iff in U as [s E]. destruct s as [|s0 s].
        + rewrite app_nil_r in E. now subst q.
        + rewrite E in SoD2. apply (twf_prefix_dir t2 W2 (s0 :: s) q Dir SoD2 Nq). discriminate. }
    intros t3 W3 D3 F3.
    assert (HD3 : lookup t3 (So ++ [h]) = Some Dir).
    { apply is_dir_inv in D3 as [D3|D3]; [now destruct So | exact D3]. }
    assert (E3 : forall x, x <> So ++ [h] -> lookup t3 x = lookup t2 x).
    { intros x NE. destruct (under x (So ++ [h])) eqn:U; [|now apply F3].
      apply prefix_app_single in U as [-> | U]; [contradiction|].
      destruct x as [|a x]; [|].
      - destruct (lookup t3 []) as [m|] eqn:E; [now destruct (twf_parent _ _ _ W3 E)|].
        destruct (lookup t2 []) as [m|] eqn:E'; [now destruct (twf_parent _ _ _ W2 E') | reflexivity].
      - assert (LD : lookup t2 (a :: x) = Some Dir).
        { apply under_iff in U as [s E]. destruct s as [|s0 s].
          - rewrite app_nil_r in E. now rewrite <- E.
          - rewrite E in SoD2. apply (twf_prefix_dir t2 W2 (s0 :: s) (a :: x) Dir SoD2); discriminate. }
        rewrite LD. apply under_iff in U as [s E].
        assert (U3 : lookup t3 (So ++ [h]) = Some Dir) by exact HD3.
        rewrite E, <- app_assoc in U3.
        apply (twf_prefix_dir t3 W3 (s ++ [h]) (a :: x) Dir U3); [discriminate | now destruct s]. }
    (* the two copies *)
    unfold copy_inventory_files. rewrite <- !snoc2. fold inv side.
    apply wp_andthen. apply (wp_copy_file _ _ tok); [exact W3 | now destruct So | | |].
    { apply read_file_lookup. rewrite E3, F2; [exact L1 | |].
      - so_neq.
      - so_neq. }
    { rewrite E3, E2, A0.
      - destruct (lookup t0 (So ++ [h; inv])) as [[|c0]|] eqn:E; [now contradiction Hhinv | right; eauto | left].
        split; [reflexivity|]. rewrite snoc2, parent_app. now apply is_dir_lookup.
      - so_neq.
      - so_neq.
      - so_neq. }
    intros t4 (W4 & L4 & F4).
    apply (wp_copy_file _ _ sd); [exact W4 | now destruct So | | |].
    { apply read_file_lookup. rewrite F4, E3; [exact L2 | |].
      - so_neq.
      - so_neq. }
    { rewrite F4, E3, E2, A0.
      - destruct (lookup t0 (So ++ [h; side])) as [[|c0]|] eqn:E; [now contradiction Hhside | right; eauto | left].
        split; [reflexivity|]. rewrite snoc2, parent_app. apply is_dir_lookup.
        rewrite F4; [exact HD3|]. so_neq.
      - so_neq.
      - so_neq.
      - so_neq.
      - so_neq. }
    intros t5 (W5 & L5 & F5). apply HQ.
    - split; [exact W5|]. repeat split.
      + rewrite F5, F4, E3, F2; [exact L1 | | | |]; apply So_app_neq; try discriminate.
        * intros X. injection X. apply inv_side'.
        * intros X. injection X. intros Y. symmetry in Y. now apply h_inv' in Y.
      + rewrite F5, F4, E3; [exact L2 | | |]; apply So_app_neq; try discriminate.
        intros X. injection X. intros Y. symmetry in Y. now apply h_side' in Y.
      + rewrite F5, F4; [exact HD3 | |]; apply So_app_neq; discriminate.
      + rewrite F5; [exact L4|]. so_neq.
      + exact L5.
      + intros x N1 N2 N3 N4 N5 N6. rewrite F5, F4, E3, E2; auto.
    - rewrite F5, F4, E3, E2; auto; try apply SoL; intros X; symmetry in X; revert X; apply SoL.
  Qed.

  (** ** the clean-up of the staged version directory: duplicates, orphans, empty directories *)
  Definition Prepared (tb t1 : tree) : Prop :=
    shrunk tb t1
    /\ (forall x, under (So ++ [h; cdir]) x = false -> lookup t1 x = lookup tb x)
    /\ (forall d, In d (i_man i) -> lookup t1 (So ++ d) = lookup tb (So ++ d))
    /\ (forall x c0, below (So ++ [h; cdir]) x = true -> lookup t1 x = Some (File c0) ->
                     exists d, In d (i_man i) /\ x = So ++ d)
    /\ clean_below t1 (So ++ [h; cdir]).

  Lemma clean_below_absent t p : twf t -> p <> [] -> lookup t p = None -> clean_below t p.
  Proof.
    intros W Np LN x U Lx. exfalso. destruct (path_eq_dec x p) as [-> | NE]; [congruence|].
    assert (B : below p x = true) by (apply below_iff; split; auto).
    rewrite (twf_below_dir t p x Dir W Lx B Np) in LN. discriminate.
  Qed.

  Lemma exists_at_lookup t p : p <> [] -> exists_at t p = match lookup t p with Some _ => true | None => false end.
  Proof. intros Np. unfold exists_at. now rewrite (node_at_lookup _ _ Np). Qed.

  Lemma man0_file' d : In d (i_man i0) -> exists n, lookup t0 (So ++ d) = Some (File (CBlob n)).
  Proof. exact (man0_file c t0 i0 Pre d). Qed.

  Lemma man0_shape' d : In d (i_man i0) -> exists rest, rest <> [] /\ d = h :: cdir :: rest.
  Proof. exact (man0_shape c t0 i0 Pre d). Qed.

  Lemma man0_below d : In d (i_man i0) -> below (So ++ [h; cdir]) (So ++ d) = true.
  Proof.
    intros I. destruct (man0_shape' d I) as [rest [Nr ->]].
    change (So ++ h :: cdir :: rest) with (So ++ [h; cdir] ++ rest). rewrite app_assoc. now apply below_app.
  Qed.

  Lemma man0_tb tb d : StagedInv tb -> In d (i_man i0) -> lookup tb (So ++ d) = lookup t0 (So ++ d).
  Proof.
    intros (_ & _ & _ & _ & _ & _ & F) I. destruct (man0_shape' d I) as [rest [Nr ->]].
    apply F; try (apply So_app_neq; destruct rest; [contradiction|];
                  pose proof cdir_inv'; pose proof cdir_side'; congruence).
    apply SoL.
  Qed.

  Lemma cd_tb tb : StagedInv tb -> lookup tb (So ++ [h; cdir]) = lookup t0 (So ++ [h; cdir]).
  Proof. intros (_ & _ & _ & _ & _ & _ & F). apply F; try so_neq. apply SoL. Qed.

  Lemma man_i' d : In d (i_man i) <-> In d (i_man i0) /\ ~ In d (i_dups i0).
  Proof.
    unfold i, committed_inv. cbn [i_man]. unfold minus_paths. rewrite filter_In, negb_true_iff. split.
    - intros [I N]. split; [exact I|]. intros X. apply mem_path_In in X. congruence.
    - intros [I N]. split; [exact I|]. destruct (mem_path d (i_dups i0)) eqn:E; [|reflexivity].
      apply mem_path_true in E. contradiction.
  Qed.

  Lemma wp_cleanup tb (Q : unit -> tree -> Prop) :
    StagedInv tb ->
    (forall t1, Prepared tb t1 -> Q tt t1) ->
    wp (rm_staged_files c (i_dups i0) ;; rm_orphaned_files c i) tb Q.
  Proof.
    intros SI HQ. pose proof SI as (Wb & Linv & Lside & Lhd & Lhinv & Lhside & Fb).
    set (cd := So ++ [h; cdir]) in *.
    assert (Ecd : cd = (So ++ [h]) ++ [cdir]) by (unfold cd; apply snoc2).
    apply wp_andthen. unfold rm_staged_files. fold So.
    rewrite <- (forM_map (fun d => So ++ d) (fun f => remove_file_inf f ;; clean_dirs_up (parent f))).
    apply (wp_rm_files (So ++ [h]) cdir inv _ tb tok); auto.
    { apply not_eq_sym, cdir_inv'. }
    { now rewrite <- snoc2. }
    { apply NoDup_map_inj; [|exact Hnd]. intros x y E. now apply app_inv_head in E. }
    { intros f If. apply in_map_iff in If as [d [<- Id]]. apply (st_dups c t0 i0 SO) in Id.
      rewrite <- Ecd. split; [now apply man0_below|]. rewrite (man0_tb tb d SI Id).
      destruct (man0_file' d Id) as [n F]. eauto. }
    rewrite <- Ecd. intros t1 S1 F1 K1 G1.
    (* orphans *)
    unfold rm_orphaned_files. change (head_of i) with h. fold So cdir. fold cd.
    assert (Ncd : cd <> []) by (unfold cd; now destruct So).
    assert (HI1 : lookup t1 ((So ++ [h]) ++ [inv]) = Some (File tok)).
    { rewrite <- snoc2. apply K1; [exact Lhinv|]. intros X. apply in_map_iff in X as [d [E Id]].
      apply (st_dups c t0 i0 SO) in Id. destruct (man0_shape' d Id) as [rest [Nr ->]].
      apply app_inv_head in E. injection E. intros _ E2. now apply cdir_inv'. }
    assert (CdKind : forall t, shrunk tb t -> forall n, lookup t cd = Some n -> n = Dir).
    { intros t S n Lc. apply (shrunk_some _ _ _ _ S) in Lc. unfold cd in Lc. rewrite (cd_tb tb SI) in Lc.
      destruct n as [|c0]; [reflexivity | now contradiction (Hcd c0)]. }
    assert (ManKept1 : forall d, In d (i_man i) -> lookup t1 (So ++ d) = lookup tb (So ++ d)).
    { intros d Id. apply man_i' in Id as [Id Nd]. rewrite (man0_tb tb d SI Id).
      destruct (man0_file' d Id) as [n F]. rewrite F. apply K1; [now rewrite (man0_tb tb d SI Id)|].
      intros X. apply in_map_iff in X as [d' [E Id']]. apply app_inv_head in E. now subst d'. }
    assert (Fin : forall t3, shrunk t1 t3 -> (forall x, under cd x = false -> lookup t3 x = lookup t1 x) ->
                    (forall d, In d (i_man i) -> lookup t3 (So ++ d) = lookup t1 (So ++ d)) ->
                    (forall x c0, below cd x = true -> lookup t3 x = Some (File c0) -> exists d, In d (i_man i) /\ x = So ++ d) ->
                    clean_below t3 cd -> Q tt t3).
    { intros t3 S3 F3 M3 O3 C3. apply HQ. split; [eapply shrunk_trans; eauto|]. split; [|split; [|split]]; auto.
      - intros x U. rewrite F3, F1; auto.
      - intros d Id. rewrite M3, ManKept1; auto. }
    apply wp_get_tree. rewrite (exists_at_lookup t1 cd Ncd).
    destruct (lookup t1 cd) as [ncd|] eqn:Lcd1.
    2: { apply wp_ret. apply Fin; auto; [now apply shrunk_refl; apply S1 | | now apply clean_below_absent; [apply S1|..]].
         intros x c0 B Lx. exfalso. rewrite (twf_below_dir t1 cd x _ (proj1 S1) Lx B Ncd) in Lcd1. discriminate. }
    assert (ncd = Dir) by (apply (CdKind t1 S1); exact Lcd1). subst ncd.
    set (orph := filter (fun f => negb (mem_path (skipn (List.length So) f) (i_man i))) (files_below t1 cd)).
    assert (FB : forall f, In f (files_below t1 cd) <-> below cd f = true /\ exists c0, lookup t1 f = Some (File c0)).
    { intros f. unfold files_below. rewrite in_map_iff. split.
      - intros [[f' n] [<- If]]. apply filter_In in If as [If B]. cbn [fst snd] in *.
        apply andb_true_iff in B as [B Fn]. destruct n as [|c0]; [discriminate|]. split; [exact B|].
        exists c0. now apply (twf_In_lookup t1 f' (File c0) (proj1 S1)).
      - intros [B [c0 Lf]]. exists (f, File c0). split; [reflexivity|]. apply filter_In.
        split; [now apply (twf_In_lookup t1 f (File c0) (proj1 S1))|]. cbn [fst snd]. now rewrite B. }
    apply wp_andthen.
    apply (wp_rm_files (So ++ [h]) cdir inv orph t1 tok); auto.
    { apply S1. }
    { apply not_eq_sym, cdir_inv'. }
    { unfold orph. apply NoDup_filter. unfold files_below. apply map_fst_filter_NoDup. apply S1. }
    { intros f If. apply filter_In in If as [If _]. apply FB in If. now rewrite <- Ecd. }
    rewrite <- Ecd. intros t2 S2 F2 K2 G2.
    assert (ManKept2 : forall d, In d (i_man i) -> lookup t2 (So ++ d) = lookup t1 (So ++ d)).
    { intros d Id. rewrite (ManKept1 d Id). pose proof Id as Id'. apply man_i' in Id' as [Id0 _].
      rewrite (man0_tb tb d SI Id0). destruct (man0_file' d Id0) as [n F]. rewrite F. apply K2.
      - now rewrite (ManKept1 d Id), (man0_tb tb d SI Id0).
      - intros X. apply filter_In in X as [_ X]. rewrite skipn_app, skipn_all, Nat.sub_diag in X. cbn [skipn app] in X.
        rewrite (mem_path_In d (i_man i) Id) in X. discriminate. }
    assert (Orph2 : forall x c0, below cd x = true -> lookup t2 x = Some (File c0) -> exists d, In d (i_man i) /\ x = So ++ d).
    { intros x c0 B Lx. pose proof (shrunk_some _ _ _ _ S2 Lx) as Lx1.
      assert (Ifb : In x (files_below t1 cd)) by (apply FB; eauto).
      destruct (mem_path (skipn (List.length So) x) (i_man i)) eqn:E.
      - exists (skipn (List.length So) x). split; [now apply mem_path_true|]. apply under_skipn.
        apply below_under in B. unfold cd in B. now apply under_app_inv in B.
      - exfalso. rewrite G2 in Lx; [discriminate|]. apply filter_In. split; [exact Ifb | now rewrite E]. }
    apply wp_get_tree. rewrite (exists_at_lookup t2 cd Ncd).
    destruct (lookup t2 cd) as [ncd|] eqn:Lcd2.
    2: { apply wp_ret. apply Fin; auto. apply clean_below_absent; auto. apply S2. }
    assert (ncd = Dir) by (apply (CdKind t2); [eapply shrunk_trans; eauto | exact Lcd2]). subst ncd.
    apply wp_clean_dirs_down; [apply S2 | exact Lcd2|].
    intros t3 S3 F3 K3 C3. apply Fin; auto.
    - eapply shrunk_trans; eauto.
    - intros x U. rewrite F3, F2; auto.
    - intros d Id. rewrite <- (ManKept2 d Id). pose proof Id as Id'. apply man_i' in Id' as [Id0 _].
      destruct (man0_file' d Id0) as [n F].
      assert (L2 : lookup t2 (So ++ d) = Some (File (CBlob n))).
      { now rewrite (ManKept2 d Id), (ManKept1 d Id), (man0_tb tb d SI Id0). }
      rewrite L2. now apply K3.
    - intros x c0 B Lx. apply (Orph2 x c0 B). eapply shrunk_some; eauto.
  Qed.

  (** ** prep as a whole: the staged object, prepared *)
  Definition is_pt (x : fpath) : Prop :=
    x = So ++ [inv] \/ x = So ++ [side] \/ x = So ++ [h] \/ x = So ++ [h; inv] \/ x = So ++ [h; side].

  Record Prep1 (t1 : tree) : Prop := mkPrep1 {
    p_wf : twf t1;
    p_inv : lookup t1 (So ++ [inv]) = Some (File tok);
    p_side : lookup t1 (So ++ [side]) = Some (File sd);
    p_hd : lookup t1 (So ++ [h]) = Some Dir;
    p_hinv : lookup t1 (So ++ [h; inv]) = Some (File tok);
    p_hside : lookup t1 (So ++ [h; side]) = Some (File sd);
    p_frame : forall x, under (So ++ [h; cdir]) x = false -> ~ is_pt x -> x <> L -> lookup t1 x = lookup t0 x;
    p_man : forall d, In d (i_man i) -> lookup t1 (So ++ d) = lookup t0 (So ++ d);
    p_files : forall x c0, below (So ++ [h; cdir]) x = true -> lookup t1 x = Some (File c0) ->
                           exists d, In d (i_man i) /\ x = So ++ d;
    p_clean : clean_below t1 (So ++ [h; cdir]);
    p_cd : forall c0, lookup t1 (So ++ [h; cdir]) <> Some (File c0)
  }.

  Lemma pt_not_cd x : is_pt x -> under (So ++ [h; cdir]) x = false.
  Proof.
    pose proof cdir_inv'. pose proof cdir_side'.
    intros [-> | [-> | [-> | [-> | ->]]]]; rewrite app_under_cancel; cbn;
      repeat match goal with |- context [seg_eqb ?a ?b] => destruct (seg_eqb a b) eqn:?E end; try reflexivity;
      repeat match goal with X : seg_eqb _ _ = true |- _ => apply seg_eqb_eq in X end; congruence.
  Qed.

  Lemma wp_prep ta (Q : invr -> tree -> Prop) :
    twf ta -> (forall x, x <> L -> lookup ta x = lookup t0 x) ->
    (forall t1, Prep1 t1 -> lookup t1 L = lookup ta L -> Q i t1) ->
    wp (prep c) ta Q.
  Proof.
    intros Wa Fa HQ. unfold prep. apply wp_bind. apply wp_catch.
    unfold get_inventory. apply wp_get_tree. fold So inv.
    assert (SoDa : lookup ta So = Some Dir) by (rewrite Fa; [apply So_dir0 | apply So_neq_L]).
    assert (Ra : read_file ta (So ++ [inv]) = Some (tok_of i0)).
    { pose proof (st_inv c t0 i0 SO) as R. fold So inv in R. apply read_file_lookup.
      rewrite Fa by apply SoL. apply (read_file_inv _ _ _ R). now destruct So. }
    rewrite (is_dir_lookup _ _ SoDa). unfold exists_at. rewrite node_at_app.
    unfold read_file in Ra. rewrite node_at_app in Ra.
    destruct (lookup ta (So ++ [inv])) as [[|c0]|] eqn:E; try discriminate. injection Ra as ->.
    rewrite orb_true_r. cbn [andb negb]. unfold read_file. rewrite node_at_app, E. unfold tok_of.
    apply wp_ret. rewrite (invr_eta i0). fold i.
    apply wp_andthen. apply (wp_stage_inventory ta); auto.
    intros tb SI Lb. eapply wp_ext; [intros w; symmetry; apply andthen_assoc_pt|].
    apply wp_andthen. apply (wp_cleanup tb); auto.
    intros t1 (S1 & F1 & M1 & O1 & C1). apply wp_ret.
    pose proof SI as (Wb & Linv & Lside & Lhd & Lhinv & Lhside & Fb).
    apply HQ.
    - constructor; auto.
      + apply S1.
      + rewrite F1; [exact Linv | apply pt_not_cd; unfold is_pt; auto].
      + rewrite F1; [exact Lside | apply pt_not_cd; unfold is_pt; auto].
      + rewrite F1; [exact Lhd | apply pt_not_cd; unfold is_pt; auto].
      + rewrite F1; [exact Lhinv | apply pt_not_cd; unfold is_pt; auto 6].
      + rewrite F1; [exact Lhside | apply pt_not_cd; unfold is_pt; auto 6].
      + intros x U NP NL. rewrite F1 by exact U. apply Fb; auto; intros ->; apply NP; unfold is_pt; auto 6.
      + intros d Id. rewrite M1 by exact Id. apply man0_tb; [exact SI|]. now apply man_i' in Id as [Id _].
      + intros c0 X. apply (shrunk_some _ _ _ _ S1) in X. rewrite (cd_tb tb SI) in X. now apply (Hcd c0).
    - rewrite F1; [exact Lb|]. destruct (under (So ++ [h; cdir]) L) eqn:E'; [|reflexivity].
      exfalso. apply under_iff in E' as [s E']. rewrite <- app_assoc in E'. symmetry in E'. now apply SoL in E'.
  Qed.

  (** ** the object root after the installation *)
  Record installed (t2 : tree) : Prop := mkInstalled {
    n_wf : twf t2;
    n_mo : lookup t2 Mo = Some Dir;
    n_inv : lookup t2 (Mo ++ [inv]) = Some (File tok);
    n_side : lookup t2 (Mo ++ [side]) = Some (File sd);
    n_decl : lookup t2 (Mo ++ [i_spec i0]) = Some (File (CDecl (i_spec i0)));
    n_hd : lookup t2 (Mo ++ [h]) = Some Dir;
    n_hinv : lookup t2 (Mo ++ [h; inv]) = Some (File tok);
    n_hside : lookup t2 (Mo ++ [h; side]) = Some (File sd);
    n_man : forall d, In d (i_man i) -> lookup t2 (Mo ++ d) = lookup t0 (So ++ d);
    n_files : forall x c0, below (Mo ++ [h]) x = true -> lookup t2 x = Some (File c0) ->
                x = Mo ++ [h; inv] \/ x = Mo ++ [h; side] \/ exists d, In d (i_man i) /\ x = Mo ++ d;
    n_dirs : forall x, below (Mo ++ [h]) x = true -> lookup t2 x = Some Dir -> has_children t2 x = true;
    n_old : forall x n, below Mo x = true -> lookup t2 x = Some n ->
              under (Mo ++ [h]) x = true \/ x = Mo ++ [inv] \/ x = Mo ++ [side] \/ x = Mo ++ [i_spec i0]
              \/ lookup t0 x = Some n;
    n_decls : forall x, is_child Mo x = true -> is_decl_name (last x []) = true -> x <> Mo ++ [i_spec i0] ->
                lookup t2 x = None;
    n_kept : forall x n, below Mo x = true -> lookup t0 x = Some n -> (is_child Mo x = true -> n = Dir) ->
               lookup t2 x = Some n
  }.

  Lemma Mo_ne' : Mo <> []. Proof. apply (Mo_ne c t0 i0 Pre). Qed.

  Lemma under_Mo_So x : under Mo x = true -> under So x = false.
  Proof. apply (under_Mo_not_So c t0 i0 Pre). Qed.

  Lemma under_So_Mo x : under So x = true -> under Mo x = false.
  Proof. apply (under_So_not_Mo c t0 i0 Pre). Qed.

  Lemma prep_main t1 x : Prep1 t1 -> under Mo x = true -> lookup t1 x = lookup t0 x.
  Proof.
    intros P U. pose proof (under_Mo_So x U) as NS. apply (p_frame t1 P).
    - destruct (under (So ++ [h; cdir]) x) eqn:E; [|reflexivity]. apply under_app_inv in E. congruence.
    - intros X. assert (under So x = true); [|congruence].
      destruct X as [-> | [-> | [-> | [-> | ->]]]]; apply under_app.
    - intros ->. apply under_iff in U as [s E]. symmetry in E. now apply MoL in E.
  Qed.

  Lemma Mo_app_neq x y : x <> y -> Mo ++ x <> Mo ++ y.
  Proof. intros N E. apply app_inv_head in E. contradiction. Qed.

  Ltac mo_neq := apply Mo_app_neq; let X := fresh "X" in intros X; seg_facts; congruence.

  Lemma Mo_nsub a x : Mo ++ a :: x <> Mo.
  Proof. intros E. rewrite <- (app_nil_r Mo) in E at 2. apply app_inv_head in E. discriminate. Qed.

  Lemma src_not_under_Mo x : under (So ++ [h]) (Mo ++ x) = false.
  Proof.
    destruct (under (So ++ [h]) (Mo ++ x)) eqn:E; [|reflexivity]. apply under_app_inv in E.
    rewrite (under_Mo_So _ (under_app Mo x)) in E. discriminate.
  Qed.

  (** the staged version directory: nothing but inventory, sidecar and the cleaned content directory *)
  Lemma prep_shape t1 x n : Prep1 t1 -> lookup t1 x = Some n -> below (So ++ [h]) x = true ->
    x = So ++ [h; inv] \/ x = So ++ [h; side] \/ under (So ++ [h; cdir]) x = true.
  Proof.
    intros P Lx B. destruct (under (So ++ [h; cdir]) x) eqn:U; [auto|].
    destruct (path_eq_dec x (So ++ [h; inv])) as [E|N1]; [auto|].
    destruct (path_eq_dec x (So ++ [h; side])) as [E|N2]; [auto|].
    rewrite (p_frame t1 P) in Lx; auto.
    - destruct (Hshape x n Lx B) as [E | [E | E]]; auto; congruence.
    - intros [-> | [-> | [-> | [-> | ->]]]]; try congruence.
      + apply below_under in B. rewrite (under_single_neq So h inv []) in B; [discriminate | apply h_inv'].
      + apply below_under in B. rewrite (under_single_neq So h side []) in B; [discriminate | apply h_side'].
      + apply below_iff in B as [_ B]. now apply B.
    - intros ->. apply below_under, under_app_inv in B. apply under_iff in B as [s E]. symmetry in E. now apply SoL in E.
  Qed.

  (** the version directory after  rename S_o/h -> M_o/h *)
  Lemma moved_files t1 t2 :
    Prep1 t1 -> (forall r, lookup t2 (Mo ++ h :: r) = lookup t1 (So ++ h :: r)) ->
    (forall x c0, below (Mo ++ [h]) x = true -> lookup t2 x = Some (File c0) ->
       x = Mo ++ [h; inv] \/ x = Mo ++ [h; side] \/ exists d, In d (i_man i) /\ x = Mo ++ d)
    /\ (forall x, below (Mo ++ [h]) x = true -> lookup t2 x = Some Dir -> has_children t2 x = true)
    /\ (forall d, In d (i_man i) -> lookup t2 (Mo ++ d) = lookup t0 (So ++ d)).
  Proof.
    intros P E. split; [|split].
    - intros x c0 B Lx. apply below_iff in B as [U NE]. apply under_iff in U as [r ->].
      rewrite <- app_assoc in *. cbn [app] in *. rewrite E in Lx.
      assert (B1 : below (So ++ [h]) (So ++ h :: r) = true).
      { change (So ++ h :: r) with (So ++ [h] ++ r). rewrite app_assoc. apply below_app. intros ->. now apply NE. }
      destruct (prep_shape t1 _ _ P Lx B1) as [X | [X | X]].
      + left. apply app_inv_head in X. now rewrite X.
      + right. left. apply app_inv_head in X. now rewrite X.
      + right. right. destruct (path_eq_dec (So ++ h :: r) (So ++ [h; cdir])) as [Y | Y].
        * exfalso. rewrite Y in Lx. now apply (p_cd t1 P c0).
        * assert (B2 : below (So ++ [h; cdir]) (So ++ h :: r) = true) by (apply below_iff; split; auto).
          destruct (p_files t1 P _ c0 B2 Lx) as [d [Id Ed]]. apply app_inv_head in Ed. exists d. split; [exact Id | now rewrite Ed].
    - intros x B Lx. apply below_iff in B as [U NE]. apply under_iff in U as [r ->].
      rewrite <- app_assoc in *. cbn [app] in *. rewrite E in Lx.
      assert (B1 : below (So ++ [h]) (So ++ h :: r) = true).
      { change (So ++ h :: r) with (So ++ [h] ++ r). rewrite app_assoc. apply below_app. intros ->. now apply NE. }
      destruct (prep_shape t1 _ _ P Lx B1) as [X | [X | X]].
      + rewrite X, (p_hinv t1 P) in Lx. discriminate.
      + rewrite X, (p_hside t1 P) in Lx. discriminate.
      + apply (p_clean t1 P _ X) in Lx. apply has_children_true_iff in Lx as (q & m & Bq & Lq).
        apply below_iff in Bq as [Uq NEq]. apply under_iff in Uq as [s ->].
        apply has_children_true_iff. exists (Mo ++ h :: r ++ s), m. split.
        * change (Mo ++ h :: r ++ s) with (Mo ++ (h :: r) ++ s). rewrite app_assoc. apply below_app.
          intros ->. apply NEq. now rewrite app_nil_r.
        * rewrite E. rewrite <- app_assoc in Lq. exact Lq.
    - intros d Id. pose proof Id as Id'. apply man_i' in Id' as [Id0 _].
      destruct (man0_shape' d Id0) as [rest [Nr ->]]. rewrite E. now apply (p_man t1 P).
  Qed.

  (** ** install of a further version *)
  Hypothesis Hnodecl : is_decl_name h = false.
  Hypothesis Hspec_decl : is_decl_name (i_spec i0) = true.

  Lemma spec_neq_h : i_spec i0 <> h.
  Proof. intros E. rewrite E in Hspec_decl. congruence. Qed.

  Section NewVersion.
    Variables (k0 : N) (vs0 : list fseg) (spec0 : fseg) (man0 dups0 : list fpath).
    Hypothesis V0 : vs0 <> [].
    Hypothesis VS : i_vs i0 = vs0 ++ [h].
    Hypothesis MoD : lookup t0 Mo = Some Dir.
    Hypothesis MInv : read_file t0 (Mo ++ [inv]) = Some (CInv k0 vs0 spec0 man0 dups0).
    Hypothesis Valid0 : obj_validb c t0 Mo = true.
    Hypothesis Free : forall x, under (Mo ++ [h]) x = true -> lookup t0 x = None.
    Hypothesis SpecNew : i_spec i0 <> spec0 -> lookup t0 (Mo ++ [i_spec i0]) = None.
    Hypothesis Hdecls : forall x n, lookup t0 x = Some n -> is_child Mo x = true -> is_decl_name (last x []) = true ->
                          exists c0, n = File c0.

    Lemma valid0_facts :
      (exists osd, lookup t0 (Mo ++ [side]) = Some (File osd))
      /\ lookup t0 (Mo ++ [spec0]) = Some (File (CDecl spec0))
      /\ (forall x c0, is_child Mo x = true -> lookup t0 x = Some (File c0) ->
                       last x [] = inv \/ last x [] = side \/ last x [] = spec0).
    Proof.
      pose proof Valid0 as V. unfold obj_validb in V. fold Mo inv side in V. rewrite MInv in V.
      repeat (apply andb_true_iff in V as [V ?]).
      split; [|split].
      - destruct (read_file t0 (Mo ++ [side])) as [osd|] eqn:E; [|discriminate]. exists osd.
        apply (read_file_inv _ _ _ E). now destruct Mo.
      - destruct (read_file t0 (Mo ++ [spec0])) as [[| | |s|]|] eqn:E; try discriminate.
        match goal with X : seg_eqb s spec0 = true |- _ => apply seg_eqb_eq in X; subst s end.
        apply (read_file_inv _ _ _ E). now destruct Mo.
      - intros x c0 Cx Lx. pose proof (children_In t0 Mo x _ Lx Cx) as I.
        match goal with X : forallb _ (children t0 Mo) = true |- _ => rewrite forallb_forall in X; specialize (X _ I); cbn [fst snd] in X end.
        repeat match goal with X : (_ || _)%bool = true |- _ => apply orb_true_iff in X as [X|X] end;
          match goal with X : seg_eqb _ _ = true |- _ => apply seg_eqb_eq in X end; auto.
    Qed.

    Lemma inv_is_new_i : inv_is_new i = false.
    Proof.
      unfold inv_is_new. change (i_vs i) with (i_vs i0). rewrite VS.
      destruct vs0 as [|a [|b l]]; [contradiction | reflexivity | reflexivity].
    Qed.

    Lemma MInv_lookup : lookup t0 (Mo ++ [inv]) = Some (File (CInv k0 vs0 spec0 man0 dups0)).
    Proof. apply (read_file_inv _ _ _ MInv). now destruct Mo. Qed.

    Lemma spec_not_special : i_spec i0 <> inv /\ i_spec i0 <> side.
    Proof. split; [apply (st_spec_inv c t0 i0 SO) | apply (st_spec_side c t0 i0 SO)]. Qed.

    (** the state after the rename and the two copies, and what the declaration swap adds *)
    Definition decl_child (x : fpath) : Prop := is_child Mo x = true /\ is_decl_name (last x []) = true.

    Lemma installed_nv t1 t4 t5 :
      Prep1 t1 -> twf t5 ->
      (forall r, lookup t4 (Mo ++ h :: r) = lookup t1 (So ++ h :: r)) ->
      (forall a r, a <> h -> Mo ++ a :: r <> Mo ++ [inv] -> Mo ++ a :: r <> Mo ++ [side] ->
                   lookup t4 (Mo ++ a :: r) = lookup t0 (Mo ++ a :: r)) ->
      lookup t4 Mo = Some Dir -> lookup t4 (Mo ++ [inv]) = Some (File tok) -> lookup t4 (Mo ++ [side]) = Some (File sd) ->
      lookup t5 (Mo ++ [i_spec i0]) = Some (File (CDecl (i_spec i0))) ->
      (forall x, decl_child x -> x <> Mo ++ [i_spec i0] -> lookup t5 x = None) ->
      (forall x, ~ decl_child x -> lookup t5 x = lookup t4 x) ->
      installed t5.
    Proof.
      intros P W5 KH KO LM LI LS LD ND SAME.
      destruct spec_not_special as [SN1 SN2].
      assert (NDinv : is_decl_name inv = false) by apply (ok_inv_nodecl c CO).
      assert (NDside : is_decl_name side = false) by apply (ok_side_nodecl c CO).
      assert (NotDC1 : forall a, is_decl_name a = false -> ~ decl_child (Mo ++ [a])).
      { intros a Na [_ X]. rewrite last_app_single in X. congruence. }
      assert (NotDC2 : forall a e r, ~ decl_child (Mo ++ a :: e :: r)).
      { intros a e r [X _]. apply is_child_length in X. rewrite app_length in X. cbn in X. lia. }
      assert (NotDC0 : ~ decl_child Mo).
      { intros [X _]. apply is_child_length in X. lia. }
      assert (KeepH : forall r, lookup t5 (Mo ++ h :: r) = lookup t1 (So ++ h :: r)).
      { intros r. rewrite SAME; [apply KH|]. destruct r; [now apply NotDC1 | apply NotDC2]. }
      destruct (moved_files t1 t5 P KeepH) as (MF & MD & MM).
      destruct valid0_facts as ([osd LS0] & LD0 & CH0).
      constructor; auto.
      - rewrite SAME; auto.
      - rewrite SAME; auto.
      - rewrite SAME; auto.
      - rewrite (KeepH []). apply (p_hd t1 P).
      - rewrite (KeepH [inv]). apply (p_hinv t1 P).
      - rewrite (KeepH [side]). apply (p_hside t1 P).
      - intros x n B Lx. apply below_iff in B as [U NE]. apply under_iff in U as [r ->].
        destruct r as [|a r]; [exfalso; apply NE; now rewrite app_nil_r|].
        destruct (seg_eqb a h) eqn:Eh.
        { apply seg_eqb_eq in Eh. subst a. left. change (Mo ++ h :: r) with (Mo ++ [h] ++ r). rewrite app_assoc. apply under_app. }
        apply seg_eqb_neq in Eh.
        destruct (path_eq_dec (Mo ++ a :: r) (Mo ++ [inv])) as [E1|N1]; [auto|].
        destruct (path_eq_dec (Mo ++ a :: r) (Mo ++ [side])) as [E2|N2]; [auto|].
        destruct (path_eq_dec (Mo ++ a :: r) (Mo ++ [i_spec i0])) as [E3|N3]; [auto 6|].
        right. right. right. right.
        destruct r as [|e r].
        + destruct (is_decl_name a) eqn:Da.
          * rewrite ND in Lx; [discriminate | | exact N3]. split; [apply is_child_app | now rewrite last_app_single].
          * rewrite SAME in Lx by now apply NotDC1. now rewrite KO in Lx.
        + rewrite SAME in Lx by apply NotDC2. now rewrite KO in Lx.
      - intros x Cx Dx Nx. apply ND; [now split | exact Nx].
      - intros x n B Lx Kn. apply below_iff in B as [U NE]. apply under_iff in U as [r ->].
        destruct r as [|a r]; [exfalso; apply NE; now rewrite app_nil_r|].
        assert (Nh : a <> h).
        { intros ->. rewrite Free in Lx; [discriminate|]. change (Mo ++ h :: r) with (Mo ++ [h] ++ r).
          rewrite app_assoc. apply under_app. }
        assert (N1 : Mo ++ a :: r <> Mo ++ [inv]).
        { intros X. rewrite X, MInv_lookup in Lx. injection Lx as <-. rewrite X in Kn.
          specialize (Kn (is_child_app Mo inv)). discriminate. }
        assert (N2 : Mo ++ a :: r <> Mo ++ [side]).
        { intros X. rewrite X, LS0 in Lx. injection Lx as <-. rewrite X in Kn.
          specialize (Kn (is_child_app Mo side)). discriminate. }
        rewrite SAME, KO; auto. intros [Cx Dx].
        destruct (Hdecls _ _ Lx Cx Dx) as [c0 ->]. specialize (Kn Cx). discriminate.
    Qed.

    Lemma find_decls_spec t x : twf t ->
      (In x (find_decls t Mo) <-> decl_child x /\ lookup t x <> None).
    Proof.
      intros W. unfold find_decls, decl_child. rewrite in_map_iff. split.
      - intros [[x' n] [<- I]]. apply filter_In in I as [I D]. cbn [fst snd] in *.
        apply (children_spec t Mo x' n W) in I as [Lx Cx]. repeat split; auto. congruence.
      - intros [[Cx Dx] Lx]. destruct (lookup t x) as [n|] eqn:E; [|congruence].
        exists (x, n). split; [reflexivity|]. apply filter_In. split; [|exact Dx].
        apply children_spec; auto.
    Qed.

    Lemma find_decls_nodup t : twf t -> NoDup (find_decls t Mo).
    Proof. intros W. unfold find_decls. apply map_fst_filter_NoDup. now apply children_nodup. Qed.

    Lemma wp_install_nv t1 (Q : unit -> tree -> Prop) :
      Prep1 t1 -> (forall t2, installed t2 -> Q tt t2) -> wp (install c i) t1 Q.
    Proof.
      intros P HQ. unfold install. rewrite inv_is_new_i. unfold write_new_version. rewrite inv_is_new_i.
      apply wp_andthen, wp_ensure_open. apply wp_andthen, wp_ensure_open.
      pose proof (p_wf t1 P) as W1.
      assert (M1 : forall x, lookup t1 (Mo ++ x) = lookup t0 (Mo ++ x)) by (intros x; apply (prep_main t1 _ P), under_app).
      assert (MoD1 : lookup t1 Mo = Some Dir) by (rewrite (prep_main t1 _ P (under_refl Mo)); exact MoD).
      destruct valid0_facts as ([osd LS0] & LD0 & CH0).
      destruct spec_not_special as [SN1 SN2].
      (* get_inventory of the object *)
      apply wp_bind. unfold get_inventory. apply wp_get_tree. fold Mo inv.
      rewrite (is_dir_lookup _ _ MoD1). unfold exists_at. rewrite node_at_app, M1, MInv_lookup, orb_true_r. cbn [andb negb].
      unfold read_file. rewrite node_at_app, M1, MInv_lookup. apply wp_ret.
      change (i_vs i) with (i_vs i0). rewrite VS, removelast_app_single. unfold head_of at 1. cbn [Commit.i_vs].
      rewrite seg_eqb_refl. cbn [negb]. change (head_of i) with h. fold So Mo inv side.
      apply wp_get_tree. cbv zeta.
      assert (DestFree : forall y, under (Mo ++ [h]) y = true -> lookup t1 y = None).
      { intros y U. rewrite (prep_main t1 _ P); [now apply Free|]. eapply under_trans; [apply under_app | exact U]. }
      unfold exists_at. rewrite node_at_app, (DestFree _ (under_refl _)).
      unfold read_file. rewrite !node_at_app, !M1, MInv_lookup, LS0.
      change (i_spec i) with (i_spec i0). cbn [Commit.i_spec].
      (* the rename *)
      destruct (src_dest_disjoint c t0 i0 Pre h) as [D1 D2]. fold So Mo in D1, D2.
      apply wp_andthen. eapply wp_step.
      { cbn [apply_step]. apply fs_rename_fresh; auto.
        - now destruct So.
        - now destruct Mo.
        - rewrite (p_hd t1 P). discriminate.
        - rewrite parent_app. now apply is_dir_lookup.
        - apply DestFree, under_refl. }
      set (s1 := map (rekey (So ++ [h]) (Mo ++ [h])) (remove (Mo ++ [h]) t1)).
      assert (W1s : twf s1).
      { apply twf_rename; auto; [now destruct So | now destruct Mo | rewrite parent_app; now apply is_dir_lookup]. }
      assert (LK : forall x, lookup s1 x = if under (Mo ++ [h]) x then lookup t1 ((So ++ [h]) ++ skipn (List.length (Mo ++ [h])) x)
                                           else if under (So ++ [h]) x then None else lookup t1 x)
        by (intros x; apply lookup_rename_fresh; auto).
      assert (LKd : forall r, lookup s1 (Mo ++ h :: r) = lookup t1 (So ++ h :: r)).
      { intros r. rewrite LK. change (Mo ++ h :: r) with (Mo ++ [h] ++ r). rewrite app_assoc, under_app.
        rewrite skipn_app, skipn_all, Nat.sub_diag. cbn [skipn app]. now rewrite <- app_assoc. }
      assert (LKo : forall a r, a <> h -> lookup s1 (Mo ++ a :: r) = lookup t0 (Mo ++ a :: r)).
      { intros a r Na. rewrite LK, (under_single_neq Mo h a r), src_not_under_Mo, M1; auto. }
      assert (LKm : lookup s1 Mo = Some Dir).
      { rewrite LK. assert (U1 : under (Mo ++ [h]) Mo = false) by apply not_under_snoc. rewrite U1.
        pose proof (src_not_under_Mo []) as U2. rewrite app_nil_r in U2. now rewrite U2. }
      (* the two copies *)
      apply wp_bind. apply wp_attempt. unfold copy_inventory_files. rewrite <- !snoc2.
      apply wp_andthen. apply wp_andthen.
      apply (wp_copy_file _ _ tok); [exact W1s | now destruct Mo | | |].
      { apply read_file_lookup2. rewrite LKd. apply (p_hinv t1 P). }
      { right. eexists. rewrite LKo; [apply MInv_lookup | apply not_eq_sym, h_inv']. }
      intros t3 (W3 & L3 & F3).
      apply (wp_copy_file _ _ sd); [exact W3 | now destruct Mo | | |].
      { apply read_file_lookup2. rewrite F3; [rewrite LKd; apply (p_hside t1 P)|].
        mo_neq. }
      { right. exists osd. rewrite F3; [rewrite LKo; [exact LS0 | apply not_eq_sym, h_side']|].
        mo_neq. }
      intros t4 (W4 & L4 & F4).
      assert (E4 : forall x, x <> Mo ++ [inv] -> x <> Mo ++ [side] -> lookup t4 x = lookup s1 x).
      { intros x N1 N2. rewrite F4, F3; auto. }
      assert (L4i : lookup t4 (Mo ++ [inv]) = Some (File tok)).
      { rewrite F4; [exact L3|]. mo_neq. }
      assert (L4m : lookup t4 Mo = Some Dir).
      { rewrite E4; [exact LKm | |]; apply not_eq_sym, Mo_nsub. }
      assert (KH4 : forall r, lookup t4 (Mo ++ h :: r) = lookup t1 (So ++ h :: r)).
      { intros r. rewrite E4; [apply LKd | |]; mo_neq. }
      assert (KO4 : forall a r, a <> h -> Mo ++ a :: r <> Mo ++ [inv] -> Mo ++ a :: r <> Mo ++ [side] ->
                      lookup t4 (Mo ++ a :: r) = lookup t0 (Mo ++ a :: r)).
      { intros a r Na N1 N2. rewrite E4; auto. }
      assert (Done : forall t5, twf t5 ->
                lookup t5 (Mo ++ [i_spec i0]) = Some (File (CDecl (i_spec i0))) ->
                (forall x, decl_child x -> x <> Mo ++ [i_spec i0] -> lookup t5 x = None) ->
                (forall x, ~ decl_child x -> lookup t5 x = lookup t4 x) -> Q tt t5).
      { intros t5 W5 LD5 ND5 SAME5. apply HQ. eapply (installed_nv t1 t4 t5); eauto. }
      destruct (seg_eqb (i_spec i0) spec0) eqn:ES; cbn [negb].
      - (* the type does not change: the declaration stays *)
        apply seg_eqb_eq in ES. apply wp_ret. apply wp_ret. apply Done; auto.
        + rewrite ES. rewrite KO4; [exact LD0 | | |].
          * rewrite <- ES. apply spec_neq_h.
          * apply Mo_app_neq. congruence.
          * apply Mo_app_neq. congruence.
        + intros x [Cx Dx] Nx. apply is_child_inv in Cx as [a ->]. rewrite last_app_single in Dx.
          assert (Na : a <> h) by (intros ->; congruence).
          rewrite KO4; auto.
          * destruct (lookup t0 (Mo ++ [a])) as [n|] eqn:E; [|reflexivity]. exfalso.
            destruct (Hdecls _ _ E (is_child_app Mo a)) as [c0 ->]; [now rewrite last_app_single|].
            destruct (CH0 _ _ (is_child_app Mo a) E) as [X | [X | X]]; rewrite last_app_single in X; subst a.
            -- pose proof inv_nodecl; congruence.
            -- pose proof side_nodecl; congruence.
            -- apply Nx. now rewrite ES.
          * apply Mo_app_neq. intros X. injection X as ->. pose proof inv_nodecl; congruence.
          * apply Mo_app_neq. intros X. injection X as ->. pose proof side_nodecl; congruence.
      - (* upgrade: the new declaration is created, every older one removed *)
        apply seg_eqb_neq in ES. pose proof (SpecNew ES) as LN0.
        set (ep := Mo ++ [i_spec i0]) in *.
        assert (Nep : ep <> []) by (unfold ep; now destruct Mo).
        assert (L4e : lookup t4 ep = None).
        { unfold ep. rewrite KO4; [exact LN0 | apply spec_neq_h | |]; apply Mo_app_neq; congruence. }
        apply wp_andthen. unfold write_namaste. fold Mo ep. apply wp_andthen.
        eapply wp_step.
        { cbn [apply_step]. apply fs_create_new_new; auto. unfold ep. rewrite parent_app. now apply is_dir_lookup. }
        assert (U5 : upd ep (File CPartial) t4 (insert ep (File CPartial) t4)).
        { apply upd_insert; auto. unfold ep. rewrite parent_app. now apply is_dir_lookup. }
        destruct U5 as (W5 & L5 & F5).
        eapply wp_step; [cbn [apply_step]; apply (fs_finish_file _ ep (CDecl (i_spec i0)) CPartial Nep L5)|].
        assert (U6 : upd ep (File (CDecl (i_spec i0))) (insert ep (File CPartial) t4)
                         (insert ep (File (CDecl (i_spec i0))) (insert ep (File CPartial) t4))).
        { apply upd_insert; auto.
          - unfold ep. rewrite parent_app. apply is_dir_lookup. rewrite F5; [exact L4m|]. apply not_eq_sym, Mo_nsub.
          - right. left. eauto. }
        set (t6 := insert ep (File (CDecl (i_spec i0))) (insert ep (File CPartial) t4)) in *.
        destruct U6 as (W6 & L6 & F6).
        assert (E6 : forall x, x <> ep -> lookup t6 x = lookup t4 x) by (intros x N; rewrite F6, F5; auto).
        (* the older declarations, as listed before the rename *)
        set (old := find_decls t1 Mo).
        assert (OldSpec : forall x, In x old -> decl_child x /\ x <> ep /\ exists c0, lookup t4 x = Some (File c0)).
        { intros x Ix. apply (find_decls_spec t1 x W1) in Ix as [[Cx Dx] Lx].
          pose proof Cx as Cx'. apply is_child_inv in Cx' as [a ->]. rewrite last_app_single in Dx.
          rewrite M1 in Lx. destruct (lookup t0 (Mo ++ [a])) as [n|] eqn:E; [|congruence].
          destruct (Hdecls _ _ E Cx) as [c0 ->]; [now rewrite last_app_single|].
          assert (Na : a <> h) by (intros ->; congruence).
          split; [split; [exact Cx | now rewrite last_app_single]|]. split.
          - intros X. unfold ep in X, LN0. rewrite X, LN0 in E. discriminate.
          - exists c0. rewrite KO4; auto; apply Mo_app_neq; intros X; injection X as ->.
            + pose proof inv_nodecl; congruence.
            + pose proof side_nodecl; congruence. }
        set (I := fun (rest : list fpath) (tc : tree) =>
          twf tc /\ incl rest old /\ NoDup rest /\
          (forall x, In x rest -> lookup tc x = lookup t6 x) /\
          (forall x, In x old -> ~ In x rest -> lookup tc x = None) /\
          (forall x, ~ In x old -> lookup tc x = lookup t6 x)).
        eapply wp_conseq.
        + apply (wp_forM I).
          * intros x rest tc (Wc & INC & NDr & RS & GN & OT).
            assert (Ix : In x old) by (apply INC; now left).
            destruct (OldSpec x Ix) as (DCx & Nx & c0 & Lx4).
            assert (Lxc : lookup tc x = Some (File c0)) by (rewrite RS by (now left); rewrite E6; auto).
            inversion NDr as [|? ? NIx NDr']; subst.
            apply (wp_remove_file tc x c0); auto.
            intros t' S' Lx' F'. split; [apply S'|]. split; [intros y Iy; apply INC; now right|].
            split; [exact NDr'|]. split; [|split].
            -- intros y Iy. rewrite F'; [apply RS; now right|]. intros ->. contradiction.
            -- intros y Iy NIy. destruct (path_eq_dec y x) as [-> | NE]; [exact Lx'|].
               rewrite F' by exact NE. apply GN; auto. intros [X|X]; [congruence | contradiction].
            -- intros y NIy. rewrite F'; [now apply OT|]. intros ->. contradiction.
          * split; [exact W6|]. split; [apply incl_refl|]. split; [apply (find_decls_nodup t1 W1)|].
            repeat split; auto. intros x Ix NIx. contradiction.
        + intros [] t7 (W7 & _ & _ & _ & GN & OT). apply wp_ret. apply Done; auto.
          * rewrite OT; [exact L6|]. intros X. apply OldSpec in X as (_ & X & _). now apply X.
          * intros x DCx Nx. destruct (in_dec path_eq_dec x old) as [Ix | NIx]; [apply GN; auto|].
            rewrite OT, E6 by auto.
            destruct DCx as [Cx Dx]. pose proof Cx as Cx'. apply is_child_inv in Cx' as [a ->]. rewrite last_app_single in Dx.
            assert (Na : a <> h) by (intros ->; congruence).
            rewrite KO4; auto.
            -- destruct (lookup t0 (Mo ++ [a])) as [n|] eqn:E; [|reflexivity]. exfalso. apply NIx.
               apply (find_decls_spec t1 _ W1). split; [split; [exact Cx | now rewrite last_app_single]|].
               rewrite M1, E. discriminate.
            -- apply Mo_app_neq. intros X. injection X as ->. pose proof inv_nodecl; congruence.
            -- apply Mo_app_neq. intros X. injection X as ->. pose proof side_nodecl; congruence.
          * intros x NDC. rewrite OT.
            -- apply E6. intros ->. apply NDC. unfold ep. split; [apply is_child_app | now rewrite last_app_single].
            -- intros X. apply OldSpec in X as (X & _). contradiction.
    Qed.
  End NewVersion.

  (** ** install of a first version *)
  Lemma wp_remove_files (l : list fpath) : forall t (Q : unit -> tree -> Prop),
    twf t -> NoDup l -> (forall x, In x l -> exists c0, lookup t x = Some (File c0)) ->
    (forall t', twf t' -> (forall x, In x l -> lookup t' x = None) -> (forall x, ~ In x l -> lookup t' x = lookup t x) -> Q tt t') ->
    wp (forM_ l remove_file_inf) t Q.
  Proof.
    induction l as [|x l IH]; intros t Q W ND HF HQ; cbn [forM_].
    - apply wp_ret. apply HQ; auto. intros x [].
    - inversion ND as [|? ? NI ND']; subst. destruct (HF x (or_introl eq_refl)) as [c0 Lx].
      apply wp_andthen. apply (wp_remove_file t x c0); auto. intros t1 S1 L1 F1.
      apply IH; [apply S1 | exact ND' | |].
      + intros y Iy. destruct (HF y (or_intror Iy)) as [c1 Ly]. exists c1. rewrite F1; [exact Ly|]. intros ->. contradiction.
      + intros t2 W2 G2 O2. apply HQ; auto.
        * intros y [<- | Iy]; [|now apply G2]. rewrite O2; auto.
        * intros y NI'. rewrite O2, F1; auto; intros X; apply NI'; [left | right]; auto.
  Qed.

  Section NewObject.
    Hypothesis VS1 : i_vs i0 = [h].
    Hypothesis Absent : forall x, under Mo x = true -> lookup t0 x = None.
    Hypothesis Hso_shape : forall x n, lookup t0 x = Some n -> below So x = true ->
      under (So ++ [h]) x = true \/ x = So ++ [inv] \/ x = So ++ [side]
      \/ (is_child So x = true /\ is_decl_name (last x []) = true /\ exists c0, n = File c0).
    Hypothesis Hmo_anc : forall q, q <> [] -> under q (parent Mo) = true -> lookup t0 q = None \/ lookup t0 q = Some Dir.

    Definition dchild (x : fpath) : Prop := is_child So x = true /\ is_decl_name (last x []) = true.

    Lemma find_decls_so t x : twf t -> (In x (find_decls t So) <-> dchild x /\ lookup t x <> None).
    Proof.
      intros W. unfold find_decls, dchild. rewrite in_map_iff. split.
      - intros [[x' n] [<- I]]. apply filter_In in I as [I D]. cbn [fst snd] in *.
        apply (children_spec t So x' n W) in I as [Lx Cx]. repeat split; auto. congruence.
      - intros [[Cx Dx] Lx]. destruct (lookup t x) as [n|] eqn:E; [|congruence].
        exists (x, n). split; [reflexivity|]. apply filter_In. split; [|exact Dx].
        apply children_spec; auto.
    Qed.

    (** below the staged root, outside the version directory *)
    Lemma prep_so t1 a r : Prep1 t1 -> a <> h -> So ++ a :: r <> So ++ [inv] -> So ++ a :: r <> So ++ [side] ->
      lookup t1 (So ++ a :: r) = lookup t0 (So ++ a :: r).
    Proof.
      intros P Na N1 N2. assert (NU : under (So ++ [h]) (So ++ a :: r) = false) by (apply under_single_neq; congruence).
      apply (p_frame t1 P).
      - destruct (under (So ++ [h; cdir]) (So ++ a :: r)) eqn:E; [|reflexivity].
        rewrite snoc2 in E. apply under_app_inv in E. congruence.
      - intros [X | [X | [X | [X | X]]]]; try contradiction; apply app_inv_head in X; injection X; intros; subst; contradiction.
      - apply SoL.
    Qed.

    Lemma wp_install_no t1 (Q : unit -> tree -> Prop) :
      Prep1 t1 -> (forall t2, installed t2 -> Q tt t2) -> wp (install c i) t1 Q.
    Proof.
      intros P HQ. unfold install, inv_is_new. change (i_vs i) with (i_vs i0). rewrite VS1.
      pose proof (p_wf t1 P) as W1.
      assert (SN1 : i_spec i0 <> inv) by apply (st_spec_inv c t0 i0 SO).
      assert (SN2 : i_spec i0 <> side) by apply (st_spec_side c t0 i0 SO).
      pose proof spec_neq_h as SNh.
      set (ep := So ++ [i_spec i0]).
      assert (Nep : ep <> []) by (unfold ep; now destruct So).
      assert (SoD1 : lookup t1 So = Some Dir).
      { rewrite (p_frame t1 P); [apply So_dir0 | | |].
        - destruct (under (So ++ [h; cdir]) So) eqn:E; [|reflexivity]. apply under_length in E. rewrite app_length in E. cbn in E. lia.
        - intros [X | [X | [X | [X | X]]]]; symmetry in X; now apply So_nsub in X.
        - apply So_neq_L. }
      assert (Lep1 : lookup t1 ep = lookup t0 ep).
      { unfold ep. apply prep_so; auto; apply So_app_neq; congruence. }
      assert (Kep0 : lookup t0 ep = None \/ exists c0, lookup t0 ep = Some (File c0)).
      { destruct (lookup t0 ep) as [n|] eqn:E; [right | now left].
        destruct (Hso_shape ep n E) as [X | [X | [X | (_ & _ & c0 & ->)]]]; eauto.
        - unfold ep. apply below_app. discriminate.
        - unfold ep in X. rewrite (under_single_neq So h (i_spec i0) []) in X; [discriminate | congruence].
        - unfold ep in X. apply app_inv_head in X. congruence.
        - unfold ep in X. apply app_inv_head in X. congruence. }
      (* the declaration *)
      apply wp_andthen. unfold stage_object_declaration. apply wp_get_tree. cbv zeta.
      change (i_spec i) with (i_spec i0). fold So ep.
      set (old := find_decls t1 So).
      assert (StepA : forall (Q' : unit -> tree -> Prop),
                (forall tA, twf tA -> lookup tA ep = Some (File (CDecl (i_spec i0))) ->
                            (forall x, x <> ep -> lookup tA x = lookup t1 x) -> Q' tt tA) ->
                wp (if match read_file t1 ep with Some (CDecl s) => seg_eqb s (i_spec i0) | _ => false end
                    then ret tt else remove_file_inf ep ;; write_namaste So (i_spec i0)) t1 Q').
      { intros Q' HQ'.
        assert (Create : forall t, twf t -> lookup t ep = None -> lookup t So = Some Dir ->
                   (forall x, x <> ep -> lookup t x = lookup t1 x) -> wp (write_namaste So (i_spec i0)) t Q').
        { intros t W LN SD F. unfold write_namaste. fold ep. apply wp_andthen.
          eapply wp_step; [cbn [apply_step]; apply fs_create_new_new; auto; unfold ep; rewrite parent_app; now apply is_dir_lookup|].
          assert (U5 : upd ep (File CPartial) t (insert ep (File CPartial) t)).
          { apply upd_insert; auto. unfold ep. rewrite parent_app. now apply is_dir_lookup. }
          destruct U5 as (W5 & L5 & F5).
          eapply wp_step; [cbn [apply_step]; apply (fs_finish_file _ ep (CDecl (i_spec i0)) CPartial Nep L5)|].
          apply HQ'.
          - apply twf_insert; auto.
            + unfold ep. rewrite parent_app. apply is_dir_lookup. rewrite F5; [exact SD|]. unfold ep. apply not_eq_sym, So_nsub.
            + right. left. eauto.
          - apply lookup_insert_eq.
          - intros x N. rewrite lookup_insert_neq by congruence. rewrite F5; auto. }
        unfold read_file. rewrite (node_at_lookup _ _ Nep), Lep1.
        destruct Kep0 as [E0 | [c0 E0]]; rewrite E0.
        - apply wp_andthen. apply wp_remove_file_absent; [exact Nep | now rewrite Lep1|]. apply Create; auto. now rewrite Lep1.
        - assert (NotComplete : wp (remove_file_inf ep ;; write_namaste So (i_spec i0)) t1 Q').
          { apply wp_andthen. apply (wp_remove_file t1 ep c0); [exact W1 | now rewrite Lep1|].
            intros t' S' L' F'. apply Create; auto; [apply S'|]. rewrite F'; [exact SoD1|]. unfold ep. apply not_eq_sym, So_nsub. }
          destruct c0 as [n|k vs sp mn dp|k|s|]; try exact NotComplete.
          destruct (seg_eqb s (i_spec i0)) eqn:Es; [|exact NotComplete].
          apply seg_eqb_eq in Es. subst s. apply wp_ret. apply HQ'; auto. now rewrite Lep1. }
      apply wp_andthen. apply StepA. intros tA WA LA FA.
      assert (OldSpec : forall x, In x (filter (fun q => negb (path_eqb q ep)) old) ->
                          dchild x /\ x <> ep /\ exists c0, lookup tA x = Some (File c0)).
      { intros x Ix. apply filter_In in Ix as [Ix NE]. apply negb_true_iff, path_eqb_neq in NE.
        apply (find_decls_so t1 x W1) in Ix as [[Cx Dx] Lx]. split; [now split|]. split; [exact NE|].
        rewrite FA by exact NE. pose proof Cx as Cx'. apply is_child_inv in Cx' as [a ->]. rewrite last_app_single in Dx.
        assert (Na : a <> h) by (intros ->; congruence).
        assert (N1 : So ++ [a] <> So ++ [inv]) by (apply So_app_neq; intros X; injection X as ->; pose proof inv_nodecl; congruence).
        assert (N2 : So ++ [a] <> So ++ [side]) by (apply So_app_neq; intros X; injection X as ->; pose proof side_nodecl; congruence).
        rewrite (prep_so t1 a [] P Na N1 N2) in *.
        destruct (lookup t0 (So ++ [a])) as [n|] eqn:E; [|congruence].
        destruct (Hso_shape _ n E) as [X | [X | [X | (_ & _ & c0 & ->)]]]; eauto; try contradiction.
        - apply below_app. discriminate.
        - rewrite (under_single_neq So h a []) in X; [discriminate | congruence]. }
      apply (wp_remove_files _ tA); auto.
      { apply NoDup_filter. unfold old, find_decls. apply map_fst_filter_NoDup. now apply children_nodup. }
      { intros x Ix. now apply OldSpec in Ix as (_ & _ & X). }
      intros tB WB GB OB.
      (* the whole staged object is renamed *)
      assert (SameB : forall x, ~ dchild x -> lookup tB x = lookup t1 x).
      { intros x ND. rewrite OB; [apply FA|].
        - intros ->. apply ND. unfold ep. split; [apply is_child_app | now rewrite last_app_single].
        - intros X. apply OldSpec in X as (X & _). contradiction. }
      assert (GoneB : forall x, dchild x -> x <> ep -> lookup tB x = None).
      { intros x [Cx Dx] NE. destruct (in_dec path_eq_dec x (filter (fun q => negb (path_eqb q ep)) old)) as [Ix | NIx]; [now apply GB|].
        rewrite OB, FA by auto.
        destruct (lookup t1 x) as [n|] eqn:E; [|reflexivity]. exfalso. apply NIx. apply filter_In. split.
        - apply (find_decls_so t1 x W1). split; [now split | congruence].
        - now apply negb_true_iff, path_eqb_neq. }
      assert (LepB : lookup tB ep = Some (File (CDecl (i_spec i0)))).
      { rewrite OB; [exact LA|]. intros X. apply OldSpec in X as (_ & X & _). now apply X. }
      assert (NotD_out : forall x, under So x = false -> ~ dchild x).
      { intros x U [Cx _]. apply is_child_under in Cx. congruence. }
      assert (OutB : forall x, under So x = false -> x <> L -> lookup tB x = lookup t0 x).
      { intros x U NL. rewrite SameB by now apply NotD_out. apply (p_frame t1 P); auto.
        - destruct (under (So ++ [h; cdir]) x) eqn:E; [|reflexivity]. apply under_app_inv in E. congruence.
        - intros X. assert (under So x = true); [|congruence].
          destruct X as [-> | [-> | [-> | [-> | ->]]]]; apply under_app. }
      unfold write_new_object. fold So Mo. apply wp_andthen, wp_ensure_open. apply wp_get_tree.
      assert (MoFreeB : forall y, under Mo y = true -> lookup tB y = None).
      { intros y U. rewrite OutB; [now apply Absent | now apply under_Mo_So |].
        intros ->. apply under_iff in U as [s E]. symmetry in E. now apply MoL in E. }
      unfold exists_at. rewrite (node_at_lookup _ _ Mo_ne'), (MoFreeB Mo (under_refl Mo)).
      apply wp_andthen. apply wp_create_dir_all; [exact WB | |].
      { intros q Nq U. rewrite OutB; [now apply Hmo_anc | |].
        - destruct (under So q) eqn:E; [|reflexivity].
          pose proof (under_trans _ _ _ E (under_trans _ _ _ U (under_parent Mo))) as X.
          pose proof (ok_so_mo c CO) as Y. fold So Mo in Y. congruence.
        - intros ->. pose proof (under_trans _ _ _ U (under_parent Mo)) as X.
          pose proof (ok_lock_mo c CO) as Y. fold L Mo in Y. congruence. }
      intros tC WC DC FC.
      assert (NotPre : forall x, under So x = true \/ under Mo x = true -> under x (parent Mo) = false).
      { intros x [U|U]; destruct (under x (parent Mo)) eqn:E; try reflexivity; exfalso.
        - pose proof (under_trans _ _ _ U (under_trans _ _ _ E (under_parent Mo))) as X.
          pose proof (ok_so_mo c CO) as Y. fold So Mo in Y. congruence.
        - pose proof (under_trans _ _ _ U E) as X. rewrite (not_under_parent Mo Mo_ne') in X. discriminate. }
      assert (SoC : forall r, lookup tC (So ++ r) = lookup tB (So ++ r)) by (intros r; apply FC, NotPre; left; apply under_app).
      assert (MoFreeC : forall y, under Mo y = true -> lookup tC y = None).
      { intros y U. rewrite FC; [now apply MoFreeB | apply NotPre; now right]. }
      eapply wp_step.
      { cbn [apply_step]. apply fs_rename_fresh; auto.
        - apply So_ne'.
        - apply Mo_ne'.
        - rewrite <- (app_nil_r So), SoC, app_nil_r, SameB; [rewrite SoD1; discriminate|].
          intros [X _]. apply is_child_length in X. lia.
        - apply (ok_so_mo c CO).
        - apply (ok_mo_so c CO).
        - apply MoFreeC, under_refl. }
      set (t2 := map (rekey So Mo) (remove Mo tC)).
      assert (W2 : twf t2).
      { apply twf_rename; auto; [apply So_ne' | apply Mo_ne' | apply (ok_so_mo c CO) | apply (ok_mo_so c CO)]. }
      assert (LK : forall r, lookup t2 (Mo ++ r) = lookup tB (So ++ r)).
      { intros r. unfold t2. rewrite lookup_rename_fresh; auto; [|apply (ok_so_mo c CO) | apply (ok_mo_so c CO)].
        rewrite under_app, skipn_app, skipn_all, Nat.sub_diag. cbn [skipn app]. apply SoC. }
      assert (NotD1 : forall a, is_decl_name a = false -> ~ dchild (So ++ [a])).
      { intros a Na [_ X]. rewrite last_app_single in X. congruence. }
      assert (NotD2 : forall a e r, ~ dchild (So ++ a :: e :: r)).
      { intros a e r [X _]. apply is_child_length in X. rewrite app_length in X. cbn in X. lia. }
      assert (KeepH : forall r, lookup t2 (Mo ++ h :: r) = lookup t1 (So ++ h :: r)).
      { intros r. rewrite LK, SameB; [reflexivity|]. destruct r; [now apply NotD1 | apply NotD2]. }
      destruct (moved_files t1 t2 P KeepH) as (MF & MD & MM).
      apply HQ. constructor; auto.
      - rewrite <- (app_nil_r Mo), LK, app_nil_r, SameB; [exact SoD1|]. intros [X _]. apply is_child_length in X. lia.
      - rewrite LK, SameB; [apply (p_inv t1 P) | apply NotD1, inv_nodecl].
      - rewrite LK, SameB; [apply (p_side t1 P) | apply NotD1, side_nodecl].
      - rewrite LK. exact LepB.
      - rewrite (KeepH []). apply (p_hd t1 P).
      - rewrite (KeepH [inv]). apply (p_hinv t1 P).
      - rewrite (KeepH [side]). apply (p_hside t1 P).
      - intros x n B Lx. apply below_iff in B as [U NE]. apply under_iff in U as [r ->].
        destruct r as [|a r]; [exfalso; apply NE; now rewrite app_nil_r|].
        destruct (seg_eqb a h) eqn:Eh.
        { apply seg_eqb_eq in Eh. subst a. left. change (Mo ++ h :: r) with (Mo ++ [h] ++ r). rewrite app_assoc. apply under_app. }
        apply seg_eqb_neq in Eh.
        destruct (path_eq_dec (a :: r) [inv]) as [E1|N1]; [rewrite E1; auto|].
        destruct (path_eq_dec (a :: r) [side]) as [E2|N2]; [rewrite E2; auto|].
        destruct (path_eq_dec (a :: r) [i_spec i0]) as [E3|N3]; [rewrite E3; auto 6|].
        exfalso. rewrite LK in Lx.
        assert (Sh : forall m, lookup t0 (So ++ a :: r) = Some m -> dchild (So ++ a :: r)).
        { intros m E. destruct (Hso_shape _ m E) as [X | [X | [X | (X1 & X2 & _)]]].
          - apply below_app. discriminate.
          - rewrite (under_single_neq So h a r) in X; [discriminate | congruence].
          - apply app_inv_head in X. contradiction.
          - apply app_inv_head in X. contradiction.
          - now split. }
        destruct r as [|e r].
        + destruct (is_decl_name a) eqn:Da.
          * rewrite GoneB in Lx; [discriminate | split; [apply is_child_app | now rewrite last_app_single] |].
            unfold ep. apply So_app_neq. exact N3.
          * rewrite SameB in Lx by now apply NotD1.
            rewrite prep_so in Lx; auto; [|apply So_app_neq; exact N1 | apply So_app_neq; exact N2].
            apply Sh in Lx. now apply (NotD1 a Da).
        + rewrite SameB in Lx by apply NotD2.
          rewrite prep_so in Lx; auto; [|apply So_app_neq; exact N1 | apply So_app_neq; exact N2].
          apply Sh in Lx. now apply (NotD2 a e r).
      - intros x Cx Dx Nx. apply is_child_inv in Cx as [a ->]. rewrite last_app_single in Dx. rewrite LK.
        apply GoneB; [split; [apply is_child_app | now rewrite last_app_single]|].
        unfold ep. apply So_app_neq. intros X. apply Nx. now rewrite X.
      - intros x n B Lx. rewrite Absent in Lx; [discriminate | now apply below_under].
    Qed.
  End NewObject.

  (** ** the whole run: the removal of the staged object and of the lock file do not touch the object *)
  Lemma installed_same t2 t' : installed t2 -> twf t' -> same_at Mo t' t2 -> installed t'.
  Proof.
    intros N W S.
    assert (E : forall r, lookup t' (Mo ++ r) = lookup t2 (Mo ++ r)) by (intros r; apply S, under_app).
    assert (EB : forall x, below Mo x = true -> lookup t' x = lookup t2 x) by (intros x B; apply S; now apply below_under).
    assert (EH : forall x, below (Mo ++ [h]) x = true -> lookup t' x = lookup t2 x).
    { intros x B. apply S. eapply under_trans; [apply under_app | apply below_under; exact B]. }
    constructor; auto.
    - rewrite <- (app_nil_r Mo), E, app_nil_r. apply (n_mo t2 N).
    - rewrite E. apply (n_inv t2 N).
    - rewrite E. apply (n_side t2 N).
    - rewrite E. apply (n_decl t2 N).
    - rewrite E. apply (n_hd t2 N).
    - rewrite E. apply (n_hinv t2 N).
    - rewrite E. apply (n_hside t2 N).
    - intros d Id. rewrite E. now apply (n_man t2 N).
    - intros x c0 B Lx. rewrite EH in Lx by exact B. now apply (n_files t2 N x c0).
    - intros x B Lx. rewrite EH in Lx by exact B. apply (n_dirs t2 N x B) in Lx.
      apply has_children_true_iff in Lx as (q & m & Bq & Lq). apply has_children_true_iff. exists q, m. split; [exact Bq|].
      rewrite S; [exact Lq|]. eapply under_trans; [apply under_app|]. eapply under_trans; [apply below_under; exact B | now apply below_under].
    - intros x n B Lx. rewrite EB in Lx by exact B. now apply (n_old t2 N).
    - intros x Cx Dx Nx. rewrite EB by now apply is_child_below. now apply (n_decls t2 N).
    - intros x n B Lx Kn. rewrite EB by exact B. now apply (n_kept t2 N).
  Qed.

  Lemma commit_result :
    (forall t1 (Q : unit -> tree -> Prop), Prep1 t1 -> (forall t2, installed t2 -> Q tt t2) -> wp (install c i) t1 Q) ->
    installed (run_tree (commit c) t0 NoInj).
  Proof.
    intros Inst.
    assert (RUN : wp (acquire c) t0 (fun _ ta => wp (prep c) ta (fun i' t1 => i' = i /\ wp (install c i) t1 (fun _ t2 => installed t2)))).
    { apply wp_acquire. intros ta Wa La Fa. apply wp_prep; [exact Wa | exact Fa|].
      intros t1 P _. split; [reflexivity|]. apply Inst; [exact P|]. intros t2 N. exact N. }
    destruct RUN as ([] & ta & Ra & (i' & t1 & Rp & -> & ([] & t2 & Ri & N))).
    unfold run_tree, run. change (init_world t0 NoInj) with (w0 t0 NoInj). rewrite commit_unfold.
    assert (G0 : good (w0 t0 NoInj)) by (split; reflexivity).
    destruct (Ra _ G0 eq_refl) as (wa & Ea & Ga & Ta). rewrite Ea.
    destruct (Rp _ Ga Ta) as (w1 & Ep & G1 & T1). rewrite Ep. rewrite mid_unfold. destruct G1 as [G1i G1c]. rewrite G1c.
    destruct (Ri w1 (conj G1i G1c) T1) as (w2 & Ei & G2 & T2). rewrite Ei.
    apply (installed_same t2); [exact N | |].
    - apply (pres_twf_tail c w2). rewrite T2. apply (n_wf t2 N).
    - apply (tail_preserves c t0 i0 Pre Mo t2 (under_refl _) w2). rewrite T2. intros x _. reflexivity.
  Qed.
End Run.

(** * the two cases, all hypotheses spelled out *)
Theorem commit_installed_new_version c t0 i0 k0 vs0 spec0 man0 dups0 :
  commit_pre c t0 i0 -> twf t0 ->
  let So := c_so c in let Mo := c_mo c in let h := head_of i0 in
  NoDup (i_dups i0) ->
  lookup t0 (So ++ [c_side c]) <> Some Dir ->
  (forall c0, lookup t0 (So ++ [h]) <> Some (File c0)) ->
  lookup t0 (So ++ [h; c_inv c]) <> Some Dir ->
  lookup t0 (So ++ [h; c_side c]) <> Some Dir ->
  (forall c0, lookup t0 (So ++ [h; c_cdir c]) <> Some (File c0)) ->
  (forall x n, lookup t0 x = Some n -> below (So ++ [h]) x = true ->
               x = So ++ [h; c_inv c] \/ x = So ++ [h; c_side c] \/ under (So ++ [h; c_cdir c]) x = true) ->
  is_decl_name h = false -> is_decl_name (i_spec i0) = true ->
  vs0 <> [] -> i_vs i0 = vs0 ++ [h] -> lookup t0 Mo = Some Dir ->
  read_file t0 (Mo ++ [c_inv c]) = Some (CInv k0 vs0 spec0 man0 dups0) ->
  obj_validb c t0 Mo = true ->
  (forall x, under (Mo ++ [h]) x = true -> lookup t0 x = None) ->
  (i_spec i0 <> spec0 -> lookup t0 (Mo ++ [i_spec i0]) = None) ->
  (forall x n, lookup t0 x = Some n -> is_child Mo x = true -> is_decl_name (last x []) = true -> exists c0, n = File c0) ->
  installed c t0 i0 (run_tree (commit c) t0 NoInj).
Proof.
  intros Pre W0. cbv zeta. intros H1 H2 H3 H4 H5 H6 H7 H8 H9 V0 VS MoD MInv Valid Free SpecNew Hdecls.
  apply commit_result; auto. intros t1 Q P HQ.
  eapply (wp_install_nv c t0 i0 Pre); eassumption.
Qed.

Theorem commit_installed_new_object c t0 i0 :
  commit_pre c t0 i0 -> twf t0 ->
  let So := c_so c in let Mo := c_mo c in let h := head_of i0 in
  NoDup (i_dups i0) ->
  lookup t0 (So ++ [c_side c]) <> Some Dir ->
  (forall c0, lookup t0 (So ++ [h]) <> Some (File c0)) ->
  lookup t0 (So ++ [h; c_inv c]) <> Some Dir ->
  lookup t0 (So ++ [h; c_side c]) <> Some Dir ->
  (forall c0, lookup t0 (So ++ [h; c_cdir c]) <> Some (File c0)) ->
  (forall x n, lookup t0 x = Some n -> below (So ++ [h]) x = true ->
               x = So ++ [h; c_inv c] \/ x = So ++ [h; c_side c] \/ under (So ++ [h; c_cdir c]) x = true) ->
  is_decl_name h = false -> is_decl_name (i_spec i0) = true ->
  i_vs i0 = [h] -> (forall x, under Mo x = true -> lookup t0 x = None) ->
  (forall x n, lookup t0 x = Some n -> below So x = true ->
     under (So ++ [h]) x = true \/ x = So ++ [c_inv c] \/ x = So ++ [c_side c]
     \/ (is_child So x = true /\ is_decl_name (last x []) = true /\ exists c0, n = File c0)) ->
  (forall q, q <> [] -> under q (parent Mo) = true -> lookup t0 q = None \/ lookup t0 q = Some Dir) ->
  installed c t0 i0 (run_tree (commit c) t0 NoInj).
Proof.
  intros Pre W0. cbv zeta. intros H1 H2 H3 H4 H5 H6 H7 H8 H9 VS1 Absent Shape Anc.
  apply commit_result; auto. intros t1 Q P HQ.
  eapply (wp_install_no c t0 i0 Pre); eassumption.
Qed.
