(** C01, file-system level: purge of an object leaves nothing of it, removes the ancestor directories it emptied and
    nothing else. *)
From Coq Require Import List NArith Ascii Bool Arith Lia.
From Rocfl Require Import Base.Bytes Model.FsOps Model.FsTree Model.Commit Model.CommitAbs
  Proofs.FsTreeFacts Proofs.CommitPhases Proofs.CommitAbsRun.
Import ListNotations.

(** std::fs::remove_dir_all of a directory *)
Lemma wp_rm_all : forall fuel p t (Q : unit -> tree -> Prop),
  twf t -> lookup t p = Some Dir -> deep t p fuel ->
  (forall t', twf t' -> (forall x, under p x = true -> lookup t' x = None) ->
              (forall x, under p x = false -> lookup t' x = lookup t x) -> Q tt t') ->
  wp (rm_all fuel p) t Q.
Proof.
  induction fuel as [|f IH]; intros p t Q W LP DP HQ; cbn [rm_all].
  - assert (Np : p <> []) by now destruct (twf_parent _ _ _ W LP).
    assert (NC : has_children t p = false).
    { apply has_children_false_iff. intros q B. destruct (lookup t q) eqn:E; [|reflexivity].
      exfalso. assert (X : lookup t q <> None) by congruence. specialize (DP q X B).
      apply below_iff in B as [U NE]. apply under_iff in U as [s ->]. rewrite app_length in DP.
      destruct s; [apply NE; now rewrite app_nil_r | cbn in DP; lia]. }
    eapply wp_step; [cbn [apply_step]; now apply fs_rmdir_empty|]. apply HQ.
    + apply twf_remove; [exact W | now apply has_children_false_iff].
    + intros x U. rewrite lookup_remove. destruct (path_eqb p x) eqn:E; [reflexivity|].
      apply path_eqb_neq in E. eapply has_children_false; [exact NC|]. apply below_iff. split; [exact U | congruence].
    + intros x U. apply lookup_remove_neq. intros ->. now rewrite under_refl in U.
  - assert (Np : p <> []) by now destruct (twf_parent _ _ _ W LP).
    apply wp_get_tree. apply wp_andthen.
    set (I := fun (rest : list (fpath * node)) (tc : tree) =>
      exists done, children t p = done ++ rest /\
        shrunk t tc /\ lookup tc p = Some Dir /\
        (forall x, under p x = false -> lookup tc x = lookup t x) /\
        (forall e, In e rest -> forall x, under (fst e) x = true -> lookup tc x = lookup t x) /\
        (forall e, In e done -> forall x, under (fst e) x = true -> lookup tc x = None)).
    eapply wp_conseq.
    + apply (wp_forM I).
      * intros [q n] rest tc (done & EC & S & LPc & F & R & C).
        assert (InC : In (q, n) (children t p)) by (rewrite EC; apply in_or_app; right; now left).
        apply (children_spec t p q n W) in InC as [Lq Cq]. cbn [fst snd].
        assert (Lq' : lookup tc q = Some n) by (rewrite (R (q, n)); [exact Lq | now left | apply under_refl]).
        assert (ND : NoDup (map fst (children t p))) by now apply children_nodup.
        assert (Other : forall e, In e done \/ In e rest -> fst e <> q).
        { intros e Ie X. rewrite EC, map_app in ND. cbn [map fst] in ND. apply NoDup_remove_2 in ND. apply ND.
          rewrite <- X. apply in_or_app. destruct Ie as [Ie|Ie]; [left | right]; now apply in_map. }
        assert (Sib : forall e, In e done \/ In e rest -> forall x, under (fst e) x = true -> under q x = false).
        { intros e Ie x U. destruct (under q x) eqn:E; [|reflexivity]. exfalso. apply (Other e Ie).
          assert (Ce : is_child p (fst e) = true).
          { assert (X : In e (children t p)) by (rewrite EC; apply in_or_app; destruct Ie; [left | right; right]; auto).
            destruct e as [q' n']. now apply (children_spec t p q' n' W) in X. }
          eapply children_disjoint; eauto. }
        assert (Fin : forall t2, twf t2 -> (forall x, under q x = true -> lookup t2 x = None) ->
                        (forall x, under q x = false -> lookup t2 x = lookup tc x) -> I rest t2).
        { intros t2 W2 G2 F2. exists (done ++ [(q, n)]). split; [now rewrite <- app_assoc|].
          split; [|split; [|split; [|split]]].
          - split; [exact W2|]. intros x. destruct (under q x) eqn:E; [right; now apply G2|].
            rewrite F2 by exact E. apply S.
          - rewrite F2; [exact LPc | now apply is_child_not_under].
          - intros x U. rewrite F2; [now apply F|]. destruct (under q x) eqn:E; [|reflexivity].
            rewrite (under_trans _ _ _ (is_child_under _ _ Cq) E) in U. discriminate.
          - intros e Ie x U. rewrite F2; [apply (R e); [now right | exact U]|]. apply (Sib e); auto.
          - intros e Ie x U. apply in_app_or in Ie as [Ie | [<- | []]]; [|now apply G2].
            rewrite F2; [now apply (C e)|]. apply (Sib e); auto. }
        destruct n as [|c0].
        -- apply IH; [apply S | exact Lq' | |].
           { intros x NX B. pose proof (is_child_length _ _ Cq) as LQ. rewrite LQ.
             assert (X : lookup t x <> None).
             { destruct (lookup tc x) as [m|] eqn:E; [|congruence]. rewrite (shrunk_some _ _ _ _ S E). discriminate. }
             assert (Bp : below p x = true).
             { apply below_iff. apply below_iff in B as [U NE]. split; [eapply under_trans; [exact (is_child_under _ _ Cq) | exact U]|].
               intros ->. rewrite (is_child_not_under _ _ Cq) in U. discriminate. }
             specialize (DP x X Bp). lia. }
           intros t2 W2 G2 F2. now apply Fin.
        -- assert (Nq : q <> []) by (apply is_child_inv in Cq as [a ->]; now destruct p).
           eapply wp_step; [cbn [apply_step]; apply (fs_unlink_file tc q c0 Nq Lq')|].
           apply Fin.
           ++ apply twf_remove; [apply S|]. intros y B. apply (twf_no_children tc q y (proj1 S) Nq); [congruence | exact B].
           ++ intros x U. rewrite lookup_remove. destruct (path_eqb q x) eqn:E; [reflexivity|]. apply path_eqb_neq in E.
              apply (twf_no_children tc q x (proj1 S) Nq); [congruence|]. apply below_iff. split; [exact U | congruence].
           ++ intros x U. apply lookup_remove_neq. intros ->. now rewrite under_refl in U.
      * exists []. split; [reflexivity|]. split; [now apply shrunk_refl|]. repeat split; auto. intros e [].
    + intros [] tl (done & EC & S & LPl & F & _ & C). rewrite app_nil_r in EC. subst done.
      assert (NC : has_children tl p = false).
      { apply has_children_false_iff. intros x B. destruct (lookup tl x) as [m|] eqn:Lx; [|reflexivity]. exfalso.
        destruct (below_child p x B) as (a & s & ->).
        assert (Lt : lookup t ((p ++ [a]) ++ s) = Some m) by (eapply shrunk_some; eauto).
        assert (Lq : exists n, lookup t (p ++ [a]) = Some n).
        { destruct s as [|s0 s]; [rewrite app_nil_r in Lt; eauto|]. exists Dir.
          apply (twf_prefix_dir t W (s0 :: s) (p ++ [a]) m Lt); [now destruct p | discriminate]. }
        destruct Lq as [n Lq].
        assert (InC : In (p ++ [a], n) (children t p)) by (apply children_spec; [exact W | split; [exact Lq | apply is_child_app]]).
        rewrite (C _ InC) in Lx; [discriminate | apply under_app]. }
      eapply wp_step; [cbn [apply_step]; now apply fs_rmdir_empty|]. apply HQ.
      * apply twf_remove; [apply S | now apply has_children_false_iff].
      * intros x U. rewrite lookup_remove. destruct (path_eqb p x) eqn:E; [reflexivity|].
        apply path_eqb_neq in E. eapply has_children_false; [exact NC|]. apply below_iff. split; [exact U | congruence].
      * intros x U. rewrite lookup_remove_neq; [now apply F|]. intros ->. now rewrite under_refl in U.
Qed.

(** clean_dirs_up, with what survives: an ancestor that is still there is not empty *)
Lemma wp_cdu_survivors rp : forall t (Q : unit -> tree -> Prop),
  twf t -> is_dir t (rev rp) = true ->
  (forall t', shrunk t t' ->
              (forall x, under x (rev rp) = false -> lookup t' x = lookup t x) ->
              (forall q, q <> [] -> under q (rev rp) = true -> lookup t' q = Some Dir -> has_children t' q = true) ->
              Q tt t') ->
  wp (cdu_rev rp) t Q.
Proof.
  induction rp as [|x rp IH]; intros t Q W D HQ; cbn [cdu_rev].
  - apply wp_ret. apply HQ; [now apply shrunk_refl | auto |]. intros q Nq U. destruct q; [contradiction | discriminate].
  - cbv zeta. remember (rev (x :: rp)) as p eqn:Ep. assert (Np : p <> []) by (subst p; apply rev_cons_ne).
    assert (PP : parent p = rev rp) by (subst p; apply rev_cons_parent).
    apply wp_get_tree. rewrite D. cbn [negb].
    destruct (has_children t p) eqn:HC.
    + apply wp_ret. apply HQ; [now apply shrunk_refl | auto|].
      intros q Nq U L. destruct (path_eq_dec q p) as [-> | NE]; [exact HC|].
      apply is_dir_inv in D as [D|D]; [contradiction|].
      apply (has_children_true t q p Dir D). apply below_iff. split; auto.
    + apply is_dir_inv in D as [D|D]; [contradiction|].
      apply wp_andthen. eapply wp_step; [cbn [apply_step]; now apply fs_rmdir_empty|].
      assert (S1 : shrunk t (remove p t)) by (apply shrunk_remove; [exact W | now apply has_children_false_iff]).
      apply IH; [apply S1 | |].
      { destruct (twf_parent _ _ _ W D) as [_ DP]. rewrite PP in DP.
        rewrite is_dir_remove_other; [exact DP|]. rewrite <- PP. intros X.
        pose proof (parent_below p Np) as B. rewrite <- X in B. apply below_iff in B as [_ B]. now apply B. }
      intros t' S2 F2 N2. apply HQ; [eapply shrunk_trans; eauto | |].
      * intros y U. rewrite F2.
        -- apply lookup_remove_neq. intros ->. now rewrite under_refl in U.
        -- destruct (under y (rev rp)) eqn:E; [|reflexivity]. rewrite <- PP in E.
           rewrite (under_trans _ _ _ E (under_parent p)) in U. discriminate.
      * intros q Nq U L. destruct (path_eq_dec q p) as [-> | NE].
        -- exfalso. destruct S2 as [_ S2]. destruct (S2 p) as [E|E]; rewrite E in L; [|discriminate].
           rewrite lookup_remove_eq in L. discriminate.
        -- apply N2; auto. rewrite <- PP.
           destruct (nonempty_last p Np) as [l [z Ez]]. rewrite Ez in U |- *. rewrite parent_app.
           apply prefix_app_single in U as [X | X]; [|exact X]. exfalso. apply NE. now rewrite Ez.
Qed.

Lemma wp_run {A} (m : M A) t (Q : A -> tree -> Prop) :
  wp m t Q -> exists a, fst (run m t NoInj) = ROk a /\ Q a (run_tree m t NoInj).
Proof.
  intros (a & t' & R & HQ). unfold run_tree, run.
  destruct (R (init_world t NoInj)) as (w' & E & _ & T); [split; reflexivity | reflexivity|].
  exists a. rewrite E. cbn. now rewrite T.
Qed.

Theorem purge_main_spec mo t :
  twf t -> mo <> [] -> lookup t mo = Some Dir -> is_object_rootb t mo = true ->
  let t' := run_tree (purge_main mo) t NoInj in
  fst (run (purge_main mo) t NoInj) = ROk tt /\ twf t'
  /\ (forall x, under mo x = true -> lookup t' x = None)
  /\ (forall q, q <> [] -> under q (parent mo) = true -> lookup t' q = Some Dir -> has_children t' q = true)
  /\ (forall x, under mo x = false -> under x mo = false -> lookup t' x = lookup t x).
Proof.
  intros W Nm LM OR.
  assert (WP : wp (purge_main mo) t (fun _ t' => twf t'
            /\ (forall x, under mo x = true -> lookup t' x = None)
            /\ (forall q, q <> [] -> under q (parent mo) = true -> lookup t' q = Some Dir -> has_children t' q = true)
            /\ (forall x, under mo x = false -> under x mo = false -> lookup t' x = lookup t x))).
  { unfold purge_main. apply wp_andthen, wp_ensure_open. apply wp_get_tree.
    unfold exists_at. rewrite (node_at_lookup _ _ Nm), LM, (is_dir_lookup _ _ LM), OR. cbn [negb andb orb].
    apply wp_andthen. apply wp_bind. apply wp_attempt. unfold remove_dir_all. apply wp_get_tree.
    apply wp_rm_all; [exact W | exact LM | now apply deep_length|].
    intros t2 W2 G2 F2. apply wp_ret. apply wp_get_tree.
    assert (PNU : under mo (parent mo) = false) by now apply not_under_parent.
    assert (DP : is_dir t2 (parent mo) = true).
    { rewrite (is_dir_ext t); [now destruct (twf_parent _ _ _ W LM)|]. intros _. now apply F2. }
    assert (EX : match node_at t2 (parent mo) with Some _ => true | None => false end = true).
    { unfold is_dir in DP. destruct (node_at t2 (parent mo)) as [[|c0]|]; try discriminate; reflexivity. }
    rewrite EX. apply wp_andthen. apply wp_attempt. unfold clean_dirs_up. apply wp_cdu_survivors; [exact W2 | now rewrite rev_involutive|].
    rewrite rev_involutive. intros t3 S3 F3 N3. apply wp_ret. split; [apply S3|]. split; [|split].
    - intros x U. destruct S3 as [_ S3]. destruct (S3 x) as [E|E]; [rewrite E; now apply G2 | exact E].
    - exact N3.
    - intros x U1 U2. rewrite F3, F2; auto. destruct (under x (parent mo)) eqn:E; [|reflexivity].
      rewrite (under_trans _ _ _ E (under_parent mo)) in U2. discriminate. }
  destruct (wp_run _ _ _ WP) as ([] & E & H). cbv zeta. split; [exact E | exact H].
Qed.
