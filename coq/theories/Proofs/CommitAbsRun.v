(** C01, file-system level: the fault-free run of the commit protocol, symbolically.

    [runs m t r t']: in every world without pending event whose repository is open and whose tree is t, the
    program m returns r and leaves the tree t' (trace, log and the fired marker do not influence it).
    [wp m t Q]: m succeeds from t with a value and a tree satisfying Q.  Rules for the monad operations, then
    well-formedness of file trees ([twf]) under every system call, then the specifications of the utilities
    (create_dir_all, write_file, fs::copy, remove_file_ignore_not_found, clean_dirs_up, clean_dirs_down). *)
From Coq Require Import List NArith Ascii Bool Arith Lia.
From Rocfl Require Import Base.Bytes Model.FsOps Model.FsTree Model.Commit Model.CommitAbs
  Proofs.FsTreeFacts Proofs.CommitFacts Proofs.CommitPreserve.
Import ListNotations.

(** * runs *)
Definition good (w : world) : Prop := w_inj w = NoInj /\ w_closed w = false.

Definition runs {A} (m : M A) (t : tree) (r : out A) (t' : tree) : Prop :=
  forall w, good w -> w_tree w = t -> exists w', m w = (r, w') /\ good w' /\ w_tree w' = t'.

Definition wp {A} (m : M A) (t : tree) (Q : A -> tree -> Prop) : Prop :=
  exists a t', runs m t (ROk a) t' /\ Q a t'.

Lemma runs_ret {A} (a : A) t : runs (ret a) t (ROk a) t.
Proof. intros w G E. exists w. auto. Qed.

Lemma runs_throw {A} e t : runs (@throw A e) t (RErr e) t.
Proof. intros w G E. exists w. auto. Qed.

Lemma runs_bind {A B} (m : M A) (f : A -> M B) t a t1 r t2 :
  runs m t (ROk a) t1 -> runs (f a) t1 r t2 -> runs (bind m f) t r t2.
Proof.
  intros Hm Hf w G E. destruct (Hm w G E) as (w1 & E1 & G1 & T1).
  destruct (Hf w1 G1 T1) as (w2 & E2 & G2 & T2). exists w2. unfold bind. rewrite E1. auto.
Qed.

Lemma runs_bind_err {A B} (m : M A) (f : A -> M B) t e t1 :
  runs m t (RErr e) t1 -> runs (bind m f) t (RErr e) t1.
Proof.
  intros Hm w G E. destruct (Hm w G E) as (w1 & E1 & G1 & T1). exists w1. unfold bind. rewrite E1. auto.
Qed.

Lemma runs_get_tree {A} (f : tree -> M A) t r t' : runs (f t) t r t' -> runs (bind get_tree f) t r t'.
Proof. intros Hf w G E. unfold bind, get_tree. rewrite E. now apply Hf. Qed.

Lemma runs_get_closed {A} (f : bool -> M A) t r t' : runs (f false) t r t' -> runs (bind get_closed f) t r t'.
Proof. intros Hf w G E. unfold bind, get_closed. destruct G as [G1 G2]. rewrite G2. apply Hf; [split|]; auto. Qed.

Lemma runs_step_ok s t t' : apply_step s t = FOk t' -> runs (step s) t (ROk tt) t'.
Proof.
  intros HS w [G1 G2] E. unfold step. destruct w as [tw i cl tr lg fr]. cbn in *. subst i tw cl. rewrite HS.
  eexists. split; [reflexivity|]. cbn. repeat split.
Qed.

Lemma runs_step_err s t e : apply_step s t = FErr e -> runs (step s) t (RErr (EFs e)) t.
Proof.
  intros HS w [G1 G2] E. unfold step. destruct w as [tw i cl tr lg fr]. cbn in *. subst i tw cl. rewrite HS.
  eexists. split; [reflexivity|]. cbn. repeat split.
Qed.

Lemma runs_catch_ok {A} (m : M A) h t a t' : runs m t (ROk a) t' -> runs (catch m h) t (ROk a) t'.
Proof. intros Hm w G E. destruct (Hm w G E) as (w1 & E1 & G1 & T1). exists w1. unfold catch. rewrite E1. auto. Qed.

Lemma runs_catch_err {A} (m : M A) h t e t1 r t2 :
  runs m t (RErr e) t1 -> runs (h e) t1 r t2 -> runs (catch m h) t r t2.
Proof.
  intros Hm Hh w G E. destruct (Hm w G E) as (w1 & E1 & G1 & T1).
  destruct (Hh w1 G1 T1) as (w2 & E2 & G2 & T2). exists w2. unfold catch. rewrite E1. auto.
Qed.

Lemma runs_attempt_ok {A} (m : M A) t a t' : runs m t (ROk a) t' -> runs (attempt m) t (ROk None) t'.
Proof.
  intros Hm. unfold attempt. apply runs_catch_ok. eapply runs_bind; [exact Hm | apply runs_ret].
Qed.

Lemma runs_attempt_err {A} (m : M A) t e t' : runs m t (RErr e) t' -> runs (attempt m) t (ROk (Some e)) t'.
Proof.
  intros Hm. unfold attempt. eapply runs_catch_err; [apply runs_bind_err; exact Hm | apply runs_ret].
Qed.

(** * wp *)
Lemma wp_ret {A} (a : A) t (Q : A -> tree -> Prop) : Q a t -> wp (ret a) t Q.
Proof. intros H. exists a, t. split; [apply runs_ret | exact H]. Qed.

Lemma wp_bind {A B} (m : M A) (f : A -> M B) t (Q : B -> tree -> Prop) :
  wp m t (fun a t1 => wp (f a) t1 Q) -> wp (bind m f) t Q.
Proof.
  intros (a & t1 & R1 & (x & t2 & R2 & HQ)). exists x, t2. split; [eapply runs_bind; eauto | exact HQ].
Qed.

Lemma wp_andthen {A B} (m : M A) (k : M B) t (Q : B -> tree -> Prop) :
  wp m t (fun _ t1 => wp k t1 Q) -> wp (m ;; k) t Q.
Proof. apply wp_bind. Qed.

Lemma wp_conseq {A} (m : M A) t (Q Q' : A -> tree -> Prop) :
  wp m t Q -> (forall a t', Q a t' -> Q' a t') -> wp m t Q'.
Proof. intros (a & t' & R & HQ) HI. exists a, t'. auto. Qed.

Lemma wp_get_tree {A} (f : tree -> M A) t Q : wp (f t) t Q -> wp (bind get_tree f) t Q.
Proof. intros (a & t' & R & HQ). exists a, t'. split; [now apply runs_get_tree | exact HQ]. Qed.

Lemma wp_get_closed {A} (f : bool -> M A) t Q : wp (f false) t Q -> wp (bind get_closed f) t Q.
Proof. intros (a & t' & R & HQ). exists a, t'. split; [now apply runs_get_closed | exact HQ]. Qed.

Lemma wp_ensure_open t (Q : unit -> tree -> Prop) : Q tt t -> wp ensure_open t Q.
Proof. intros H. unfold ensure_open. apply wp_get_closed. now apply wp_ret. Qed.

Lemma wp_step s t t' (Q : unit -> tree -> Prop) : apply_step s t = FOk t' -> Q tt t' -> wp (step s) t Q.
Proof. intros HS HQ. exists tt, t'. split; [now apply runs_step_ok | exact HQ]. Qed.

(** `attempt (step s)`: both outcomes *)
Lemma wp_attempt_step s t (Q : option cerr -> tree -> Prop) :
  match apply_step s t with FOk t' => Q None t' | FErr e => Q (Some (EFs e)) t end ->
  wp (attempt (step s)) t Q.
Proof.
  destruct (apply_step s t) as [t'|e] eqn:E; intros HQ.
  - exists None, t'. split; [eapply runs_attempt_ok, runs_step_ok; exact E | exact HQ].
  - exists (Some (EFs e)), t. split; [eapply runs_attempt_err, runs_step_err; exact E | exact HQ].
Qed.

Lemma wp_attempt {A} (m : M A) t (Q : option cerr -> tree -> Prop) :
  wp m t (fun _ t' => Q None t') -> wp (attempt m) t Q.
Proof. intros (a & t' & R & HQ). exists None, t'. split; [eapply runs_attempt_ok; exact R | exact HQ]. Qed.

Lemma wp_catch {A} (m : M A) h t (Q : A -> tree -> Prop) : wp m t Q -> wp (catch m h) t Q.
Proof. intros (a & t' & R & HQ). exists a, t'. split; [now apply runs_catch_ok | exact HQ]. Qed.

(** a loop with an invariant indexed by the elements still to come *)
Lemma wp_forM {A} (I : list A -> tree -> Prop) (f : A -> M unit) :
  (forall x rest t, I (x :: rest) t -> wp (f x) t (fun _ t' => I rest t')) ->
  forall l t, I l t -> wp (forM_ l f) t (fun _ t' => I [] t').
Proof.
  intros Hf. induction l as [|x l IH]; intros t HI; cbn [forM_].
  - now apply wp_ret.
  - apply wp_andthen. eapply wp_conseq; [apply Hf; exact HI|]. intros u t' HI'. now apply IH.
Qed.

(** * lists of keys *)
Lemma lookup_notin t p : ~ In p (map fst t) -> lookup t p = None.
Proof.
  intros H. destruct (lookup t p) as [n|] eqn:E; [|reflexivity].
  apply lookup_In in E. exfalso. apply H. apply in_map_iff. now exists (p, n).
Qed.

Lemma In_lookup_nodup t p n : NoDup (map fst t) -> In (p, n) t -> lookup t p = Some n.
Proof.
  induction t as [|[q m] t IH]; cbn; intros ND I; [contradiction|].
  inversion ND as [|? ? N1 N2]; subst. destruct I as [I|I].
  - injection I as -> ->. now rewrite path_eqb_refl.
  - destruct (path_eqb q p) eqn:E.
    + apply path_eqb_eq in E. subst q. exfalso. apply N1. apply in_map_iff. now exists (p, n).
    + now apply IH.
Qed.

Lemma map_fst_filter_NoDup {X Y} (f : X * Y -> bool) (l : list (X * Y)) :
  NoDup (map fst l) -> NoDup (map fst (filter f l)).
Proof.
  induction l as [|e l IH]; cbn; intros ND; [constructor|].
  inversion ND as [|? ? N1 N2]; subst. destruct (f e); cbn; [constructor|]; auto.
  intros I. apply N1. apply in_map_iff in I as [e' [E I]]. apply filter_In in I as [I _].
  apply in_map_iff. now exists e'.
Qed.

Lemma remove_keys p t : forall q, In q (map fst (remove p t)) <-> In q (map fst t) /\ q <> p.
Proof.
  intros q. unfold remove. rewrite !in_map_iff. split.
  - intros [e [E I]]. apply filter_In in I as [I N]. apply negb_true_iff, path_eqb_neq in N.
    split; [now exists e | congruence].
  - intros [[e [E I]] N]. exists e. split; [exact E|]. apply filter_In. split; [exact I|].
    apply negb_true_iff, path_eqb_neq. congruence.
Qed.

(** * well-formed trees *)
Lemma twf_nodup t : twf t -> NoDup (map fst t).
Proof. now intros [H _]. Qed.

Lemma twf_In_lookup t p n : twf t -> (In (p, n) t <-> lookup t p = Some n).
Proof. intros [ND _]. split; [now apply In_lookup_nodup | apply lookup_In]. Qed.

Lemma twf_parent t p n : twf t -> lookup t p = Some n -> p <> [] /\ is_dir t (parent p) = true.
Proof. intros [_ H] L. apply (H p n). now apply lookup_In. Qed.

Lemma twf_intro t :
  NoDup (map fst t) -> (forall p n, lookup t p = Some n -> p <> [] /\ is_dir t (parent p) = true) -> twf t.
Proof. intros ND H. split; [exact ND|]. intros p n I. apply (H p n). now apply In_lookup_nodup. Qed.

(** every non-empty proper prefix of a bound path is a directory *)
Lemma twf_prefix_dir t : twf t -> forall s p n, lookup t (p ++ s) = Some n -> p <> [] -> s <> [] -> lookup t p = Some Dir.
Proof.
  intros W s. induction s as [|a s IH] using rev_ind; intros p n L Np Ns; [contradiction|].
  rewrite app_assoc in L. destruct (twf_parent _ _ _ W L) as [_ D]. rewrite parent_app in D.
  destruct s as [|b s'].
  - rewrite app_nil_r in D. apply is_dir_inv in D as [D|D]; [contradiction | exact D].
  - apply is_dir_inv in D as [D|D]; [destruct p; discriminate|]. apply (IH p Dir D Np). discriminate.
Qed.

Lemma twf_below_dir t p q n : twf t -> lookup t q = Some n -> below p q = true -> p <> [] -> lookup t p = Some Dir.
Proof.
  intros W L B Np. apply below_iff in B as [U NE]. apply under_iff in U as [s ->].
  apply (twf_prefix_dir t W s p n L Np). intros ->. apply NE. now rewrite app_nil_r.
Qed.

(** a regular file and an absent path have nothing below them *)
Lemma twf_no_children t p q : twf t -> p <> [] -> lookup t p <> Some Dir -> below p q = true -> lookup t q = None.
Proof.
  intros W Np ND B. destruct (lookup t q) as [n|] eqn:E; [|reflexivity].
  exfalso. apply ND. eapply twf_below_dir; eauto.
Qed.

Lemma is_dir_insert_other t p n q : p <> q -> is_dir (insert p n t) q = is_dir t q.
Proof.
  intros NE. unfold is_dir, node_at. destruct q; [reflexivity|]. now rewrite lookup_insert_neq.
Qed.

Lemma is_dir_remove_other t p q : p <> q -> is_dir (remove p t) q = is_dir t q.
Proof.
  intros NE. unfold is_dir, node_at. destruct q; [reflexivity|]. now rewrite lookup_remove_neq.
Qed.

Lemma nodup_insert t p n : NoDup (map fst t) -> NoDup (map fst (insert p n t)).
Proof.
  intros ND. unfold insert. cbn. constructor.
  - intros I. apply remove_keys in I as [_ I]. now apply I.
  - unfold remove. now apply map_fst_filter_NoDup.
Qed.

Lemma nodup_remove t p : NoDup (map fst t) -> NoDup (map fst (remove p t)).
Proof. intros ND. unfold remove. now apply map_fst_filter_NoDup. Qed.

Lemma parent_below p : p <> [] -> below (parent p) p = true.
Proof.
  intros N. destruct (nonempty_last p N) as [l [x ->]]. rewrite parent_app. apply below_app. discriminate.
Qed.

(** a new node, or a directory in place of a directory / a file in place of a file *)
Lemma twf_insert t p n :
  twf t -> p <> [] -> is_dir t (parent p) = true ->
  (lookup t p = None \/ (exists c c', lookup t p = Some (File c) /\ n = File c') \/ (lookup t p = Some Dir /\ n = Dir)) ->
  twf (insert p n t).
Proof.
  intros W Np Dp Hc. apply twf_intro; [apply nodup_insert, twf_nodup, W|].
  intros q m L. rewrite lookup_insert in L. destruct (path_eqb p q) eqn:E.
  - apply path_eqb_eq in E. subst q. split; [exact Np|].
    rewrite is_dir_insert_other; [exact Dp|]. intros X. pose proof (parent_below p Np) as B. rewrite <- X in B.
    apply below_iff in B as [_ B]. now apply B.
  - apply path_eqb_neq in E. destruct (twf_parent _ _ _ W L) as [Nq Dq]. split; [exact Nq|].
    destruct (path_eq_dec p (parent q)) as [X|X]; [|now rewrite is_dir_insert_other].
    (* q is a child of p: p was a directory, and stays one *)
    assert (LP : lookup t p = Some Dir).
    { rewrite <- X in Dq. apply is_dir_inv in Dq as [Dq|Dq]; [contradiction | exact Dq]. }
    destruct Hc as [Hc | [(c & c' & Hc & _) | [_ ->]]]; try congruence.
    apply is_dir_lookup. rewrite <- X. apply lookup_insert_eq.
Qed.

(** removing a node that has nothing below it *)
Lemma twf_remove t p : twf t -> (forall q, below p q = true -> lookup t q = None) -> twf (remove p t).
Proof.
  intros W NC. apply twf_intro; [apply nodup_remove, twf_nodup, W|].
  intros q m L. rewrite lookup_remove in L. destruct (path_eqb p q) eqn:E; [discriminate|].
  apply path_eqb_neq in E. destruct (twf_parent _ _ _ W L) as [Nq Dq]. split; [exact Nq|].
  rewrite is_dir_remove_other; [exact Dq|]. intros X. rewrite (NC q) in L; [discriminate|].
  rewrite X. now apply parent_below.
Qed.

Lemma has_children_false_iff t p : has_children t p = false <-> (forall q, below p q = true -> lookup t q = None).
Proof.
  split.
  - intros H q B. eapply has_children_false; eauto.
  - intros H. destruct (has_children t p) eqn:E; [|reflexivity]. unfold has_children in E.
    apply existsb_exists in E as [[q n] [I B]]. cbn in B. apply In_lookup in I as [m I]. rewrite (H q B) in I. discriminate.
Qed.

Lemma has_children_true_iff t p : has_children t p = true <-> exists q n, below p q = true /\ lookup t q = Some n.
Proof.
  split.
  - intros E. unfold has_children in E. apply existsb_exists in E as [[q n] [I B]]. cbn in B.
    apply In_lookup in I as [m I]. eauto.
  - intros (q & n & B & L). eapply has_children_true; eauto.
Qed.

(** ** rename *)
Lemma filter_all_id {X} (f : X -> bool) (l : list X) : (forall x, In x l -> f x = true) -> filter f l = l.
Proof.
  induction l as [|x l IH]; cbn; intros H; [reflexivity|].
  rewrite (H x (or_introl eq_refl)). f_equal. apply IH. intros y I. apply H. now right.
Qed.

Lemma parent_length (p : fpath) : p <> [] -> S (List.length (parent p)) = List.length p.
Proof. intros N. destruct (nonempty_last p N) as [l [x ->]]. rewrite parent_app, app_length. cbn. lia. Qed.

Lemma not_under_parent (c : fpath) : c <> [] -> under c (parent c) = false.
Proof.
  intros N. destruct (under c (parent c)) eqn:E; [|reflexivity].
  apply under_length in E. pose proof (parent_length c N). lia.
Qed.

Lemma is_dir_ext t t' q : (q <> [] -> lookup t' q = lookup t q) -> is_dir t' q = is_dir t q.
Proof. intros H. unfold is_dir, node_at. destruct q; [reflexivity|]. rewrite H; [reflexivity | discriminate]. Qed.

Lemma rekey_key a c e : fst (rekey a c e) = if under a (fst e) then c ++ skipn (List.length a) (fst e) else fst e.
Proof. unfold rekey. now destruct (under a (fst e)). Qed.

Lemma twf_rename t a c :
  twf t -> a <> [] -> c <> [] -> under a c = false -> under c a = false ->
  is_dir t (parent c) = true -> (forall y, under c y = true -> lookup t y = None) ->
  twf (map (rekey a c) (remove c t)).
Proof.
  intros W Na Nc Hac Hca Dc Free.
  assert (LK : forall x, lookup (map (rekey a c) (remove c t)) x =
                         if under c x then lookup t (a ++ skipn (List.length c) x)
                         else if under a x then None else lookup t x)
    by (intros x; now apply lookup_rename_fresh).
  assert (RM : remove c t = t).
  { unfold remove. apply filter_all_id. intros [q n] I. cbn.
    apply negb_true_iff, path_eqb_neq. intros ->. apply In_lookup in I as [m I].
    rewrite (Free c (under_refl c)) in I. discriminate. }
  rewrite RM in *.
  apply twf_intro.
  - (* keys *)
    destruct W as [ND _]. clear LK RM Dc. induction t as [|[q n] t IH]; cbn; [constructor|].
    inversion ND as [|? ? N1 N2]; subst.
    assert (Free' : forall y, under c y = true -> lookup t y = None).
    { intros y U. specialize (Free y U). cbn in Free. destruct (path_eqb q y); [discriminate | exact Free]. }
    assert (Hq : under c q = false).
    { destruct (under c q) eqn:E; [|reflexivity]. specialize (Free q E). cbn in Free. now rewrite path_eqb_refl in Free. }
    constructor; [|now apply IH].
    intros I. apply in_map_iff in I as [e' [E I]]. apply in_map_iff in I as [[q' n'] [<- I]].
    rewrite !rekey_key in E. cbn [fst] in E.
    assert (Hq' : under c q' = false).
    { destruct (under c q') eqn:E'; [|reflexivity]. apply In_lookup in I as [m I]. rewrite (Free' q' E') in I. discriminate. }
    assert (q' = q).
    { destruct (under a q') eqn:A', (under a q) eqn:A.
      - apply app_inv_head in E. rewrite (under_skipn _ _ A'), (under_skipn _ _ A). now f_equal.
      - subst q. now rewrite under_app in Hq.
      - subst q'. now rewrite under_app in Hq'.
      - exact E. }
    subst q'. apply N1. apply in_map_iff. now exists (q, n').
  - intros x n L. rewrite LK in L. destruct (under c x) eqn:Ucx.
    + (* x = c ++ s, from a ++ s *)
      apply under_iff in Ucx as [s ->]. rewrite skipn_app, skipn_all, Nat.sub_diag in L. cbn [skipn app] in L.
      split; [now destruct c|].
      destruct s as [|s0 s] using rev_ind.
      * rewrite app_nil_r. rewrite (is_dir_ext t); [exact Dc|]. intros _. rewrite LK.
        assert (U1 : under c (parent c) = false) by now apply not_under_parent.
        assert (U2 : under a (parent c) = false).
        { destruct (under a (parent c)) eqn:E; [|reflexivity].
          rewrite (under_trans _ _ _ E (under_parent c)) in Hac. discriminate. }
        now rewrite U1, U2.
      * clear IHs. rewrite !app_assoc, parent_app. rewrite app_assoc in L.
        destruct (twf_parent _ _ _ W L) as [_ D]. rewrite parent_app in D.
        apply is_dir_inv in D as [D|D]; [destruct a; discriminate|].
        apply is_dir_lookup. rewrite LK, under_app, skipn_app, skipn_all, Nat.sub_diag. cbn [skipn app]. exact D.
    + destruct (under a x) eqn:Uax; [discriminate|].
      destruct (twf_parent _ _ _ W L) as [Nx D]. split; [exact Nx|].
      rewrite (is_dir_ext t); [exact D|]. intros _. rewrite LK.
      assert (U1 : under c (parent x) = false).
      { destruct (under c (parent x)) eqn:E; [|reflexivity].
        rewrite (under_trans _ _ _ E (under_parent x)) in Ucx. discriminate. }
      assert (U2 : under a (parent x) = false).
      { destruct (under a (parent x)) eqn:E; [|reflexivity].
        rewrite (under_trans _ _ _ E (under_parent x)) in Uax. discriminate. }
      now rewrite U1, U2.
Qed.

(** ** every system call except rename keeps a tree well formed (the two renames of the protocol: [twf_rename]) *)
Definition not_rename (s : stepk) : Prop := match s with SRename _ _ => False | _ => True end.

Lemma twf_step s t t' : not_rename s -> twf t -> apply_step s t = FOk t' -> twf t'.
Proof.
  intros NR W HS. destruct s; cbn in HS; try contradiction.
  - unfold fs_mkdir in HS. destruct (creatable t p) eqn:C; [discriminate|]. injection HS as <-.
    apply creatable_None in C as (Np & L & D). apply twf_insert; auto.
  - unfold fs_create_new in HS. destruct (creatable t p) eqn:C; [discriminate|]. injection HS as <-.
    apply creatable_None in C as (Np & L & D). apply twf_insert; auto.
  - unfold fs_trunc in HS. destruct p as [|a p]; [cbn in HS; discriminate|]. cbn [node_at] in HS.
    destruct (lookup t (a :: p)) as [[|c0]|] eqn:L; [discriminate| |].
    + injection HS as <-. destruct (twf_parent _ _ _ W L) as [Np D]. apply twf_insert; auto.
      right. left. eauto.
    + destruct (creatable t (a :: p)) eqn:C; [discriminate|]. injection HS as <-.
      apply creatable_None in C as (Np & _ & D). apply twf_insert; auto.
  - now injection HS as <-.
  - apply fs_finish_ok in HS as [-> [c0 L]]. destruct (twf_parent _ _ _ W L) as [Np D]. apply twf_insert; auto.
    right. left. eauto.
  - now injection HS as <-.
  - apply fs_unlink_ok in HS as [-> [c0 L]]. destruct (twf_parent _ _ _ W L) as [Np D]. apply twf_remove; [exact W|].
    intros q B. apply (twf_no_children t p q W Np); [congruence | exact B].
  - apply fs_rmdir_ok in HS as (-> & L & NC). apply twf_remove; [exact W|]. now apply has_children_false_iff.
Qed.

Lemma pres_twf_step s : not_rename s -> preserves twf (step s).
Proof. intros NR. apply pres_step. intros t t' W E. eapply twf_step; eauto. Qed.

Lemma pres_twf_remove_file_inf p : preserves twf (remove_file_inf p).
Proof.
  unfold remove_file_inf. apply pres_bind.
  - apply pres_attempt. now apply pres_twf_step.
  - intros [e|]; [|apply pres_ret]. destruct e as [x| | | | | | | |]; try apply pres_throw.
    destruct x; try apply pres_throw. apply pres_ret.
Qed.

Lemma pres_twf_cdu rp : preserves twf (cdu_rev rp).
Proof.
  induction rp as [|x rp IH]; cbn [cdu_rev]; [apply pres_ret|].
  apply pres_get_tree. intros t.
  destruct (negb (is_dir t (rev (x :: rp)))); [apply pres_throw|].
  destruct (has_children t (rev (x :: rp))); [apply pres_ret|].
  apply pres_andthen; [now apply pres_twf_step | exact IH].
Qed.

Lemma pres_twf_rm_all fuel : forall p, preserves twf (rm_all fuel p).
Proof.
  induction fuel as [|f IH]; intros p; cbn [rm_all]; [now apply pres_twf_step|].
  apply pres_get_tree. intros t. apply pres_andthen; [|now apply pres_twf_step].
  apply pres_forM. intros [q n] _. cbn [fst snd]. destruct n; [apply IH | now apply pres_twf_step].
Qed.

Lemma pres_twf_purge_staged c : preserves twf (purge_staged c).
Proof.
  unfold purge_staged. apply pres_get_tree. intros t.
  match goal with |- preserves _ (if ?b then _ else _) => destruct b end; [apply pres_ret|].
  apply pres_andthen.
  - destruct (exists_at t (c_so c)); [|apply pres_ret].
    apply pres_bind; [apply pres_attempt; unfold remove_dir_all; apply pres_get_tree; intros; apply pres_twf_rm_all|].
    intros [e|]; [apply pres_throw | apply pres_ret].
  - apply pres_get_tree. intros t2. destruct (exists_at t2 (parent (c_so c))); [|apply pres_ret].
    apply pres_andthen; [apply pres_attempt; unfold clean_dirs_up; apply pres_twf_cdu | apply pres_ret].
Qed.

Lemma pres_twf_tail c : preserves twf (finally (purge_staged c) (unlock c)).
Proof. apply pres_finally; [apply pres_twf_purge_staged | unfold unlock; apply pres_twf_remove_file_inf]. Qed.

(** * the utilities *)

(** ** create_dir_all *)
Lemma rev_skipn_under {X} (j : nat) (rp : list X) : rev rp = rev (skipn j rp) ++ rev (firstn j rp).
Proof. rewrite <- rev_app_distr, firstn_skipn. reflexivity. Qed.

Lemma under_rev_skipn j (rp : list fseg) : under (rev (skipn j rp)) (rev rp) = true.
Proof. rewrite (rev_skipn_under j rp). apply under_app. Qed.

Lemma rev_cons_parent (x : fseg) rp : parent (rev (x :: rp)) = rev rp.
Proof. cbn [rev]. apply parent_app. Qed.

Lemma rev_cons_ne {X} (x : X) rp : rev (x :: rp) <> [].
Proof. cbn [rev]. now destruct (rev rp). Qed.

Lemma under_false_neq x q p : under x p = false -> under q p = true -> x <> q.
Proof. intros H1 H2 ->. congruence. Qed.

Lemma creatable_cases t p : p <> [] ->
  match creatable t p with
  | None => lookup t p = None /\ is_dir t (parent p) = true
  | Some EEXIST => lookup t p <> None
  | Some ENOENT => lookup t p = None /\ node_at t (parent p) = None
  | Some ENOTDIR => exists c, node_at t (parent p) = Some (File c)
  | Some _ => False
  end.
Proof.
  intros Np. unfold creatable, is_dir. destruct p as [|a p]; [contradiction|].
  destruct (lookup t (a :: p)); [discriminate|].
  destruct (node_at t (parent (a :: p))) as [[|c]|]; eauto.
Qed.

Lemma not_under_snoc (p : fpath) (x : fseg) : under (p ++ [x]) p = false.
Proof.
  destruct (under (p ++ [x]) p) eqn:E; [|reflexivity].
  apply under_length in E. rewrite app_length in E. cbn in E. lia.
Qed.

(** the upward phase: n components are missing above the directory q0 (which exists afterwards), nothing else changed *)
Lemma wp_cda_up rp : forall t (Q : nat -> tree -> Prop),
  twf t ->
  (forall q, q <> [] -> under q (rev rp) = true -> lookup t q = None \/ lookup t q = Some Dir) ->
  (forall n t1, twf t1 -> (n <= List.length rp)%nat ->
                is_dir t1 (rev (skipn n rp)) = true ->
                (forall j, (j < n)%nat -> lookup t1 (rev (skipn j rp)) = None) ->
                (forall x, under x (rev rp) = false -> lookup t1 x = lookup t x) -> Q n t1) ->
  wp (cda_up rp) t Q.
Proof.
  induction rp as [|x rp IH]; intros t Q W Pre HQ; cbn [cda_up].
  - apply wp_ret. apply HQ; auto. intros j Hj. lia.
  - cbv zeta. remember (rev (x :: rp)) as p eqn:Ep.
    assert (Np : p <> []) by (subst p; apply rev_cons_ne).
    assert (PP : parent p = rev rp) by (subst p; apply rev_cons_parent).
    assert (PU : under (rev rp) p = true) by (subst p; cbn [rev]; apply under_app).
    assert (PN : under p (rev rp) = false) by (subst p; cbn [rev]; apply not_under_snoc).
    apply wp_bind. apply wp_attempt_step. cbn [apply_step]. unfold fs_mkdir.
    pose proof (creatable_cases t p Np) as CC.
    destruct (creatable t p) as [[]|] eqn:C; try contradiction.
    + (* ENOENT: the parent is missing *)
      destruct CC as [L PNone]. apply wp_bind.
      apply IH; [exact W | |].
      { intros q Nq U. apply Pre; [exact Nq|]. eapply under_trans; [exact U | exact PU]. }
      intros n t1 W1 Ln D1 Hn F1. apply wp_ret. apply (HQ (S n) t1); auto.
      * cbn. lia.
      * intros [|j] Hj.
        -- cbn [skipn]. rewrite <- Ep. rewrite F1; [exact L | exact PN].
        -- cbn [skipn]. apply Hn. lia.
      * intros y U. apply F1. destruct (under y (rev rp)) eqn:E; [|reflexivity].
        rewrite (under_trans _ _ _ E PU) in U. discriminate.
    + (* EEXIST: a directory by the precondition *)
      destruct (Pre p Np (under_refl p)) as [X|X]; [congruence|].
      apply wp_get_tree. rewrite (is_dir_lookup _ _ X). apply wp_ret.
      apply (HQ O t); auto; [lia | cbn [skipn]; rewrite <- Ep; now apply is_dir_lookup | intros j Hj; lia].
    + (* ENOTDIR: excluded *)
      exfalso. destruct CC as [c0 CC]. rewrite PP in CC. unfold node_at in CC.
      destruct (rev rp) as [|r0 rr] eqn:ER; [discriminate|].
      assert (NZ : r0 :: rr <> []) by discriminate.
      destruct (Pre (r0 :: rr) NZ PU) as [X|X]; congruence.
    + destruct CC as [L D]. apply wp_ret.
      apply (HQ O (insert p Dir t)).
      * apply twf_insert; auto.
      * lia.
      * cbn [skipn]. rewrite <- Ep. apply is_dir_lookup, lookup_insert_eq.
      * intros j Hj. lia.
      * intros y U. apply lookup_insert_neq. intros ->. now rewrite under_refl in U.
Qed.

Lemma wp_cda_down : forall n rp t (Q : unit -> tree -> Prop),
  twf t -> (n <= List.length rp)%nat ->
  is_dir t (rev (skipn n rp)) = true ->
  (forall j, (j < n)%nat -> lookup t (rev (skipn j rp)) = None) ->
  (forall t', twf t' -> is_dir t' (rev rp) = true ->
              (forall y, under y (rev rp) = false -> lookup t' y = lookup t y) -> Q tt t') ->
  wp (cda_down rp n) t Q.
Proof.
  induction n as [|n IH]; intros rp t Q W Ln D Hn HQ.
  - destruct rp; cbn [cda_down]; apply wp_ret; apply HQ; auto.
  - destruct rp as [|x rp]; [cbn in Ln; lia|]. cbn [cda_down]. apply wp_andthen.
    apply IH; [exact W | cbn in Ln; lia | exact D | intros j Hj; apply (Hn (S j)); lia |].
    intros t1 W1 D1 F1. remember (rev (x :: rp)) as p eqn:Ep.
    assert (Np : p <> []) by (subst p; apply rev_cons_ne).
    assert (PP : parent p = rev rp) by (subst p; apply rev_cons_parent).
    assert (PU : under (rev rp) p = true) by (subst p; cbn [rev]; apply under_app).
    assert (PN : under p (rev rp) = false) by (subst p; cbn [rev]; apply not_under_snoc).
    assert (L1 : lookup t1 p = None).
    { rewrite F1; [|exact PN]. specialize (Hn O). cbn [skipn] in Hn. rewrite <- Ep in Hn. apply Hn. lia. }
    apply wp_bind. apply wp_attempt_step. cbn [apply_step].
    rewrite (fs_mkdir_new t1 p Np L1); [|now rewrite PP].
    apply wp_ret. apply HQ.
    + apply twf_insert; auto. now rewrite PP.
    + apply is_dir_lookup, lookup_insert_eq.
    + intros y U. rewrite lookup_insert_neq; [|intros X; rewrite X, under_refl in U; discriminate].
      apply F1. destruct (under y (rev rp)) eqn:E; [|reflexivity].
      rewrite (under_trans _ _ _ E PU) in U. discriminate.
Qed.

(** create_dir_all p: afterwards p is a directory; only prefixes of p (that were missing) changed *)
Lemma wp_create_dir_all p t (Q : unit -> tree -> Prop) :
  twf t ->
  (forall q, q <> [] -> under q p = true -> lookup t q = None \/ lookup t q = Some Dir) ->
  (forall t', twf t' -> is_dir t' p = true -> (forall y, under y p = false -> lookup t' y = lookup t y) -> Q tt t') ->
  wp (create_dir_all p) t Q.
Proof.
  intros W Pre HQ. unfold create_dir_all. apply wp_bind.
  apply wp_cda_up; [exact W | now rewrite rev_involutive |].
  intros n t1 W1 Ln D1 Hn F1. apply wp_cda_down; auto.
  intros t' W' D' F'. rewrite rev_involutive in *. apply HQ; auto.
  intros y U. rewrite F', F1; auto.
Qed.

(** a path that is a directory stays what it is: prefixes of p that exist are unchanged as well *)
Lemma create_dir_all_keeps t t' p :
  twf t -> twf t' -> is_dir t' p = true ->
  (forall y, under y p = false -> lookup t' y = lookup t y) ->
  (forall q, q <> [] -> under q p = true -> lookup t q = None \/ lookup t q = Some Dir) ->
  forall x, lookup t x <> None -> lookup t' x = lookup t x.
Proof.
  intros W W' D F Pre x NE. destruct (under x p) eqn:U; [|now apply F].
  destruct x as [|a x].
  { exfalso. destruct (lookup t []) as [n|] eqn:E; [|congruence]. now destruct (twf_parent _ _ _ W E). }
  destruct (Pre (a :: x)) as [X|X]; [discriminate | exact U | congruence |]. rewrite X.
  apply under_iff in U as [s E]. destruct s as [|s0 s].
  - rewrite app_nil_r in E. subst p. apply is_dir_inv in D as [D|D]; [discriminate | exact D].
  - apply is_dir_inv in D as [D|D]; [subst p; discriminate|]. rewrite E in D.
    apply (twf_prefix_dir t' W' (s0 :: s) (a :: x) Dir D); discriminate.
Qed.

(** ** files *)
Definition upd (p : fpath) (n : node) (t t' : tree) : Prop :=
  twf t' /\ lookup t' p = Some n /\ forall x, x <> p -> lookup t' x = lookup t x.

Lemma upd_insert t p n :
  twf t -> p <> [] -> is_dir t (parent p) = true ->
  (lookup t p = None \/ (exists c c', lookup t p = Some (File c) /\ n = File c') \/ (lookup t p = Some Dir /\ n = Dir)) ->
  upd p n t (insert p n t).
Proof.
  intros W Np D H. split; [now apply twf_insert|]. split; [apply lookup_insert_eq|].
  intros x NE. apply lookup_insert_neq. congruence.
Qed.

Lemma upd_trans p n1 n2 t t1 t2 : upd p n1 t t1 -> upd p n2 t1 t2 -> upd p n2 t t2.
Proof.
  intros (W1 & L1 & F1) (W2 & L2 & F2). split; [exact W2|]. split; [exact L2|].
  intros x NE. rewrite F2, F1; auto.
Qed.

(** File::create + write: the target is absent in a directory, or a regular file *)
Lemma wp_write_file p c t (Q : unit -> tree -> Prop) :
  twf t -> p <> [] ->
  ((lookup t p = None /\ is_dir t (parent p) = true) \/ exists c0, lookup t p = Some (File c0)) ->
  (forall t', upd p (File c) t t' -> Q tt t') ->
  wp (write_file p c) t Q.
Proof.
  intros W Np H HQ. unfold write_file. apply wp_andthen.
  assert (D : is_dir t (parent p) = true).
  { destruct H as [[_ D] | [c0 L]]; [exact D | now destruct (twf_parent _ _ _ W L)]. }
  assert (T : fs_trunc t p = FOk (insert p (File CPartial) t)).
  { destruct H as [[L _] | [c0 L]]; [now apply fs_trunc_new | now apply (fs_trunc_file t p c0)]. }
  assert (U1 : upd p (File CPartial) t (insert p (File CPartial) t)).
  { apply upd_insert; auto. destruct H as [[L _] | [c0 L]]; [now left | right; left; eauto]. }
  eapply wp_step; [exact T|].
  destruct U1 as (W1 & L1 & F1).
  eapply wp_step; [cbn [apply_step]; apply (fs_finish_file _ p c CPartial Np L1)|].
  apply HQ. eapply upd_trans; [split; [exact W1 | split; [exact L1 | exact F1]]|].
  apply upd_insert; auto.
  - destruct p as [|a p']; [contradiction|]. rewrite (is_dir_ext t); [exact D|]. intros _. apply F1.
    intros X. pose proof (parent_below (a :: p') Np) as B. rewrite X in B. apply below_iff in B as [_ B]. now apply B.
  - right. left. eauto.
Qed.

(** std::fs::copy *)
Lemma wp_copy_file a p c t (Q : unit -> tree -> Prop) :
  twf t -> p <> [] -> read_file t a = Some c ->
  ((lookup t p = None /\ is_dir t (parent p) = true) \/ exists c0, lookup t p = Some (File c0)) ->
  (forall t', upd p (File c) t t' -> Q tt t') ->
  wp (copy_file a p) t Q.
Proof.
  intros W Np R H HQ. unfold copy_file. apply wp_get_tree. rewrite R. apply wp_andthen.
  assert (D : is_dir t (parent p) = true).
  { destruct H as [[_ D] | [c0 L]]; [exact D | now destruct (twf_parent _ _ _ W L)]. }
  assert (T : fs_trunc t p = FOk (insert p (File CPartial) t)).
  { destruct H as [[L _] | [c0 L]]; [now apply fs_trunc_new | now apply (fs_trunc_file t p c0)]. }
  assert (U1 : upd p (File CPartial) t (insert p (File CPartial) t)).
  { apply upd_insert; auto. destruct H as [[L _] | [c0 L]]; [now left | right; left; eauto]. }
  eapply wp_step; [exact T|]. apply wp_andthen. eapply wp_step; [reflexivity|]. apply wp_andthen.
  destruct U1 as (W1 & L1 & F1).
  eapply wp_step; [cbn [apply_step]; apply (fs_finish_file _ p c CPartial Np L1)|].
  eapply wp_step; [reflexivity|].
  apply HQ. eapply upd_trans; [split; [exact W1 | split; [exact L1 | exact F1]]|].
  apply upd_insert; auto.
  - destruct p as [|a0 p']; [contradiction|]. rewrite (is_dir_ext t); [exact D|]. intros _. apply F1.
    intros X. pose proof (parent_below (a0 :: p') Np) as B. rewrite X in B. apply below_iff in B as [_ B]. now apply B.
  - right. left. eauto.
Qed.

(** ** removal: a tree that only lost nodes *)
Definition shrunk (t t' : tree) : Prop :=
  twf t' /\ forall x, lookup t' x = lookup t x \/ lookup t' x = None.

Lemma shrunk_refl t : twf t -> shrunk t t.
Proof. intros W. split; auto. Qed.

Lemma shrunk_trans t t1 t2 : shrunk t t1 -> shrunk t1 t2 -> shrunk t t2.
Proof.
  intros [W1 S1] [W2 S2]. split; [exact W2|]. intros x.
  destruct (S2 x) as [E|E]; [rewrite E; apply S1 | now right].
Qed.

Lemma shrunk_remove t p : twf t -> (forall q, below p q = true -> lookup t q = None) -> shrunk t (remove p t).
Proof.
  intros W NC. split; [now apply twf_remove|]. intros x. rewrite lookup_remove.
  destruct (path_eqb p x); auto.
Qed.

(** remove_file_ignore_not_found of a file that is there *)
Lemma wp_remove_file t p c0 (Q : unit -> tree -> Prop) :
  twf t -> lookup t p = Some (File c0) ->
  (forall t', shrunk t t' -> lookup t' p = None -> (forall x, x <> p -> lookup t' x = lookup t x) -> Q tt t') ->
  wp (remove_file_inf p) t Q.
Proof.
  intros W L HQ. unfold remove_file_inf. apply wp_bind. apply wp_attempt_step. cbn [apply_step].
  destruct (twf_parent _ _ _ W L) as [Np _]. rewrite (fs_unlink_file t p c0 Np L).
  apply wp_ret. apply HQ.
  - apply shrunk_remove; [exact W|]. intros q B. apply (twf_no_children t p q W Np); [congruence | exact B].
  - apply lookup_remove_eq.
  - intros x NE. apply lookup_remove_neq. congruence.
Qed.

(** ... and of one that is not *)
Lemma wp_remove_file_absent t p (Q : unit -> tree -> Prop) :
  p <> [] -> lookup t p = None -> Q tt t -> wp (remove_file_inf p) t Q.
Proof.
  intros Np L HQ. unfold remove_file_inf. apply wp_bind. apply wp_attempt_step. cbn [apply_step].
  unfold fs_unlink. rewrite (node_at_lookup _ _ Np), L. now apply wp_ret.
Qed.

(** clean_dirs_up from a directory: only empty directories on the way up disappear *)
Lemma wp_cdu rp : forall t (Q : unit -> tree -> Prop),
  twf t -> is_dir t (rev rp) = true ->
  (forall t', shrunk t t' ->
              (forall x, lookup t' x = lookup t x \/
                         (under x (rev rp) = true /\ lookup t x = Some Dir /\ has_children t' x = false)) ->
              Q tt t') ->
  wp (cdu_rev rp) t Q.
Proof.
  induction rp as [|x rp IH]; intros t Q W D HQ; cbn [cdu_rev].
  - apply wp_ret. apply HQ; [now apply shrunk_refl | intros y; now left].
  - cbv zeta. remember (rev (x :: rp)) as p eqn:Ep. assert (Np : p <> []) by (subst p; apply rev_cons_ne).
    assert (PP : parent p = rev rp) by (subst p; apply rev_cons_parent).
    apply wp_get_tree. rewrite D. cbn [negb].
    destruct (has_children t p) eqn:HC.
    + apply wp_ret. apply HQ; [now apply shrunk_refl | intros y; now left].
    + apply is_dir_inv in D as [D|D]; [contradiction|].
      apply wp_andthen. eapply wp_step; [cbn [apply_step]; now apply fs_rmdir_empty|].
      assert (S1 : shrunk t (remove p t)) by (apply shrunk_remove; [exact W | now apply has_children_false_iff]).
      apply IH; [apply S1 | |].
      { destruct (twf_parent _ _ _ W D) as [_ DP]. rewrite PP in DP.
        rewrite is_dir_remove_other; [exact DP|]. rewrite <- PP. intros X.
        pose proof (parent_below p Np) as B. rewrite <- X in B. apply below_iff in B as [_ B]. now apply B. }
      intros t' S2 F2. apply HQ; [eapply shrunk_trans; eauto|].
      intros y. destruct (path_eq_dec y p) as [-> | NY].
      * right. split; [apply under_refl|]. split; [exact D|].
        apply has_children_false_iff. intros q B. destruct S2 as [_ S2]. destruct (S2 q) as [E|E]; [|exact E].
        rewrite E, lookup_remove. destruct (path_eqb p q); [reflexivity|]. eapply has_children_false; eauto.
      * destruct (F2 y) as [E | (U & L & H)].
        -- left. rewrite E. apply lookup_remove_neq. congruence.
        -- right. rewrite lookup_remove_neq in L by congruence.
           split; [|split; auto]. eapply under_trans; [exact U|]. rewrite <- PP. apply under_parent.
Qed.

Lemma wp_clean_dirs_up p t (Q : unit -> tree -> Prop) :
  twf t -> is_dir t p = true ->
  (forall t', shrunk t t' ->
              (forall x, lookup t' x = lookup t x \/
                         (under x p = true /\ lookup t x = Some Dir /\ has_children t' x = false)) ->
              Q tt t') ->
  wp (clean_dirs_up p) t Q.
Proof.
  intros W D HQ. unfold clean_dirs_up. apply wp_cdu; [exact W | now rewrite rev_involutive |].
  rewrite rev_involutive. exact HQ.
Qed.

(** ** clean_dirs_down *)
Definition deep (t : tree) (p : fpath) (k : nat) : Prop :=
  forall q, lookup t q <> None -> below p q = true -> (List.length q <= List.length p + k)%nat.

(** no empty directory at or below p *)
Definition clean_below (t : tree) (p : fpath) : Prop :=
  forall x, under p x = true -> lookup t x = Some Dir -> has_children t x = true.

Lemma children_disjoint p q q' x :
  is_child p q = true -> is_child p q' = true -> under q x = true -> under q' x = true -> q = q'.
Proof.
  intros C1 C2 U1 U2. apply is_child_inv in C1 as [a ->]. apply is_child_inv in C2 as [a' ->].
  apply under_iff in U1 as [s ->]. apply under_iff in U2 as [s' E].
  rewrite <- !app_assoc in E. apply app_inv_head in E. cbn in E. now injection E as ->.
Qed.

Lemma children_spec t p q n : twf t -> (In (q, n) (children t p) <-> lookup t q = Some n /\ is_child p q = true).
Proof.
  intros W. unfold children. rewrite filter_In. cbn [fst]. now rewrite (twf_In_lookup t q n W).
Qed.

Lemma children_nodup t p : twf t -> NoDup (map fst (children t p)).
Proof. intros [ND _]. unfold children. now apply map_fst_filter_NoDup. Qed.

Lemma is_child_length p q : is_child p q = true -> List.length q = S (List.length p).
Proof. intros C. apply is_child_inv in C as [a ->]. rewrite app_length. cbn. lia. Qed.

Lemma is_child_not_under p q : is_child p q = true -> under q p = false.
Proof.
  intros C. destruct (under q p) eqn:E; [|reflexivity]. apply under_length in E. apply is_child_length in C. lia.
Qed.

Lemma is_child_under p q : is_child p q = true -> under p q = true.
Proof. intros C. now apply below_under, is_child_below. Qed.

(** the first step from p towards a path below it *)
Lemma below_child p x : below p x = true -> exists a s, x = (p ++ [a]) ++ s.
Proof.
  intros B. apply below_iff in B as [U NE]. apply under_iff in U as [s ->].
  destruct s as [|a s]; [exfalso; apply NE; now rewrite app_nil_r|]. exists a, s. now rewrite <- app_assoc.
Qed.

Lemma shrunk_some t t' x n : shrunk t t' -> lookup t' x = Some n -> lookup t x = Some n.
Proof. intros [_ S] L. destruct (S x) as [E|E]; congruence. Qed.

Lemma wp_cdd : forall fuel p t (Q : unit -> tree -> Prop),
  twf t -> lookup t p = Some Dir -> deep t p fuel ->
  (forall t', shrunk t t' ->
              (forall x, under p x = false -> lookup t' x = lookup t x) ->
              (forall x c, lookup t x = Some (File c) -> lookup t' x = Some (File c)) ->
              clean_below t' p -> Q tt t') ->
  wp (cdd fuel p) t Q.
Proof.
  induction fuel as [|f IH]; intros p t Q W LP DP HQ; cbn [cdd].
  - assert (Np : p <> []) by now destruct (twf_parent _ _ _ W LP).
    assert (NC : has_children t p = false).
    { apply has_children_false_iff. intros q B. destruct (lookup t q) eqn:E; [|reflexivity].
      exfalso. assert (X : lookup t q <> None) by congruence. specialize (DP q X B).
      apply below_iff in B as [U NE]. apply under_iff in U as [s ->]. rewrite app_length in DP.
      destruct s; [apply NE; now rewrite app_nil_r | cbn in DP; lia]. }
    apply wp_andthen. apply wp_ret. apply wp_get_tree. rewrite NC.
    eapply wp_step; [cbn [apply_step]; now apply fs_rmdir_empty|]. apply HQ.
    + apply shrunk_remove; [exact W | now apply has_children_false_iff].
    + intros x U. apply lookup_remove_neq. intros ->. now rewrite under_refl in U.
    + intros x c L. rewrite lookup_remove_neq; [exact L | congruence].
    + intros x U L. rewrite lookup_remove in L. destruct (path_eqb p x) eqn:E; [discriminate|].
      apply path_eqb_neq in E. rewrite (has_children_false _ _ x NC) in L; [discriminate|].
      apply below_iff. split; [exact U | congruence].
  - assert (Np : p <> []) by now destruct (twf_parent _ _ _ W LP).
    apply wp_andthen. apply wp_get_tree.
    set (I := fun (rest : list (fpath * node)) (tc : tree) =>
      exists done, children t p = done ++ rest /\
        shrunk t tc /\ lookup tc p = Some Dir /\
        (forall x, under p x = false -> lookup tc x = lookup t x) /\
        (forall x c, lookup t x = Some (File c) -> lookup tc x = Some (File c)) /\
        (forall e, In e rest -> forall x, under (fst e) x = true -> lookup tc x = lookup t x) /\
        (forall e, In e done -> clean_below tc (fst e))).
    eapply wp_conseq.
    + apply (wp_forM I).
      * intros [q n] rest tc (done & EC & S & LPc & F & K & R & C).
        assert (InC : In (q, n) (children t p)) by (rewrite EC; apply in_or_app; right; now left).
        apply (children_spec t p q n W) in InC as [Lq Cq]. cbn [fst snd].
        assert (Lq' : lookup tc q = Some n) by (rewrite (R (q, n)); [exact Lq | now left | apply under_refl]).
        assert (ND : NoDup (map fst (children t p))) by now apply children_nodup.
        assert (Other : forall e, In e done \/ In e rest -> fst e <> q).
        { intros e Ie X. rewrite EC, map_app in ND. cbn [map fst] in ND. apply NoDup_remove_2 in ND. apply ND.
          rewrite <- X. apply in_or_app. destruct Ie as [Ie|Ie]; [left | right]; now apply in_map. }
        assert (Sib : forall e, In e done \/ In e rest -> forall x, under (fst e) x = true -> under q x = false).
        { intros e Ie x U. destruct (under q x) eqn:E; [|reflexivity]. exfalso. apply (Other e Ie).
          assert (Ce : is_child p (fst e) = true).
          { assert (X : In e (children t p)) by (rewrite EC; apply in_or_app; destruct Ie; [left | right; right]; auto).
            destruct e as [q' n']. now apply (children_spec t p q' n' W) in X. }
          eapply children_disjoint; eauto. }
        destruct n as [|c0].
        -- (* a directory: recursion *)
           apply IH; [apply S | exact Lq' |  |].
           { intros x NX B. pose proof (is_child_length _ _ Cq) as LQ. rewrite LQ.
             assert (X : lookup t x <> None).
             { destruct (lookup tc x) as [m|] eqn:E; [|congruence]. rewrite (shrunk_some _ _ _ _ S E). discriminate. }
             assert (Bp : below p x = true).
             { apply below_iff. apply below_iff in B as [U NE]. split; [eapply under_trans; [exact (is_child_under _ _ Cq) | exact U]|].
               intros ->. rewrite (is_child_not_under _ _ Cq) in U. discriminate. }
             specialize (DP x X Bp). lia. }
           intros t2 S2 F2 K2 C2. exists (done ++ [(q, Dir)]). split; [now rewrite <- app_assoc|].
           split; [eapply shrunk_trans; eauto|].
           split; [rewrite F2; [exact LPc | now apply is_child_not_under]|]. split; [|split; [|split]].
           ++ intros x U. rewrite F2; [now apply F|]. destruct (under q x) eqn:E; [|reflexivity].
              rewrite (under_trans _ _ _ (is_child_under _ _ Cq) E) in U. discriminate.
           ++ intros x c L. apply K2. now apply K.
           ++ intros e Ie x U. rewrite F2; [apply (R e); [now right | exact U]|]. apply (Sib e); auto.
           ++ intros e Ie. apply in_app_or in Ie as [Ie | [<- | []]]; [|exact C2].
              intros x U L. cbn [fst] in *.
              assert (NQ : under q x = false) by (apply (Sib e); auto).
              rewrite F2 in L by exact NQ. apply (C e Ie x U) in L.
              apply has_children_true_iff in L as (y & m & By & Ly).
              apply has_children_true_iff. exists y, m. split; [exact By|]. rewrite F2; [exact Ly|].
              apply (Sib e); auto. eapply under_trans; [exact U | now apply below_under].
        -- (* a regular file *)
           apply wp_ret. exists (done ++ [(q, File c0)]). split; [now rewrite <- app_assoc|].
           split; [exact S|]. split; [exact LPc|]. split; [exact F|]. split; [exact K|]. split.
           ++ intros e Ie. apply R. now right.
           ++ intros e Ie. apply in_app_or in Ie as [Ie | [<- | []]]; [now apply C|].
              intros x U L. cbn [fst] in *. exfalso.
              destruct (path_eq_dec x q) as [-> | NE]; [congruence|].
              assert (B : below q x = true) by (apply below_iff; split; auto).
              assert (Nq : q <> []) by (apply is_child_inv in Cq as [a ->]; now destruct p).
              rewrite (twf_no_children tc q x (proj1 S) Nq) in L; [discriminate | congruence | exact B].
      * exists []. split; [reflexivity|]. split; [now apply shrunk_refl|]. repeat split; auto. intros e [].
    + intros u tl (done & EC & S & LPl & F & K & _ & C). rewrite app_nil_r in EC. subst done.
      apply wp_get_tree.
      assert (CB : forall x, below p x = true -> lookup tl x = Some Dir -> has_children tl x = true).
      { intros x B L. destruct (below_child p x B) as (a & s & ->).
        assert (Lt : lookup t ((p ++ [a]) ++ s) = Some Dir) by (eapply shrunk_some; eauto).
        assert (Lq : exists n, lookup t (p ++ [a]) = Some n).
        { destruct s as [|s0 s]; [rewrite app_nil_r in Lt; eauto|]. exists Dir.
          apply (twf_prefix_dir t W (s0 :: s) (p ++ [a]) Dir Lt); [now destruct p | discriminate]. }
        destruct Lq as [n Lq].
        assert (InC : In (p ++ [a], n) (children t p)) by (apply children_spec; [exact W | split; [exact Lq | apply is_child_app]]).
        apply (C _ InC); [apply under_app | exact L]. }
      destruct (has_children tl p) eqn:HC.
      * apply wp_ret. apply HQ; auto. intros x U L. destruct (path_eq_dec x p) as [-> | NE]; [exact HC|].
        apply CB; [|exact L]. apply below_iff. split; auto.
      * eapply wp_step; [cbn [apply_step]; now apply fs_rmdir_empty|]. apply HQ.
        -- eapply shrunk_trans; [exact S|]. apply shrunk_remove; [apply S | now apply has_children_false_iff].
        -- intros x U. rewrite lookup_remove_neq; [now apply F|]. intros ->. now rewrite under_refl in U.
        -- intros x c L. rewrite lookup_remove_neq; [now apply K | congruence].
        -- intros x U L. rewrite lookup_remove in L. destruct (path_eqb p x) eqn:E; [discriminate|].
           apply path_eqb_neq in E. rewrite (has_children_false _ _ x HC) in L; [discriminate|].
           apply below_iff. split; [exact U | congruence].
Qed.

(** the depth below any path is bounded by the number of entries: the prefixes of a bound path are bound *)
Lemma key_chain t : twf t -> forall s p n, lookup t (p ++ s) = Some n ->
  exists l, NoDup l /\ incl l (map fst t) /\ List.length l = List.length s
            /\ (forall x, In x l -> (List.length x <= List.length p + List.length s)%nat).
Proof.
  intros W. induction s as [|a s IH] using rev_ind; intros p n L.
  - exists []. repeat split; [constructor | intros x [] | intros x []].
  - rewrite app_assoc in L.
    assert (InK : In ((p ++ s) ++ [a]) (map fst t)).
    { apply in_map_iff. exists ((p ++ s) ++ [a], n). split; [reflexivity | now apply lookup_In]. }
    destruct s as [|s0 s'] eqn:Es.
    + exists [(p ++ []) ++ [a]]. repeat split.
      * constructor; [intros [] | constructor].
      * intros x [<- | []]. exact InK.
      * intros x [<- | []]. rewrite !app_length. cbn. lia.
    + rewrite <- Es in *.
      assert (LD : lookup t (p ++ s) = Some Dir).
      { apply (twf_prefix_dir t W [a] (p ++ s) n L); [subst s; now destruct p | discriminate]. }
      destruct (IH p Dir LD) as (l & ND & IN & LL & LB).
      exists (((p ++ s) ++ [a]) :: l). repeat split.
      * constructor; [|exact ND]. intros X. apply LB in X. rewrite !app_length in X. cbn in X. lia.
      * intros x [<- | X]; [exact InK | now apply IN].
      * cbn. rewrite LL, app_length. cbn. lia.
      * intros x [<- | X]; [rewrite !app_length; cbn; lia|]. apply LB in X. rewrite app_length. lia.
Qed.

Lemma deep_length t p : twf t -> deep t p (List.length t).
Proof.
  intros W q NE B. destruct (lookup t q) as [n|] eqn:L; [|congruence].
  apply below_iff in B as [U _]. apply under_iff in U as [s ->].
  destruct (key_chain t W s p n L) as (l & ND & IN & LL & _).
  pose proof (NoDup_incl_length ND IN) as X. rewrite map_length in X. rewrite app_length. lia.
Qed.

Lemma wp_clean_dirs_down p t (Q : unit -> tree -> Prop) :
  twf t -> lookup t p = Some Dir ->
  (forall t', shrunk t t' ->
              (forall x, under p x = false -> lookup t' x = lookup t x) ->
              (forall x c, lookup t x = Some (File c) -> lookup t' x = Some (File c)) ->
              clean_below t' p -> Q tt t') ->
  wp (clean_dirs_down p) t Q.
Proof.
  intros W L HQ. unfold clean_dirs_down. apply wp_get_tree. apply wp_cdd; auto. now apply deep_length.
Qed.
