(** C01, file-system level: concrete instances (non-vacuity of the theorems of Props/C01.v).
    A first version (one file), then a second version staged on the result: a new file, a duplicate of committed
    content in a directory of its own (dedup), an orphaned file in nested directories of its own. *)
From Coq Require Import List NArith Ascii Bool.
From Rocfl Require Import Base.Bytes Model.FsOps Model.FsTree Model.Commit Model.CommitAbs Corr.CheckCommit
  Proofs.CommitPre Proofs.CommitAbsFacts Proofs.CommitAbsMain.
From Rocfl Require Model.ObjTree.
Import ListNotations.
Open Scope N_scope.

Definition w_aseg : fseg -> oseg :=
  aseg_tab (xs "inventory.json") (xs "inventory.json.sha512") ObjTree.Sha512 0 [xs "v1"; xs "v2"; xs "v3"].

Lemma w_aseg_inj : forall x y, w_aseg x = w_aseg y -> x = y.
Proof. intros x y. apply aseg_tab_inj. Qed.

Definition w_cd : N := enc (xs "content").
Definition w_p (v : N) (names : list string) : opath :=
  ObjTree.SVer 0 v :: ObjTree.SName w_cd :: map (fun s => ObjTree.SName (enc (xs s))) names.

(** inventories: the digest of a token is the token ([dg_id]); content CBlob n has token 5 n *)
Definition w_sinv1 : oinv :=
  ObjTree.mkInv 77 ObjTree.V10 ObjTree.Sha512 0 w_cd [(5, w_p 1 ["a"%string])] [[(5, [1])]] [].
Definition w_st2 : list (N * ObjTree.lpath) := [(5, [1]); (10, [2]); (5, [3; 1])].
Definition w_sinv2 : oinv :=
  ObjTree.mkInv 77 ObjTree.V10 ObjTree.Sha512 0 w_cd
    [(5, w_p 1 ["a"%string]); (10, w_p 2 ["b"%string]); (5, w_p 2 ["d"%string; "a2"%string])] [[(5, [1])]; w_st2] [].
Definition w_interp : N -> option oinv :=
  tab_lookup [(5, w_sinv1); (7, dedup_inv w_sinv1 []); (8, w_sinv2); (9, dedup_inv w_sinv2 [w_p 2 ["d"%string; "a2"%string]])].

(** first version: staged inventory 5, committed as 7 *)
Definition w_cfg1 : cfg :=
  mkCfg [xs "stg"; xs "locks"] (xs "o.lock") ex_so ex_mo (xs "inventory.json") (xs "inventory.json.sha512")
        (xs "content") 7 0 0 (xs "v2") ex_d11.
Definition w_inv1 : invr := mkInv 5 [xs "v1"] ex_d10 [[xs "v1"; xs "content"; xs "a"]] [].
Definition w_tree1 : tree :=
  [ ([xs "stg"], Dir); ([xs "stg"; xs "locks"], Dir); (ex_so, Dir);
    (ex_so ++ [xs "inventory.json"], File (tok_of w_inv1));
    (ex_so ++ [xs "inventory.json.sha512"], File (CSide 5));
    (ex_so ++ [ex_d10], File (CDecl ex_d10));
    (ex_so ++ [xs "v1"], Dir); (ex_so ++ [xs "v1"; xs "content"], Dir);
    (ex_so ++ [xs "v1"; xs "content"; xs "a"], File (CBlob 1));
    ([xs "root"], Dir) ].
Definition w_after1 : tree := run_tree (commit w_cfg1) w_tree1 NoInj.

(** second version, staged on the result of the first commit: inventory 8, committed as 9 *)
Definition w_cfg2 : cfg :=
  mkCfg [xs "stg"; xs "locks"] (xs "o.lock") ex_so ex_mo (xs "inventory.json") (xs "inventory.json.sha512")
        (xs "content") 9 0 0 (xs "v3") ex_d11.
Definition w_man2 : list fpath :=
  [[xs "v2"; xs "content"; xs "b"]; [xs "v2"; xs "content"; xs "d"; xs "a2"]].
Definition w_inv2 : invr := mkInv 8 [xs "v1"; xs "v2"] ex_d10 w_man2 [[xs "v2"; xs "content"; xs "d"; xs "a2"]].
Definition w_staged2 : tree :=
  [ (ex_so, Dir);
    (ex_so ++ [xs "inventory.json"], File (tok_of w_inv2));
    (ex_so ++ [xs "inventory.json.sha512"], File (CSide 8));
    (ex_so ++ [ex_d10], File (CDecl ex_d10));
    (ex_so ++ [xs "v2"], Dir); (ex_so ++ [xs "v2"; xs "content"], Dir);
    (ex_so ++ [xs "v2"; xs "content"; xs "b"], File (CBlob 2));
    (ex_so ++ [xs "v2"; xs "content"; xs "d"], Dir);
    (ex_so ++ [xs "v2"; xs "content"; xs "d"; xs "a2"], File (CBlob 1));
    (ex_so ++ [xs "v2"; xs "content"; xs "o"], Dir);
    (ex_so ++ [xs "v2"; xs "content"; xs "o"; xs "p"], Dir);
    (ex_so ++ [xs "v2"; xs "content"; xs "o"; xs "p"; xs "x"], File (CBlob 3)) ].
Definition w_tree2 : tree := w_staged2 ++ w_after1.
Definition w_after2 : tree := run_tree (commit w_cfg2) w_tree2 NoInj.

Lemma w_pre1 : commit_pre_b w_cfg1 w_tree1 w_inv1 = true
               /\ commit_pre_tree_b w_aseg w_interp dg_id ObjTree.Sha512 w_cfg1 w_tree1 w_inv1 = true.
Proof. vm_compute. split; reflexivity. Qed.

Lemma w_pre2 : commit_pre_b w_cfg2 w_tree2 w_inv2 = true
               /\ commit_pre_tree_b w_aseg w_interp dg_id ObjTree.Sha512 w_cfg2 w_tree2 w_inv2 = true.
Proof. vm_compute. split; reflexivity. Qed.

(** the second commit keeps one new file, removes the duplicate with its directory and the orphan with both of its *)
Lemma w_result2 :
  abs w_aseg w_after2 ex_mo =
  [ ([ObjTree.SSidecar ObjTree.Sha512], ObjTree.File 47); ([ObjTree.SInv], ObjTree.File 46);
    ([ObjTree.SVer 0 2; ObjTree.SSidecar ObjTree.Sha512], ObjTree.File 47); ([ObjTree.SVer 0 2; ObjTree.SInv], ObjTree.File 46);
    (w_p 2 ["b"%string], ObjTree.File 10);
    ([ObjTree.SVer 0 1; ObjTree.SSidecar ObjTree.Sha512], ObjTree.File 37); ([ObjTree.SVer 0 1; ObjTree.SInv], ObjTree.File 36);
    ([ObjTree.SDecl ObjTree.V10], ObjTree.File (5 * enc ex_d10 + 3));
    (w_p 1 ["a"%string], ObjTree.File 5) ].
Proof. vm_compute. reflexivity. Qed.

Lemma w_reach : reach w_aseg w_interp dg_id ObjTree.Sha512 ex_mo w_after2.
Proof.
  apply (reach_commit _ _ _ _ ex_mo w_after1 w_tree2 w_cfg2 w_inv2).
  - apply (reach_commit _ _ _ _ ex_mo w_tree1 w_tree1 w_cfg1 w_inv1).
    + apply reach_absent; [apply twf_b_sound | ]; vm_compute; reflexivity.
    + reflexivity.
    + apply twf_b_sound. vm_compute. reflexivity.
    + intros p _. reflexivity.
    + apply commit_pre_b_sound. vm_compute. reflexivity.
    + vm_compute. reflexivity.
  - reflexivity.
  - apply twf_b_sound. vm_compute. reflexivity.
  - apply same_underb_sound. vm_compute. reflexivity.
  - apply commit_pre_b_sound. vm_compute. reflexivity.
  - vm_compute. reflexivity.
Qed.

Lemma w_written2 : writtenb w_interp dg_id ObjTree.Sha512 (abs w_aseg w_after2 ex_mo) = true.
Proof. vm_compute. reflexivity. Qed.

Definition w_rootdir : fpath := [xs "root"].
