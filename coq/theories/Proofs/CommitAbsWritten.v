(** C01, file-system level: the object root the fault-free commit leaves ([installed], Proofs/CommitAbsPrep.v)
    abstracts to a tree that satisfies [written_by_rocfl] (Model/ObjTree.v). *)
From Coq Require Import List NArith Ascii Bool Arith Lia.
From Rocfl Require Import Base.Bytes Model.FsOps Model.FsTree Model.Commit Model.CommitAbs
  Proofs.FsTreeFacts Proofs.CommitAbsRun Proofs.CommitAbsPrep Proofs.CommitAbsFacts Proofs.CommitPre Proofs.CommitPhases.
From Rocfl Require Model.ObjTree Proofs.ObjTreeFacts Proofs.WrittenFacts.
Import ListNotations.
Open Scope N_scope.

Notation SInv := ObjTree.SInv.
Notation SSidecar := ObjTree.SSidecar.
Notation SDecl := ObjTree.SDecl.
Notation SVer := ObjTree.SVer.
Notation SName := ObjTree.SName.
Notation inv_id := ObjTree.inv_id.
Notation inv_spec := ObjTree.inv_spec.
Notation inv_alg := ObjTree.inv_alg.
Notation inv_pad := ObjTree.inv_pad.
Notation inv_cdir := ObjTree.inv_cdir.
Notation inv_manifest := ObjTree.inv_manifest.
Notation inv_versions := ObjTree.inv_versions.
Notation inv_fixity := ObjTree.inv_fixity.
Notation inv_head := ObjTree.inv_head.
Notation in_versions := ObjTree.in_versions.
Notation file_tok := ObjTree.file_tok.
Notation mdigest := ObjTree.mdigest.
Notation wfP := WrittenFacts.wfP.

(** * booleans of Model/ObjTree.v *)
Lemma state_eqb_eq a b : ObjTree.state_eqb a b = true <-> a = b.
Proof.
  unfold ObjTree.state_eqb. apply ObjTreeFacts.list_eqb_eq. intros [d p] [d' p']. cbn [fst snd].
  rewrite andb_true_iff, N.eqb_eq, ObjTreeFacts.lpath_eqb_eq. split; [intros [-> ->]; reflexivity | intros E; injection E; auto].
Qed.

Lemma versions_eqb_eq a b : ObjTree.list_eqb ObjTree.state_eqb a b = true <-> a = b.
Proof. apply ObjTreeFacts.list_eqb_eq. apply state_eqb_eq. Qed.

Lemma pair_eqb_eq x y : ObjTree.pair_eqb x y = true <-> x = y.
Proof.
  destruct x as [d p], y as [d' p']. unfold ObjTree.pair_eqb. cbn [fst snd].
  rewrite andb_true_iff, N.eqb_eq, ObjTreeFacts.path_eqb_eq. split; [intros [-> ->]; reflexivity | intros E; injection E; auto].
Qed.

Lemma mem_pair_In x l : ObjTree.mem_pair x l = true <-> In x l.
Proof.
  unfold ObjTree.mem_pair. rewrite existsb_exists. split.
  - intros [y [I E]]. apply pair_eqb_eq in E. now subst.
  - intros I. exists x. split; [exact I | now apply pair_eqb_eq].
Qed.

Lemma incl_pairs_incl a b : ObjTree.incl_pairs a b = true <-> incl a b.
Proof.
  unfold ObjTree.incl_pairs. rewrite forallb_forall. split; intros H x I; apply mem_pair_In; now apply H.
Qed.

Lemma nodup_pathb_NoDup l : ObjTree.nodup_pathb l = true <-> NoDup l.
Proof.
  induction l as [|p l IH]; cbn [ObjTree.nodup_pathb]; [split; [constructor | reflexivity]|].
  rewrite andb_true_iff, negb_true_iff, IH. split.
  - intros [N ND]. constructor; [|exact ND]. intros I. apply ObjTreeFacts.mem_path_In in I. congruence.
  - intros ND. inversion ND as [|? ? N ND']; subst. split; [|exact ND'].
    destruct (ObjTree.mem_path p l) eqn:E; [|reflexivity]. apply ObjTreeFacts.mem_path_In in E. contradiction.
Qed.

Lemma firstn_N_le {A} (l : list A) : forall n m s, n <= m ->
  ObjTree.firstn_N n s (ObjTree.firstn_N m s l) = ObjTree.firstn_N n s l.
Proof.
  induction l as [|x l IH]; intros n m s LE; cbn [ObjTree.firstn_N]; [reflexivity|].
  destruct (s <=? m) eqn:E1, (s <=? n) eqn:E2; cbn [ObjTree.firstn_N]; try rewrite E2; try reflexivity.
  - f_equal. now apply IH.
  - apply N.leb_le in E2. apply N.leb_gt in E1. lia.
Qed.

Lemma firstn_N_all {A} (l : list A) : forall n s, s + ObjTree.nlength l <= N.succ n -> ObjTree.firstn_N n s l = l.
Proof.
  induction l as [|x l IH]; intros n s H; cbn [ObjTree.firstn_N ObjTree.nlength] in *; [reflexivity|].
  destruct (s <=? n) eqn:E; [f_equal; apply IH; lia|]. apply N.leb_gt in E. lia.
Qed.

Lemma in_versions_iff i n : in_versions i n = true <-> 1 <= n <= inv_head i.
Proof. unfold ObjTree.in_versions. now rewrite andb_true_iff, !N.leb_le. Qed.

Lemma below_length (p q : fpath) : below p q = true -> (List.length p < List.length q)%nat.
Proof.
  unfold below. intros H. apply andb_true_iff in H as [U N]. apply under_length in U.
  apply negb_true_iff, Nat.eqb_neq in N. lia.
Qed.

(** the converse of WrittenFacts.wf_unfold *)
Lemma wf_fold digest parse_inv parse_sidecar parse_decl t itok root :
  wfP digest parse_inv parse_sidecar parse_decl t itok root -> ObjTree.closedb root = true ->
  ObjTree.written_by_rocflb digest parse_inv parse_sidecar parse_decl t = true.
Proof.
  intros W CL. unfold ObjTree.written_by_rocflb.
  rewrite (WrittenFacts.w_leaves _ _ _ _ _ _ _ W). cbn [andb].
  destruct (WrittenFacts.w_inv _ _ _ _ _ _ _ W) as [-> ->].
  destruct (WrittenFacts.w_decl _ _ _ _ _ _ _ W) as (dk & -> & ->).
  destruct (WrittenFacts.w_sidecar _ _ _ _ _ _ _ W) as (sk & -> & ->).
  rewrite CL, (WrittenFacts.w_nodup _ _ _ _ _ _ _ W), (WrittenFacts.w_fixity _ _ _ _ _ _ _ W).
  assert (E1 : negb (ObjTree.nilb (inv_versions root)) = true).
  { apply negb_true_iff, ObjTreeFacts.nilb_false. apply (WrittenFacts.w_versions_ne _ _ _ _ _ _ _ W). }
  rewrite E1. cbn [ObjTree.opt_eqb ObjTree.nilb]. rewrite ObjTreeFacts.spec_eqb_refl, N.eqb_refl. cbn [andb].
  repeat (apply andb_true_iff; split); auto.
  - apply forallb_forall. apply (WrittenFacts.w_entries _ _ _ _ _ _ _ W).
  - apply forallb_forall. intros n I. apply ObjTreeFacts.vnums_In in I. now apply (WrittenFacts.w_versions _ _ _ _ _ _ _ W).
  - apply forallb_forall. apply (WrittenFacts.w_manifest _ _ _ _ _ _ _ W).
  - apply forallb_forall. apply (WrittenFacts.w_states _ _ _ _ _ _ _ W).
Qed.

Section W.
  Variable aseg : fseg -> oseg.
  Hypothesis aseg_inj : forall x y, aseg x = aseg y -> x = y.
  Variable interp : N -> option oinv.
  Variable dg : oalg -> ObjTree.token -> N.
  Variable al : oalg.

  Notation apath := (apath aseg).
  Notation abs := (abs aseg).
  Notation pinv := (parse_inv interp).
  Notation pside := (parse_sidecar dg al).
  Notation WF := (wfP dg pinv pside parse_decl).

  Variables (c : cfg) (t0 : tree) (i0 : invr) (t' : tree) (sinv : oinv).
  Hypothesis Pre : commit_pre c t0 i0.
  Hypothesis Inst : installed c t0 i0 t'.

  Let So := c_so c.
  Let Mo := c_mo c.
  Let h := head_of i0.
  Let i := committed_inv c i0.
  Let ninv := dedup_inv sinv (map apath (i_dups i0)).
  Let pad := inv_pad sinv.
  Let hn := inv_head sinv.
  Let cdn := inv_cdir sinv.
  Let o' := abs t' Mo.
  Let itok := atok (tok_of i).

  Hypothesis Knew : interp (c_newk c) = Some ninv.
  Hypothesis Kalg : inv_alg sinv = al.
  Hypothesis Kinv : aseg (c_inv c) = SInv.
  Hypothesis Kside : aseg (c_side c) = SSidecar al.
  Hypothesis Kcdir : aseg (c_cdir c) = SName cdn.
  Hypothesis Kd10 : aseg decl10 = SDecl ObjTree.V10.
  Hypothesis Kd11 : aseg decl11 = SDecl ObjTree.V11.
  Hypothesis Kspec : i_spec i0 = decl_name (inv_spec sinv).
  Hypothesis Khead : hn = head_no i0.
  Hypothesis Kvs : forall j v, nth_error (i_vs i0) j = Some v -> aseg v = SVer pad (N.of_nat (S j)) /\ is_decl_name v = false.
  Hypothesis Kman1 : forall dp, In dp (inv_manifest sinv) -> is_head_path hn (snd dp) = true -> In (snd dp) (map apath (i_man i0)).
  Hypothesis Kman2 : forall d, In d (i_man i0) -> In (apath d) (map snd (inv_manifest sinv)).
  Hypothesis Knodup : NoDup (map snd (inv_manifest sinv)).
  Hypothesis Kgood : inv_good_b ninv = true.
  Hypothesis Kblob : forall d, In d (i_man i0) -> exists n, lookup t0 (So ++ d) = Some (File (CBlob n))
                       /\ mdigest (inv_manifest sinv) (apath d) = Some (dg al (atok (CBlob n))).

  (* the fields of [installed], in the vocabulary of this section *)
  Lemma N_mo : lookup t' Mo = Some Dir. Proof. exact (n_mo c t0 i0 t' Inst). Qed.
  Lemma N_inv : lookup t' (Mo ++ [c_inv c]) = Some (File (tok_of i)). Proof. exact (n_inv c t0 i0 t' Inst). Qed.
  Lemma N_side : lookup t' (Mo ++ [c_side c]) = Some (File (CSide (c_newk c))). Proof. exact (n_side c t0 i0 t' Inst). Qed.
  Lemma N_decl : lookup t' (Mo ++ [i_spec i0]) = Some (File (CDecl (i_spec i0))). Proof. exact (n_decl c t0 i0 t' Inst). Qed.
  Lemma N_hd : lookup t' (Mo ++ [h]) = Some Dir. Proof. exact (n_hd c t0 i0 t' Inst). Qed.
  Lemma N_hinv : lookup t' (Mo ++ [h; c_inv c]) = Some (File (tok_of i)). Proof. exact (n_hinv c t0 i0 t' Inst). Qed.
  Lemma N_hside : lookup t' (Mo ++ [h; c_side c]) = Some (File (CSide (c_newk c))). Proof. exact (n_hside c t0 i0 t' Inst). Qed.
  Lemma N_man d : In d (i_man i) -> lookup t' (Mo ++ d) = lookup t0 (So ++ d). Proof. exact (n_man c t0 i0 t' Inst d). Qed.
  Lemma N_files x c0 : below (Mo ++ [h]) x = true -> lookup t' x = Some (File c0) ->
    x = Mo ++ [h; c_inv c] \/ x = Mo ++ [h; c_side c] \/ exists d, In d (i_man i) /\ x = Mo ++ d.
  Proof. exact (n_files c t0 i0 t' Inst x c0). Qed.
  Lemma N_dirs x : below (Mo ++ [h]) x = true -> lookup t' x = Some Dir -> has_children t' x = true.
  Proof. exact (n_dirs c t0 i0 t' Inst x). Qed.
  Lemma N_old x n : below Mo x = true -> lookup t' x = Some n ->
    under (Mo ++ [h]) x = true \/ x = Mo ++ [c_inv c] \/ x = Mo ++ [c_side c] \/ x = Mo ++ [i_spec i0] \/ lookup t0 x = Some n.
  Proof. exact (n_old c t0 i0 t' Inst x n). Qed.
  Lemma N_decls x : is_child Mo x = true -> is_decl_name (last x []) = true -> x <> Mo ++ [i_spec i0] -> lookup t' x = None.
  Proof. exact (n_decls c t0 i0 t' Inst x). Qed.
  Lemma N_kept x n : below Mo x = true -> lookup t0 x = Some n -> (is_child Mo x = true -> n = Dir) -> lookup t' x = Some n.
  Proof. exact (n_kept c t0 i0 t' Inst x n). Qed.
  Lemma man_shape0 d : In d (i_man i0) -> exists rest, rest <> [] /\ d = h :: c_cdir c :: rest.
  Proof. exact (man0_shape c t0 i0 Pre d). Qed.

  Lemma W' : twf t'. Proof. apply (n_wf c t0 i0 t' Inst). Qed.

  Lemma ft rel : rel <> [] ->
    file_tok (apath rel) o' = match lookup t' (Mo ++ rel) with Some (File cc) => Some (atok cc) | _ => None end.
  Proof. intros NE. apply (abs_file_tok aseg aseg_inj); [apply W' | exact NE]. Qed.

  Lemma aseg_decl v : aseg (decl_name v) = SDecl v.
  Proof. destruct v; assumption. Qed.

  Lemma aseg_h : aseg h = SVer pad hn.
  Proof.
    pose proof (st_vs c t0 i0 (pre_staged c t0 i0 Pre)) as NE. unfold h, head_of.
    destruct (exists_last NE) as [l [x E]]. rewrite E, last_last.
    destruct (Kvs (List.length l) x) as [X _].
    { rewrite E, nth_error_app2, Nat.sub_diag by lia. reflexivity. }
    rewrite X, Khead. unfold head_no. rewrite E, app_length. cbn. f_equal. f_equal. lia.
  Qed.

  Lemma head_ninv : inv_head ninv = hn. Proof. reflexivity. Qed.

  Lemma hn_pos : 1 <= hn.
  Proof.
    rewrite Khead. unfold head_no. pose proof (st_vs c t0 i0 (pre_staged c t0 i0 Pre)) as NE.
    destruct (i_vs i0); [contradiction | cbn; lia].
  Qed.

  Lemma in_versions_hn : in_versions ninv hn = true.
  Proof. apply in_versions_iff. rewrite head_ninv. pose proof hn_pos. lia. Qed.

  (** the shape of the staged content paths *)
  Lemma man_shape d : In d (i_man i0) -> exists s r, apath d = SVer pad hn :: SName cdn :: s :: r.
  Proof.
    intros I. destruct (man_shape0 d I) as [rest [NR ->]]. destruct rest as [|s r]; [contradiction|].
    cbn [CommitAbs.apath map]. rewrite aseg_h, Kcdir. eauto.
  Qed.

  Lemma man_i_iff d : In d (i_man i) <-> In d (i_man i0) /\ ~ In d (i_dups i0).
  Proof. apply (man_i' c i0). Qed.

  (** manifest of the committed inventory *)
  Lemma ninv_manifest dp :
    In dp (inv_manifest ninv) <-> In dp (inv_manifest sinv) /\ ~ In (snd dp) (map apath (i_dups i0)).
  Proof.
    unfold ninv, dedup_inv. cbn [ObjTree.inv_manifest]. rewrite filter_In, negb_true_iff. split.
    - intros [I N]. split; [exact I|]. intros X. apply ObjTreeFacts.mem_path_In in X. congruence.
    - intros [I N]. split; [exact I|]. destruct (ObjTree.mem_path (snd dp) (map apath (i_dups i0))) eqn:E; [|reflexivity].
      apply ObjTreeFacts.mem_path_In in E. contradiction.
  Qed.

  Lemma dups_head d : In d (i_dups i0) -> is_head_path hn (apath d) = true.
  Proof.
    intros I. apply (st_dups c t0 i0 (pre_staged c t0 i0 Pre)) in I. destruct (man_shape d I) as (s & r & ->).
    unfold is_head_path. cbn. apply N.eqb_refl.
  Qed.

  Lemma ninv_nonhead dp : In dp (inv_manifest sinv) -> is_head_path hn (snd dp) = false -> In dp (inv_manifest ninv).
  Proof.
    intros I NH. apply ninv_manifest. split; [exact I|]. intros X. apply in_map_iff in X as [d [E Id]].
    rewrite <- E, (dups_head d Id) in NH. discriminate.
  Qed.

  Lemma ninv_nodup : NoDup (map snd (inv_manifest ninv)).
  Proof.
    unfold inv_good_b in Kgood. repeat (apply andb_true_iff in Kgood as [Kgood ?]).
    match goal with X : ObjTree.nodup_pathb _ = true |- _ => now apply nodup_pathb_NoDup in X end.
  Qed.

  (** ** the parts every committed object has *)
  Lemma new_leaves : ObjTree.leavesb o' = true.
  Proof. apply (abs_leaves aseg aseg_inj), W'. Qed.

  Lemma new_inv : file_tok [SInv] o' = Some itok /\ pinv itok = Some ninv.
  Proof.
    split.
    - rewrite <- Kinv. change [aseg (c_inv c)] with (apath [c_inv c]). rewrite ft by discriminate.
      now rewrite N_inv.
    - unfold itok, tok_of. rewrite parse_inv_tok. exact Knew.
  Qed.

  Lemma new_decl : exists dk, file_tok [SDecl (inv_spec ninv)] o' = Some dk /\ parse_decl dk = Some (inv_spec ninv).
  Proof.
    exists (atok (CDecl (i_spec i0))). split.
    - change (inv_spec ninv) with (inv_spec sinv). rewrite <- aseg_decl, <- Kspec.
      change [aseg (i_spec i0)] with (apath [i_spec i0]). rewrite ft by discriminate.
      now rewrite N_decl.
    - rewrite Kspec. apply parse_decl_tok.
  Qed.

  Lemma new_sidecar : exists sk, file_tok [SSidecar (inv_alg ninv)] o' = Some sk /\ pside sk = Some (dg (inv_alg ninv) itok).
  Proof.
    exists (atok (CSide (c_newk c))). change (inv_alg ninv) with (inv_alg sinv). rewrite Kalg. split.
    - rewrite <- Kside. change [aseg (c_side c)] with (apath [c_side c]). rewrite ft by discriminate.
      now rewrite N_side.
    - rewrite parse_sidecar_tok. reflexivity.
  Qed.

  Lemma head_version_ok : ObjTree.version_okb dg pinv pside o' ninv itok hn = true.
  Proof.
    unfold ObjTree.version_okb, ObjTree.version_dir. change (inv_alg ninv) with (inv_alg sinv). change (inv_pad ninv) with pad.
    rewrite Kalg.
    assert (E1 : [SVer pad hn] ++ [SInv] = apath [h; c_inv c]) by (cbn; now rewrite aseg_h, Kinv).
    assert (E2 : [SVer pad hn] ++ [SSidecar al] = apath [h; c_side c]) by (cbn; now rewrite aseg_h, Kside).
    rewrite E1, E2, !ft by discriminate.
    rewrite N_hinv, N_hside.
    rewrite parse_sidecar_tok. cbn [ObjTree.opt_eqb]. change (inv_head ninv) with hn.
    rewrite !N.eqb_refl. reflexivity.
  Qed.

  (** a content path of the version being committed *)
  Lemma head_manifest_ok dp : In dp (inv_manifest ninv) -> is_head_path hn (snd dp) = true ->
    ObjTree.manifest_entry_okb dg o' ninv dp = true.
  Proof.
    intros I HP. apply ninv_manifest in I as [I ND]. destruct dp as [dd p]. cbn [fst snd] in *.
    pose proof (Kman1 _ I HP) as X. cbn [snd] in X. apply in_map_iff in X as [d [<- Id]].
    assert (Idn : In d (i_man i)).
    { apply man_i_iff. split; [exact Id|]. intros Y. apply ND. apply in_map_iff. now exists d. }
    destruct (man_shape d Id) as (s & r & E). unfold ObjTree.manifest_entry_okb. cbn [fst snd]. rewrite E.
    change (inv_pad ninv) with pad. change (inv_cdir ninv) with cdn. change (inv_alg ninv) with (inv_alg sinv).
    rewrite !N.eqb_refl, in_versions_hn. cbn [andb]. rewrite <- E.
    assert (NEd : d <> []) by (intros ->; discriminate).
    rewrite ft by exact NEd. rewrite (N_man d Idn).
    destruct (Kblob d Id) as (n & L & MD). fold So. rewrite L. rewrite Kalg.
    assert (MD' : mdigest (inv_manifest sinv) (apath d) = Some dd).
    { apply ObjTreeFacts.mdigest_nodup; [now apply nodup_pathb_NoDup | exact I]. }
    rewrite MD in MD'. injection MD' as <-. apply N.eqb_refl.
  Qed.

  (** the entries inside the new version directory and the three files of the root *)
  Lemma new_entry_allowed rel n m :
    rel <> [] -> lookup t' (Mo ++ rel) = Some n ->
    ((exists cc, n = File cc /\ m = ObjTree.File (atok cc)) \/ (n = Dir /\ has_children t' (Mo ++ rel) = false /\ m = ObjTree.Dir)) ->
    (under (Mo ++ [h]) (Mo ++ rel) = true \/ rel = [c_inv c] \/ rel = [c_side c] \/ rel = [i_spec i0]) ->
    ObjTree.allowed_entryb ninv (apath rel, m) = true.
  Proof.
    intros NE L K [U | [-> | [-> | ->]]].
    - rewrite app_under_cancel in U. apply under_iff in U as [r ->]. cbn [app] in *.
      destruct r as [|a r].
      + (* the version directory itself: it has children *)
        exfalso. rewrite N_hd in L. injection L as <-.
        destruct K as [(cc & X & _) | (_ & HC & _)]; [discriminate|].
        rewrite (has_children_true t' (Mo ++ [h]) (Mo ++ [h; c_inv c]) _ N_hinv) in HC; [discriminate|].
        change (Mo ++ [h; c_inv c]) with (Mo ++ [h] ++ [c_inv c]). rewrite app_assoc. apply below_app. discriminate.
      + assert (B : below (Mo ++ [h]) (Mo ++ h :: a :: r) = true).
        { change (Mo ++ h :: a :: r) with (Mo ++ [h] ++ a :: r). rewrite app_assoc. apply below_app. discriminate. }
        destruct K as [(cc & -> & ->) | (-> & HC & _)].
        * destruct (N_files _ cc B L) as [X | [X | (d & Id & X)]]; apply app_inv_head in X.
          -- rewrite X. cbn. rewrite aseg_h, Kinv. cbn. change (inv_pad ninv) with pad. now rewrite N.eqb_refl, in_versions_hn.
          -- rewrite X. cbn. rewrite aseg_h, Kside. cbn. change (inv_pad ninv) with pad. change (inv_alg ninv) with (inv_alg sinv).
             rewrite N.eqb_refl, in_versions_hn, Kalg. cbn. apply ObjTreeFacts.alg_eqb_refl.
          -- rewrite X. pose proof Id as Id'. apply man_i_iff in Id' as [Id0 ND].
             destruct (man_shape d Id0) as (s & r' & E). unfold ObjTree.allowed_entryb. cbn [fst snd]. rewrite E.
             change (inv_pad ninv) with pad. change (inv_cdir ninv) with cdn.
             rewrite !N.eqb_refl, in_versions_hn. cbn [andb]. rewrite <- E. apply ObjTreeFacts.mem_path_In.
             pose proof (Kman2 d Id0) as Y. apply in_map_iff in Y as [[dd p] [Ep Ip]]. cbn in Ep. subst p.
             apply in_map_iff. exists (dd, apath d). split; [reflexivity|]. apply ninv_manifest. split; [exact Ip|].
             cbn [snd]. intros Z. apply in_map_iff in Z as [d' [E' Id']]. apply (apath_inj aseg aseg_inj) in E'. now subst d'.
        * exfalso. rewrite (N_dirs _ B L) in HC. discriminate.
    - rewrite N_inv in L. injection L as <-.
      destruct K as [(cc & _ & ->) | (X & _)]; [|discriminate]. cbn. now rewrite Kinv.
    - rewrite N_side in L. injection L as <-.
      destruct K as [(cc & _ & ->) | (X & _)]; [|discriminate]. cbn. rewrite Kside. cbn.
      change (inv_alg ninv) with (inv_alg sinv). rewrite Kalg. apply ObjTreeFacts.alg_eqb_refl.
    - rewrite N_decl in L. injection L as <-.
      destruct K as [(cc & _ & ->) | (X & _)]; [|discriminate]. cbn. rewrite Kspec, aseg_decl. cbn.
      apply ObjTreeFacts.spec_eqb_refl.
  Qed.

  Lemma good_parts :
    inv_versions ninv <> [] /\ ObjTree.closedb ninv = true
    /\ (forall st, In st (inv_versions ninv) -> ObjTree.nodup_lpathb (map snd st) = true) /\ inv_fixity ninv = [].
  Proof.
    pose proof Kgood as G. unfold inv_good_b in G. repeat (apply andb_true_iff in G as [G ?]).
    split; [now apply ObjTreeFacts.nilb_false, negb_true_iff|]. split; [assumption|].
    split; [now apply forallb_forall | now apply ObjTreeFacts.nilb_true].
  Qed.

  (** the entry of [o'] at a path, by lookups *)
  Lemma entry_cases q m : In (q, m) o' ->
    exists rel n, rel <> [] /\ q = apath rel /\ lookup t' (Mo ++ rel) = Some n /\
      ((exists cc, n = File cc /\ m = ObjTree.File (atok cc)) \/ (n = Dir /\ has_children t' (Mo ++ rel) = false /\ m = ObjTree.Dir)).
  Proof.
    intros I. apply (abs_In_lookup aseg t' Mo q m W') in I as (rel & NE & -> & H).
    destruct H as [(cc & L & ->) | (L & HC & ->)]; [exists rel, (File cc) | exists rel, Dir]; repeat split; eauto.
  Qed.

  Lemma special_dec rel :
    {under (Mo ++ [h]) (Mo ++ rel) = true \/ rel = [c_inv c] \/ rel = [c_side c] \/ rel = [i_spec i0]}
    + {under (Mo ++ [h]) (Mo ++ rel) = false /\ rel <> [c_inv c] /\ rel <> [c_side c] /\ rel <> [i_spec i0]}.
  Proof.
    destruct (under (Mo ++ [h]) (Mo ++ rel)) eqn:U; [left; auto|].
    destruct (path_eq_dec rel [c_inv c]); [left; auto|].
    destruct (path_eq_dec rel [c_side c]); [left; auto|].
    destruct (path_eq_dec rel [i_spec i0]); [left; auto 6|]. right. auto.
  Qed.

  (** ** a first version *)
  Section First.
    Hypothesis Absent0 : forall x, under Mo x = true -> lookup t0 x = None.
    Hypothesis Kallhead : forall dp, In dp (inv_manifest sinv) -> is_head_path hn (snd dp) = true.
    Hypothesis Kone : hn = 1.

    Lemma written_first : WF o' itok ninv.
    Proof.
      destruct good_parts as (G1 & G2 & G3 & G4). destruct new_inv as [I1 I2].
      constructor; auto.
      - apply new_leaves.
      - apply new_decl.
      - apply new_sidecar.
      - intros [q m] I. destruct (entry_cases q m I) as (rel & n & NE & -> & L & K).
        destruct (special_dec rel) as [S | (S1 & S2 & S3 & S4)]; [now apply (new_entry_allowed rel n m)|].
        exfalso. assert (B : below Mo (Mo ++ rel) = true) by now apply below_app.
        destruct (N_old _ n B L) as [X | [X | [X | [X | X]]]]; try congruence.
        + apply app_inv_head in X. contradiction.
        + apply app_inv_head in X. contradiction.
        + apply app_inv_head in X. contradiction.
        + rewrite Absent0 in X; [discriminate | apply under_app].
      - intros n V. apply in_versions_iff in V. rewrite head_ninv, Kone in V. assert (n = hn) by lia. subst n.
        apply head_version_ok.
      - intros dp I. apply head_manifest_ok; [exact I|]. apply Kallhead. now apply ninv_manifest in I as [I _].
      - apply nodup_pathb_NoDup, ninv_nodup.
    Qed.
  End First.

  (** ** a further version *)
  Section Next.
    Variables (inv0 : oinv) (itok0 : ObjTree.token).
    Hypothesis W0 : twf t0.
    Let o0 := abs t0 Mo.
    Hypothesis Old : WF o0 itok0 inv0.
    Let hd0 := inv_head inv0.
    Hypothesis Xid : inv_id inv0 = inv_id sinv.
    Hypothesis Xalg : inv_alg inv0 = inv_alg sinv.
    Hypothesis Xpad : inv_pad inv0 = pad.
    Hypothesis Xcdir : inv_cdir inv0 = cdn.
    Hypothesis Xspec : ObjTree.spec_leb (inv_spec inv0) (inv_spec sinv) = true.
    Hypothesis Xhead : N.succ hd0 = hn.
    Hypothesis Xvers : ObjTree.firstn_N hd0 1 (inv_versions sinv) = inv_versions inv0.
    Hypothesis Xman1 : incl (inv_manifest inv0) (inv_manifest sinv).
    Hypothesis Xman2 : forall dp, In dp (inv_manifest sinv) -> is_head_path hn (snd dp) = true \/ In dp (inv_manifest inv0).

    Lemma in_versions_old n : in_versions inv0 n = true -> in_versions ninv n = true /\ n <> hn.
    Proof. rewrite !in_versions_iff, head_ninv. fold hd0. lia. Qed.

    (** what lies two levels or more below the object root stays *)
    Lemma old_file_kept q k : (2 <= List.length q)%nat -> file_tok q o0 = Some k -> file_tok q o' = Some k.
    Proof.
      intros LQ E. destruct (abs_file_tok_inv aseg t0 Mo q k W0 E) as (rel & cc & NE & -> & L & ->).
      rewrite ft by exact NE. rewrite (N_kept (Mo ++ rel) (File cc)); auto.
      - now apply below_app.
      - intros C. apply is_child_length in C. rewrite app_length in C. unfold CommitAbs.apath in LQ. rewrite map_length in LQ. lia.
    Qed.

    (** the content paths of the old manifest *)
    Lemma old_manifest_shape dp : In dp (inv_manifest inv0) ->
      exists m s r k, snd dp = SVer pad m :: SName cdn :: s :: r /\ in_versions inv0 m = true
                      /\ file_tok (snd dp) o0 = Some k /\ dg (inv_alg inv0) k = fst dp.
    Proof.
      intros I. pose proof (WrittenFacts.w_manifest _ _ _ _ _ _ _ Old dp I) as M. unfold ObjTree.manifest_entry_okb in M.
      destruct (snd dp) as [|[] [|[] [|s r]]] eqn:E; try discriminate.
      repeat (apply andb_true_iff in M as [M ?]). apply N.eqb_eq in M.
      match goal with X : N.eqb _ (inv_cdir inv0) = true |- _ => apply N.eqb_eq in X end.
      destruct (file_tok (SVer w n :: SName k :: s :: r) o0) as [kk|] eqn:F; [|discriminate].
      exists n, s, r, kk. subst. rewrite Xpad, Xcdir.
      match goal with X : N.eqb (dg _ kk) _ = true |- _ => apply N.eqb_eq in X end. auto.
    Qed.

    Lemma old_nonhead dp : In dp (inv_manifest inv0) -> is_head_path hn (snd dp) = false.
    Proof.
      intros I. destruct (old_manifest_shape dp I) as (m & s & r & k & E & V & _). rewrite E. unfold is_head_path. cbn.
      apply N.eqb_neq. apply in_versions_old in V as [_ V]. exact V.
    Qed.

    Lemma old_in_ninv dp : In dp (inv_manifest inv0) -> In dp (inv_manifest ninv).
    Proof. intros I. apply ninv_nonhead; [now apply Xman1 | now apply old_nonhead]. Qed.

    Lemma version_le_old dp n : In dp (inv_manifest ninv) -> ObjTree.version_le (snd dp) n = true -> n <= hd0 ->
      In dp (inv_manifest inv0).
    Proof.
      intros I V LE. apply ninv_manifest in I as [I _]. destruct (Xman2 dp I) as [HP | X]; [|exact X]. exfalso.
      unfold is_head_path in HP. unfold ObjTree.version_le in V. destruct (ObjTree.path_version (snd dp)) as [m|]; [|discriminate].
      apply N.eqb_eq in HP. apply N.leb_le in V. lia.
    Qed.

    Lemma filter_le_equiv n : n <= hd0 ->
      forall dp, In dp (filter (fun dp => ObjTree.version_le (snd dp) n) (inv_manifest ninv))
                 <-> In dp (filter (fun dp => ObjTree.version_le (snd dp) n) (inv_manifest inv0)).
    Proof.
      intros LE dp. rewrite !filter_In. split; intros [I V]; split; auto.
      - eapply version_le_old; eauto.
      - now apply old_in_ninv.
    Qed.

    Lemma written_next : WF o' itok ninv.
    Proof.
      destruct good_parts as (G1 & G2 & G3 & G4). destruct new_inv as [I1 I2].
      constructor; auto.
      - apply new_leaves.
      - apply new_decl.
      - apply new_sidecar.
      - (* entries *)
        intros [q m] I. destruct (entry_cases q m I) as (rel & n & NE & -> & L & K).
        destruct (special_dec rel) as [S | (S1 & S2 & S3 & S4)]; [now apply (new_entry_allowed rel n m)|].
        assert (B : below Mo (Mo ++ rel) = true) by now apply below_app.
        assert (L0 : lookup t0 (Mo ++ rel) = Some n).
        { destruct (N_old _ n B L) as [X | [X | [X | [X | X]]]]; try congruence; apply app_inv_head in X; contradiction. }
        destruct K as [(cc & -> & ->) | (-> & HC & ->)].
        + assert (I0 : In (apath rel, ObjTree.File (atok cc)) o0).
          { apply (abs_In_lookup aseg t0 Mo _ _ W0). exists rel. split; [exact NE|]. split; [reflexivity|]. left. eauto. }
          pose proof (WrittenFacts.w_entries _ _ _ _ _ _ _ Old _ I0) as A0.
          destruct (WrittenFacts.allowed_cases _ _ _ A0) as (k & _ & SL).
          inversion SL as [E | E | E | mm Vm E | mm Vm E | mm s r Vm Im E]; clear SL.
          * (* an old declaration *)
            exfalso. destruct rel as [|nm [|? ?]]; try discriminate. cbn in E. injection E as E.
            rewrite <- aseg_decl in E. apply aseg_inj in E. subst nm.
            destruct (path_eq_dec [decl_name (inv_spec inv0)] [i_spec i0]) as [X|X]; [contradiction|].
            rewrite N_decls in L; [discriminate | apply is_child_app | | ].
            -- rewrite last_app_single. now destruct (inv_spec inv0).
            -- intros Y. apply app_inv_head in Y. contradiction.
          * exfalso. destruct rel as [|nm [|? ?]]; try discriminate. cbn in E. injection E as E.
            rewrite <- Kinv in E. apply aseg_inj in E. subst nm. contradiction.
          * exfalso. destruct rel as [|nm [|? ?]]; try discriminate. cbn in E. injection E as E.
            rewrite Xalg, Kalg, <- Kside in E. apply aseg_inj in E. subst nm. contradiction.
          * unfold ObjTree.version_dir. cbn. rewrite Xpad. change (inv_pad ninv) with pad.
            rewrite N.eqb_refl. now apply in_versions_old in Vm as [-> _].
          * unfold ObjTree.version_dir. cbn. rewrite Xpad. change (inv_pad ninv) with pad.
            change (inv_alg ninv) with (inv_alg sinv). rewrite Xalg, N.eqb_refl, ObjTreeFacts.alg_eqb_refl.
            now apply in_versions_old in Vm as [-> _].
          * unfold ObjTree.content_root. unfold ObjTree.allowed_entryb. cbn [fst snd app].
            rewrite Xpad, Xcdir. change (inv_pad ninv) with pad. change (inv_cdir ninv) with cdn.
            rewrite !N.eqb_refl. pose proof Vm as Vm'. apply in_versions_old in Vm' as [-> _]. cbn [andb].
            apply ObjTreeFacts.mem_path_In. unfold ObjTree.content_root in Im. cbn [app] in Im. rewrite Xpad, Xcdir in Im.
            apply in_map_iff in Im as [dp [Ep Ip]]. apply in_map_iff. exists dp. split; [exact Ep | now apply old_in_ninv].
        + (* an empty directory: it was one before *)
          exfalso.
          assert (HC0 : has_children t0 (Mo ++ rel) = false).
          { apply has_children_false_iff. intros y By. destruct (lookup t0 y) as [m'|] eqn:Ly; [|reflexivity]. exfalso.
            assert (Bm : below Mo y = true).
            { apply below_iff. apply below_iff in By as [U N']. split; [eapply under_trans; [apply under_app | exact U]|].
              intros ->. apply under_length in U. rewrite app_length in U. destruct rel; [contradiction | cbn in U; lia]. }
            rewrite (has_children_true t' _ y m') in HC; [discriminate | | exact By].
            apply (N_kept y m' Bm Ly). intros C. exfalso. apply is_child_length in C.
            apply below_length in By. rewrite app_length in By. destruct rel; [contradiction | cbn in By; lia]. }
          assert (I0 : In (apath rel, ObjTree.Dir) o0).
          { apply (abs_In_lookup aseg t0 Mo _ _ W0). exists rel. split; [exact NE|]. split; [reflexivity|]. right. auto. }
          pose proof (WrittenFacts.w_entries _ _ _ _ _ _ _ Old _ I0) as A0. discriminate.
      - (* versions *)
        intros n V. destruct (N.eq_dec n hn) as [-> | NH]; [apply head_version_ok|].
        assert (V0 : in_versions inv0 n = true).
        { apply in_versions_iff. apply in_versions_iff in V. rewrite head_ninv in V. fold hd0. lia. }
        assert (Nle : n <= hd0) by (apply in_versions_iff in V0; fold hd0 in V0; lia).
        pose proof (WrittenFacts.w_versions _ _ _ _ _ _ _ Old n V0) as VO.
        unfold ObjTree.version_okb in *. unfold ObjTree.version_dir in *.
        change (inv_pad ninv) with pad. change (inv_alg ninv) with (inv_alg sinv). change (inv_head ninv) with hn.
        rewrite Xpad, Xalg in VO. fold hd0 in VO.
        destruct (file_tok ([SVer pad n] ++ [SInv]) o0) as [k|] eqn:F1; [|discriminate].
        destruct (file_tok ([SVer pad n] ++ [SSidecar (inv_alg sinv)]) o0) as [sk|] eqn:F2; [|discriminate].
        rewrite (old_file_kept _ k) by (cbn; auto). rewrite (old_file_kept _ sk) by (cbn; auto).
        apply andb_true_iff in VO as [VS VR]. rewrite VS. cbn [andb].
        assert (NE : N.eqb n hn = false) by now apply N.eqb_neq. rewrite NE.
        assert (IdE : forall x, N.eqb (inv_id x) (inv_id inv0) = true -> N.eqb (inv_id x) (inv_id ninv) = true).
        { intros x H. change (inv_id ninv) with (inv_id sinv). now rewrite <- Xid. }
        destruct (N.eqb n hd0) eqn:EH.
        + (* the head of the old object *)
          apply N.eqb_eq in EH. subst n. apply N.eqb_eq in VR. subst k.
          destruct (WrittenFacts.w_inv _ _ _ _ _ _ _ Old) as [_ PI]. rewrite PI.
          change (inv_id ninv) with (inv_id sinv). change (inv_cdir ninv) with cdn. change (inv_versions ninv) with (inv_versions sinv).
          rewrite Xid, Xalg, Xpad, Xcdir, Xvers, !N.eqb_refl, ObjTreeFacts.alg_eqb_refl.
          rewrite (proj2 (versions_eqb_eq _ _) eq_refl). cbn [andb].
          rewrite (WrittenFacts.w_fixity _ _ _ _ _ _ _ Old). cbn [ObjTree.nilb].
          unfold ObjTree.vinv. change (inv_head ninv) with hn. rewrite Xhead, N.eqb_refl. change (inv_spec ninv) with (inv_spec sinv). rewrite Xspec.
          rewrite !andb_true_r. apply andb_true_iff. split; apply incl_pairs_incl; intros dp Idp.
          * apply filter_In. split; [now apply old_in_ninv|].
            destruct (old_manifest_shape dp Idp) as (m & s & r & kk & E & Vm & _). rewrite E. unfold ObjTree.version_le. cbn.
            apply N.leb_le. apply in_versions_iff in Vm. fold hd0 in Vm. lia.
          * apply filter_In in Idp as [Idp Vl]. eapply version_le_old; eauto; lia.
        + apply N.eqb_neq in EH.
          destruct (pinv k) as [iv|] eqn:PK; [|discriminate].
          apply andb_true_iff in VR as [VR Hvinv]. apply andb_true_iff in VR as [VR Hfix].
          apply andb_true_iff in VR as [VR Hincl2]. apply andb_true_iff in VR as [VR Hincl1].
          apply andb_true_iff in VR as [VR Hvers]. apply andb_true_iff in VR as [VR Hcdir].
          apply andb_true_iff in VR as [VR Hpad]. apply andb_true_iff in VR as [Hid Halg].
          change (inv_cdir ninv) with cdn. change (inv_versions ninv) with (inv_versions sinv).
          change (inv_id ninv) with (inv_id sinv).
          assert (Nlt : n < hd0) by lia.
          assert (C1 : N.eqb (inv_id iv) (inv_id sinv) = true) by now rewrite <- Xid.
          assert (C4 : N.eqb (inv_cdir iv) cdn = true) by now rewrite <- Xcdir.
          assert (C5 : ObjTree.list_eqb ObjTree.state_eqb (inv_versions iv) (ObjTree.firstn_N n 1 (inv_versions sinv)) = true).
          { apply versions_eqb_eq in Hvers. apply versions_eqb_eq. rewrite Hvers, <- Xvers. apply firstn_N_le. lia. }
          assert (C6 : ObjTree.incl_pairs (inv_manifest iv)
                         (filter (fun dp : N * opath => ObjTree.version_le (snd dp) n) (inv_manifest ninv)) = true).
          { apply incl_pairs_incl. apply incl_pairs_incl in Hincl1. intros dp Idp. apply filter_le_equiv; [lia|]. now apply Hincl1. }
          assert (C7 : ObjTree.incl_pairs (filter (fun dp : N * opath => ObjTree.version_le (snd dp) n) (inv_manifest ninv))
                         (inv_manifest iv) = true).
          { apply incl_pairs_incl. apply incl_pairs_incl in Hincl2. intros dp Idp. apply Hincl2.
            apply filter_le_equiv in Idp; [exact Idp | lia]. }
          assert (C9 : match ObjTree.vinv pinv o' ninv (N.succ n) with
                       | Some j => ObjTree.spec_leb (inv_spec iv) (inv_spec j)
                       | None => false
                       end = true).
          { (* the next version's inventory is still found where it was *)
            unfold ObjTree.vinv in *. fold hd0 in Hvinv. change (inv_head ninv) with hn. unfold ObjTree.version_dir in *.
            change (inv_pad ninv) with pad. rewrite Xpad in Hvinv.
            assert (NE' : N.eqb (N.succ n) hn = false) by (apply N.eqb_neq; lia). rewrite NE'.
            destruct (N.eqb (N.succ n) hd0) eqn:ES.
            - apply N.eqb_eq in ES. rewrite ES.
              assert (Vh : in_versions inv0 hd0 = true) by (apply in_versions_iff; fold hd0; lia).
              destruct (WrittenFacts.wf_version_files _ _ _ _ _ _ _ Old hd0 Vh) as (km & sk' & F & _ & _ & KH & _).
              unfold ObjTree.version_dir in F. rewrite Xpad in F. rewrite (KH eq_refl) in F.
              rewrite (old_file_kept _ itok0) by (cbn; auto).
              destruct (WrittenFacts.w_inv _ _ _ _ _ _ _ Old) as [_ PI]. now rewrite PI.
            - destruct (file_tok ([SVer pad (N.succ n)] ++ [SInv]) o0) as [k'|] eqn:F'; [|discriminate].
              now rewrite (old_file_kept _ k') by (cbn; auto). }
          rewrite C1, Halg, Hpad, C4, C5, C6, C7, Hfix, C9. reflexivity.
      - (* manifest *)
        intros dp I. destruct (is_head_path hn (snd dp)) eqn:HP; [now apply head_manifest_ok|].
        assert (I0 : In dp (inv_manifest inv0)).
        { apply ninv_manifest in I as [I _]. destruct (Xman2 dp I) as [X|X]; [congruence | exact X]. }
        destruct (old_manifest_shape dp I0) as (m & s & r & k & E & Vm & F & D).
        unfold ObjTree.manifest_entry_okb. rewrite E. change (inv_pad ninv) with pad. change (inv_cdir ninv) with cdn.
        change (inv_alg ninv) with (inv_alg sinv). rewrite !N.eqb_refl.
        apply in_versions_old in Vm as [-> _]. cbn [andb]. rewrite <- E.
        rewrite (old_file_kept _ k); [|rewrite E; cbn; lia | exact F]. rewrite <- Xalg, D. apply N.eqb_refl.
      - apply nodup_pathb_NoDup, ninv_nodup.
    Qed.
  End Next.
End W.
