(** The program logic of Model/Commit.v.

    [nice m]   runs in which the injected event has not happened yet are the runs of the
               event-free world (so: the state reached when the event finally happens is a
               state of the fault-free run).
    [H T m Q E K]   for every world whose tree satisfies T and EVERY injection: when m returns
               Ok the tree satisfies Q, when it returns an error e the tree satisfies E e - and
               unless e is an error of the operating system (EFs) the single event has been
               spent ([w_inj] = NoInj) and the run was not event free - and when the process was
               killed the tree satisfies K.  Event-free runs never err with a non-OS error.
    [H0 T m Q E]    the same for worlds in which no event is pending (error handlers, retries). *)
From Coq Require Import List NArith Ascii Bool Arith Lia.
From Rocfl Require Import Base.Bytes Model.FsOps Model.FsTree Model.Commit.
Import ListNotations.

Definition disarm (w : world) : world :=
  mkW (w_tree w) NoInj (w_closed w) (w_trace w) (w_log w) (w_fired w).

Definition set_inj (i : inj) (w : world) : world :=
  mkW (w_tree w) i (w_closed w) (w_trace w) (w_log w) (w_fired w).

Definition is_killed {A} (r : out A) : bool := match r with RKilled => true | _ => false end.

(** * unfired runs are fault-free runs *)
Definition nice {A} (m : M A) : Prop :=
  forall w r w', m w = (r, w') ->
    (w_inj w = NoInj -> w_inj w' = NoInj) /\
    (is_killed r = false -> w_inj w' <> NoInj -> m (disarm w) = (r, disarm w')).

Lemma nice_ret {A} (a : A) : nice (ret a).
Proof. intros w r w' H. injection H as <- <-. split; auto. Qed.

Lemma nice_throw {A} e : nice (@throw A e).
Proof. intros w r w' H. injection H as <- <-. split; auto. Qed.

Lemma nice_get_tree : nice get_tree.
Proof. intros w r w' H. injection H as <- <-. split; auto. Qed.

Lemma nice_get_closed : nice get_closed.
Proof. intros w r w' H. injection H as <- <-. split; auto. Qed.

Lemma nice_bind {A B} (m : M A) (f : A -> M B) : nice m -> (forall a, nice (f a)) -> nice (bind m f).
Proof.
  intros Hm Hf w r w' H. unfold bind in *.
  destruct (m w) as [[a|e|] w1] eqn:E1.
  - destruct (Hm _ _ _ E1) as [M1 M2]. destruct (Hf a _ _ _ H) as [F1 F2]. split; [auto|].
    intros NK NI. assert (NI1 : w_inj w1 <> NoInj) by (intros X; apply NI; auto).
    rewrite (M2 eq_refl NI1). now apply F2.
  - injection H as <- <-. destruct (Hm _ _ _ E1) as [M1 M2]. split; [auto|].
    intros NK NI. now rewrite (M2 eq_refl NI).
  - injection H as <- <-. destruct (Hm _ _ _ E1) as [M1 M2]. split; [auto|]. discriminate.
Qed.

Lemma nice_catch {A} (m : M A) (h : cerr -> M A) : nice m -> (forall e, nice (h e)) -> nice (catch m h).
Proof.
  intros Hm Hh w r w' H. unfold catch in *.
  destruct (m w) as [[a|e|] w1] eqn:E1.
  - injection H as <- <-. destruct (Hm _ _ _ E1) as [M1 M2]. split; [auto|].
    intros NK NI. now rewrite (M2 eq_refl NI).
  - destruct (Hm _ _ _ E1) as [M1 M2]. destruct (Hh e _ _ _ H) as [F1 F2]. split; [auto|].
    intros NK NI. assert (NI1 : w_inj w1 <> NoInj) by (intros X; apply NI; auto).
    rewrite (M2 eq_refl NI1). now apply F2.
  - injection H as <- <-. destruct (Hm _ _ _ E1) as [M1 M2]. split; [auto|]. discriminate.
Qed.

Lemma nice_step s : nice (step s).
Proof.
  intros w r w' H. unfold step in H. destruct w as [t i cl tr lg fr]. cbn in *.
  destruct i as [|[|n]|[|n]|[|n]]; cbn in *.
  all: try (injection H as <- <-; cbn; split; [discriminate | intros; try discriminate; try congruence]).
  all: destruct (apply_step s t); injection H as <- <-; cbn; (split; [try discriminate; auto | intros; try reflexivity; try congruence]).
Qed.

Lemma nice_andthen {A B} (m : M A) (k : M B) : nice m -> nice k -> nice (m ;; k).
Proof. intros. apply nice_bind; auto. Qed.

Lemma nice_attempt {A} (m : M A) : nice m -> nice (attempt m).
Proof.
  intros. unfold attempt. apply nice_catch; [apply nice_bind; auto; intros; apply nice_ret | intros; apply nice_ret].
Qed.

Lemma nice_finally {A} (m : M A) fin : nice m -> nice fin -> nice (finally m fin).
Proof.
  intros. unfold finally. apply nice_catch.
  - apply nice_bind; auto. intros. apply nice_andthen; [now apply nice_attempt | apply nice_ret].
  - intros. apply nice_andthen; [now apply nice_attempt | apply nice_throw].
Qed.

Lemma nice_forM {A} (l : list A) f : (forall x, nice (f x)) -> nice (forM_ l f).
Proof. intros Hf. induction l; cbn; [apply nice_ret | apply nice_andthen; auto]. Qed.

Lemma nice_if {A} (b : bool) (m1 m2 : M A) : nice m1 -> nice m2 -> nice (if b then m1 else m2).
Proof. destruct b; auto. Qed.

Create HintDb nicedb.
Ltac nice_tac :=
  repeat first
    [ solve [auto 1 with nicedb nocore] | apply nice_ret | apply nice_throw | apply nice_get_tree | apply nice_get_closed | apply nice_step
    | apply nice_bind; [|intros] | apply nice_andthen | apply nice_catch; [|intros] | apply nice_attempt
    | apply nice_finally | apply nice_forM; intros | apply nice_if
    | match goal with
      | |- nice (match ?x with _ => _ end) => destruct x
      | |- nice (let _ := _ in _) => cbv zeta
      end ].

Lemma nice_cda_up rp : nice (cda_up rp).
Proof. induction rp as [|x rp IH]; cbn [cda_up]; nice_tac; auto. Qed.
#[global] Hint Resolve nice_cda_up : nicedb.

Lemma nice_cda_down rp : forall n, nice (cda_down rp n).
Proof. induction rp as [|x rp IH]; intros [|n]; cbn [cda_down]; nice_tac; auto. Qed.
#[global] Hint Resolve nice_cda_down : nicedb.

Lemma nice_cdu rp : nice (cdu_rev rp).
Proof. induction rp as [|x rp IH]; cbn [cdu_rev]; nice_tac; auto. Qed.
#[global] Hint Resolve nice_cdu : nicedb.

Lemma nice_rm_all fuel : forall p, nice (rm_all fuel p).
Proof. induction fuel as [|f IH]; intros p; cbn [rm_all]; nice_tac; auto. Qed.
#[global] Hint Resolve nice_rm_all : nicedb.

Lemma nice_create_dir_all p : nice (create_dir_all p).
Proof. unfold create_dir_all. nice_tac. Qed.
#[global] Hint Resolve nice_create_dir_all : nicedb.

Lemma nice_clean_dirs_up p : nice (clean_dirs_up p).
Proof. unfold clean_dirs_up. nice_tac. Qed.
#[global] Hint Resolve nice_clean_dirs_up : nicedb.

Lemma nice_remove_file_inf p : nice (remove_file_inf p).
Proof. unfold remove_file_inf. nice_tac. Qed.
#[global] Hint Resolve nice_remove_file_inf : nicedb.

Lemma nice_write_file p c : nice (write_file p c).
Proof. unfold write_file. nice_tac. Qed.
#[global] Hint Resolve nice_write_file : nicedb.

Lemma nice_copy_file a c : nice (copy_file a c).
Proof. unfold copy_file. nice_tac. Qed.
#[global] Hint Resolve nice_copy_file : nicedb.

Lemma nice_write_namaste d s : nice (write_namaste d s).
Proof. unfold write_namaste. nice_tac. Qed.
#[global] Hint Resolve nice_write_namaste : nicedb.

Lemma nice_remove_dir_all p : nice (remove_dir_all p).
Proof. unfold remove_dir_all. nice_tac. Qed.
#[global] Hint Resolve nice_remove_dir_all : nicedb.

Lemma nice_get_inventory c r : nice (get_inventory c r).
Proof. unfold get_inventory. nice_tac. Qed.
#[global] Hint Resolve nice_get_inventory : nicedb.

Lemma nice_ensure_open : nice (ensure_open).
Proof. unfold ensure_open. nice_tac. Qed.
#[global] Hint Resolve nice_ensure_open : nicedb.

Lemma nice_copy_inventory_files c a d : nice (copy_inventory_files c a d).
Proof. unfold copy_inventory_files. nice_tac. Qed.
#[global] Hint Resolve nice_copy_inventory_files : nicedb.

Lemma nice_stage_inventory c i f : nice (stage_inventory c i f).
Proof. unfold stage_inventory. nice_tac. Qed.
#[global] Hint Resolve nice_stage_inventory : nicedb.

Lemma nice_rm_staged_files c l : nice (rm_staged_files c l).
Proof. unfold rm_staged_files. nice_tac. Qed.
#[global] Hint Resolve nice_rm_staged_files : nicedb.

Lemma nice_rm_orphaned_files c i : nice (rm_orphaned_files c i).
Proof. unfold rm_orphaned_files. nice_tac. Qed.
#[global] Hint Resolve nice_rm_orphaned_files : nicedb.

Lemma nice_write_new_object c : nice (write_new_object c).
Proof. unfold write_new_object. nice_tac. Qed.
#[global] Hint Resolve nice_write_new_object : nicedb.

Lemma nice_write_new_version c i : nice (write_new_version c i).
Proof. unfold write_new_version. nice_tac. Qed.
#[global] Hint Resolve nice_write_new_version : nicedb.

Lemma nice_purge_staged c : nice (purge_staged c).
Proof. unfold purge_staged. nice_tac. Qed.
#[global] Hint Resolve nice_purge_staged : nicedb.

Lemma nice_prep c : nice (prep c).
Proof. unfold prep. nice_tac. Qed.
#[global] Hint Resolve nice_prep : nicedb.

Lemma nice_install c i : nice (install c i).
Proof. unfold install. nice_tac. Qed.
#[global] Hint Resolve nice_install : nicedb.

Lemma nice_mid c i : nice (mid c i).
Proof. unfold mid. nice_tac. Qed.
#[global] Hint Resolve nice_mid : nicedb.

Lemma nice_commit_inner c : nice (commit_inner c).
Proof. unfold commit_inner. nice_tac. Qed.
#[global] Hint Resolve nice_commit_inner : nicedb.

Lemma nice_acquire c : nice (acquire c).
Proof. unfold acquire. nice_tac. Qed.
#[global] Hint Resolve nice_acquire : nicedb.

Lemma nice_unlock c : nice (unlock c).
Proof. unfold unlock. nice_tac. Qed.
#[global] Hint Resolve nice_unlock : nicedb.

Lemma nice_with_lock c body : nice body -> nice (with_lock c body).
Proof. intros. unfold with_lock. nice_tac. Qed.
#[global] Hint Resolve nice_with_lock : nicedb.

Lemma nice_commit c : nice (commit c).
Proof. unfold commit. nice_tac. Qed.
#[global] Hint Resolve nice_commit : nicedb.

Lemma nice_get_or_create_staged c : nice (get_or_create_staged c).
Proof. unfold get_or_create_staged. nice_tac. Qed.
#[global] Hint Resolve nice_get_or_create_staged : nicedb.

Lemma nice_stage_object_declaration c i : nice (stage_object_declaration c i).
Proof. unfold stage_object_declaration. nice_tac. Qed.
#[global] Hint Resolve nice_stage_object_declaration : nicedb.

Lemma nice_upgrade_object c : nice (upgrade_object c).
Proof. unfold upgrade_object. nice_tac. Qed.
#[global] Hint Resolve nice_upgrade_object : nicedb.

Lemma nice_reset_all c : nice (reset_all c).
Proof. unfold reset_all. nice_tac. Qed.
#[global] Hint Resolve nice_reset_all : nicedb.
