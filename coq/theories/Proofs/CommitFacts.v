(** The program logic of Model/Commit.v.

    [nice m]   runs in which the injected event has not happened yet are the runs of the
               event-free world (so: the state reached when the event finally happens is a
               state of the fault-free run).
    [H T m Q E K]   for every world whose tree satisfies T and EVERY injection: when m returns
               Ok the tree satisfies Q, when it returns an error e the tree satisfies E e - and
               unless e is an error of the operating system (EFs) the single event has been
               spent ([w_inj] = NoInj) and the run was not event free - and when the process was
               killed the tree satisfies K.  Event-free runs never err with a non-OS error.
    [H0 T m Q E]    the same for worlds in which no event is pending (error handlers, retries). *)
From Coq Require Import List NArith Ascii Bool Arith Lia.
From Rocfl Require Import Base.Bytes Model.FsOps Model.FsTree Model.Commit.
Import ListNotations.

Definition disarm (w : world) : world :=
  mkW (w_tree w) NoInj (w_closed w) (w_trace w) (w_log w) (w_fired w).

Definition set_inj (i : inj) (w : world) : world :=
  mkW (w_tree w) i (w_closed w) (w_trace w) (w_log w) (w_fired w).

Definition is_os (e : cerr) : bool := match e with EFs _ => true | _ => false end.

Definition is_killed {A} (r : out A) : bool := match r with RKilled => true | _ => false end.

(** * unfired runs are fault-free runs *)
Definition nice {A} (m : M A) : Prop :=
  forall w r w', m w = (r, w') ->
    (w_inj w = NoInj -> w_inj w' = NoInj /\ is_killed r = false) /\
    (forall n, w_inj w = Fault n -> w_inj w' = NoInj \/ exists n', w_inj w' = Fault n') /\
    (forall n, w_inj w = Kill n -> exists n', w_inj w' = Kill n') /\
    (forall n, w_inj w = Stop n ->
       (exists n', w_inj w' = Stop n' /\ w_closed w' = w_closed w) \/ (w_inj w' = NoInj /\ w_closed w' = true)) /\
    (w_closed w = true -> w_closed w' = true) /\
    ((forall n, w_inj w <> Stop n) -> w_closed w' = w_closed w /\ forall n, w_inj w' <> Stop n) /\
    (is_killed r = true -> exists n, w_inj w = Kill n) /\
    (is_killed r = false -> w_inj w' <> NoInj -> m (disarm w) = (r, disarm w')).

Lemma nice_ret {A} (a : A) : nice (ret a).
Proof. intros w r w' H. injection H as <- <-. repeat split; eauto; discriminate. Qed.

Lemma nice_throw {A} e : nice (@throw A e).
Proof. intros w r w' H. injection H as <- <-. repeat split; eauto; discriminate. Qed.

Lemma nice_get_tree : nice get_tree.
Proof. intros w r w' H. injection H as <- <-. repeat split; eauto; discriminate. Qed.

Lemma nice_get_closed : nice get_closed.
Proof. intros w r w' H. injection H as <- <-. repeat split; eauto; discriminate. Qed.

Lemma nice_seq_aux {A B} (m : M A) (g : M B) w a w1 r w' :
  nice m -> nice g -> m w = (a, w1) -> g w1 = (r, w') ->
    (w_inj w = NoInj -> w_inj w' = NoInj /\ is_killed r = false) /\
    (forall n, w_inj w = Fault n -> w_inj w' = NoInj \/ exists n', w_inj w' = Fault n') /\
    (forall n, w_inj w = Kill n -> exists n', w_inj w' = Kill n') /\
    (forall n, w_inj w = Stop n ->
       (exists n', w_inj w' = Stop n' /\ w_closed w' = w_closed w) \/ (w_inj w' = NoInj /\ w_closed w' = true)) /\
    (w_closed w = true -> w_closed w' = true) /\
    ((forall n, w_inj w <> Stop n) -> w_closed w' = w_closed w /\ forall n, w_inj w' <> Stop n) /\
    (is_killed r = true -> exists n, w_inj w = Kill n) /\
    (w_inj w' <> NoInj -> w_inj w1 <> NoInj).
Proof.
  intros Hm Hg E1 E2.
  destruct (Hm _ _ _ E1) as (M1 & M2 & M3 & M4 & M5 & M7 & M8 & M6). destruct (Hg _ _ _ E2) as (F1 & F2 & F3 & F4 & F5 & F7 & F8 & F6).
  split; [|split; [|split; [|split; [|split; [|split; [|split]]]]]].
  - intros I. destruct (M1 I) as [I1 _]. now apply F1.
  - intros n I. destruct (M2 n I) as [I1 | [n' I1]]; [left; now apply F1 | eauto].
  - intros n I. destruct (M3 n I) as [n' I1]. eauto.
  - intros n I. destruct (M4 n I) as [[n' [I1 C1]] | [I1 C1]].
    + destruct (F4 n' I1) as [[n2 [I2 C2]] | [I2 C2]]; [left; exists n2; split; congruence | right; auto].
    + right. split; [now apply F1 | auto].
  - auto.
  - intros NS. destruct (M7 NS) as [C1 NS1]. destruct (F7 NS1) as [C2 NS2]. split; [congruence | exact NS2].
  - intros KR. destruct (F8 KR) as [n Kn]. destruct (w_inj w) as [|m0|m0|m0] eqn:Iw; eauto.
    + destruct (M1 eq_refl) as [Y _]. congruence.
    + destruct (M2 m0 eq_refl) as [Y | [n' Y]]; congruence.
    + destruct (M4 m0 eq_refl) as [[n' [Y _]] | [Y _]]; congruence.
  - intros NI X. apply NI. now apply F1.
Qed.

Lemma nice_bind {A B} (m : M A) (f : A -> M B) : nice m -> (forall a, nice (f a)) -> nice (bind m f).
Proof.
  intros Hm Hf w r w' H. unfold bind in *.
  destruct (m w) as [[a|e|] w1] eqn:E1.
  - destruct (nice_seq_aux m (f a) w (ROk a) w1 r w' Hm (Hf a) E1 H) as (S1 & S2 & S3 & S4 & S5 & S7 & S8 & S6).
    repeat split; auto; try apply S1; try apply S7; auto.
    intros NK NI. destruct (Hm _ _ _ E1) as (_ & _ & _ & _ & _ & _ & _ & M6). destruct (Hf a _ _ _ H) as (_ & _ & _ & _ & _ & _ & _ & F6).
    rewrite (M6 eq_refl (S6 NI)). now apply F6.
  - injection H as <- <-. destruct (Hm _ _ _ E1) as (M1 & M2 & M3 & M4 & M5 & M7 & M8 & M6). repeat split; auto; try apply M1; try apply M7; auto.
    intros NK NI. now rewrite (M6 eq_refl NI).
  - injection H as <- <-. destruct (Hm _ _ _ E1) as (M1 & M2 & M3 & M4 & M5 & M7 & M8 & M6). repeat split; auto; try apply M1; try apply M7; auto. discriminate.
Qed.

Lemma nice_catch {A} (m : M A) (h : cerr -> M A) : nice m -> (forall e, nice (h e)) -> nice (catch m h).
Proof.
  intros Hm Hh w r w' H. unfold catch in *.
  destruct (m w) as [[a|e|] w1] eqn:E1.
  - injection H as <- <-. destruct (Hm _ _ _ E1) as (M1 & M2 & M3 & M4 & M5 & M7 & M8 & M6). repeat split; auto; try apply M1; try apply M7; auto.
    intros NK NI. now rewrite (M6 eq_refl NI).
  - destruct (nice_seq_aux m (h e) w (RErr e) w1 r w' Hm (Hh e) E1 H) as (S1 & S2 & S3 & S4 & S5 & S7 & S8 & S6).
    repeat split; auto; try apply S1; try apply S7; auto.
    intros NK NI. destruct (Hm _ _ _ E1) as (_ & _ & _ & _ & _ & _ & _ & M6). destruct (Hh e _ _ _ H) as (_ & _ & _ & _ & _ & _ & _ & F6).
    rewrite (M6 eq_refl (S6 NI)). now apply F6.
  - injection H as <- <-. destruct (Hm _ _ _ E1) as (M1 & M2 & M3 & M4 & M5 & M7 & M8 & M6). repeat split; auto; try apply M1; try apply M7; auto. discriminate.
Qed.

Lemma nice_step s : nice (step s).
Proof.
  intros w r w' H. unfold step in H. destruct w as [t i cl tr lg fr]. cbn in *.
  destruct i as [|[|n]|[|n]|[|n]]; cbn in *.
  all: try (injection H as <- <-; cbn; repeat split; try discriminate; eauto; intros; try discriminate; try congruence;
            try (exfalso; match goal with NS : forall n, _ <> Stop n |- _ => eapply NS; reflexivity end)).
  all: destruct (apply_step s t); injection H as <- <-; cbn; repeat split; try discriminate; eauto; intros; try reflexivity; try congruence;
       try discriminate; try (exfalso; match goal with NS : forall n, _ <> Stop n |- _ => eapply NS; reflexivity end).
Qed.

Lemma nice_andthen {A B} (m : M A) (k : M B) : nice m -> nice k -> nice (m ;; k).
Proof. intros. apply nice_bind; auto. Qed.

Lemma nice_attempt {A} (m : M A) : nice m -> nice (attempt m).
Proof.
  intros. unfold attempt. apply nice_catch; [apply nice_bind; auto; intros; apply nice_ret | intros; apply nice_ret].
Qed.

Lemma nice_finally {A} (m : M A) fin : nice m -> nice fin -> nice (finally m fin).
Proof.
  intros. unfold finally. apply nice_catch.
  - apply nice_bind; auto. intros. apply nice_andthen; [now apply nice_attempt | apply nice_ret].
  - intros. apply nice_andthen; [now apply nice_attempt | apply nice_throw].
Qed.

Lemma nice_forM {A} (l : list A) f : (forall x, nice (f x)) -> nice (forM_ l f).
Proof. intros Hf. induction l; cbn; [apply nice_ret | apply nice_andthen; auto]. Qed.

Lemma nice_if {A} (b : bool) (m1 m2 : M A) : nice m1 -> nice m2 -> nice (if b then m1 else m2).
Proof. destruct b; auto. Qed.

Create HintDb nicedb.
Ltac nice_tac :=
  repeat first
    [ solve [auto 1 with nicedb nocore] | apply nice_ret | apply nice_throw | apply nice_get_tree | apply nice_get_closed | apply nice_step
    | apply nice_bind; [|intros] | apply nice_andthen | apply nice_catch; [|intros] | apply nice_attempt
    | apply nice_finally | apply nice_forM; intros | apply nice_if
    | match goal with
      | |- nice (match ?x with _ => _ end) => destruct x
      | |- nice (let _ := _ in _) => cbv zeta
      end ].

Lemma nice_cda_up rp : nice (cda_up rp).
Proof. induction rp as [|x rp IH]; cbn [cda_up]; nice_tac; auto. Qed.
#[global] Hint Resolve nice_cda_up : nicedb.

Lemma nice_cda_down rp : forall n, nice (cda_down rp n).
Proof. induction rp as [|x rp IH]; intros [|n]; cbn [cda_down]; nice_tac; auto. Qed.
#[global] Hint Resolve nice_cda_down : nicedb.

Lemma nice_cdu rp : nice (cdu_rev rp).
Proof. induction rp as [|x rp IH]; cbn [cdu_rev]; nice_tac; auto. Qed.
#[global] Hint Resolve nice_cdu : nicedb.

Lemma nice_cdd fuel : forall p, nice (cdd fuel p).
Proof. induction fuel as [|f IH]; intros p; cbn [cdd]; nice_tac; auto. Qed.
#[global] Hint Resolve nice_cdd : nicedb.

Lemma nice_clean_dirs_down p : nice (clean_dirs_down p).
Proof. unfold clean_dirs_down. nice_tac. Qed.
#[global] Hint Resolve nice_clean_dirs_down : nicedb.

Lemma nice_rm_all fuel : forall p, nice (rm_all fuel p).
Proof. induction fuel as [|f IH]; intros p; cbn [rm_all]; nice_tac; auto. Qed.
#[global] Hint Resolve nice_rm_all : nicedb.

Lemma nice_create_dir_all p : nice (create_dir_all p).
Proof. unfold create_dir_all. nice_tac. Qed.
#[global] Hint Resolve nice_create_dir_all : nicedb.

Lemma nice_clean_dirs_up p : nice (clean_dirs_up p).
Proof. unfold clean_dirs_up. nice_tac. Qed.
#[global] Hint Resolve nice_clean_dirs_up : nicedb.

Lemma nice_remove_file_inf p : nice (remove_file_inf p).
Proof. unfold remove_file_inf. nice_tac. Qed.
#[global] Hint Resolve nice_remove_file_inf : nicedb.

Lemma nice_write_file p c : nice (write_file p c).
Proof. unfold write_file. nice_tac. Qed.
#[global] Hint Resolve nice_write_file : nicedb.

Lemma nice_copy_file a c : nice (copy_file a c).
Proof. unfold copy_file. nice_tac. Qed.
#[global] Hint Resolve nice_copy_file : nicedb.

Lemma nice_write_namaste d s : nice (write_namaste d s).
Proof. unfold write_namaste. nice_tac. Qed.
#[global] Hint Resolve nice_write_namaste : nicedb.

Lemma nice_remove_dir_all p : nice (remove_dir_all p).
Proof. unfold remove_dir_all. nice_tac. Qed.
#[global] Hint Resolve nice_remove_dir_all : nicedb.

Lemma nice_get_inventory c r : nice (get_inventory c r).
Proof. unfold get_inventory. nice_tac. Qed.
#[global] Hint Resolve nice_get_inventory : nicedb.

Lemma nice_ensure_open : nice (ensure_open).
Proof. unfold ensure_open. nice_tac. Qed.
#[global] Hint Resolve nice_ensure_open : nicedb.

Lemma nice_copy_inventory_files c a d : nice (copy_inventory_files c a d).
Proof. unfold copy_inventory_files. nice_tac. Qed.
#[global] Hint Resolve nice_copy_inventory_files : nicedb.

Lemma nice_stage_inventory c i f : nice (stage_inventory c i f).
Proof. unfold stage_inventory. nice_tac. Qed.
#[global] Hint Resolve nice_stage_inventory : nicedb.

Lemma nice_rm_staged_files c l : nice (rm_staged_files c l).
Proof. unfold rm_staged_files. nice_tac. Qed.
#[global] Hint Resolve nice_rm_staged_files : nicedb.

Lemma nice_rm_orphaned_files c i : nice (rm_orphaned_files c i).
Proof. unfold rm_orphaned_files. nice_tac. Qed.
#[global] Hint Resolve nice_rm_orphaned_files : nicedb.

Lemma nice_write_new_object c : nice (write_new_object c).
Proof. unfold write_new_object. nice_tac. Qed.
#[global] Hint Resolve nice_write_new_object : nicedb.

Lemma nice_write_new_version c i : nice (write_new_version c i).
Proof. unfold write_new_version. nice_tac. Qed.
#[global] Hint Resolve nice_write_new_version : nicedb.

Lemma nice_purge_staged c : nice (purge_staged c).
Proof. unfold purge_staged. nice_tac. Qed.
#[global] Hint Resolve nice_purge_staged : nicedb.

Lemma nice_prep c : nice (prep c).
Proof. unfold prep. nice_tac. Qed.
#[global] Hint Resolve nice_prep : nicedb.

Lemma nice_stage_object_declaration c i : nice (stage_object_declaration c i).
Proof. unfold stage_object_declaration. nice_tac. Qed.
#[global] Hint Resolve nice_stage_object_declaration : nicedb.

Lemma nice_install c i : nice (install c i).
Proof. unfold install. nice_tac. Qed.
#[global] Hint Resolve nice_install : nicedb.

Lemma nice_mid c i : nice (mid c i).
Proof. unfold mid. nice_tac. Qed.
#[global] Hint Resolve nice_mid : nicedb.

Lemma nice_commit_inner c : nice (commit_inner c).
Proof. unfold commit_inner. nice_tac. Qed.
#[global] Hint Resolve nice_commit_inner : nicedb.

Lemma nice_acquire c : nice (acquire c).
Proof. unfold acquire. nice_tac. Qed.
#[global] Hint Resolve nice_acquire : nicedb.

Lemma nice_unlock c : nice (unlock c).
Proof. unfold unlock. nice_tac. Qed.
#[global] Hint Resolve nice_unlock : nicedb.

Lemma nice_with_lock c body : nice body -> nice (with_lock c body).
Proof. intros. unfold with_lock. nice_tac. Qed.
#[global] Hint Resolve nice_with_lock : nicedb.

Lemma nice_commit c : nice (commit c).
Proof. unfold commit. nice_tac. Qed.
#[global] Hint Resolve nice_commit : nicedb.

Lemma nice_get_or_create_staged c : nice (get_or_create_staged c).
Proof. unfold get_or_create_staged. nice_tac. Qed.
#[global] Hint Resolve nice_get_or_create_staged : nicedb.

Lemma nice_upgrade_object c : nice (upgrade_object c).
Proof. unfold upgrade_object. nice_tac. Qed.
#[global] Hint Resolve nice_upgrade_object : nicedb.

Lemma nice_reset_all c : nice (reset_all c).
Proof. unfold reset_all. nice_tac. Qed.
#[global] Hint Resolve nice_reset_all : nicedb.

(** * a fault that fired is never absorbed by acquire / prep / install *)
Definition is_fault (i : inj) : bool := match i with Fault _ => true | _ => false end.

(** a fault that fired inside m surfaces as an error that is not an error of the operating system *)
Definition FE {A} (m : M A) : Prop :=
  forall w r w', m w = (r, w') -> is_fault (w_inj w) = true -> w_inj w' = NoInj ->
    exists e, r = RErr e /\ is_os e = false.

(** m, run without pending event, always ends in an error that is not an OS error *)
Definition AT {A} (m : M A) : Prop :=
  forall w, w_inj w = NoInj -> exists e w', m w = (RErr e, w') /\ is_os e = false.

Lemma is_fault_inv i : is_fault i = true -> exists n, i = Fault n.
Proof. destruct i; try discriminate. eauto. Qed.

Lemma FE_ret {A} (a : A) : FE (ret a).
Proof. intros w r w' H F I. injection H as <- <-. rewrite I in F. discriminate. Qed.

Lemma FE_throw {A} e : FE (@throw A e).
Proof. intros w r w' H F I. injection H as <- <-. rewrite I in F. discriminate. Qed.

Lemma FE_get_tree : FE get_tree.
Proof. intros w r w' H F I. injection H as <- <-. rewrite I in F. discriminate. Qed.

Lemma FE_get_closed : FE get_closed.
Proof. intros w r w' H F I. injection H as <- <-. rewrite I in F. discriminate. Qed.

Lemma FE_step s : FE (step s).
Proof.
  intros w r w' H F I. unfold step in H. destruct w as [t i cl tr lg fr]. cbn in *.
  destruct i as [|[|n]|[|n]|[|n]]; try discriminate.
  - injection H as <- <-. eauto.
  - destruct (apply_step s t); injection H as <- <-; discriminate.
Qed.

Lemma FE_bind {A B} (m : M A) (f : A -> M B) : nice m -> FE m -> (forall a, FE (f a)) -> FE (bind m f).
Proof.
  intros Nm Hm Hf w r w' H F I. unfold bind in H.
  destruct (m w) as [[a|e|] w1] eqn:E1.
  - destruct (is_fault_inv _ F) as [n Fn]. destruct (Nm _ _ _ E1) as (_ & M2 & _ & _ & _ & _ & _ & _).
    destruct (M2 n Fn) as [I1 | [n' I1]].
    + destruct (Hm _ _ _ E1 F I1) as [e [X _]]. discriminate.
    + apply (Hf a _ _ _ H); [now rewrite I1 | exact I].
  - injection H as <- <-. destruct (Hm _ _ _ E1 F I) as [e' [X O]]. injection X as <-. eauto.
  - injection H as <- <-. destruct (Hm _ _ _ E1 F I) as [e [X _]]. discriminate.
Qed.

Lemma FE_andthen {A B} (m : M A) (k : M B) : nice m -> FE m -> FE k -> FE (m ;; k).
Proof. intros. apply FE_bind; auto. Qed.

Lemma FE_catch {A} (m : M A) (h : cerr -> M A) :
  nice m -> FE m -> (forall e, is_os e = false -> AT (h e)) -> (forall e, FE (h e)) -> FE (catch m h).
Proof.
  intros Nm Hm Ha Hh w r w' H F I. unfold catch in H.
  destruct (m w) as [[a|e|] w1] eqn:E1.
  - injection H as <- <-. destruct (Hm _ _ _ E1 F I) as [e [X _]]. discriminate.
  - destruct (is_fault_inv _ F) as [n Fn]. destruct (Nm _ _ _ E1) as (_ & M2 & _ & _ & _ & _ & _ & _).
    destruct (M2 n Fn) as [I1 | [n' I1]].
    + destruct (Hm _ _ _ E1 F I1) as [e' [X O]]. injection X as <-.
      destruct (Ha e O w1 I1) as (e2 & w2 & E2 & O2). rewrite E2 in H. injection H as <- <-. eauto.
    + apply (Hh e _ _ _ H); [now rewrite I1 | exact I].
  - injection H as <- <-. destruct (Hm _ _ _ E1 F I) as [e [X _]]. discriminate.
Qed.

Lemma FE_attempt_bind {A B} (m : M A) (k : option cerr -> M B) :
  nice m -> FE m -> FE (k None) -> (forall e, is_os e = false -> AT (k (Some e))) -> (forall e, FE (k (Some e))) ->
  FE (bind (attempt m) k).
Proof.
  intros Nm Hm Hn Ha Hs w r w' H F I. unfold bind, attempt, catch, ret in H. unfold bind in H.
  destruct (m w) as [[a|e|] w1] eqn:E1.
  - destruct (is_fault_inv _ F) as [n Fn]. destruct (Nm _ _ _ E1) as (_ & M2 & _ & _ & _ & _ & _ & _).
    destruct (M2 n Fn) as [I1 | [n' I1]].
    + destruct (Hm _ _ _ E1 F I1) as [e [X _]]. discriminate.
    + apply (Hn _ _ _ H); [now rewrite I1 | exact I].
  - destruct (is_fault_inv _ F) as [n Fn]. destruct (Nm _ _ _ E1) as (_ & M2 & _ & _ & _ & _ & _ & _).
    destruct (M2 n Fn) as [I1 | [n' I1]].
    + destruct (Hm _ _ _ E1 F I1) as [e' [X O]]. injection X as <-.
      destruct (Ha e O w1 I1) as (e2 & w2 & E2 & O2). rewrite E2 in H. injection H as <- <-. eauto.
    + apply (Hs e _ _ _ H); [now rewrite I1 | exact I].
  - injection H as <- <-. destruct (Hm _ _ _ E1 F I) as [e [X _]]. discriminate.
Qed.

Lemma FE_forM {A} (l : list A) f : (forall x, nice (f x)) -> (forall x, FE (f x)) -> FE (forM_ l f).
Proof. intros Nf Hf. induction l; cbn [forM_]; [apply FE_ret | apply FE_andthen; auto]. Qed.

Lemma AT_throw {A} e : is_os e = false -> AT (@throw A e).
Proof. intros O w I. exists e, w. auto. Qed.

Lemma AT_attempt_andthen {A B} (m : M A) (k : M B) : nice m -> AT k -> AT (attempt m ;; k).
Proof.
  intros Nm Hk w I. unfold andthen, bind, attempt, catch, ret. unfold bind.
  destruct (m w) as [[a|e|] w1] eqn:E1; destruct (Nm _ _ _ E1) as (M1 & _ & _ & _ & _ & _ & _ & _); destruct (M1 I) as [I1 NK];
    try discriminate; now apply Hk.
Qed.

(** m, run without pending event, returns Ok *)
Definition OKD {A} (m : M A) : Prop :=
  forall w, w_inj w = NoInj -> exists a w', m w = (ROk a, w') /\ w_inj w' = NoInj.

Lemma OKD_ret {A} (a : A) : OKD (ret a).
Proof. intros w I. exists a, w. auto. Qed.

Lemma OKD_attempt {A} (m : M A) : nice m -> OKD (attempt m).
Proof.
  intros Nm w I. unfold attempt, catch, bind, ret.
  destruct (m w) as [[a|e|] w1] eqn:E1; destruct (Nm _ _ _ E1) as (M1 & _); destruct (M1 I) as [I1 NK]; try discriminate; eauto.
Qed.

Lemma OKD_andthen {A B} (m : M A) (k : M B) : OKD m -> OKD k -> OKD (m ;; k).
Proof.
  intros Hm Hk w I. destruct (Hm w I) as (a & w1 & E1 & I1). unfold andthen, bind. rewrite E1. now apply Hk.
Qed.

Lemma AT_andthen_okd {A B} (m : M A) (k : M B) : OKD m -> AT k -> AT (m ;; k).
Proof.
  intros Hm Hk w I. destruct (Hm w I) as (a & w1 & E1 & I1). unfold andthen, bind. rewrite E1. now apply Hk.
Qed.

Create HintDb fedb.
#[global] Hint Resolve FE_ret FE_throw FE_get_tree FE_get_closed FE_step : fedb.

Ltac okd_tac :=
  repeat first [ apply OKD_ret | apply OKD_attempt; solve [auto 1 with nicedb nocore | nice_tac] | apply OKD_andthen ].

Ltac at_tac :=
  repeat first [ apply AT_throw; reflexivity | apply AT_attempt_andthen; [solve [auto 1 with nicedb nocore | nice_tac]|]
               | apply AT_andthen_okd; [solve [okd_tac]|]
               | match goal with |- AT (andthen (if ?x then _ else _) _) => destruct x end ].

Ltac fe_tac :=
  repeat first
    [ solve [auto 1 with fedb nocore]
    | match goal with
      | |- FE (bind (attempt ?m) ?k) =>
          apply FE_attempt_bind;
          [ solve [auto 1 with nicedb nocore | nice_tac] | | | let e := fresh "e" in let O := fresh "O" in intros e O; destruct e; try discriminate; at_tac
          | let e := fresh "e" in intros e; destruct e ]
      | |- FE (andthen (attempt ?m) ?k) =>
          apply FE_attempt_bind;
          [ solve [auto 1 with nicedb nocore | nice_tac] | | | let e := fresh "e" in let O := fresh "O" in intros e O; at_tac
          | let e := fresh "e" in intros e ]
      | |- FE (bind ?m ?f) => apply FE_bind; [ solve [auto 1 with nicedb nocore | nice_tac] | | intros ]
      | |- FE (andthen ?m ?k) => apply FE_andthen; [ solve [auto 1 with nicedb nocore | nice_tac] | | ]
      | |- FE (catch ?m ?h) =>
          apply FE_catch;
          [ solve [auto 1 with nicedb nocore | nice_tac] | | let e := fresh "e" in let O := fresh "O" in intros e O; destruct e; try discriminate; at_tac
          | let e := fresh "e" in intros e; destruct e ]
      | |- FE (forM_ _ _) => apply FE_forM; [ intros; solve [auto 1 with nicedb nocore | nice_tac] | intros ]
      | |- FE (match ?x with _ => _ end) => destruct x
      | |- FE (if ?x then _ else _) => destruct x
      | |- FE (let _ := _ in _) => cbv zeta
      end ].

Lemma FE_cda_up rp : FE (cda_up rp).
Proof. induction rp as [|x rp IH]; cbn [cda_up]; fe_tac; auto. Qed.
#[global] Hint Resolve FE_cda_up : fedb.

Lemma FE_cda_down rp : forall n, FE (cda_down rp n).
Proof. induction rp as [|x rp IH]; intros [|n]; cbn [cda_down]; fe_tac; auto. Qed.
#[global] Hint Resolve FE_cda_down : fedb.

Lemma FE_cdd fuel : forall p, FE (cdd fuel p).
Proof. induction fuel as [|f IH]; intros p; cbn [cdd]; fe_tac; auto. Qed.
#[global] Hint Resolve FE_cdd : fedb.

Lemma FE_clean_dirs_down p : FE (clean_dirs_down p).
Proof. unfold clean_dirs_down. fe_tac. Qed.
#[global] Hint Resolve FE_clean_dirs_down : fedb.

Lemma FE_cdu rp : FE (cdu_rev rp).
Proof. induction rp as [|x rp IH]; cbn [cdu_rev]; fe_tac; auto. Qed.
#[global] Hint Resolve FE_cdu : fedb.

Lemma FE_create_dir_all p : FE (create_dir_all p).
Proof. unfold create_dir_all. fe_tac. Qed.
#[global] Hint Resolve FE_create_dir_all : fedb.

Lemma FE_clean_dirs_up p : FE (clean_dirs_up p).
Proof. unfold clean_dirs_up. fe_tac. Qed.
#[global] Hint Resolve FE_clean_dirs_up : fedb.

Lemma FE_remove_file_inf p : FE (remove_file_inf p).
Proof. unfold remove_file_inf. fe_tac. Qed.
#[global] Hint Resolve FE_remove_file_inf : fedb.

Lemma FE_write_file p c : FE (write_file p c).
Proof. unfold write_file. fe_tac. Qed.
#[global] Hint Resolve FE_write_file : fedb.

Lemma FE_copy_file a c : FE (copy_file a c).
Proof. unfold copy_file. fe_tac. Qed.
#[global] Hint Resolve FE_copy_file : fedb.

Lemma FE_write_namaste d s : FE (write_namaste d s).
Proof. unfold write_namaste. fe_tac. Qed.
#[global] Hint Resolve FE_write_namaste : fedb.

Lemma FE_get_inventory c r : FE (get_inventory c r).
Proof. unfold get_inventory. fe_tac. Qed.
#[global] Hint Resolve FE_get_inventory : fedb.

Lemma FE_ensure_open : FE (ensure_open).
Proof. unfold ensure_open. fe_tac. Qed.
#[global] Hint Resolve FE_ensure_open : fedb.

Lemma FE_copy_inventory_files c a d : FE (copy_inventory_files c a d).
Proof. unfold copy_inventory_files. fe_tac. Qed.
#[global] Hint Resolve FE_copy_inventory_files : fedb.

Lemma FE_stage_inventory c i f : FE (stage_inventory c i f).
Proof. unfold stage_inventory. fe_tac. Qed.
#[global] Hint Resolve FE_stage_inventory : fedb.

Lemma FE_rm_staged_files c l : FE (rm_staged_files c l).
Proof. unfold rm_staged_files. fe_tac. Qed.
#[global] Hint Resolve FE_rm_staged_files : fedb.

Lemma FE_rm_orphaned_files c i : FE (rm_orphaned_files c i).
Proof. unfold rm_orphaned_files. fe_tac. Qed.
#[global] Hint Resolve FE_rm_orphaned_files : fedb.

Lemma FE_write_new_object c : FE (write_new_object c).
Proof. unfold write_new_object. fe_tac. Qed.
#[global] Hint Resolve FE_write_new_object : fedb.

Lemma FE_write_new_version c i : FE (write_new_version c i).
Proof. unfold write_new_version. fe_tac. Qed.
#[global] Hint Resolve FE_write_new_version : fedb.

Lemma FE_stage_object_declaration c i : FE (stage_object_declaration c i).
Proof. unfold stage_object_declaration. fe_tac. Qed.
#[global] Hint Resolve FE_stage_object_declaration : fedb.

Lemma FE_prep c : FE (prep c).
Proof. unfold prep. fe_tac. Qed.
#[global] Hint Resolve FE_prep : fedb.

Lemma FE_install c i : FE (install c i).
Proof. unfold install. fe_tac. Qed.
#[global] Hint Resolve FE_install : fedb.

Lemma FE_acquire c : FE (acquire c).
Proof. unfold acquire. fe_tac. Qed.
#[global] Hint Resolve FE_acquire : fedb.
