(** Hoare-style rules for the monad of Model/Commit.v (see Proofs/CommitFacts.v for the reading
    of [H] and [H0]). *)
From Coq Require Import List NArith Ascii Bool Arith Lia.
From Rocfl Require Import Base.Bytes Model.FsOps Model.FsTree Model.Commit Proofs.FsTreeFacts Proofs.CommitFacts.
Import ListNotations.

Implicit Types T K : tree -> Prop.
Implicit Types E : cerr -> tree -> Prop.

Definition quiet (w : world) : Prop := w_inj w = NoInj /\ w_closed w = false.
(** the repository is closed only by a stop request that has been delivered *)
Definition wfw (w : world) : Prop := w_closed w = true -> w_inj w = NoInj.

Definition H {A} (T : tree -> Prop) (m : M A) (Q : A -> tree -> Prop) (E : cerr -> tree -> Prop)
           (K : tree -> Prop) : Prop :=
  forall w, wfw w -> T (w_tree w) ->
    wfw (snd (m w)) /\
    (w_inj w = NoInj -> w_inj (snd (m w)) = NoInj /\ w_closed (snd (m w)) = w_closed w) /\
    match fst (m w) with
    | ROk a => Q a (w_tree (snd (m w)))
    | RErr e => E e (w_tree (snd (m w))) /\ (is_os e = false -> w_inj (snd (m w)) = NoInj /\ ~ quiet w)
    | RKilled => K (w_tree (snd (m w))) /\ w_inj w <> NoInj
    end.

Definition H0 {A} (T : tree -> Prop) (m : M A) (Q : A -> tree -> Prop) (E : cerr -> tree -> Prop) : Prop :=
  forall w, w_inj w = NoInj -> T (w_tree w) ->
    w_inj (snd (m w)) = NoInj /\ w_closed (snd (m w)) = w_closed w /\
    match fst (m w) with
    | ROk a => Q a (w_tree (snd (m w)))
    | RErr e => E e (w_tree (snd (m w)))
    | RKilled => False
    end.

Lemma H_to_H0 {A} T (m : M A) Q E K : H T m Q E K -> H0 T m Q E.
Proof.
  intros Hm w I Tw. destruct (Hm w) as (W & M & R); [intros _; exact I | exact Tw |].
  destruct (M I) as [M1 M2]. repeat split; auto.
  destruct (fst (m w)); [exact R | exact (proj1 R) | destruct R as [_ R]; contradiction].
Qed.

Lemma H_conseq {A} (T T' : tree -> Prop) (m : M A) (Q Q' : A -> tree -> Prop) (E E' : cerr -> tree -> Prop) (K K' : tree -> Prop) :
  H T m Q E K -> (forall t, T' t -> T t) -> (forall a t, Q a t -> Q' a t) -> (forall e t, E e t -> E' e t) ->
  (forall t, K t -> K' t) -> H T' m Q' E' K'.
Proof.
  intros Hm HT HQ HE HK w W Tw. destruct (Hm w W (HT _ Tw)) as (W' & M & R). repeat split; auto; try apply M; auto.
  destruct (fst (m w)); [auto | destruct R; split; auto | destruct R; split; auto].
Qed.

Lemma H0_conseq {A} (T T' : tree -> Prop) (m : M A) (Q Q' : A -> tree -> Prop) (E E' : cerr -> tree -> Prop) :
  H0 T m Q E -> (forall t, T' t -> T t) -> (forall a t, Q a t -> Q' a t) -> (forall e t, E e t -> E' e t) -> H0 T' m Q' E'.
Proof.
  intros Hm HT HQ HE w I Tw. destruct (Hm w I (HT _ Tw)) as (I' & C & R). repeat split; auto.
  destruct (fst (m w)); auto.
Qed.

Lemma H_false {A} (m : M A) Q E K : H (fun _ => False) m Q E K.
Proof. intros w _ []. Qed.

Lemma H0_false {A} (m : M A) Q E : H0 (fun _ => False) m Q E.
Proof. intros w _ []. Qed.

Lemma H_ret {A} T (a : A) (Q : A -> tree -> Prop) E K : (forall t, T t -> Q a t) -> H T (ret a) Q E K.
Proof. intros HQ w W Tw. cbn. auto. Qed.

Lemma H0_ret {A} T (a : A) (Q : A -> tree -> Prop) E : (forall t, T t -> Q a t) -> H0 T (ret a) Q E.
Proof. intros HQ w I Tw. cbn. auto. Qed.

Lemma H0_throw {A} T e (Q : A -> tree -> Prop) (E : cerr -> tree -> Prop) : (forall t, T t -> E e t) -> H0 T (@throw A e) Q E.
Proof. intros HE w I Tw. cbn. auto. Qed.

(** an error of the operating system may be passed on while the event is still pending *)
Lemma H_throw_os {A} T x (Q : A -> tree -> Prop) (E : cerr -> tree -> Prop) K :
  (forall t, T t -> E (EFs x) t) -> H T (@throw A (EFs x)) Q E K.
Proof. intros HE w W Tw. cbn. repeat split; auto; discriminate. Qed.

Lemma H_bind {A B} T (m : M A) (f : A -> M B) Q1 Q E K :
  H T m Q1 E K -> (forall a, H (Q1 a) (f a) Q E K) -> H T (bind m f) Q E K.
Proof.
  intros Hm Hf w W Tw. destruct (Hm w W Tw) as (W1 & M1 & R1). unfold bind.
  destruct (m w) as [[a|e|] w1] eqn:E1; cbn [fst snd] in *.
  - destruct (Hf a w1 W1 R1) as (W2 & M2 & R2). split; [exact W2|]. split.
    + intros I. destruct (M1 I) as [I1 C1]. destruct (M2 I1) as [I2 C2]. split; congruence.
    + destruct (fst (f a w1)); [exact R2| |].
      * destruct R2 as [R2 R3]. split; [exact R2|]. intros O. destruct (R3 O) as [I2 NQ]. split; [exact I2|].
        intros [I C]. apply NQ. destruct (M1 I) as [I1 C1]. split; congruence.
      * destruct R2 as [R2 R3]. split; [exact R2|]. intros I. apply R3. now apply M1.
  - auto.
  - auto.
Qed.

Lemma H0_bind {A B} T (m : M A) (f : A -> M B) Q1 Q E :
  H0 T m Q1 E -> (forall a, H0 (Q1 a) (f a) Q E) -> H0 T (bind m f) Q E.
Proof.
  intros Hm Hf w I Tw. destruct (Hm w I Tw) as (I1 & C1 & R1). unfold bind.
  destruct (m w) as [[a|e|] w1] eqn:E1; cbn [fst snd] in *.
  - destruct (Hf a w1 I1 R1) as (I2 & C2 & R2). repeat split; auto; congruence.
  - auto.
  - contradiction.
Qed.

Lemma H_andthen {A B} T (m : M A) (k : M B) Q1 Q E K :
  H T m (fun _ => Q1) E K -> H Q1 k Q E K -> H T (m ;; k) Q E K.
Proof. intros. eapply H_bind; eauto. Qed.

Lemma H0_andthen {A B} T (m : M A) (k : M B) Q1 Q E :
  H0 T m (fun _ => Q1) E -> H0 Q1 k Q E -> H0 T (m ;; k) Q E.
Proof. intros. eapply H0_bind; eauto. Qed.

Lemma H_get_tree {A} T (f : tree -> M A) Q E K :
  (forall t0, T t0 -> H (fun t => t = t0) (f t0) Q E K) -> H T (bind get_tree f) Q E K.
Proof. intros Hf w W Tw. unfold bind, get_tree. apply (Hf (w_tree w) Tw w W eq_refl). Qed.

Lemma H0_get_tree {A} T (f : tree -> M A) Q E :
  (forall t0, T t0 -> H0 (fun t => t = t0) (f t0) Q E) -> H0 T (bind get_tree f) Q E.
Proof. intros Hf w I Tw. unfold bind, get_tree. apply (Hf (w_tree w) Tw w I eq_refl). Qed.

Lemma H_get_closed {A} T (f : bool -> M A) Q E K :
  (forall b, H T (f b) Q E K) -> H T (bind get_closed f) Q E K.
Proof. intros Hf w W Tw. unfold bind, get_closed. apply (Hf (w_closed w) w W Tw). Qed.

Lemma H0_get_closed {A} T (f : bool -> M A) Q E :
  (forall b, H0 T (f b) Q E) -> H0 T (bind get_closed f) Q E.
Proof. intros Hf w I Tw. unfold bind, get_closed. apply (Hf (w_closed w) w I Tw). Qed.

(** ensure_open fails only after a stop request was delivered *)
Lemma H_ensure_open T (E : cerr -> tree -> Prop) K :
  (forall t, T t -> E EClosed t) -> H T ensure_open (fun _ => T) E K.
Proof.
  intros HE w W Tw. unfold ensure_open, bind, get_closed. destruct (w_closed w) eqn:C; cbn.
  - repeat split; auto. intros [_ X]. congruence.
  - repeat split; auto.
Qed.

Lemma H0_ensure_open T (E : cerr -> tree -> Prop) :
  (forall t, T t -> E EClosed t) -> H0 T ensure_open (fun _ => T) E.
Proof.
  intros HE w I Tw. unfold ensure_open, bind, get_closed. destruct (w_closed w) eqn:C; cbn; auto.
Qed.

Lemma H_step T s (Q : unit -> tree -> Prop) (E : cerr -> tree -> Prop) (K : tree -> Prop) :
  (forall t, T t -> match apply_step s t with FOk t' => Q tt t' | FErr x => E (EFs x) t end) ->
  (forall t, T t -> E EInjected t) -> (forall t, T t -> K t) ->
  H T (step s) Q E K.
Proof.
  intros HQ HE HK w W Tw. specialize (HQ _ Tw). specialize (HE _ Tw). specialize (HK _ Tw).
  unfold wfw in W. unfold step. destruct w as [t i cl tr lg fr]. cbn in *.
  destruct i as [|[|n]|[|n]|[|n]]; cbn.
  - destruct (apply_step s t); cbn; repeat split; auto; discriminate.
  - unfold wfw, quiet; cbn. repeat split; auto; try discriminate. intros [X _]; discriminate.
  - destruct (apply_step s t); cbn; unfold wfw; cbn; repeat split; auto; try discriminate;
      intros X; specialize (W X); discriminate.
  - unfold wfw; cbn. repeat split; auto; discriminate.
  - destruct (apply_step s t); cbn; unfold wfw; cbn; repeat split; auto; try discriminate;
      intros X; specialize (W X); discriminate.
  - destruct (apply_step s t); cbn; unfold wfw; cbn; repeat split; auto; discriminate.
  - destruct (apply_step s t); cbn; unfold wfw; cbn; repeat split; auto; try discriminate;
      intros X; specialize (W X); discriminate.
Qed.

Lemma H0_step T s (Q : unit -> tree -> Prop) (E : cerr -> tree -> Prop) :
  (forall t, T t -> match apply_step s t with FOk t' => Q tt t' | FErr x => E (EFs x) t end) ->
  H0 T (step s) Q E.
Proof.
  intros HQ w I Tw. specialize (HQ _ Tw). unfold step. destruct w as [t i cl tr lg fr]. cbn in *. subst i.
  destruct (apply_step s t); cbn; auto.
Qed.

(** error handlers: an OS error may arrive with the event still pending, every other error arrives
    in a world without pending event *)
Lemma H_catch {A} T (m : M A) (h : cerr -> M A) Q E1 E K :
  H T m Q E1 K ->
  (forall e, is_os e = true -> H (E1 e) (h e) Q E K) ->
  (forall e, is_os e = false -> H0 (E1 e) (h e) Q E) ->
  H T (catch m h) Q E K.
Proof.
  intros Hm Hos Hno w W Tw. destruct (Hm w W Tw) as (W1 & M1 & R1). unfold catch.
  destruct (m w) as [[a|e|] w1] eqn:E1'; cbn [fst snd] in *.
  - auto.
  - destruct R1 as [R1 R1']. destruct (is_os e) eqn:O.
    + destruct (Hos e O w1 W1 R1) as (W2 & M2 & R2). split; [exact W2|]. split.
      * intros I. destruct (M1 I) as [I1 C1]. destruct (M2 I1) as [I2 C2]. split; congruence.
      * destruct (fst (h e w1)); [exact R2| |].
        -- destruct R2 as [R2 R3]. split; [exact R2|]. intros O2. destruct (R3 O2) as [I2 NQ]. split; [exact I2|].
           intros [I C]. apply NQ. destruct (M1 I) as [I1 C1]. split; congruence.
        -- destruct R2 as [R2 R3]. split; [exact R2|]. intros I. apply R3. now apply M1.
    + destruct (R1' eq_refl) as [I1 NQ]. destruct (Hno e O w1 I1 R1) as (I2 & C2 & R2).
      split; [intros _; exact I2|]. split.
      * intros I. split; [exact I2|]. destruct (M1 I) as [_ C1]. congruence.
      * destruct (fst (h e w1)); [exact R2 | split; auto | contradiction].
  - auto.
Qed.

Lemma H0_catch {A} T (m : M A) (h : cerr -> M A) Q E1 E :
  H0 T m Q E1 -> (forall e, H0 (E1 e) (h e) Q E) -> H0 T (catch m h) Q E.
Proof.
  intros Hm Hh w I Tw. destruct (Hm w I Tw) as (I1 & C1 & R1). unfold catch.
  destruct (m w) as [[a|e|] w1] eqn:E1'; cbn [fst snd] in *.
  - auto.
  - destruct (Hh e w1 I1 R1) as (I2 & C2 & R2). repeat split; auto; congruence.
  - contradiction.
Qed.

(** `match attempt m { None => k None, Some e => k (Some e) }` *)
Lemma H_attempt_bind {A B} T (m : M A) (k : option cerr -> M B) Q1 E1 Q E K :
  H T m (fun _ => Q1) E1 K ->
  H Q1 (k None) Q E K ->
  (forall e, is_os e = true -> H (E1 e) (k (Some e)) Q E K) ->
  (forall e, is_os e = false -> H0 (E1 e) (k (Some e)) Q E) ->
  H T (bind (attempt m) k) Q E K.
Proof.
  intros Hm Hn Hos Hno w W Tw. destruct (Hm w W Tw) as (W1 & M1 & R1).
  unfold bind, attempt, catch, ret. unfold bind.
  destruct (m w) as [[a|e|] w1] eqn:E1'; cbn [fst snd] in *.
  - destruct (Hn w1 W1 R1) as (W2 & M2 & R2). split; [exact W2|]. split.
    + intros I. destruct (M1 I) as [I1 C1]. destruct (M2 I1) as [I2 C2]. split; congruence.
    + destruct (fst (k None w1)); [exact R2| |].
      * destruct R2 as [R2 R3]. split; [exact R2|]. intros O2. destruct (R3 O2) as [I2 NQ]. split; [exact I2|].
        intros [I C]. apply NQ. destruct (M1 I) as [I1 C1]. split; congruence.
      * destruct R2 as [R2 R3]. split; [exact R2|]. intros I. apply R3. now apply M1.
  - destruct R1 as [R1 R1']. destruct (is_os e) eqn:O.
    + destruct (Hos e O w1 W1 R1) as (W2 & M2 & R2). split; [exact W2|]. split.
      * intros I. destruct (M1 I) as [I1 C1]. destruct (M2 I1) as [I2 C2]. split; congruence.
      * destruct (fst (k (Some e) w1)); [exact R2| |].
        -- destruct R2 as [R2 R3]. split; [exact R2|]. intros O2. destruct (R3 O2) as [I2 NQ]. split; [exact I2|].
           intros [I C]. apply NQ. destruct (M1 I) as [I1 C1]. split; congruence.
        -- destruct R2 as [R2 R3]. split; [exact R2|]. intros I. apply R3. now apply M1.
    + destruct (R1' eq_refl) as [I1 NQ]. destruct (Hno e O w1 I1 R1) as (I2 & C2 & R2).
      split; [intros _; exact I2|]. split.
      * intros I. split; [exact I2|]. destruct (M1 I) as [_ C1]. congruence.
      * destruct (fst (k (Some e) w1)); [exact R2 | split; auto | contradiction].
  - auto.
Qed.

Lemma H0_attempt_bind {A B} T (m : M A) (k : option cerr -> M B) Q1 E1 Q E :
  H0 T m (fun _ => Q1) E1 ->
  H0 Q1 (k None) Q E ->
  (forall e, H0 (E1 e) (k (Some e)) Q E) ->
  H0 T (bind (attempt m) k) Q E.
Proof.
  intros Hm Hn Hs w I Tw. destruct (Hm w I Tw) as (I1 & C1 & R1).
  unfold bind, attempt, catch, ret. unfold bind.
  destruct (m w) as [[a|e|] w1] eqn:E1'; cbn [fst snd] in *.
  - destruct (Hn w1 I1 R1) as (I2 & C2 & R2). repeat split; auto; congruence.
  - destruct (Hs e w1 I1 R1) as (I2 & C2 & R2). repeat split; auto; congruence.
  - contradiction.
Qed.

(** attempt whose outcome is dropped: m's errors are swallowed *)
Lemma H_attempt_drop {A B} T (m : M A) (k : M B) Q1 E1 Q E K :
  H T m (fun _ => Q1) E1 K ->
  (forall e t, E1 e t -> Q1 t) ->
  H Q1 k Q E K -> H T (attempt m ;; k) Q E K.
Proof.
  intros Hm HE Hk. unfold andthen. apply H_attempt_bind with (Q1 := Q1) (E1 := E1); auto.
  - intros e O. eapply H_conseq; [exact Hk | intros; eapply HE; eauto | auto | auto | auto].
  - intros e O. eapply H0_conseq; [eapply H_to_H0; exact Hk | intros; eapply HE; eauto | auto | auto].
Qed.

Lemma H0_attempt_drop {A B} T (m : M A) (k : M B) Q1 E1 Q E :
  H0 T m (fun _ => Q1) E1 ->
  (forall e t, E1 e t -> Q1 t) ->
  H0 Q1 k Q E -> H0 T (attempt m ;; k) Q E.
Proof.
  intros Hm HE Hk. unfold andthen. apply H0_attempt_bind with (Q1 := Q1) (E1 := E1); auto.
  intros e. eapply H0_conseq; [exact Hk | intros; eapply HE; eauto | auto | auto].
Qed.

Lemma H_forM {A} (I : tree -> Prop) (l : list A) f E K :
  (forall x, In x l -> H I (f x) (fun _ => I) E K) -> H I (forM_ l f) (fun _ => I) E K.
Proof.
  induction l as [|x l IH]; intros Hf; cbn [forM_].
  - apply H_ret. auto.
  - eapply H_andthen; [apply Hf; now left | apply IH; intros; apply Hf; now right].
Qed.

Lemma H0_forM {A} (I : tree -> Prop) (l : list A) f E :
  (forall x, In x l -> H0 I (f x) (fun _ => I) E) -> H0 I (forM_ l f) (fun _ => I) E.
Proof.
  induction l as [|x l IH]; intros Hf; cbn [forM_].
  - apply H0_ret. auto.
  - eapply H0_andthen; [apply Hf; now left | apply IH; intros; apply Hf; now right].
Qed.

(** `let _guard = ...; body`: the guard's drop runs after Ok and after Err *)
Lemma H_finally {A} T (m : M A) fin Q1 E1 Q E K :
  H T m Q1 E1 K ->
  (forall e t, E1 e t -> is_os e = false) ->
  (forall a, H (Q1 a) fin (fun _ => Q a) (fun _ => Q a) K) ->
  (forall e, H0 (E1 e) fin (fun _ => E e) (fun _ => E e)) ->
  H T (finally m fin) Q E K.
Proof.
  intros Hm Hnos Hok Herr. unfold finally.
  eapply H_catch with (E1 := E1).
  - eapply H_bind; [exact Hm|]. intros a. eapply H_attempt_drop; [apply Hok | auto | ]. apply H_ret. auto.
  - intros e O. apply (H_conseq (fun _ => False) (E1 e) _ Q Q E E K K); auto using H_false.
    intros t X. apply Hnos in X. congruence.
  - intros e O. eapply H0_attempt_drop; [apply Herr | auto | ]. apply H0_throw. auto.
Qed.
