(** The phases of commit (Model/Commit.v): acquire, prep (inside the staged object), install,
    purge of the staged object, unlock - what each keeps and what it establishes. *)
From Coq Require Import List NArith Ascii Bool Arith Lia.
From Rocfl Require Import Base.Bytes Model.FsOps Model.FsTree Model.Commit
  Proofs.FsTreeFacts Proofs.CommitFacts Proofs.CommitLogic Proofs.CommitSteps Proofs.CommitPreserve.
Import ListNotations.

(** * paths *)
Lemma path_eqb_app p x y : path_eqb (p ++ x) (p ++ y) = path_eqb x y.
Proof. induction p as [|a p IH]; cbn; [reflexivity|]. now rewrite seg_eqb_refl, IH. Qed.

Lemma app_eq_under a x c y : a ++ x = c ++ y -> under a c = true \/ under c a = true.
Proof.
  intros E. apply (under_comparable a c (a ++ x)); [apply under_app | rewrite E; apply under_app].
Qed.

Lemma disjoint_app_neq a c x y : under a c = false -> under c a = false -> a ++ x <> c ++ y.
Proof. intros H1 H2 E. destruct (app_eq_under _ _ _ _ E); congruence. Qed.

Lemma under_disjoint a c x : under a c = false -> under c a = false -> under a x = true -> under c x = false.
Proof.
  intros H1 H2 Hx. destruct (under c x) eqn:E; [|reflexivity].
  destruct (under_comparable _ _ _ Hx E); congruence.
Qed.

Lemma under_prefix_false a c q : under a c = false -> under q c = true -> under a q = false.
Proof.
  intros H1 H2. destruct (under a q) eqn:E; [|reflexivity]. rewrite (under_trans _ _ _ E H2) in H1. discriminate.
Qed.

Lemma app_single_inj {A} (p : list A) a c : p ++ [a] = p ++ [c] -> a = c.
Proof. intros E. apply app_inv_head in E. now injection E. Qed.

Lemma app_neq_len {A} (p x y : list A) : List.length x <> List.length y -> p ++ x <> p ++ y.
Proof. intros L E. apply app_inv_head in E. subst. contradiction. Qed.

Lemma fs_mkdir_eexist t p : p <> [] -> fs_mkdir t p = FErr EEXIST -> lookup t p <> None.
Proof.
  unfold fs_mkdir, creatable. intros N. destruct p as [|a p]; [contradiction|].
  destruct (lookup t (a :: p)); [intros _; discriminate|].
  destruct (node_at t (parent (a :: p))) as [[|]|]; discriminate.
Qed.

Lemma snoc_ne {A} (p : list A) a : p ++ [a] <> [].
Proof. intros E. apply app_eq_nil in E as [_ E]. discriminate. Qed.

(** * stable predicates *)
Lemma stable_and P1 b1 P2 b2 :
  stable P1 b1 -> stable P2 b2 -> stable (fun t => P1 t /\ P2 t) (fun p => b1 p \/ b2 p).
Proof.
  intros S1 S2 t t' p [H1 H2] O B. split; [eapply S1 | eapply S2]; eauto.
Qed.

Lemma stable_weaken P (b b' : fpath -> Prop) : stable P b -> (forall p, b p -> b' p) -> stable P b'.
Proof. intros S W t t' p H O B. eapply S; eauto. Qed.

(** the node at q is fixed *)
Lemma stable_point q v : stable (fun t => lookup t q = v) (fun p => p = q).
Proof. intros t t' p H O B. rewrite O; [exact H | congruence]. Qed.

(** everything at or below root is as in tref *)
Lemma stable_same_at root tref : stable (fun t => same_at root t tref) (fun p => under root p = true).
Proof.
  intros t t' p H O B x Hx. rewrite O; [now apply H|]. intros ->. contradiction.
Qed.

(** everything outside the paths [inside] is as in tref *)
Lemma stable_outside (inside : fpath -> Prop) tref :
  stable (fun t => forall x, ~ inside x -> lookup t x = lookup tref x) (fun p => ~ inside p).
Proof.
  intros t t' p H O B x Hx. rewrite O; [now apply H|]. intros ->. contradiction.
Qed.

(** a family of fixed nodes *)
Lemma stable_family {X} (l : X -> Prop) (path : X -> fpath) (v : X -> option node) :
  stable (fun t => forall d, l d -> lookup t (path d) = v d) (fun p => exists d, l d /\ p = path d).
Proof.
  intros t t' p H O B d Hd. rewrite O; [now apply H|]. intros E. apply B. eauto.
Qed.

(** * postconditions of the utilities *)
Section Post.
  Variable P : tree -> Prop.
  Variable bad : fpath -> Prop.
  Hypothesis St : stable P bad.

  Lemma H_step_set s p n :
    is_rename_step s = false -> step_path s = p -> ~ bad p ->
    (forall t t', apply_step s t = FOk t' -> lookup t' p = n) ->
    H P (step s) (fun _ t => P t /\ lookup t p = n) (fun _ => P) P.
  Proof.
    intros R Sp B Hn. apply H_step; [|auto|auto].
    intros t Pt. destruct (apply_step s t) as [t'|x] eqn:E; [|exact Pt]. split.
    - apply (St t t' p Pt); [rewrite <- Sp; now apply apply_step_only_at | exact B].
    - eapply Hn; eauto.
  Qed.

  (** write_file: afterwards the file has the content *)
  Lemma H_write_file p c :
    ~ bad p -> H P (write_file p c) (fun _ t => P t /\ lookup t p = Some (File c)) (fun _ => P) P.
  Proof.
    intros B. unfold write_file. eapply H_andthen.
    - apply (keeps_step P bad St). split; [reflexivity | auto].
    - apply H_step_set; auto. cbn. intros t t' E. apply fs_finish_ok in E as [-> _]. apply lookup_insert_eq.
  Qed.

  (** fs::copy: afterwards the destination has the content the source had *)
  Lemma H_copy_file a p c0 :
    ~ bad p ->
    H (fun t => P t /\ read_file t a = Some c0) (copy_file a p)
      (fun _ t => P t /\ lookup t p = Some (File c0)) (fun _ => P) P.
  Proof.
    intros B. unfold copy_file. apply H_get_tree. intros t0 [P0 R0]. rewrite R0.
    eapply H_conseq with (T := P) (Q := fun _ t => P t /\ lookup t p = Some (File c0)) (E := fun _ => P) (K := P);
      [| intros t ->; exact P0 | auto | auto | auto].
    eapply H_andthen; [apply (keeps_step P bad St); split; [reflexivity | auto]|].
    eapply H_andthen; [apply (keeps_step P bad St); split; [reflexivity | auto]|].
    eapply H_andthen with (Q1 := fun t => P t /\ lookup t p = Some (File c0)).
    - apply H_step_set; auto. cbn. intros t t' E. apply fs_finish_ok in E as [-> _]. apply lookup_insert_eq.
    - apply H_step; cbn; intuition.
  Qed.

  (** create_dir_all: afterwards the path is a directory *)
  Lemma H_cda_up_post x rp :
    (forall q, under q (rev (x :: rp)) = true -> forall t t', P t -> fs_mkdir t q = FOk t' -> ~ bad q) ->
    H P (cda_up (x :: rp)) (fun n t => P t /\ (n = O -> is_dir t (rev (x :: rp)) = true)) (fun _ => P) P.
  Proof.
    intros Hb. cbn [cda_up]. cbv zeta. remember (rev (x :: rp)) as p eqn:Ep.
    eapply H_attempt_bind with (Q1 := fun t => P t /\ lookup t p = Some Dir)
                               (E1 := fun e t => P t /\ (e = EFs EEXIST -> lookup t p <> None) ).
    - apply H_step; [|auto|auto].
      + intros t Pt. cbn [apply_step]. destruct (fs_mkdir t p) as [t'|e] eqn:E.
        * apply fs_mkdir_ok in E as E'. destruct E' as [-> _]. split; [|apply lookup_insert_eq].
          eapply St; [exact Pt | apply only_at_insert | eapply Hb; eauto; apply under_refl].
        * split; [exact Pt|]. intros X. injection X as ->. apply (fs_mkdir_eexist t p); [|exact E].
          subst p. cbn [rev]. now destruct (rev rp).
      + intros t Pt. split; [exact Pt | discriminate].
    - apply H_ret. intros t [Pt L]. split; [exact Pt|]. intros _. now apply is_dir_lookup.
    - intros e O. destruct e as [x0| | | | | | | |]; try discriminate. destruct x0.
      + eapply H_bind with (Q1 := fun _ => P).
        * eapply H_conseq; [apply (keeps_cda_up P bad St rp) | | auto | auto | auto].
          -- intros q Hq. apply Hb. rewrite Ep. cbn [rev]. eapply under_trans; [exact Hq | apply under_app].
          -- intros t [Pt _]. exact Pt.
        * intros n. apply H_ret. intros t Pt. split; [exact Pt | discriminate].
      + apply H_get_tree. intros t0 [P0 _]. destruct (is_dir t0 p) eqn:D.
        * apply H_ret. intros t ->. auto.
        * apply H_throw_os. intros t ->. exact P0.
      + apply H_throw_os. intros t [Pt _]. exact Pt.
      + apply H_throw_os. intros t [Pt _]. exact Pt.
      + apply H_throw_os. intros t [Pt _]. exact Pt.
      + apply H_throw_os. intros t [Pt _]. exact Pt.
    - intros e O. destruct e; try discriminate; apply H0_throw; intros t [Pt _]; exact Pt.
  Qed.

  Lemma H_cda_down_post x rp n :
    (forall q, under q (rev (x :: rp)) = true -> forall t t', P t -> fs_mkdir t q = FOk t' -> ~ bad q) ->
    H P (cda_down (x :: rp) (S n)) (fun _ t => P t /\ is_dir t (rev (x :: rp)) = true) (fun _ => P) P.
  Proof.
    intros Hb. cbn [cda_down]. remember (rev (x :: rp)) as p eqn:Ep.
    eapply H_andthen with (Q1 := P).
    - apply (keeps_cda_down P bad St). intros q Hq. apply Hb. rewrite Ep. cbn [rev]. eapply under_trans; [exact Hq | apply under_app].
    - eapply H_attempt_bind with (Q1 := fun t => P t /\ lookup t p = Some Dir) (E1 := fun _ => P).
      + apply H_step; [|auto|auto].
        intros t Pt. cbn [apply_step]. destruct (fs_mkdir t p) as [t'|e] eqn:E; [|exact Pt].
        apply fs_mkdir_ok in E as E'. destruct E' as [-> _]. split; [|apply lookup_insert_eq].
        eapply St; [exact Pt | apply only_at_insert | eapply Hb; eauto; apply under_refl].
      + apply H_ret. intros t [Pt L]. split; [exact Pt | now apply is_dir_lookup].
      + intros e O. destruct e as [x0| | | | | | | |]; try discriminate.
        destruct x0; try (apply H_throw_os; auto).
        apply H_get_tree. intros t0 P0. destruct (is_dir t0 p) eqn:D.
        * apply H_ret. intros t ->. auto.
        * apply H_throw_os. intros t ->. exact P0.
      + intros e O. destruct e; try discriminate; apply H0_throw; auto.
  Qed.

  Lemma H_create_dir_all_post p :
    p <> [] ->
    (forall q, under q p = true -> forall t t', P t -> fs_mkdir t q = FOk t' -> ~ bad q) ->
    H P (create_dir_all p) (fun _ t => P t /\ is_dir t p = true) (fun _ => P) P.
  Proof.
    intros Np Hb. unfold create_dir_all.
    destruct (rev p) as [|x rp] eqn:R.
    { apply (f_equal (@rev _)) in R. rewrite rev_involutive in R. cbn in R. contradiction. }
    assert (Ep : rev (x :: rp) = p) by (rewrite <- R; apply rev_involutive).
    eapply H_bind.
    - apply H_cda_up_post. rewrite Ep. exact Hb.
    - intros [|n].
      + cbn [cda_down]. apply H_ret. intros t [Pt D]. split; [exact Pt|]. rewrite <- Ep. now apply D.
      + eapply H_conseq; [apply H_cda_down_post; rewrite Ep; exact Hb | | | auto | auto].
        * intros t [Pt _]. exact Pt.
        * intros _ t [Pt D]. split; [exact Pt | now rewrite <- Ep].
  Qed.
End Post.

Lemma H_pure {A} (phi : Prop) (T : tree -> Prop) (m : M A) Q E K :
  (phi -> H T m Q E K) -> H (fun t => phi /\ T t) m Q E K.
Proof. intros Hm w W [F Tw]. now apply Hm. Qed.

Lemma H0_pure {A} (phi : Prop) (T : tree -> Prop) (m : M A) Q E :
  (phi -> H0 T m Q E) -> H0 (fun t => phi /\ T t) m Q E.
Proof. intros Hm w W [F Tw]. now apply Hm. Qed.

Lemma mem_path_In d l : In d l -> mem_path d l = true.
Proof.
  intros I. unfold mem_path. apply existsb_exists. exists d. split; [exact I | apply path_eqb_refl].
Qed.

Lemma mem_path_true d l : mem_path d l = true -> In d l.
Proof.
  unfold mem_path. intros H. apply existsb_exists in H as [x [I E]]. apply path_eqb_eq in E. now subst.
Qed.

Lemma minus_paths_In d l r : In d (minus_paths l r) -> In d l /\ ~ In d r.
Proof.
  unfold minus_paths. intros H. apply filter_In in H as [I N]. split; [exact I|].
  intros X. apply mem_path_In in X. rewrite X in N. discriminate.
Qed.

Lemma invr_eta x : mkInv (i_k x) (i_vs x) (i_spec x) (i_man x) (i_dups x) = x.
Proof. now destruct x. Qed.

(** * the commit in context *)
Section Commit.
  Variable c : cfg.
  Variable t0 : tree.
  Variable i0 : invr.
  Hypothesis Pre : commit_pre c t0 i0.

  Let So := c_so c.
  Let Mo := c_mo c.
  Let L := lockp c.
  Let h := head_of i0.
  Let i := committed_inv c i0.
  Let CO := pre_cfg c t0 i0 Pre.
  Let SO := pre_staged c t0 i0 Pre.

  Lemma head_i : head_of i = h.
  Proof. reflexivity. Qed.

  Lemma man_i d : In d (i_man i) -> In d (i_man i0) /\ ~ In d (i_dups i0).
  Proof. apply minus_paths_In. Qed.

  Lemma So_ne : So <> []. Proof. apply (ok_so_ne c CO). Qed.
  Lemma Mo_ne : Mo <> []. Proof. apply (ok_mo_ne c CO). Qed.

  Lemma L_not_under_So : under So L = false. Proof. apply (ok_so_lock c CO). Qed.
  Lemma L_not_under_Mo : under Mo L = false. Proof. apply (ok_mo_lock c CO). Qed.

  Lemma So_sub_neq_L x : So ++ x <> L.
  Proof. intros E. pose proof L_not_under_So as N. rewrite <- E, under_app in N. discriminate. Qed.

  Lemma Mo_sub_neq_L x : Mo ++ x <> L.
  Proof. intros E. pose proof L_not_under_Mo as N. rewrite <- E, under_app in N. discriminate. Qed.

  Lemma So_Mo_neq x y : So ++ x <> Mo ++ y.
  Proof. apply disjoint_app_neq; [apply (ok_so_mo c CO) | apply (ok_mo_so c CO)]. Qed.

  Lemma under_So_not_Mo x : under So x = true -> under Mo x = false.
  Proof. apply under_disjoint; [apply (ok_so_mo c CO) | apply (ok_mo_so c CO)]. Qed.

  Lemma under_Mo_not_So x : under Mo x = true -> under So x = false.
  Proof. apply under_disjoint; [apply (ok_mo_so c CO) | apply (ok_so_mo c CO)]. Qed.

  Lemma prefix_So_not_L q : under q So = true -> q <> L.
  Proof. intros U ->. pose proof (ok_lock_so c CO) as N. fold So L in N. congruence. Qed.

  (** content paths of the staged inventory *)
  Lemma man0_shape d : In d (i_man i0) -> exists rest, rest <> [] /\ d = h :: c_cdir c :: rest.
  Proof. intros I. apply (st_man c t0 i0 SO) in I as [CP _]. exact CP. Qed.

  Lemma man0_file d : In d (i_man i0) -> exists n, lookup t0 (So ++ d) = Some (File (CBlob n)).
  Proof. intros I. apply (st_man c t0 i0 SO) in I as [_ F]. exact F. Qed.

  Lemma shape_neq_single d a : (exists rest, rest <> [] /\ d = h :: c_cdir c :: rest) -> So ++ d <> So ++ [a].
  Proof. intros [r [N ->]]. apply app_neq_len. cbn. destruct r; [contradiction | cbn; lia]. Qed.

  Lemma shape_neq_h_inv d : (exists rest, rest <> [] /\ d = h :: c_cdir c :: rest) -> So ++ d <> So ++ [h; c_inv c].
  Proof. intros [r [N ->]] E. apply app_inv_head in E. injection E as E1 E2. now subst r. Qed.

  Lemma shape_neq_h_side d : (exists rest, rest <> [] /\ d = h :: c_cdir c :: rest) -> So ++ d <> So ++ [h; c_side c].
  Proof. intros [r [N ->]] E. apply app_inv_head in E. injection E as E1 E2. now subst r. Qed.

  (** ** the base invariant: outside the staged object and the lock file nothing changes, and the
      content files of the version being committed stay where they are *)
  Definition inside (x : fpath) : Prop := under So x = true \/ x = L.

  Definition Base (t : tree) : Prop :=
    (forall x, ~ inside x -> lookup t x = lookup t0 x) /\
    (forall d, In d (i_man i) -> lookup t (So ++ d) = lookup t0 (So ++ d)).

  Definition bad_base (p : fpath) : Prop := ~ inside p \/ exists d, In d (i_man i) /\ p = So ++ d.

  Lemma stable_Base : stable Base bad_base.
  Proof. apply stable_and; [apply stable_outside | apply (stable_family (fun d => In d (i_man i)) (fun d => So ++ d))]. Qed.

  Lemma Base_main t x : Base t -> under Mo x = true -> lookup t x = lookup t0 x.
  Proof.
    intros [B _] U. apply B. intros [X | ->].
    - rewrite (under_Mo_not_So _ U) in X. discriminate.
    - rewrite L_not_under_Mo in U. discriminate.
  Qed.

  Lemma Base_anc t q : Base t -> q <> [] -> under q So = true -> q <> So -> lookup t q = Some Dir.
  Proof.
    intros [B _] N U NE. rewrite B; [now apply (st_anc c t0 i0 SO)|].
    intros [X | ->]; [|now apply (prefix_So_not_L _ U)]. apply NE. now apply under_antisym.
  Qed.

  Lemma Base_content_file t d : Base t -> In d (i_man i) -> exists n, lookup t (So ++ d) = Some (File (CBlob n)).
  Proof. intros [_ B] I. rewrite (B _ I). apply man0_file. now apply man_i. Qed.

  (** a path at which something is newly created, a file is unlinked or an empty directory is removed is not bad *)
  Lemma good_absent t p : Base t -> inside p -> lookup t p = None -> ~ bad_base p.
  Proof.
    intros B I N [X | [d [Id ->]]]; [contradiction|].
    destruct (Base_content_file _ _ B Id) as [n F]. congruence.
  Qed.

  Lemma good_dir t p : Base t -> inside p -> lookup t p = Some Dir -> ~ bad_base p.
  Proof.
    intros B I N [X | [d [Id ->]]]; [contradiction|].
    destruct (Base_content_file _ _ B Id) as [n F]. congruence.
  Qed.

  (** ** acquire *)
  Definition AcqPost (t : tree) : Prop := forall x, x <> L -> lookup t x = lookup t0 x.

  Lemma stable_AcqPost : stable AcqPost (fun p => p <> L).
  Proof.
    intros t t' p H O B x Hx. rewrite O; [now apply H|]. intros ->. apply B. exact Hx.
  Qed.

  Lemma AcqPost_t0 : AcqPost t0.
  Proof. intros x _. reflexivity. Qed.

  Lemma AcqPost_locks t : AcqPost t -> is_dir t (c_locks c) = true.
  Proof.
    intros A. pose proof (pre_locks c t0 i0 Pre) as D. unfold is_dir, node_at in *.
    destruct (c_locks c) as [|a l] eqn:E; [reflexivity|]. rewrite A; [exact D|].
    unfold L, lockp. rewrite E. intros X. apply (f_equal (@List.length _)) in X. rewrite app_length in X. cbn in X. lia.
  Qed.

  (** create_dir_all of a directory that exists: one mkdir probe, nothing changes *)
  Lemma keeps_cda_existing (P : tree -> Prop) p :
    (forall t, P t -> is_dir t p = true) -> keeps P (create_dir_all p).
  Proof.
    intros D. unfold create_dir_all. destruct (rev p) as [|x rp] eqn:R.
    - cbn [cda_up]. apply keeps_bind; [apply keeps_ret | intros [|n]; cbn [cda_down]; apply keeps_ret].
    - assert (Ep : rev (x :: rp) = p) by (rewrite <- R; apply rev_involutive).
      assert (Np : p <> []) by (rewrite <- Ep; cbn; now destruct (rev rp)).
      cbn [cda_up]. cbv zeta. rewrite Ep.
      eapply H_bind with (Q1 := fun n t => n = O /\ P t).
      + eapply H_attempt_bind with (Q1 := fun _ => False) (E1 := fun e t => (is_os e = true -> e = EFs EEXIST) /\ P t).
        * apply H_step.
          -- intros t Pt. cbn [apply_step]. destruct (fs_mkdir t p) as [t'|e] eqn:E.
             ++ apply fs_mkdir_ok in E as [_ N]. specialize (D t Pt). apply is_dir_inv in D as [->|D]; [contradiction | congruence].
             ++ split; [|exact Pt]. intros _. f_equal. unfold fs_mkdir in E. destruct (creatable t p) eqn:C; [|discriminate].
                injection E as ->. unfold creatable in C. destruct p as [|a p']; [contradiction|].
                specialize (D t Pt). apply is_dir_inv in D as [D|D]; [discriminate|]. rewrite D in C. now injection C.
          -- intros t Pt. split; [discriminate | exact Pt].
          -- auto.
        * apply H_false.
        * intros e O. apply H_pure. intros X. specialize (X O). subst e.
          apply H_get_tree. intros t1 P1. rewrite (D t1 P1). apply H_ret. intros t ->. split; [reflexivity | exact P1].
        * intros e O. destruct e; try discriminate; apply H0_throw; intros t [_ Pt]; exact Pt.
      + intros n. apply H_pure. intros ->. cbn [cda_down]. apply keeps_ret.
  Qed.

  Definition AcqPre (t : tree) : Prop := AcqPost t /\ lookup t L = None.

  Lemma L_ne : L <> [].
  Proof. unfold L, lockp. now destruct (c_locks c). Qed.

  Lemma H_false_pre {A} (T : tree -> Prop) (m : M A) Q E K : (forall t, T t -> False) -> H T m Q E K.
  Proof. intros F w W Tw. destruct (F _ Tw). Qed.

  Lemma H_acquire : H AcqPre (acquire c) (fun _ => AcqPost) (fun _ => AcqPost) AcqPost.
  Proof.
    unfold acquire. eapply H_andthen with (Q1 := AcqPre).
    - eapply H_conseq; [apply (keeps_cda_existing AcqPre) | auto | auto | intros e t [A _]; exact A | intros t [A _]; exact A].
      intros t [A _]. now apply AcqPost_locks.
    - eapply H_conseq with (T := AcqPre) (Q := fun _ => AcqPost) (E := fun _ => AcqPost) (K := AcqPost); auto.
      + eapply H_catch with (E1 := fun e t => is_os e = false /\ AcqPost t).
        * apply H_step.
          -- intros t [A N]. cbn [apply_step]. change (c_locks c ++ [c_lock c]) with L.
             rewrite (fs_create_new_new t L (CBlob 0) L_ne N).
             ++ apply (stable_AcqPost t _ L A (only_at_insert _ _ _)). intros X. now apply X.
             ++ unfold L, lockp. rewrite parent_app. now apply AcqPost_locks.
          -- intros t [A _]. split; [reflexivity | exact A].
          -- intros t [A _]. exact A.
        * intros e O. apply H_false_pre. intros t [X _]. congruence.
        * intros e O. apply H0_throw. intros t [_ A]. exact A.
  Qed.

  (** unlock: only the lock file changes *)
  Lemma keeps_unlock (P : tree -> Prop) bad : stable P bad -> ~ bad L -> keeps P (unlock c).
  Proof.
    intros St B. unfold unlock. apply (keeps_remove_file_inf P bad St). intros. exact B.
  Qed.

  (** ** prep: everything happens inside the staged object *)
  Definition Pts (l : list (fpath * option node)) (t : tree) : Prop :=
    forall q v, In (q, v) l -> lookup t q = v.
  Definition in_pts (l : list (fpath * option node)) (p : fpath) : Prop := exists v, In (p, v) l.

  Lemma stable_Pts l : stable (Pts l) (in_pts l).
  Proof.
    intros t t' p H O B q v I. rewrite O; [now apply H|]. intros ->. apply B. now exists v.
  Qed.

  Definition JP l (t : tree) : Prop := Base t /\ Pts l t.
  Definition bad_JP l (p : fpath) : Prop := bad_base p \/ in_pts l p.

  Lemma stable_JP l : stable (JP l) (bad_JP l).
  Proof. apply stable_and; [apply stable_Base | apply stable_Pts]. Qed.

  Lemma JP_cons l p v t : JP l t -> lookup t p = v -> JP ((p, v) :: l) t.
  Proof.
    intros [B P] E. split; [exact B|]. intros q w [X|X]; [injection X as <- <-; exact E | now apply P].
  Qed.

  Lemma JP_Base l t : JP l t -> Base t.
  Proof. now intros [B _]. Qed.

  Definition tok := tok_of i.
  Definition sd := CSide (c_newk c).
  Definition l1 := [(So, Some Dir)].
  Definition l2 := (So ++ [c_inv c], Some (File tok)) :: l1.
  Definition l3 := (So ++ [c_side c], Some (File sd)) :: l2.
  Definition l4 := (So ++ [h], Some Dir) :: l3.
  Definition l5 := (So ++ [h; c_inv c], Some (File tok)) :: l4.
  Definition l6 := (So ++ [h; c_side c], Some (File sd)) :: l5.

  Lemma inside_So_sub x : inside (So ++ x).
  Proof. left. apply under_app. Qed.

  Lemma not_content_single a : ~ (exists d, In d (i_man i) /\ So ++ [a] = So ++ d).
  Proof.
    intros [d [I E]]. apply man_i in I as [I _]. apply (shape_neq_single d a (man0_shape _ I)). now symmetry.
  Qed.

  Lemma not_bad_base_single a : ~ bad_base (So ++ [a]).
  Proof. intros [X | X]; [apply X, inside_So_sub | now apply (not_content_single a)]. Qed.

  Lemma not_bad_base_h_inv : ~ bad_base (So ++ [h; c_inv c]).
  Proof.
    intros [X | [d [I E]]]; [apply X, inside_So_sub|].
    apply man_i in I as [I _]. apply (shape_neq_h_inv d (man0_shape _ I)). now symmetry.
  Qed.

  Lemma not_bad_base_h_side : ~ bad_base (So ++ [h; c_side c]).
  Proof.
    intros [X | [d [I E]]]; [apply X, inside_So_sub|].
    apply man_i in I as [I _]. apply (shape_neq_h_side d (man0_shape _ I)). now symmetry.
  Qed.

  Lemma So_neq_sub a x : So <> So ++ a :: x.
  Proof. intros E. rewrite <- (app_nil_r So) in E at 1. apply app_inv_head in E. discriminate. Qed.

  Lemma sub1_neq a e : a <> e -> So ++ [a] <> So ++ [e].
  Proof. intros N E. apply app_single_inj in E. contradiction. Qed.

  Lemma sub12_neq a e f : So ++ [a] <> So ++ [e; f].
  Proof. apply app_neq_len. cbn. lia. Qed.

  Lemma sub2_neq a e f : e <> f -> So ++ [a; e] <> So ++ [a; f].
  Proof. intros N E. apply app_inv_head in E. injection E as E. contradiction. Qed.

  Lemma h_inv : h <> c_inv c. Proof. apply (st_head_inv c t0 i0 SO). Qed.
  Lemma h_side : h <> c_side c. Proof. apply (st_head_side c t0 i0 SO). Qed.
  Lemma inv_side : c_inv c <> c_side c. Proof. apply (ok_inv_side c CO). Qed.

  Ltac in_pts_cases X :=
    let v := fresh "v" in destruct X as [v X]; cbn in X;
    repeat (destruct X as [X | X]; [injection X as X _ | ]); try contradiction.

  Lemma AcqPost_JP1 t : AcqPost t -> JP l1 t /\ read_file t (So ++ [c_inv c]) = Some (tok_of i0).
  Proof.
    intros A. assert (SoL : So <> L) by (rewrite <- (app_nil_r So); apply So_sub_neq_L).
    repeat split.
    - intros x NI. apply A. intros ->. apply NI. now right.
    - intros d _. apply A. apply So_sub_neq_L.
    - intros q v [X|[]]. injection X as <- <-. rewrite (A _ SoL). apply (st_anc c t0 i0 SO); [apply So_ne | apply under_refl].
    - unfold read_file. rewrite node_at_app, (A _ (So_sub_neq_L _)). pose proof (st_inv c t0 i0 SO) as R.
      unfold read_file in R. now rewrite node_at_app in R.
  Qed.

  Lemma prefix_app_single q p (a : fseg) : under q (p ++ [a]) = true -> q = p ++ [a] \/ under q p = true.
  Proof.
    intros U. destruct (under_comparable q p (p ++ [a]) U (under_app _ _)) as [X|X]; [now right|].
    apply under_iff in X as [s ->]. apply under_iff in U as [s' E]. rewrite <- app_assoc in E.
    apply app_inv_head in E. destruct s as [|b s]; [right; rewrite app_nil_r; apply under_refl|].
    cbn in E. injection E as -> E. destruct s; [now left | discriminate].
  Qed.

  (** making a directory on the way to S_o/<head>: only S_o/<head> itself can be missing *)
  Lemma good_mkdir_head l t t' q :
    (forall p, in_pts l p -> p = So \/ p = So ++ [c_inv c] \/ p = So ++ [c_side c]) -> In (So, Some Dir) l ->
    under q (So ++ [h]) = true -> JP l t -> fs_mkdir t q = FOk t' -> ~ bad_JP l q.
  Proof.
    intros Hl HSo U [B P] E.
    assert (Nq : q <> []) by (intros ->; cbn in E; discriminate).
    apply fs_mkdir_ok in E as [_ N].
    apply prefix_app_single in U as [-> | U].
    - intros [X | X]; [now apply (not_bad_base_single h)|].
      apply Hl in X as [X | [X | X]].
      + now apply (So_neq_sub h []).
      + apply app_single_inj in X. now apply h_inv.
      + apply app_single_inj in X. now apply h_side.
    - exfalso. destruct (path_eq_dec q So) as [-> | NE].
      + rewrite (P _ _ HSo) in N. discriminate.
      + rewrite (Base_anc t q B Nq U NE) in N. discriminate.
  Qed.

  Lemma read_file_lookup t p a cnt : lookup t (p ++ [a]) = Some (File cnt) -> read_file t (p ++ [a]) = Some cnt.
  Proof. intros E. unfold read_file. now rewrite node_at_app, E. Qed.

  Lemma read_file_lookup2 t p a e cnt : lookup t (p ++ [a; e]) = Some (File cnt) -> read_file t (p ++ [a; e]) = Some cnt.
  Proof. intros E. unfold read_file. rewrite node_at_lookup; [now rewrite E | now destruct p]. Qed.

  Ltac path_absurd X :=
    exfalso;
    first [ now apply sub12_neq in X | symmetry in X; now apply sub12_neq in X
          | now apply So_neq_sub in X | symmetry in X; now apply So_neq_sub in X
          | apply app_single_inj in X; first [now apply inv_side | now apply h_inv | now apply h_side
                                              | symmetry in X; first [now apply inv_side | now apply h_inv | now apply h_side]]
          | apply app_inv_head in X; injection X as X;
            first [now apply inv_side | symmetry in X; now apply inv_side] ].

  Lemma H_stage_inventory_final :
    H (JP l1) (stage_inventory c i true) (fun _ => JP l6) (fun _ => Base) Base.
  Proof.
    unfold stage_inventory. change (head_of i) with h. change (i_k i) with (c_newk c). fold So.
    eapply H_andthen with (Q1 := JP l2).
    { eapply H_conseq; [apply (H_write_file (JP l1) (bad_JP l1) (stable_JP l1)) | auto | | intros e t X; exact (JP_Base _ _ X) | intros t X; exact (JP_Base _ _ X)].
      - intros [X | X]; [now apply (not_bad_base_single (c_inv c))|]. in_pts_cases X. path_absurd X.
      - intros _ t [J E]. now apply JP_cons. }
    eapply H_andthen with (Q1 := JP l3).
    { eapply H_conseq; [apply (H_write_file (JP l2) (bad_JP l2) (stable_JP l2)) | auto | | intros e t X; exact (JP_Base _ _ X) | intros t X; exact (JP_Base _ _ X)].
      - intros [X | X]; [now apply (not_bad_base_single (c_side c))|]. in_pts_cases X; path_absurd X.
      - intros _ t [J E]. now apply JP_cons. }
    eapply H_andthen with (Q1 := JP l4).
    { eapply H_conseq; [apply (H_create_dir_all_post (JP l3) (bad_JP l3) (stable_JP l3) (So ++ [h])) | auto | | intros e t X; exact (JP_Base _ _ X) | intros t X; exact (JP_Base _ _ X)].
      - now destruct So.
      - intros q U t t' J E. apply (good_mkdir_head l3 t t' q); auto.
        + intros p X. in_pts_cases X; auto.
        + cbn. auto.
      - intros _ t [J D]. apply JP_cons; [exact J|]. apply is_dir_inv in D as [D|D]; [destruct So; discriminate | exact D]. }
    unfold copy_inventory_files. rewrite <- !app_assoc. cbn [app].
    eapply H_andthen with (Q1 := JP l5).
    { eapply H_conseq; [apply (H_copy_file (JP l4) (bad_JP l4) (stable_JP l4) (So ++ [c_inv c]) (So ++ [h; c_inv c]) tok) | | | intros e t X; exact (JP_Base _ _ X) | intros t X; exact (JP_Base _ _ X)].
      - intros [X | X]; [now apply not_bad_base_h_inv|]. in_pts_cases X; path_absurd X.
      - intros t J. split; [exact J|]. apply read_file_lookup. destruct J as [_ P]. apply P. cbn. auto.
      - intros _ t [J E]. now apply JP_cons. }
    eapply H_conseq; [apply (H_copy_file (JP l5) (bad_JP l5) (stable_JP l5) (So ++ [c_side c]) (So ++ [h; c_side c]) sd) | | | intros e t X; exact (JP_Base _ _ X) | intros t X; exact (JP_Base _ _ X)].
    - intros [X | X]; [now apply not_bad_base_h_side|]. in_pts_cases X; path_absurd X.
    - intros t J. split; [exact J|]. apply read_file_lookup. destruct J as [_ P]. apply P. cbn. auto.
    - intros _ t [J E]. now apply JP_cons.
  Qed.

  Lemma cdir_inv : c_cdir c <> c_inv c. Proof. apply (ok_cdir_inv c CO). Qed.
  Lemma cdir_side : c_cdir c <> c_side c. Proof. apply (ok_cdir_side c CO). Qed.

  Lemma Pts_l6 t q v : JP l6 t -> In (q, v) l6 -> lookup t q = v.
  Proof. intros [_ P]. apply P. Qed.

  (** removing a file of the head content directory that the new manifest does not list *)
  Lemma good_unlink t rest :
    rest <> [] -> ~ In (h :: c_cdir c :: rest) (i_man i) -> JP l6 t -> ~ bad_JP l6 (So ++ h :: c_cdir c :: rest).
  Proof.
    intros Nr NI J [[X | [d [I E]]] | X].
    - apply X, inside_So_sub.
    - apply app_inv_head in E. subst d. contradiction.
    - in_pts_cases X.
      + apply app_inv_head in X. injection X as X1 X2. now apply cdir_side.
      + apply app_inv_head in X. injection X as X1 X2. now apply cdir_inv.
      + apply app_inv_head in X. discriminate.
      + apply app_inv_head in X. discriminate.
      + apply app_inv_head in X. discriminate.
      + now apply So_neq_sub in X.
  Qed.

  (** removing an empty directory on the way up from such a file *)
  Lemma good_rmdir t t' q f :
    JP l6 t -> fs_rmdir t q = FOk t' -> under q f = true -> under So f = true -> ~ bad_JP l6 q.
  Proof.
    intros J E Uq Uf. apply fs_rmdir_ok in E as (_ & D & NC).
    assert (Hinv : lookup t (So ++ [h; c_inv c]) = Some (File tok)) by (apply (Pts_l6 t _ _ J); cbn; auto).
    assert (Hsinv : lookup t (So ++ [c_inv c]) = Some (File tok)) by (apply (Pts_l6 t _ _ J); cbn; auto 10).
    intros [[X | [d [I ->]]] | X].
    - apply X. left. destruct (under_comparable _ _ _ Uq Uf) as [C | C]; [|exact C].
      exfalso. assert (B : below q (So ++ [h; c_inv c]) = true).
      { apply below_iff. split; [eapply under_trans; [exact C | apply under_app]|].
        intros Y. apply under_length in C. rewrite <- Y, app_length in C. cbn in C. lia. }
      rewrite (has_children_true _ _ _ _ Hinv B) in NC. discriminate.
    - destruct (Base_content_file t d (JP_Base _ _ J) I) as [n F]. congruence.
    - in_pts_cases X; subst q.
      + rewrite (Pts_l6 t _ _ J (or_introl eq_refl)) in D. discriminate.
      + congruence.
      + rewrite (Pts_l6 t (So ++ [h]) (Some Dir) J) in D by (cbn; auto).
        assert (B : below (So ++ [h]) (So ++ [h; c_inv c]) = true).
        { change (So ++ [h; c_inv c]) with (So ++ [h] ++ [c_inv c]). rewrite app_assoc. apply below_app. discriminate. }
        rewrite (has_children_true _ _ _ _ Hinv B) in NC. discriminate.
      + rewrite (Pts_l6 t (So ++ [c_side c]) (Some (File sd)) J) in D by (cbn; auto 10). discriminate.
      + congruence.
      + assert (B : below So (So ++ [c_inv c]) = true) by (apply below_app; discriminate).
        rewrite (has_children_true _ _ _ _ Hsinv B) in NC. discriminate.
  Qed.

  Lemma keeps_rm_one f rest :
    f = So ++ h :: c_cdir c :: rest -> rest <> [] -> ~ In (h :: c_cdir c :: rest) (i_man i) ->
    keeps (JP l6) (remove_file_inf f ;; clean_dirs_up (parent f)).
  Proof.
    intros -> Nr NI. apply keeps_andthen.
    - apply (keeps_remove_file_inf (JP l6) (bad_JP l6) (stable_JP l6)). intros t t' J _. exact (good_unlink t rest Nr NI J).
    - apply (keeps_clean_dirs_up (JP l6) (bad_JP l6) (stable_JP l6)). intros q U t t' J E.
      apply (good_rmdir t t' q (So ++ h :: c_cdir c :: rest) J E); [|apply under_app].
      eapply under_trans; [exact U | apply under_parent].
  Qed.

  Lemma keeps_rm_staged_files : keeps (JP l6) (rm_staged_files c (i_dups i0)).
  Proof.
    unfold rm_staged_files. apply keeps_forM. intros d I. fold So.
    pose proof (st_dups c t0 i0 SO d I) as Im. destruct (man0_shape d Im) as [rest [Nr ->]].
    apply (keeps_rm_one _ rest eq_refl Nr). intros X. apply man_i in X as [_ X]. contradiction.
  Qed.

  Lemma keeps_rm_orphaned_files : keeps (JP l6) (rm_orphaned_files c i).
  Proof.
    unfold rm_orphaned_files. change (head_of i) with h. fold So. apply keeps_get_tree'. intros t1.
    destruct (exists_at t1 (So ++ [h; c_cdir c])); [|apply keeps_ret].
    apply keeps_andthen.
    - apply keeps_forM. intros f I. apply filter_In in I as [I NM].
      unfold files_below in I. apply in_map_iff in I as [[f' n] [<- I]]. apply filter_In in I as [_ B]. cbn [fst snd] in *.
      apply andb_true_iff in B as [B _]. apply below_iff in B as [U NE]. apply under_iff in U as [s ->].
      assert (Ns : s <> []) by (intros ->; apply NE; now rewrite app_nil_r).
      rewrite <- app_assoc in *. cbn [app] in *.
      apply (keeps_rm_one _ s eq_refl Ns). intros X. apply mem_path_In in X.
      rewrite skipn_app, skipn_all, Nat.sub_diag in NM. cbn [skipn app] in NM. rewrite X in NM. discriminate.
    - apply keeps_get_tree'. intros t2. destruct (exists_at t2 (So ++ [h; c_cdir c])); [|apply keeps_ret].
      apply (keeps_clean_dirs_down (JP l6) (bad_JP l6) (stable_JP l6)). intros q U t t' J E.
      apply (good_rmdir t t' q q J E (under_refl _)). eapply under_trans; [apply under_app | exact U].
  Qed.

  (** the declaration rewrite of a never committed object (repo.rs:1079): it works on children of the staged
      object root that are neither the inventory nor the sidecar, creating what is absent and removing or
      writing files *)
  Lemma child_good t a :
    JP l6 t -> a <> c_inv c -> a <> c_side c ->
    (lookup t (So ++ [a]) = None \/ exists cnt, lookup t (So ++ [a]) = Some (File cnt)) -> ~ bad_JP l6 (So ++ [a]).
  Proof.
    intros J Ni Ns F. intros [X | X]; [now apply (not_bad_base_single a)|].
    in_pts_cases X.
    - apply app_neq_len in X; [exact X | cbn; lia].
    - apply app_neq_len in X; [exact X | cbn; lia].
    - apply app_single_inj in X. subst a. rewrite (Pts_l6 t (So ++ [h]) (Some Dir) J) in F by (cbn; auto 10).
      destruct F as [F | [cnt F]]; discriminate.
    - apply app_single_inj in X. congruence.
    - apply app_single_inj in X. congruence.
    - now apply So_neq_sub in X.
  Qed.

  Lemma keeps_stage_object_declaration : keeps (JP l6) (stage_object_declaration c i).
  Proof.
    unfold stage_object_declaration. fold So. change (i_spec i) with (i_spec i0).
    pose proof (st_spec_inv c t0 i0 SO) as Ni. pose proof (st_spec_side c t0 i0 SO) as Ns.
    apply keeps_get_tree'. intros t1. apply keeps_andthen.
    - match goal with |- keeps _ (if ?b then _ else _) => destruct b end; [apply keeps_ret|].
      apply keeps_andthen.
      + apply (keeps_remove_file_inf (JP l6) (bad_JP l6) (stable_JP l6)). intros t t' J E.
        apply fs_unlink_ok in E as [_ F]. apply (child_good t _ J Ni Ns). now right.
      + unfold write_namaste. apply keeps_andthen; apply (keeps_step (JP l6) (bad_JP l6) (stable_JP l6)); (split; [reflexivity|]); cbn; intros t t' J E.
        * apply fs_create_new_ok in E as [_ N]. apply (child_good t _ J Ni Ns). now left.
        * apply fs_finish_ok in E as [_ F]. apply (child_good t _ J Ni Ns). now right.
    - apply keeps_forM. intros q I. apply filter_In in I as [I _]. unfold find_decls in I. apply in_map_iff in I as [[q' n] [<- I]].
      apply filter_In in I as [I D]. apply filter_In in I as [_ C]. cbn [fst snd] in *.
      apply (keeps_remove_file_inf (JP l6) (bad_JP l6) (stable_JP l6)). intros t t' J E.
      apply fs_unlink_ok in E as [_ F]. apply is_child_inv in C as [a ->]. rewrite last_app_single in D.
      apply (child_good t a J); [| | now right].
      + intros ->. rewrite (ok_inv_nodecl c CO) in D. discriminate.
      + intros ->. rewrite (ok_side_nodecl c CO) in D. discriminate.
  Qed.

  (** the staged inventory is read back as it was written *)
  Lemma H_prep :
    H AcqPost (prep c) (fun r t => r = i /\ JP l6 t) (fun _ => Base) Base.
  Proof.
    unfold prep.
    eapply H_bind with (Q1 := fun r t => r = i0 /\ AcqPost t).
    - eapply H_conseq with (T := AcqPost) (E := fun _ _ => False) (K := fun _ => False); [| auto | auto | intros e t [] | intros t []].
      eapply H_catch with (Q := fun r t => r = i0 /\ AcqPost t) (E1 := fun _ _ => False).
      + unfold get_inventory. apply H_get_tree. intros t1 A.
        destruct (AcqPost_JP1 t1 A) as [[_ P] R].
        assert (EX : is_dir t1 (c_so c) && (is_object_rootb t1 (c_so c) || exists_at t1 (c_so c ++ [c_inv c])) = true).
        { fold So. rewrite (is_dir_lookup t1 So (P So (Some Dir) (or_introl eq_refl))).
          unfold exists_at, read_file in *. destruct (node_at t1 (So ++ [c_inv c])); [now rewrite orb_true_r | discriminate]. }
        rewrite EX. cbn [negb]. fold So. rewrite R. unfold tok_of. rewrite (invr_eta i0).
        apply H_ret. intros t ->. auto.
      + intros e O. apply H_false_pre. auto.
      + intros e O. apply H0_false.
      + auto.
    - intros r. apply H_pure. intros ->. fold i.
      eapply H_conseq with (T := JP l1) (Q := fun r t => r = i /\ JP l6 t) (E := fun _ => Base) (K := Base); auto.
      2: { intros t A. now apply AcqPost_JP1. }
      eapply H_andthen; [apply H_stage_inventory_final|].
      eapply H_andthen with (Q1 := JP l6).
      { eapply H_conseq; [apply keeps_rm_staged_files | auto | auto | intros e t X; exact (JP_Base _ _ X) | intros t X; exact (JP_Base _ _ X)]. }
      eapply H_andthen with (Q1 := JP l6).
      { eapply H_conseq; [apply keeps_rm_orphaned_files | auto | auto | intros e t X; exact (JP_Base _ _ X) | intros t X; exact (JP_Base _ _ X)]. }
      apply H_ret. auto.
  Qed.

  (** ** the global predicates *)
  Definition OLD (t : tree) : Prop := same_at Mo t t0.
  Definition CS_S (t : tree) : Prop := forall d, In d (i_man i) -> lookup t (So ++ d) = lookup t0 (So ++ d).
  Definition CS_M (t : tree) : Prop := forall d, In d (i_man i) -> lookup t (Mo ++ d) = lookup t0 (So ++ d).

  Lemma Base_OLD t : Base t -> OLD t.
  Proof. intros B x U. now apply Base_main. Qed.

  Lemma Base_CS_S t : Base t -> CS_S t.
  Proof. now intros [_ B]. Qed.

  Lemma src_dest_disjoint a : under (So ++ [a]) (Mo ++ [a]) = false /\ under (Mo ++ [a]) (So ++ [a]) = false.
  Proof.
    split.
    - destruct (under (So ++ [a]) (Mo ++ [a])) eqn:E; [|reflexivity].
      apply under_app_inv in E. rewrite (under_Mo_not_So _ (under_app Mo [a])) in E. discriminate.
    - destruct (under (Mo ++ [a]) (So ++ [a])) eqn:E; [|reflexivity].
      apply under_app_inv in E. rewrite (under_So_not_Mo _ (under_app So [a])) in E. discriminate.
  Qed.

  (** ** install of a first version: one rename of the whole staged object *)
  Section NewObject.
    Variable t1 : tree.
    Hypothesis J1 : JP l6 t1.
    Hypothesis Absent : forall x, under Mo x = true -> lookup t0 x = None.

    Definition NI (t : tree) : Prop :=
      (forall x, under Mo x = true -> lookup t x = None) /\
      (forall x, under So x = true -> lookup t x = lookup t1 x).

    Lemma stable_NI : stable NI (fun p => under Mo p = true \/ under So p = true).
    Proof.
      intros t t' p [N1 N2] O B. split; intros x U; (rewrite O; [auto|]); intros ->; apply B; auto.
    Qed.

    Lemma NI_t1 : NI t1.
    Proof. split; [|reflexivity]. intros x U. rewrite (Base_main t1 x (JP_Base _ _ J1) U). now apply Absent. Qed.

    Definition NObjPost (t : tree) : Prop :=
      (forall x, lookup t (Mo ++ x) = lookup t1 (So ++ x)) /\ (forall x, under So x = true -> lookup t x = None).

    Lemma prefix_parent_Mo_good q : under q (parent Mo) = true -> ~ (under Mo q = true \/ under So q = true).
    Proof.
      intros U [X | X].
      - pose proof (under_trans _ _ _ X U) as Y. apply under_length in Y.
        destruct (nonempty_last Mo Mo_ne) as [l [a E]]. rewrite E, parent_app, app_length in Y. cbn in Y. lia.
      - pose proof (under_trans _ _ _ X (under_trans _ _ _ U (under_parent Mo))) as Y.
        pose proof (ok_so_mo c CO) as Z. fold So Mo in Z. congruence.
    Qed.

    Lemma H_write_new_object :
      H NI (write_new_object c) (fun _ => NObjPost) (fun _ => NI) NI.
    Proof.
      unfold write_new_object. fold So Mo.
      eapply H_andthen; [apply H_ensure_open; auto|].
      apply H_get_tree. intros t2 N2.
      assert (EX : exists_at t2 Mo = false).
      { unfold exists_at. rewrite node_at_lookup by apply Mo_ne. destruct N2 as [N2 _]. now rewrite (N2 Mo (under_refl _)). }
      rewrite EX.
      eapply H_conseq with (T := NI) (Q := fun _ => NObjPost) (E := fun _ => NI) (K := NI); auto.
      2: { intros t ->. exact N2. }
      eapply H_andthen with (Q1 := fun t => NI t /\ is_dir t (parent Mo) = true).
      - destruct (path_eq_dec (parent Mo) []) as [E0 | NE].
        + rewrite E0. eapply H_conseq; [apply (keeps_cda_existing NI []); reflexivity | auto | | auto | auto].
          intros u t N. split; [exact N | reflexivity].
        + apply (H_create_dir_all_post NI _ stable_NI (parent Mo) NE).
          intros q U t t' _ _. now apply prefix_parent_Mo_good.
      - apply H_step.
        + intros t [[N1 N3] D]. cbn [apply_step].
          assert (SoD : lookup t So = Some Dir).
          { rewrite (N3 So (under_refl _)). apply (Pts_l6 t1 So (Some Dir) J1). cbn. auto 10. }
          rewrite (fs_rename_fresh t So Mo So_ne Mo_ne); auto.
          * split.
            -- intros x. rewrite lookup_rename_fresh; auto; [|apply (ok_so_mo c CO) | apply (ok_mo_so c CO)].
               rewrite under_app. rewrite skipn_app, skipn_all, Nat.sub_diag. cbn [skipn app]. apply N3, under_app.
            -- intros x U. rewrite lookup_rename_fresh; auto; [|apply (ok_so_mo c CO) | apply (ok_mo_so c CO)].
               rewrite (under_So_not_Mo _ U), U. reflexivity.
          * congruence.
          * apply (ok_so_mo c CO).
          * apply (ok_mo_so c CO).
          * apply N1, under_refl.
        + intros t [N _]. exact N.
        + intros t [N _]. exact N.
    Qed.

    Lemma NI_OLD t : NI t -> OLD t.
    Proof. intros [N _] x U. rewrite (N x U). symmetry. now apply Absent. Qed.

    Lemma NI_CS_S t : NI t -> CS_S t.
    Proof. intros [_ N] d I. rewrite (N _ (under_app So d)). now apply (Base_CS_S t1 (JP_Base _ _ J1)). Qed.

    Lemma NObjPost_CS_M t : NObjPost t -> CS_M t.
    Proof. intros [N _] d I. rewrite N. now apply (Base_CS_S t1 (JP_Base _ _ J1)). Qed.
  End NewObject.

  Lemma H_step_eq s ta tb (Q : unit -> tree -> Prop) (E : cerr -> tree -> Prop) (K : tree -> Prop) :
    apply_step s ta = FOk tb -> Q tt tb -> E EInjected ta -> K ta -> H (fun t => t = ta) (step s) Q E K.
  Proof.
    intros A Hq He Hk. apply H_step; intros t ->; auto. now rewrite A.
  Qed.

  Lemma H0_step_eq s ta tb (Q : unit -> tree -> Prop) (E : cerr -> tree -> Prop) :
    apply_step s ta = FOk tb -> Q tt tb -> H0 (fun t => t = ta) (step s) Q E.
  Proof. intros A Hq. apply H0_step. intros t ->. now rewrite A. Qed.

  (** ** install of a further version (the type of the inventory unchanged) *)
  Section NewVersion.
    Variable t1 : tree.
    Hypothesis J1 : JP l6 t1.
    Variables (k0 : N) (vs0 : list fseg) (spec0 : fseg) (man0 dups0 : list fpath) (osd : content).
    Hypothesis V0 : vs0 <> [].
    Hypothesis VS : i_vs i0 = vs0 ++ [h].
    Hypothesis MoD : lookup t0 Mo = Some Dir.
    Hypothesis MInv : lookup t0 (Mo ++ [c_inv c]) = Some (File (CInv k0 vs0 spec0 man0 dups0)).
    Hypothesis MSide : lookup t0 (Mo ++ [c_side c]) = Some (File osd).
    Hypothesis Free : forall x, under (Mo ++ [h]) x = true -> lookup t0 x = None.
    Hypothesis SameSpec : i_spec i0 = spec0.

    Let src := So ++ [h].
    Let dest := Mo ++ [h].
    Let oinv := CInv k0 vs0 spec0 man0 dups0.
    Let pinv := Mo ++ [c_inv c].
    Let pside := Mo ++ [c_side c].

    Definition s1 : tree := map (rekey src dest) (remove dest t1).
    Definition s2 : tree := insert pinv (File CPartial) s1.
    Definition s3 : tree := insert pinv (File tok) s2.
    Definition s4 : tree := insert pside (File CPartial) s3.
    Definition s5 : tree := insert pside (File sd) s4.

    Lemma t1_main x : under Mo x = true -> lookup t1 x = lookup t0 x.
    Proof. apply Base_main, (JP_Base _ _ J1). Qed.

    Lemma t1_free x : under dest x = true -> lookup t1 x = None.
    Proof.
      intros U. rewrite t1_main; [now apply Free|]. eapply under_trans; [apply under_app | exact U].
    Qed.

    Lemma s1_lookup x :
      lookup s1 x = if under dest x then lookup t1 (src ++ skipn (List.length dest) x)
                    else if under src x then None else lookup t1 x.
    Proof.
      unfold s1. destruct (src_dest_disjoint h) as [D1 D2]. apply lookup_rename_fresh; auto. apply t1_free.
    Qed.

    Lemma Mo_sub_not_under_dest a x : a <> h -> under dest (Mo ++ a :: x) = false.
    Proof. intros N. unfold dest. apply under_single_neq. congruence. Qed.

    Lemma Mo_sub_not_under_src x : under src (Mo ++ x) = false.
    Proof.
      destruct (under src (Mo ++ x)) eqn:E; [|reflexivity]. apply under_app_inv in E.
      rewrite (under_Mo_not_So _ (under_app Mo x)) in E. discriminate.
    Qed.

    Lemma s1_pinv : lookup s1 pinv = Some (File oinv).
    Proof.
      rewrite s1_lookup. unfold pinv. rewrite (Mo_sub_not_under_dest (c_inv c) []) by (apply not_eq_sym, h_inv).
      rewrite Mo_sub_not_under_src. rewrite t1_main by apply under_app. exact MInv.
    Qed.

    Lemma s1_pside : lookup s1 pside = Some (File osd).
    Proof.
      rewrite s1_lookup. unfold pside. rewrite (Mo_sub_not_under_dest (c_side c) []) by (apply not_eq_sym, h_side).
      rewrite Mo_sub_not_under_src. rewrite t1_main by apply under_app. exact MSide.
    Qed.

    Lemma s1_dest_sub x : lookup s1 (dest ++ x) = lookup t1 (src ++ x).
    Proof. rewrite s1_lookup, under_app, skipn_app, skipn_all, Nat.sub_diag. reflexivity. Qed.

    Lemma pinv_pside : pinv <> pside.
    Proof. unfold pinv, pside. intros E. apply app_single_inj in E. now apply inv_side. Qed.

    Definition RBpre (t : tree) : Prop :=
      (forall x, x <> pinv -> x <> pside -> lookup t x = lookup s1 x) /\
      (exists c1, lookup t pinv = Some (File c1)) /\ (exists c2, lookup t pside = Some (File c2)).

    Lemma RBpre_s1 : RBpre s1.
    Proof. split; [reflexivity|]. split; [rewrite s1_pinv | rewrite s1_pside]; eauto. Qed.

    Lemma RBpre_ins_inv t cnt : RBpre t -> RBpre (insert pinv (File cnt) t).
    Proof.
      intros (R1 & R2 & R3). split; [|split].
      - intros x N1 N2. rewrite lookup_insert_neq by congruence. now apply R1.
      - rewrite lookup_insert_eq. eauto.
      - rewrite lookup_insert_neq by apply pinv_pside. exact R3.
    Qed.

    Lemma RBpre_ins_side t cnt : RBpre t -> RBpre (insert pside (File cnt) t).
    Proof.
      intros (R1 & R2 & R3). split; [|split].
      - intros x N1 N2. rewrite lookup_insert_neq by congruence. now apply R1.
      - rewrite lookup_insert_neq by (apply not_eq_sym, pinv_pside). exact R2.
      - rewrite lookup_insert_eq. eauto.
    Qed.

    Lemma RBpre_s2 : RBpre s2. Proof. apply RBpre_ins_inv, RBpre_s1. Qed.
    Lemma RBpre_s3 : RBpre s3. Proof. apply RBpre_ins_inv, RBpre_s2. Qed.
    Lemma RBpre_s4 : RBpre s4. Proof. apply RBpre_ins_side, RBpre_s3. Qed.
    Lemma RBpre_s5 : RBpre s5. Proof. apply RBpre_ins_side, RBpre_s4. Qed.

    Lemma pinv_ne : pinv <> []. Proof. apply snoc_ne. Qed.
    Lemma pside_ne : pside <> []. Proof. apply snoc_ne. Qed.

    (** the two copies into the object root, every event considered *)
    Definition KV (t : tree) : Prop := In t [t1; s1; s2; s3; s4; s5].
    Definition E1V (e : cerr) (t : tree) : Prop := is_os e = false /\ RBpre t.

    Lemma H_copy_root :
      H (fun t => t = s1) (copy_inventory_files c dest Mo) (fun _ t => t = s5) E1V KV.
    Proof.
      unfold copy_inventory_files. fold pinv pside.
      eapply H_andthen with (Q1 := fun t => t = s3).
      - unfold copy_file. apply H_get_tree. intros ? ->.
        assert (R : read_file s1 (dest ++ [c_inv c]) = Some tok).
        { apply read_file_lookup. rewrite s1_dest_sub. unfold src. rewrite <- app_assoc. apply (Pts_l6 t1 _ _ J1). cbn. auto. }
        rewrite R.
        eapply H_andthen with (Q1 := fun t => t = s2).
        { apply (H_step_eq _ s1 s2); [cbn; apply (fs_trunc_file _ _ _ pinv_ne s1_pinv) | reflexivity | split; [reflexivity | apply RBpre_s1] | cbn; auto]. }
        eapply H_andthen with (Q1 := fun t => t = s2).
        { apply (H_step_eq _ s2 s2); [reflexivity | reflexivity | split; [reflexivity | apply RBpre_s2] | cbn; auto]. }
        eapply H_andthen with (Q1 := fun t => t = s3).
        { apply (H_step_eq _ s2 s3); [cbn; apply (fs_finish_file _ _ _ CPartial pinv_ne); apply lookup_insert_eq | reflexivity | split; [reflexivity | apply RBpre_s2] | cbn; auto]. }
        apply (H_step_eq _ s3 s3); [reflexivity | reflexivity | split; [reflexivity | apply RBpre_s3] | cbn; auto 10].
      - unfold copy_file. apply H_get_tree. intros ? ->.
        assert (R : read_file s3 (dest ++ [c_side c]) = Some sd).
        { apply read_file_lookup. unfold s3, s2. rewrite !lookup_insert_neq.
          - rewrite s1_dest_sub. unfold src. rewrite <- app_assoc. apply (Pts_l6 t1 _ _ J1). cbn. auto.
          - unfold pinv, dest. rewrite <- app_assoc. apply app_neq_len. cbn. lia.
          - unfold pinv, dest. rewrite <- app_assoc. apply app_neq_len. cbn. lia. }
        rewrite R.
        assert (S3 : lookup s3 pside = Some (File osd)).
        { unfold s3, s2. rewrite !lookup_insert_neq by apply pinv_pside. apply s1_pside. }
        eapply H_andthen with (Q1 := fun t => t = s4).
        { apply (H_step_eq _ s3 s4); [cbn; apply (fs_trunc_file _ _ _ pside_ne S3) | reflexivity | split; [reflexivity | apply RBpre_s3] | cbn; auto 10]. }
        eapply H_andthen with (Q1 := fun t => t = s4).
        { apply (H_step_eq _ s4 s4); [reflexivity | reflexivity | split; [reflexivity | apply RBpre_s4] | cbn; auto 10]. }
        eapply H_andthen with (Q1 := fun t => t = s5).
        { apply (H_step_eq _ s4 s5); [cbn; apply (fs_finish_file _ _ _ CPartial pside_ne); apply lookup_insert_eq | reflexivity | split; [reflexivity | apply RBpre_s4] | cbn; auto 10]. }
        apply (H_step_eq _ s5 s5); [reflexivity | reflexivity | split; [reflexivity | apply RBpre_s5] | cbn; auto 10].
    Qed.
  
    (** the rollback of fs.rs:455-466, run without pending event: the whole tree is as before the install *)
    Definition RB2 (t : tree) : Prop :=
      (forall x, x <> pinv -> x <> pside -> lookup t x = lookup s1 x) /\
      lookup t pinv = Some (File oinv) /\ lookup t pside = Some (File osd).

    Lemma H0_write_file_existing (T : tree -> Prop) p cnt :
      p <> [] -> (forall t, T t -> exists c0, lookup t p = Some (File c0)) ->
      H0 T (write_file p cnt)
         (fun _ t' => exists t, T t /\ t' = insert p (File cnt) (insert p (File CPartial) t)) (fun _ _ => False).
    Proof.
      intros Np Hf. unfold write_file.
      eapply H0_andthen with (Q1 := fun t' => exists t, T t /\ t' = insert p (File CPartial) t).
      - apply H0_step. intros t Tt. cbn. destruct (Hf t Tt) as [c0 F]. rewrite (fs_trunc_file _ _ _ Np F). eauto.
      - apply H0_step. intros t' [t [Tt ->]]. cbn.
        rewrite (fs_finish_file _ p cnt CPartial Np (lookup_insert_eq _ _ _)). eauto.
    Qed.

    Lemma dest_sub_neq_pinv x : dest ++ x <> pinv.
    Proof.
      unfold dest, pinv. rewrite <- app_assoc. intros E. apply app_inv_head in E. cbn in E. injection E as E _. now apply h_inv.
    Qed.
    Lemma dest_sub_neq_pside x : dest ++ x <> pside.
    Proof.
      unfold dest, pside. rewrite <- app_assoc. intros E. apply app_inv_head in E. cbn in E. injection E as E _. now apply h_side.
    Qed.

    Lemma under_src_So : under src So = false.
    Proof.
      destruct (under src So) eqn:E; [|reflexivity]. apply under_length in E. unfold src in E. rewrite app_length in E. cbn in E. lia.
    Qed.

    Lemma s1_So : lookup s1 So = Some Dir.
    Proof.
      rewrite s1_lookup.
      assert (D : under dest So = false).
      { destruct (under dest So) eqn:E; [|reflexivity]. apply under_app_inv in E. exact (False_ind _ (eq_true_false_abs _ E (ok_mo_so c CO))). }
      rewrite D, under_src_So. apply (Pts_l6 t1 So (Some Dir) J1). cbn. auto 10.
    Qed.

    Lemma H0_rollback (Q : unit -> tree -> Prop) :
      H0 RBpre
         (attempt (ret tt) ;; attempt (write_file pinv oinv ;; write_file pside osd) ;; attempt (step (SRename dest src)) ;; throw EGeneral)
         Q (fun e t => is_os e = false /\ forall x, lookup t x = lookup t1 x).
    Proof.
      destruct (src_dest_disjoint h) as [D1 D2]. fold src dest in D1, D2.
      eapply H0_attempt_drop with (Q1 := RBpre) (E1 := fun _ _ => False); [apply H0_ret; auto | intros e t [] |].
      eapply H0_attempt_drop with (Q1 := RB2) (E1 := fun _ _ => False); [| intros e t [] |].
      - eapply H0_andthen with (Q1 := fun t => RBpre t /\ lookup t pinv = Some (File oinv)).
        + eapply H0_conseq; [apply (H0_write_file_existing RBpre pinv oinv pinv_ne) | auto | | auto].
          * intros t (_ & R & _). exact R.
          * intros _ t' [t [R ->]]. split; [now apply RBpre_ins_inv, RBpre_ins_inv | apply lookup_insert_eq].
        + eapply H0_conseq; [apply (H0_write_file_existing (fun t => RBpre t /\ lookup t pinv = Some (File oinv)) pside osd pside_ne) | auto | | auto].
          * intros t [(_ & _ & R) _]. exact R.
          * intros _ t' [t [[(R1 & R2 & R3) Ri] ->]]. split; [|split].
            -- intros x N1 N2. rewrite !lookup_insert_neq by congruence. now apply R1.
            -- rewrite !lookup_insert_neq by (apply not_eq_sym, pinv_pside). exact Ri.
            -- apply lookup_insert_eq.
      - eapply H0_attempt_drop with (Q1 := fun t => forall x, lookup t x = lookup t1 x) (E1 := fun _ _ => False); [| intros e t [] | apply H0_throw; intros t X; split; [reflexivity | exact X]].
        apply H0_step. intros t (R1 & R2 & R3). cbn [apply_step].
        assert (Hd : lookup t dest = Some Dir).
        { rewrite R1; [| rewrite <- (app_nil_r dest); apply dest_sub_neq_pinv | rewrite <- (app_nil_r dest); apply dest_sub_neq_pside].
          rewrite <- (app_nil_r dest), s1_dest_sub, app_nil_r. apply (Pts_l6 t1 _ _ J1). cbn. auto 10. }
        assert (HSo : lookup t So = Some Dir).
        { rewrite R1; [apply s1_So | |]; unfold pinv, pside; rewrite <- (app_nil_r So); apply So_Mo_neq. }
        assert (Hfree : forall y, under src y = true -> lookup t y = None).
        { intros y U. apply under_iff in U as [sfx ->]. unfold src. rewrite <- app_assoc.
          rewrite R1; [| apply So_Mo_neq | apply So_Mo_neq]. rewrite s1_lookup, app_assoc. fold src.
          rewrite (under_disjoint src dest _ D1 D2 (under_app _ _)), under_app. reflexivity. }
        rewrite (fs_rename_fresh t dest src); auto.
        + intros x. rewrite lookup_rename_fresh; auto.
          destruct (under src x) eqn:Us.
          * apply under_iff in Us as [sfx ->]. rewrite skipn_app, skipn_all, Nat.sub_diag. cbn [skipn app].
            rewrite R1; [| apply dest_sub_neq_pinv | apply dest_sub_neq_pside]. apply s1_dest_sub.
          * destruct (under dest x) eqn:Ud; [symmetry; now apply t1_free|].
            destruct (path_eq_dec x pinv) as [-> | N1]; [rewrite R2, t1_main by apply under_app; now symmetry|].
            destruct (path_eq_dec x pside) as [-> | N2]; [rewrite R3, t1_main by apply under_app; now symmetry|].
            rewrite (R1 x N1 N2), s1_lookup, Ud, Us. reflexivity.
        + apply snoc_ne.
        + apply snoc_ne.
        + congruence.
        + unfold src. rewrite parent_app. now apply is_dir_lookup.
        + apply Hfree, under_refl.
    Qed.

    Lemma inv_is_new_false : inv_is_new i = false.
    Proof.
      unfold inv_is_new. change (i_vs i) with (i_vs i0). rewrite VS.
      destruct vs0 as [|a [|b l]]; [contradiction | reflexivity | reflexivity].
    Qed.

    (** write_new_version, every event considered: done (s5), or an error with the tree exactly as before,
        or a kill in one of six states *)
    Lemma H_write_new_version :
      H (fun t => t = t1) (write_new_version c i) (fun _ t => t = s5)
        (fun e t => is_os e = false /\ forall x, lookup t x = lookup t1 x) KV.
    Proof.
      unfold write_new_version. rewrite inv_is_new_false. fold So Mo. change (head_of i) with h. fold src dest pinv pside.
      eapply H_andthen with (Q1 := fun t => t = t1); [apply H_ensure_open; intros t ->; split; [reflexivity | auto]|].
      eapply H_andthen with (Q1 := fun t => t = t1); [apply H_ensure_open; intros t ->; split; [reflexivity | auto]|].
      eapply H_bind with (Q1 := fun r t => r = mkInv k0 vs0 spec0 man0 dups0 /\ t = t1).
      { unfold get_inventory. apply H_get_tree. intros ? ->.
        assert (R : read_file t1 pinv = Some oinv) by (apply read_file_lookup; rewrite t1_main by apply under_app; exact MInv).
        assert (EX : is_dir t1 Mo && (is_object_rootb t1 Mo || exists_at t1 pinv) = true).
        { rewrite (is_dir_lookup t1 Mo) by (now rewrite (t1_main Mo (under_refl _)), MoD).
          unfold exists_at, read_file in *. destruct (node_at t1 pinv); [now rewrite orb_true_r | discriminate]. }
        fold pinv. rewrite EX. cbn [negb].
        rewrite R. unfold oinv. apply H_ret. intros t ->. auto. }
      intros ex. apply H_pure. intros ->.
      assert (HC : negb (seg_eqb (head_of (mkInv k0 vs0 spec0 man0 dups0)) (last (removelast (i_vs i)) [])) = false).
      { change (i_vs i) with (i_vs i0). rewrite VS, removelast_last. unfold head_of. cbn. now rewrite seg_eqb_refl. }
      rewrite HC.
      apply H_get_tree. intros ? ->.
      assert (EX : exists_at t1 dest = false).
      { unfold exists_at. rewrite node_at_lookup by apply snoc_ne. now rewrite (t1_free dest (under_refl _)). }
      rewrite EX.
      assert (R1 : read_file t1 pinv = Some oinv) by (apply read_file_lookup; rewrite t1_main by apply under_app; exact MInv).
      assert (R2 : read_file t1 pside = Some osd) by (apply read_file_lookup; rewrite t1_main by apply under_app; exact MSide).
      rewrite R1, R2. cbn [i_spec]. change (i_spec i) with (i_spec i0). rewrite SameSpec, seg_eqb_refl. cbv beta iota zeta. cbn [negb]. cbv beta iota.
      eapply H_andthen with (Q1 := fun t => t = s1).
      { destruct (src_dest_disjoint h) as [D1 D2]. fold src dest in D1, D2.
        apply (H_step_eq _ t1 s1); [| reflexivity | split; reflexivity | cbn; auto].
        cbn. apply fs_rename_fresh; auto.
        - apply snoc_ne.
        - apply snoc_ne.
        - rewrite (Pts_l6 t1 src (Some Dir) J1) by (cbn; auto 10). discriminate.
        - unfold dest. rewrite parent_app. apply is_dir_lookup. now rewrite (t1_main Mo (under_refl _)).
        - apply t1_free, under_refl. }
      eapply H_attempt_bind with (Q1 := fun t => t = s5) (E1 := E1V).
      - eapply H_andthen; [apply H_copy_root | apply H_ret; auto].
      - apply H_ret. auto.
      - intros e O. apply H_false_pre. intros t [X _]. congruence.
      - intros e O. eapply H0_conseq; [apply (H0_rollback (fun _ t => t = s5)) | | auto | auto]. intros t [_ R]. exact R.
    Qed.
  
    (** *** the six states a kill can leave: the old object, four states the validator rejects, the new object *)
    Hypothesis Valid0 : obj_validb c t0 Mo = true.
    Hypothesis Hnotin : ~ In h vs0.
    Hypothesis Knew : k0 <> c_newk c.

    Lemma read_pinv0 : read_file t0 pinv = Some oinv.
    Proof. apply read_file_lookup. exact MInv. Qed.

    Lemma valid0_parts :
      osd = CSide k0 /\ forallb (fun v => is_dir t0 (Mo ++ [v])) vs0 = true.
    Proof.
      pose proof Valid0 as V. unfold obj_validb in V. fold pinv in V. rewrite read_pinv0 in V. unfold oinv in V.
      rewrite (read_file_lookup _ _ _ _ MSide) in V.
      repeat (apply andb_true_iff in V as [V ?]).
      destruct osd; try discriminate. apply N.eqb_eq in V. subst. auto.
    Qed.

    Lemma vdir0 v : In v vs0 -> lookup t0 (Mo ++ [v]) = Some Dir.
    Proof.
      intros I. destruct valid0_parts as [_ F]. rewrite forallb_forall in F. specialize (F v I).
      apply is_dir_inv in F as [F|F]; [now apply snoc_ne in F | exact F].
    Qed.

    Lemma v_neq_special v : In v vs0 -> v <> h /\ v <> c_inv c /\ v <> c_side c.
    Proof.
      intros I. pose proof (vdir0 v I) as D. repeat split; intros ->.
      - contradiction.
      - rewrite MInv in D. discriminate.
      - rewrite MSide in D. discriminate.
    Qed.

    (** lookups at and below an old version directory are untouched in every state *)
    Lemma s1_old_version v x : In v vs0 -> under (Mo ++ [v]) x = true -> lookup s1 x = lookup t0 x.
    Proof.
      intros I U. destruct (v_neq_special v I) as (N1 & _ & _).
      apply under_iff in U as [sfx ->]. rewrite <- app_assoc. cbn [app].
      rewrite s1_lookup, (Mo_sub_not_under_dest v sfx N1), Mo_sub_not_under_src. apply t1_main, under_app.
    Qed.

    Lemma ins_old_version p n t v x :
      (p = pinv \/ p = pside) -> In v vs0 -> under (Mo ++ [v]) x = true -> lookup (insert p n t) x = lookup t x.
    Proof.
      intros Hp I U. apply lookup_insert_neq. destruct (v_neq_special v I) as (_ & N2 & N3).
      apply under_iff in U as [sfx ->]. rewrite <- app_assoc. cbn [app].
      destruct Hp as [-> | ->]; unfold pinv, pside; intros E; apply app_inv_head in E; injection E as E _; congruence.
    Qed.

    Lemma KV_versions_intact t : KV t -> versions_intact c vs0 t0 t.
    Proof.
      intros K v I x U. fold Mo in U.
      assert (S1 := s1_old_version v x I U).
      unfold KV in K. cbn in K. destruct K as [<- | [<- | [<- | [<- | [<- | [<- | []]]]]]].
      - apply t1_main. eapply under_trans; [apply under_app | exact U].
      - exact S1.
      - unfold s2. rewrite (ins_old_version pinv _ _ v x); auto.
      - unfold s3, s2. rewrite !(ins_old_version pinv _ _ v x); auto.
      - unfold s4, s3, s2. rewrite (ins_old_version pside _ _ v x), !(ins_old_version pinv _ _ v x); auto.
      - unfold s5, s4, s3, s2. rewrite !(ins_old_version pside _ _ v x), !(ins_old_version pinv _ _ v x); auto.
    Qed.

    (** the content files are in the staged object (before the rename) or in the object (after it) *)
    Lemma s1_content d : In d (i_man i) -> lookup s1 (Mo ++ d) = lookup t0 (So ++ d).
    Proof.
      intros I. pose proof (Base_CS_S t1 (JP_Base _ _ J1) d I) as C.
      apply man_i in I as [I _]. destruct (man0_shape d I) as [rest [_ ->]].
      change (Mo ++ h :: c_cdir c :: rest) with (Mo ++ [h] ++ c_cdir c :: rest). rewrite app_assoc. fold dest.
      rewrite s1_dest_sub. unfold src. rewrite <- app_assoc. exact C.
    Qed.

    Lemma ins_content p n t d : (p = pinv \/ p = pside) -> In d (i_man i) -> lookup (insert p n t) (Mo ++ d) = lookup t (Mo ++ d).
    Proof.
      intros Hp I. apply lookup_insert_neq. apply man_i in I as [I _]. destruct (man0_shape d I) as [rest [Nr ->]].
      destruct Hp as [-> | ->]; unfold pinv, pside; intros E; apply app_inv_head in E; injection E as E1 E2; destruct rest; [contradiction | discriminate | contradiction | discriminate].
    Qed.

    Lemma KV_content t : KV t -> CS_S t \/ CS_M t.
    Proof.
      intros K. unfold KV in K. cbn in K. destruct K as [<- | [<- | [<- | [<- | [<- | [<- | []]]]]]].
      - left. apply (Base_CS_S t1 (JP_Base _ _ J1)).
      - right. intros d I. now apply s1_content.
      - right. intros d I. unfold s2. rewrite ins_content; auto. now apply s1_content.
      - right. intros d I. unfold s3, s2. rewrite !ins_content; auto. now apply s1_content.
      - right. intros d I. unfold s4, s3, s2. rewrite !ins_content; auto. now apply s1_content.
      - right. intros d I. unfold s5, s4, s3, s2. rewrite !ins_content; auto. now apply s1_content.
    Qed.

    Lemma s5_CS_M : CS_M s5.
    Proof. intros d I. unfold s5, s4, s3, s2. rewrite !ins_content; auto. now apply s1_content. Qed.

    (** the validator rejects the four states in between *)
    Lemma read_pinv t cnt : lookup t pinv = Some (File cnt) -> read_file t pinv = Some cnt.
    Proof. apply read_file_lookup. Qed.
    Lemma read_pside t cnt : lookup t pside = Some (File cnt) -> read_file t pside = Some cnt.
    Proof. apply read_file_lookup. Qed.

    Lemma validb_unfold t :
      obj_validb c t Mo =
      match read_file t pinv with
      | Some (CInv k vs spec man dups) =>
          match read_file t pside with Some (CSide k') => N.eqb k k' | _ => false end
          && match read_file t (Mo ++ [spec]) with Some (CDecl s) => seg_eqb s spec | _ => false end
          && forallb (fun e => let n := last (fst e) [] in
                               match snd e with
                               | File _ => seg_eqb n (c_inv c) || seg_eqb n (c_side c) || seg_eqb n spec
                               | Dir => existsb (seg_eqb n) vs
                               end) (children t Mo)
          && forallb (fun v => is_dir t (Mo ++ [v])) vs
          && match vs with
             | [] => false
             | _ => onode_eqb (lookup t (Mo ++ [last vs []; c_inv c])) (Some (File (CInv k vs spec man dups)))
                    && onode_eqb (lookup t (Mo ++ [last vs []; c_side c])) (Some (File (CSide k)))
             end
      | _ => false
      end.
    Proof. reflexivity. Qed.

    Lemma s1_invalid : obj_validb c s1 Mo = false.
    Proof.
      rewrite validb_unfold, (read_pinv _ _ s1_pinv). unfold oinv.
      assert (C : In (dest, Dir) (children s1 Mo)).
      { apply children_In; [|apply is_child_app]. rewrite <- (app_nil_r dest), s1_dest_sub, app_nil_r.
        apply (Pts_l6 t1 _ _ J1). cbn. auto 10. }
      match goal with |- _ && forallb ?f (children s1 Mo) && _ && _ = false =>
        assert (F : forallb f (children s1 Mo) = false) end.
      { match goal with |- ?X = false => destruct X eqn:F; [|reflexivity] end. rewrite forallb_forall in F. specialize (F _ C).
        cbn in F. unfold dest in F. rewrite last_app_single in F. apply existsb_exists in F as [v [I E]].
        apply seg_eqb_eq in E. subst. contradiction. }
      rewrite F, andb_false_r. reflexivity.
    Qed.

    Lemma s2_invalid : obj_validb c s2 Mo = false.
    Proof. rewrite validb_unfold. unfold s2. rewrite (read_pinv _ _ (lookup_insert_eq _ _ _)). reflexivity. Qed.

    Lemma s3_invalid : obj_validb c s3 Mo = false.
    Proof.
      rewrite validb_unfold. unfold s3 at 1. rewrite (read_pinv _ _ (lookup_insert_eq _ _ _)).
      unfold tok, tok_of.
      assert (S : read_file s3 pside = Some (CSide k0)).
      { apply read_pside. unfold s3, s2. rewrite !lookup_insert_neq by apply pinv_pside. rewrite s1_pside.
        destruct valid0_parts as [-> _]. reflexivity. }
      rewrite S. change (i_k i) with (c_newk c).
      assert (N : N.eqb (c_newk c) k0 = false) by (apply N.eqb_neq; congruence).
      rewrite N. reflexivity.
    Qed.

    Lemma s4_invalid : obj_validb c s4 Mo = false.
    Proof.
      rewrite validb_unfold.
      assert (R : read_file s4 pinv = Some tok).
      { apply read_pinv. unfold s4. rewrite lookup_insert_neq by (apply not_eq_sym, pinv_pside). apply lookup_insert_eq. }
      rewrite R. unfold tok, tok_of. unfold s4. rewrite (read_pside _ _ (lookup_insert_eq _ _ _)). reflexivity.
    Qed.

    Lemma t1_OLD : OLD t1.
    Proof. apply Base_OLD, (JP_Base _ _ J1). Qed.

    Lemma s5_head_present : lookup s5 dest = Some Dir.
    Proof.
      unfold s5, s4, s3, s2. rewrite !lookup_insert_neq.
      - rewrite <- (app_nil_r dest), s1_dest_sub, app_nil_r. apply (Pts_l6 t1 _ _ J1). cbn. auto 10.
      - rewrite <- (app_nil_r dest). apply not_eq_sym, dest_sub_neq_pinv.
      - rewrite <- (app_nil_r dest). apply not_eq_sym, dest_sub_neq_pinv.
      - rewrite <- (app_nil_r dest). apply not_eq_sym, dest_sub_neq_pside.
      - rewrite <- (app_nil_r dest). apply not_eq_sym, dest_sub_neq_pside.
    Qed.
  End NewVersion.

  (** ** after the installation: removal of the staged object and release of the lock *)
  Lemma tail_preserves root tref :
    under Mo root = true -> preserves (fun t => same_at root t tref) (finally (purge_staged c) (unlock c)).
  Proof.
    intros U. pose proof (stable_same_at root tref) as St.
    assert (G : forall q, under root q = true -> under Mo q = true) by (intros q X; eapply under_trans; eauto).
    apply pres_finally.
    - apply (pres_purge_staged _ _ St).
      + intros q X Y. fold So in X. specialize (G q Y). rewrite (under_So_not_Mo q X) in G. discriminate.
      + intros q X Y. apply G in Y. fold So in X.
        pose proof (under_trans _ _ _ Y (under_trans _ _ _ X (under_parent So))) as Z.
        exact (eq_true_false_abs _ Z (ok_mo_so c CO)).
    - unfold unlock. apply (pres_remove_file_inf _ _ St). intros X. apply G in X.
      exact (eq_true_false_abs _ X (ok_mo_lock c CO)).
  Qed.

  Lemma unlock_preserves_Base : preserves Base (unlock c).
  Proof.
    unfold unlock. apply (pres_remove_file_inf _ _ stable_Base). fold (lockp c). fold L.
    intros [X | [d [I E]]]; [apply X; now right | now apply (So_sub_neq_L d)].
  Qed.

  Lemma unlock_preserves_except_L tref : preserves (fun t => forall x, x <> L -> lookup t x = lookup tref x) (unlock c).
  Proof.
    unfold unlock. fold (lockp c). fold L.
    apply (pres_remove_file_inf (fun t => forall x, x <> L -> lookup t x = lookup tref x) (fun p => p <> L)).
    - intros t t' p H O B x Hx. rewrite O; [now apply H|]. intros ->. now apply B.
    - intros X. now apply X.
  Qed.

  (** ** the run of commit, phase by phase *)
  Definition w0 (j : inj) : world := init_world t0 j.

  Lemma wfw_w0 j : wfw (w0 j).
  Proof. intros X. discriminate. Qed.

  Lemma AcqPre_t0 : AcqPre t0.
  Proof. split; [apply AcqPost_t0 | apply (pre_lock_free c t0 i0 Pre)]. Qed.

  Lemma finally_bind {A B} (m : M A) (f : A -> M B) fin w :
    finally (bind m f) fin w =
    match m w with
    | (ROk a, w1) => finally (f a) fin w1
    | (RErr e, w1) => (attempt fin ;; throw e) w1
    | (RKilled, w1) => (RKilled, w1)
    end.
  Proof. unfold finally, catch, bind at 1 2. destruct (m w) as [[a|e|] w1]; reflexivity. Qed.

  Lemma commit_unfold j :
    commit c (w0 j) =
    match acquire c (w0 j) with
    | (ROk _, wa) =>
      match prep c wa with
      | (ROk i', w1) => finally (mid c i') (unlock c) w1
      | (RErr e, w1) => (attempt (unlock c) ;; throw e) w1
      | (RKilled, w1) => (RKilled, w1)
      end
    | (RErr e, wa) => (RErr e, wa)
    | (RKilled, wa) => (RKilled, wa)
    end.
  Proof.
    unfold commit, with_lock, andthen. unfold bind at 1. unfold ensure_open, bind at 1, get_closed. cbn [w0 init_world w_closed ret].
    unfold bind at 1. destruct (acquire c (w0 j)) as [[a|e|] wa]; try reflexivity.
    unfold commit_inner. apply finally_bind.
  Qed.

  Lemma mid_unfold i' w1 :
    finally (mid c i') (unlock c) w1 =
    if w_closed w1 then (attempt (unlock c) ;; ret tt) w1
    else match install c i' w1 with
         | (ROk _, w2) => finally (purge_staged c) (unlock c) w2
         | (RErr e, w2) => (attempt (unlock c) ;; throw e) w2
         | (RKilled, w2) => (RKilled, w2)
         end.
  Proof.
    unfold mid. destruct (w_closed w1) eqn:C.
    - unfold finally, catch, bind at 1 2, get_closed. rewrite C. cbn [ret].
      unfold andthen, bind, attempt, catch, ret. unfold bind. destruct (unlock c w1) as [[a|e|] w2]; reflexivity.
    - transitivity (finally (install c i' ;; purge_staged c) (unlock c) w1).
      + unfold finally, catch, bind at 1 2, get_closed. rewrite C. reflexivity.
      + apply finally_bind.
  Qed.

  (** the outcome of `attempt fin ;; k` for k = throw e / ret tt: fin's effect on the tree, the result of k or a kill *)
  Lemma attempt_then_tree {A B} (P : tree -> Prop) (fin : M A) (k : M B) w :
    preserves P fin -> preserves P k -> P (w_tree w) -> P (w_tree (snd ((attempt fin ;; k) w))).
  Proof. intros Hf Hk. apply pres_andthen; [now apply pres_attempt | exact Hk]. Qed.

  Lemma attempt_throw_res {A} (fin : M A) e w :
    fst ((attempt fin ;; @throw unit e) w) = RErr e \/ fst ((attempt fin ;; @throw unit e) w) = RKilled.
  Proof.
    unfold andthen, bind, attempt, catch, ret. unfold bind. destruct (fin w) as [[a|e'|] w1]; cbn; auto.
  Qed.

  Lemma attempt_ret_res {A} (fin : M A) w :
    fst ((attempt fin ;; ret tt) w) = ROk tt \/ fst ((attempt fin ;; ret tt) w) = RKilled.
  Proof.
    unfold andthen, bind, attempt, catch, ret. unfold bind. destruct (fin w) as [[a|e'|] w1]; cbn; auto.
  Qed.

  Definition is_ok {A} (r : out A) : bool := match r with ROk _ => true | _ => false end.

  (** the first two phases: Ok with the prepared tree, or the base invariant *)
  Lemma phase_acquire_prep j :
    match acquire c (w0 j) with
    | (ROk _, wa) =>
      wfw wa /\
      match prep c wa with
      | (ROk i', w1) => i' = i /\ JP l6 (w_tree w1) /\ wfw w1
      | (_, w1) => Base (w_tree w1)
      end
    | (_, wa) => Base (w_tree wa)
    end.
  Proof.
    pose proof (H_acquire (w0 j) (wfw_w0 j) AcqPre_t0) as HA.
    destruct (acquire c (w0 j)) as [[a|e|] wa]; cbn [fst snd] in HA; destruct HA as (Wa & _ & Ra).
    - split; [exact Wa|]. pose proof (H_prep wa Wa Ra) as HP.
      destruct (prep c wa) as [[i'|e|] w1]; cbn [fst snd] in HP; destruct HP as (W1 & _ & R1).
      + destruct R1 as [-> J]. auto.
      + apply R1.
      + apply R1.
    - destruct Ra as [Ra _]. intros. split; [intros x NI; apply Ra; intros ->; apply NI; now right|].
      intros d _. apply Ra, So_sub_neq_L.
    - destruct Ra as [Ra _]. split; [intros x NI; apply Ra; intros ->; apply NI; now right|].
      intros d _. apply Ra, So_sub_neq_L.
  Qed.

  (** ** the fault-free run as reference *)
  Definition T1ok (t1 : tree) : Prop :=
    exists wa w1, acquire c (w0 NoInj) = (ROk tt, wa) /\ prep c wa = (ROk i, w1) /\
                  w_tree w1 = t1 /\ w_closed w1 = false /\ w_inj w1 = NoInj.

  Definition X : M invr := bind (acquire c) (fun _ => prep c).

  Lemma nice_X : nice X.
  Proof. unfold X. nice_tac. Qed.

  Lemma FE_X : FE X.
  Proof. unfold X. fe_tac. Qed.

  Lemma X_split w :
    X w = match acquire c w with
          | (ROk _, wa) => prep c wa
          | (RErr e, wa) => (RErr e, wa)
          | (RKilled, wa) => (RKilled, wa)
          end.
  Proof. reflexivity. Qed.

  Lemma X_of j u wa r w1 : acquire c (w0 j) = (ROk u, wa) -> prep c wa = (r, w1) -> X (w0 j) = (r, w1).
  Proof. intros EA EP. now rewrite X_split, EA. Qed.

  Lemma disarm_w0 j : disarm (w0 j) = w0 NoInj.
  Proof. reflexivity. Qed.

  Lemma prefix_unfired j u wa w1 :
    acquire c (w0 j) = (ROk u, wa) -> prep c wa = (ROk i, w1) -> w_closed w1 = false -> T1ok (w_tree w1).
  Proof.
    intros EA EP C. pose proof (X_of j u wa _ w1 EA EP) as EX.
    destruct (nice_X _ _ _ EX) as (N1 & N2 & N3 & N4 & N5 & N7 & N8 & N6).
    assert (Unf : w_inj w1 <> NoInj -> T1ok (w_tree w1)).
    { intros NI. specialize (N6 eq_refl NI). rewrite disarm_w0, X_split in N6.
      destruct (acquire c (w0 NoInj)) as [[[]|e|] wa'] eqn:EA'; try discriminate.
      exists wa', (disarm w1). repeat split; auto. }
    destruct (w_inj w1) eqn:I1; try (apply Unf; discriminate).
    destruct j as [|n|n|n].
    - destruct u. exists wa, w1. repeat split; auto.
    - exfalso. destruct (FE_X _ _ _ EX eq_refl I1) as [e [Y _]]. discriminate.
    - exfalso. destruct (N3 n eq_refl) as [n' Y]. congruence.
    - exfalso. destruct (N4 n eq_refl) as [[n' [Y _]] | [_ Y]]; congruence.
  Qed.

  Lemma closed_needs_stop j u wa r w1 :
    acquire c (w0 j) = (ROk u, wa) -> prep c wa = (r, w1) -> w_closed w1 = true -> exists n, j = Stop n.
  Proof.
    intros EA EP C. pose proof (X_of j u wa _ w1 EA EP) as EX.
    destruct (nice_X _ _ _ EX) as (_ & _ & _ & _ & _ & N7 & _ & _).
    destruct j as [|n|n|n]; eauto; exfalso; (destruct N7 as [Y _]; [intros m; discriminate | cbn in Y; congruence]).
  Qed.

  (** the prefix (acquire, prep) of a run that prepared the staged object: it is the fault-free prefix *)
  Lemma disarm_noinj w : w_inj w = NoInj -> disarm w = w.
  Proof. destruct w. cbn. now intros ->. Qed.

  Lemma prefix_world j u wa w1 :
    acquire c (w0 j) = (ROk u, wa) -> prep c wa = (ROk i, w1) -> w_closed w1 = false ->
    X (w0 NoInj) = (ROk i, disarm w1) /\
    (w_inj w1 = NoInj -> j = NoInj).
  Proof.
    intros EA EP C. pose proof (X_of j u wa _ w1 EA EP) as EX.
    destruct (nice_X _ _ _ EX) as (N1 & N2 & N3 & N4 & N5 & N7 & N8 & N6).
    assert (Unf : w_inj w1 <> NoInj -> X (w0 NoInj) = (ROk i, disarm w1)).
    { intros NI. specialize (N6 eq_refl NI). now rewrite disarm_w0 in N6. }
    destruct (w_inj w1) eqn:I1; try (split; [apply Unf; discriminate | discriminate]).
    destruct j as [|n|n|n].
    - split; [|reflexivity]. rewrite (disarm_noinj w1 I1). exact EX.
    - exfalso. destruct (FE_X _ _ _ EX eq_refl I1) as [e [Y _]]. discriminate.
    - exfalso. destruct (N3 n eq_refl) as [n' Y]. congruence.
    - exfalso. destruct (N4 n eq_refl) as [[n' [Y _]] | [_ Y]]; congruence.
  Qed.

  Lemma commit_unfold_X j :
    commit c (w0 j) =
    match X (w0 j) with
    | (ROk i', w1) => finally (mid c i') (unlock c) w1
    | (RErr e, w1) =>
        match acquire c (w0 j) with
        | (ROk _, _) => (attempt (unlock c) ;; throw e) w1
        | _ => (RErr e, w1)
        end
    | (RKilled, w1) => (RKilled, w1)
    end.
  Proof.
    rewrite commit_unfold, X_split. destruct (acquire c (w0 j)) as [[u|e|] wa]; try reflexivity.
  Qed.

  (** ** the run when the object does not exist yet (first version) *)
  Section RunNO.
    Hypothesis VS1 : i_vs i0 = [h].
    Hypothesis Absent : forall x, under Mo x = true -> lookup t0 x = None.

    Lemma install_no : install c i = (stage_object_declaration c i ;; write_new_object c).
    Proof. unfold install, inv_is_new. change (i_vs i) with (i_vs i0). now rewrite VS1. Qed.

    Definition tnewo : tree := w_tree (snd (commit c (w0 NoInj))).

    Lemma NObjPost_same t1 a b : NObjPost t1 a -> NObjPost t1 b -> same_at Mo a b.
    Proof.
      intros [A _] [B _] x U. apply under_iff in U as [s ->]. now rewrite A, B.
    Qed.

    Lemma stable_NI_L : ~ (under Mo L = true \/ under So L = true).
    Proof.
      intros [Y | Y]; [rewrite L_not_under_Mo in Y | rewrite L_not_under_So in Y]; discriminate.
    Qed.

    Lemma unlock_preserves_NI t1 : preserves (NI t1) (unlock c).
    Proof.
      unfold unlock. fold (lockp c). fold L. apply (pres_remove_file_inf _ _ (stable_NI t1)). apply stable_NI_L.
    Qed.

    (** a kill or a fault: the main object stays absent, or the staged object was moved in as in the
        fault-free run *)
    Lemma run_no j :
      (forall n, j <> Stop n) ->
      let res := commit c (w0 j) in
      let t' := w_tree (snd res) in
      (Base t' /\ is_ok (fst res) = false) \/
      (exists t1, JP l6 t1 /\ NI t1 t' /\ is_ok (fst res) = false) \/
      (exists t2, same_at Mo t' t2 /\ same_at Mo tnewo t2 /\ CS_M t2 /\ lookup t2 (Mo ++ [h]) = Some Dir).
    Proof.
      intros NS. cbv zeta. rewrite commit_unfold. pose proof (phase_acquire_prep j) as PH.
      destruct (acquire c (w0 j)) as [[u|e|] wa] eqn:EA.
      2: { left. split; [exact PH | reflexivity]. }
      2: { left. split; [exact PH | reflexivity]. }
      destruct PH as [Wa PH]. destruct (prep c wa) as [[i'|e|] w1] eqn:EP.
      2: { left. split.
           - apply (attempt_then_tree Base). { apply unlock_preserves_Base. } { apply pres_throw. } exact PH.
           - destruct (attempt_throw_res (unlock c) e w1) as [Y|Y]; rewrite Y; reflexivity. }
      2: { left. split; [exact PH | reflexivity]. }
      destruct PH as (-> & J1 & W1). rewrite mid_unfold. destruct (w_closed w1) eqn:C.
      { exfalso. destruct (closed_needs_stop j u wa _ w1 EA EP C) as [n Y]. now apply NS in Y. }
      destruct (prefix_world j u wa w1 EA EP C) as [PX PJ].
      destruct (install c i w1) as [r2 w2] eqn:EI.
      assert (EI' := EI). rewrite install_no in EI'. unfold andthen, bind in EI'.
      pose proof (keeps_stage_object_declaration w1 W1 J1) as HS.
      destruct (stage_object_declaration c i w1) as [[u1|e1|] w1s] eqn:ES; cbn [fst snd] in HS; destruct HS as (W1s & _ & J1s).
      2: { injection EI' as <- <-. left. destruct J1s as [J1s _]. split.
           - apply (attempt_then_tree Base). { apply unlock_preserves_Base. } { apply pres_throw. } exact (JP_Base _ _ J1s).
           - destruct (attempt_throw_res (unlock c) e1 w1s) as [Y|Y]; rewrite Y; reflexivity. }
      2: { injection EI' as <- <-. left. destruct J1s as [J1s _]. split; [exact (JP_Base _ _ J1s) | reflexivity]. }
      pose proof (H_write_new_object (w_tree w1s) J1s w1s W1s (NI_t1 (w_tree w1s) J1s Absent)) as HI.
      rewrite EI' in HI. cbn [fst snd] in HI. destruct HI as (W2 & _ & R2).
      destruct r2 as [u2|e|].
      - right. right. exists (w_tree w2). split; [|split; [|split]].
        + apply (tail_preserves Mo (w_tree w2) (under_refl _) w2). intros x _. reflexivity.
        + (* the fault-free run goes through the same installation *)
          unfold tnewo. rewrite commit_unfold_X, PX, mid_unfold. cbn [disarm w_closed]. rewrite C.
          destruct (nice_install c i _ _ _ EI) as (N1 & N2 & N3 & N4 & N5 & N7 & N8 & N6).
          destruct (w_inj w2) eqn:I2.
          * destruct (w_inj w1) eqn:I1.
            -- rewrite (disarm_noinj w1 I1), EI. apply (tail_preserves Mo (w_tree w2) (under_refl _) w2). intros x _. reflexivity.
            -- exfalso. destruct (FE_install c i _ _ _ EI) as [e [Y _]]; [now rewrite I1 | exact I2 | discriminate].
            -- exfalso. destruct (N3 n eq_refl) as [n' Y]. congruence.
            -- exfalso. pose proof (X_of j u wa _ w1 EA EP) as EX.
               destruct (nice_X _ _ _ EX) as (_ & _ & _ & _ & _ & M7 & _ & _).
               destruct (M7 NS) as [_ NS1]. now apply (NS1 n).
          * rewrite (N6 eq_refl) by discriminate. apply (tail_preserves Mo (w_tree w2) (under_refl _) (disarm w2)). intros x _. reflexivity.
          * rewrite (N6 eq_refl) by discriminate. apply (tail_preserves Mo (w_tree w2) (under_refl _) (disarm w2)). intros x _. reflexivity.
          * rewrite (N6 eq_refl) by discriminate. apply (tail_preserves Mo (w_tree w2) (under_refl _) (disarm w2)). intros x _. reflexivity.
        + exact (NObjPost_CS_M (w_tree w1s) J1s _ R2).
        + destruct R2 as [R2 _]. rewrite R2. apply (Pts_l6 _ _ _ J1s). cbn. auto 10.
      - right. left. exists (w_tree w1s). split; [exact J1s | split].
        + apply (attempt_then_tree (NI (w_tree w1s))). { apply unlock_preserves_NI. } { apply pres_throw. } exact (proj1 R2).
        + destruct (attempt_throw_res (unlock c) e w2) as [Y|Y]; rewrite Y; reflexivity.
      - right. left. exists (w_tree w1s). split; [exact J1s | split; [exact (proj1 R2) | reflexivity]].
    Qed.

    Lemma no_facts j :
      (forall n, j <> Stop n) ->
      let res := commit c (w0 j) in
      let t' := w_tree (snd res) in
      (CS_S t' \/ CS_M t') /\
      (OLD t' \/ same_at Mo t' tnewo) /\
      (is_ok (fst res) = true -> same_at Mo t' tnewo) /\
      (lookup t' (Mo ++ [h]) = None -> OLD t' /\ CS_S t').
    Proof.
      intros NS. pose proof (run_no j NS) as R. cbv zeta in *.
      destruct R as [[B NOk] | [(t1 & J1 & N & NOk) | (t2 & S1 & S2 & CM & HP)]].
      - split; [left; now apply Base_CS_S | split; [left; now apply Base_OLD | split]].
        + intros O. congruence.
        + intros _. split; [now apply Base_OLD | now apply Base_CS_S].
      - pose proof (NI_OLD t1 Absent _ N) as O. pose proof (NI_CS_S t1 J1 _ N) as CS.
        split; [left; exact CS | split; [left; exact O | split]].
        + intros Y. congruence.
        + intros _. split; assumption.
      - assert (NW : same_at Mo (w_tree (snd (commit c (w0 j)))) tnewo).
        { intros x U. rewrite (S1 x U). symmetry. now apply S2. }
        split; [right; intros d I; rewrite (S1 _ (under_app Mo d)); now apply CM | split; [right; exact NW | split]].
        + intros _. exact NW.
        + intros Y. rewrite (S1 _ (under_app Mo [h])), HP in Y. discriminate.
    Qed.
  End RunNO.

  (** ** the run when the object exists (a further version, the inventory type unchanged) *)
  Section RunNV.
    Variables (k0 : N) (vs0 : list fseg) (spec0 : fseg) (man0 dups0 : list fpath) (osd : content).
    Hypothesis V0 : vs0 <> [].
    Hypothesis VS : i_vs i0 = vs0 ++ [h].
    Hypothesis Hnotin : ~ In h vs0.
    Hypothesis MoD : lookup t0 Mo = Some Dir.
    Hypothesis MInv : lookup t0 (Mo ++ [c_inv c]) = Some (File (CInv k0 vs0 spec0 man0 dups0)).
    Hypothesis MSide : lookup t0 (Mo ++ [c_side c]) = Some (File osd).
    Hypothesis Valid0 : obj_validb c t0 Mo = true.
    Hypothesis Knew : k0 <> c_newk c.
    Hypothesis Free : forall x, under (Mo ++ [h]) x = true -> lookup t0 x = None.
    Hypothesis SameSpec : i_spec i0 = spec0.

    Lemma install_nv : install c i = write_new_version c i.
    Proof. unfold install. erewrite inv_is_new_false; eauto. Qed.

    Definition HWNV t1 (J1 : JP l6 t1) :=
      H_write_new_version t1 J1 k0 vs0 spec0 man0 dups0 osd V0 VS MoD MInv MSide Free SameSpec.

    (** what the run leaves, whatever event is injected *)
    Definition LeafA (j : inj) (r : out unit) (t' : tree) : Prop :=
      Base t' /\ (is_ok r = true -> exists n, j = Stop n).
    Definition LeafB (r : out unit) (t' : tree) : Prop :=
      exists t1, JP l6 t1 /\ T1ok t1 /\ KV t1 t' /\ r = RKilled.
    Definition LeafC (r : out unit) (t' : tree) : Prop :=
      exists t1, JP l6 t1 /\ (forall x, x <> L -> lookup t' x = lookup t1 x) /\ is_ok r = false.
    Definition LeafD (t' : tree) : Prop :=
      exists t1, JP l6 t1 /\ T1ok t1 /\ same_at Mo t' (s5 t1).

    Lemma run_nv j :
      let res := commit c (w0 j) in
      LeafA j (fst res) (w_tree (snd res)) \/ LeafB (fst res) (w_tree (snd res)) \/
      LeafC (fst res) (w_tree (snd res)) \/ LeafD (w_tree (snd res)).
    Proof.
      cbv zeta. rewrite commit_unfold. pose proof (phase_acquire_prep j) as PH.
      destruct (acquire c (w0 j)) as [[u|e|] wa] eqn:EA.
      2: { left. split; [exact PH | discriminate]. }
      2: { left. split; [exact PH | discriminate]. }
      destruct PH as [Wa PH]. destruct (prep c wa) as [[i'|e|] w1] eqn:EP.
      2: { left. split.
           - apply (attempt_then_tree Base). { apply unlock_preserves_Base. } { apply pres_throw. } exact PH.
           - destruct (attempt_throw_res (unlock c) e w1) as [Y|Y]; rewrite Y; discriminate. }
      2: { left. split; [exact PH | discriminate]. }
      destruct PH as (-> & J1 & W1). rewrite mid_unfold. destruct (w_closed w1) eqn:C.
      { left. split.
        - apply (attempt_then_tree Base). { apply unlock_preserves_Base. } { apply pres_ret. } exact (JP_Base _ _ J1).
        - intros _. exact (closed_needs_stop j u wa _ w1 EA EP C). }
      pose proof (prefix_unfired j u wa w1 EA EP C) as T1.
      rewrite install_nv. pose proof (HWNV (w_tree w1) J1 w1 W1 eq_refl) as HI.
      destruct (write_new_version c i w1) as [[u2|e|] w2] eqn:EI; cbn [fst snd] in HI; destruct HI as (W2 & _ & R2).
      - right. right. right. exists (w_tree w1). split; [exact J1 | split; [exact T1 |]].
        apply (tail_preserves Mo (s5 (w_tree w1)) (under_refl _) w2). rewrite R2. intros x _. reflexivity.
      - right. right. left. exists (w_tree w1). destruct R2 as [[_ R2] _]. split; [exact J1 | split].
        + apply (attempt_then_tree (fun t => forall x, x <> L -> lookup t x = lookup (w_tree w1) x)).
          { apply unlock_preserves_except_L. } { apply pres_throw. } intros x _; apply R2.
        + destruct (attempt_throw_res (unlock c) e w2) as [Y|Y]; rewrite Y; reflexivity.
      - right. left. exists (w_tree w1). destruct R2 as [R2 _]. split; [exact J1 | split; [exact T1 | split; [exact R2 | reflexivity]]].
    Qed.
  
    Definition tnew : tree := w_tree (snd (commit c (w0 NoInj))).
    Definition NEW (t : tree) : Prop := same_at Mo t tnew.

    Lemma ff_new_nv t1 : JP l6 t1 -> T1ok t1 -> same_at Mo tnew (s5 t1).
    Proof.
      intros J1 (wa & w1 & EA & EP & <- & C & I1). unfold tnew.
      rewrite commit_unfold, EA, EP, mid_unfold, C, install_nv.
      assert (W1 : wfw w1) by (intros Y; congruence).
      pose proof (HWNV (w_tree w1) J1 w1 W1 eq_refl) as HI.
      destruct (write_new_version c i w1) as [[u2|e|] w2]; cbn [fst snd] in HI; destruct HI as (W2 & M2 & R2).
      - apply (tail_preserves Mo (s5 (w_tree w1)) (under_refl _) w2). rewrite R2. intros x _. reflexivity.
      - exfalso. destruct R2 as [[O _] R3]. destruct (R3 O) as [_ NQ]. apply NQ. split; assumption.
      - exfalso. destruct R2 as [_ NK]. contradiction.
    Qed.

    Lemma same_at_sym q a b : same_at q a b -> same_at q b a.
    Proof. intros S x U. symmetry. now apply S. Qed.
    Lemma same_at_trans q a b d : same_at q a b -> same_at q b d -> same_at q a d.
    Proof. intros S1 S2 x U. rewrite (S1 x U). now apply S2. Qed.
    Lemma same_at_sub q q' a b : under q q' = true -> same_at q a b -> same_at q' a b.
    Proof. intros U S x Ux. apply S. eapply under_trans; eauto. Qed.

    Lemma LeafD_NEW t' : LeafD t' -> NEW t'.
    Proof.
      intros (t1 & J1 & T1 & S). eapply same_at_trans; [exact S | apply same_at_sym, ff_new_nv; auto].
    Qed.

    Definition KVI t1 (J1 : JP l6 t1) :=
      KV_versions_intact t1 J1 k0 vs0 spec0 man0 dups0 osd MInv MSide Free SameSpec Valid0 Hnotin Knew.

    Lemma Base_VI t : Base t -> versions_intact c vs0 t0 t.
    Proof. intros B v I x U. apply (Base_main t x B). eapply under_trans; [apply under_app | exact U]. Qed.

    Lemma exceptL_Base t t1 : JP l6 t1 -> (forall x, x <> L -> lookup t x = lookup t1 x) -> Base t.
    Proof.
      intros [[B1 B2] _] E. split.
      - intros x NI. rewrite E; [now apply B1|]. intros ->. apply NI. now right.
      - intros d I. rewrite E; [now apply B2 | apply So_sub_neq_L].
    Qed.

    (** every outcome: old versions intact, content somewhere, and the class of the main object *)
    Lemma leaves_safe j r t' :
      LeafA j r t' \/ LeafB r t' \/ LeafC r t' \/ LeafD t' ->
      versions_intact c vs0 t0 t' /\ (CS_S t' \/ CS_M t') /\
      (OLD t' \/ NEW t' \/ (obj_validb c t' Mo = false /\ r = RKilled)).
    Proof.
      intros [[B _] | [(t1 & J1 & T1 & K & ->) | [(t1 & J1 & E & _) | D]]].
      - split; [now apply Base_VI | split; [left; now apply Base_CS_S | left; now apply Base_OLD]].
      - split; [exact (KVI t1 J1 t' K) | split; [exact (KV_content t1 J1 Free t' K)|]].
        unfold KV in K. cbn in K. destruct K as [<- | [<- | [<- | [<- | [<- | [<- | []]]]]]].
        + left. exact (t1_OLD t1 J1).
        + right. right. split; [|reflexivity]. exact (s1_invalid t1 J1 k0 vs0 spec0 man0 dups0 MInv Free SameSpec Hnotin).
        + right. right. split; [|reflexivity]. apply s2_invalid.
        + right. right. split; [|reflexivity]. exact (s3_invalid t1 J1 k0 vs0 spec0 man0 dups0 osd MInv MSide Free SameSpec Valid0 Knew).
        + right. right. split; [|reflexivity]. apply s4_invalid.
        + right. left. apply same_at_sym, ff_new_nv; auto.
      - pose proof (exceptL_Base t' t1 J1 E) as B.
        split; [now apply Base_VI | split; [left; now apply Base_CS_S | left; now apply Base_OLD]].
      - pose proof D as (t1 & J1 & T1 & S). split; [|split].
        + intros v I x U. rewrite (same_at_sub Mo (Mo ++ [v]) _ _ (under_app _ _) S x U).
          assert (K5 : KV t1 (s5 t1)) by (unfold KV; cbn; auto 10).
          exact (KVI t1 J1 (s5 t1) K5 v I x U).
        + right. intros d I. rewrite (S _ (under_app Mo d)). now apply (s5_CS_M t1 J1 Free).
        + right. left. now apply LeafD_NEW.
    Qed.
  
    Lemma not_killed_unless_kill j : (forall n, j <> Kill n) -> is_killed (fst (commit c (w0 j))) = false.
    Proof.
      intros NK. destruct (commit c (w0 j)) as [r w'] eqn:E.
      destruct (nice_commit c _ _ _ E) as (_ & _ & _ & _ & _ & _ & N8 & _). cbn [fst].
      destruct (is_killed r) eqn:K; [|reflexivity]. destruct (N8 eq_refl) as [n Y]. cbn in Y. now apply NK in Y.
    Qed.

    Lemma CS_somewhere t' : CS_S t' \/ CS_M t' -> content_somewhere c i0 t0 t'.
    Proof. intros [S | S] d I; [left | right]; now apply S. Qed.

    Theorem nv_kill_safe k :
      let t' := w_tree (snd (commit c (w0 (Kill k)))) in
      versions_intact c vs0 t0 t' /\ content_somewhere c i0 t0 t' /\
      (same_at Mo t' t0 \/ same_at Mo t' tnew \/ obj_validb c t' Mo = false).
    Proof.
      cbv zeta. destruct (leaves_safe (Kill k) _ _ (run_nv (Kill k))) as (V & S & [O | [N | [I _]]]);
        (split; [exact V | split; [now apply CS_somewhere | auto]]).
    Qed.

    Lemma head_present_D t' : LeafD t' -> lookup t' (Mo ++ [h]) = Some Dir.
    Proof.
      intros (t1 & J1 & _ & S). rewrite (S _ (under_app Mo [h])). exact (s5_head_present t1 J1 Free).
    Qed.

    (** any event other than a kill *)
    Lemma nv_atomic j :
      (forall n, j <> Kill n) ->
      let res := commit c (w0 j) in
      let t' := w_tree (snd res) in
      (OLD t' \/ NEW t') /\
      ((forall n, j <> Stop n) -> is_ok (fst res) = true -> NEW t') /\
      (lookup t' (Mo ++ [h]) = None -> OLD t' /\ CS_S t') /\
      is_killed (fst res) = false.
    Proof.
      intros NK. cbv zeta. pose proof (not_killed_unless_kill j NK) as NKr.
      pose proof (run_nv j) as R. cbv zeta in R.
      destruct R as [[B Ok] | [(t1 & _ & _ & _ & Kd) | [(t1 & J1 & E & NOk) | D]]].
      - split; [|split; [|split]]; auto.
        + left. now apply Base_OLD.
        + intros NS O. destruct (Ok O) as [n Y]. now apply NS in Y.
        + intros _. split; [now apply Base_OLD | now apply Base_CS_S].
      - rewrite Kd in NKr. discriminate.
      - pose proof (exceptL_Base _ t1 J1 E) as B. split; [|split; [|split]]; auto.
        + left. now apply Base_OLD.
        + intros _ O. congruence.
        + intros _. split; [now apply Base_OLD | now apply Base_CS_S].
      - split; [|split; [|split]]; auto.
        + right. now apply LeafD_NEW.
        + intros _ _. now apply LeafD_NEW.
        + intros Y. rewrite (head_present_D _ D) in Y. discriminate.
    Qed.
  End RunNV.
End Commit.

(** * the closed statements *)
Lemma read_file_inv t p cnt : read_file t p = Some cnt -> p <> [] -> lookup t p = Some (File cnt).
Proof.
  unfold read_file. intros R N. rewrite (node_at_lookup _ _ N) in R.
  destruct (lookup t p) as [[|c0]|]; try discriminate. now injection R as ->.
Qed.

Lemma validb_side c t root k vs sp man dups :
  read_file t (root ++ [c_inv c]) = Some (CInv k vs sp man dups) -> obj_validb c t root = true ->
  exists osd, lookup t (root ++ [c_side c]) = Some (File osd).
Proof.
  intros R V. unfold obj_validb in V. rewrite R in V. repeat (apply andb_true_iff in V as [V ?]).
  destruct (read_file t (root ++ [c_side c])) as [osd|] eqn:S; [|discriminate].
  exists osd. apply (read_file_inv _ _ _ S). apply snoc_ne.
Qed.

Section Closed.
  Variables (c : cfg) (t0 : tree) (i0 : invr).
  Hypothesis Pre : commit_pre c t0 i0.
  Hypothesis ST : same_type c t0 i0.

  Lemma present_data :
    i_vs i0 <> [head_of i0] ->
    exists k0 vs0 spec0 man0 dups0 osd,
      vs0 <> [] /\ i_vs i0 = vs0 ++ [head_of i0] /\ ~ In (head_of i0) vs0 /\ lookup t0 (c_mo c) = Some Dir /\
      lookup t0 (c_mo c ++ [c_inv c]) = Some (File (CInv k0 vs0 spec0 man0 dups0)) /\
      lookup t0 (c_mo c ++ [c_side c]) = Some (File osd) /\ obj_validb c t0 (c_mo c) = true /\ k0 <> c_newk c /\
      (forall x, under (c_mo c ++ [head_of i0]) x = true -> lookup t0 x = None) /\ i_spec i0 = spec0 /\
      earlier_versions i0 = vs0.
  Proof.
    intros NV.
    destruct (pre_main c t0 i0 Pre) as [E _ | k0 vs0 spec0 man0 dups0 V0 VS Hn MoD MInv Val Kn Free _]; [contradiction|].
    destruct (validb_side c t0 _ _ _ _ _ _ MInv Val) as [osd MS].
    exists k0, vs0, spec0, man0, dups0, osd. repeat split; auto.
    - apply (read_file_inv _ _ _ MInv). apply snoc_ne.
    - exact (ST _ _ _ _ _ MInv).
    - unfold earlier_versions. rewrite VS. apply removelast_last.
  Qed.

  Lemma absent_data :
    i_vs i0 = [head_of i0] -> forall x, under (c_mo c) x = true -> lookup t0 x = None.
  Proof.
    intros E. destruct (pre_main c t0 i0 Pre) as [_ A | k0 vs0 spec0 man0 dups0 V0 VS]; [exact A|].
    exfalso. rewrite VS in E. destruct vs0 as [|a [|z l]]; [contradiction | discriminate | discriminate].
  Qed.

  Lemma first_or_not : {i_vs i0 = [head_of i0]} + {i_vs i0 <> [head_of i0]}.
  Proof.
    destruct (i_vs i0) as [|a [|z l]] eqn:V.
    - right. discriminate.
    - left. unfold head_of. rewrite V. reflexivity.
    - right. discriminate.
  Qed.

  (** C05: a kill at any position *)
  Theorem commit_kill_safe k :
    let t' := run_tree (commit c) t0 (Kill k) in
    let tnew := run_tree (commit c) t0 NoInj in
    versions_intact c (earlier_versions i0) t0 t' /\ content_somewhere c i0 t0 t' /\
    (same_at (c_mo c) t' t0 \/ same_at (c_mo c) t' tnew \/ obj_validb c t' (c_mo c) = false).
  Proof.
    destruct first_or_not as [F | NV].
    - pose proof (no_facts c t0 i0 Pre F (absent_data F) (Kill k)) as R. cbv zeta in *.
      destruct R as (CS & ON & _ & _); [intros n; discriminate|].
      split; [|split].
      + unfold earlier_versions. rewrite F. cbn. intros v [].
      + destruct CS as [S | S]; intros d I; [left | right]; now apply S.
      + destruct ON as [O | N]; auto.
    - destruct (present_data NV) as (k0 & vs0 & spec0 & man0 & dups0 & osd & V0 & VS & Hn & MoD & MInv & MS & Val & Kn & Free & SS & EV).
      rewrite EV.
      exact (nv_kill_safe c t0 i0 Pre k0 vs0 spec0 man0 dups0 osd V0 VS Hn MoD MInv MS Val Kn Free SS k).
  Qed.

  (** C04: a fault at any position (or none) *)
  Theorem commit_fault_atomic j :
    (forall n, j <> Kill n) -> (forall n, j <> Stop n) ->
    let res := run (commit c) t0 j in
    let t' := w_tree (snd res) in
    let tnew := run_tree (commit c) t0 NoInj in
    (same_at (c_mo c) t' t0 \/ same_at (c_mo c) t' tnew) /\
    (is_ok (fst res) = true -> same_at (c_mo c) t' tnew) /\
    (lookup t' (c_mo c ++ [head_of i0]) = None ->
       same_at (c_mo c) t' t0 /\
       forall d, In d (i_man (committed_inv c i0)) -> lookup t' (c_so c ++ d) = lookup t0 (c_so c ++ d)).
  Proof.
    intros NK NS. destruct first_or_not as [F | NV].
    - pose proof (no_facts c t0 i0 Pre F (absent_data F) j NS) as R. cbv zeta in *.
      destruct R as (_ & ON & OkN & HP). split; [exact ON | split; [exact OkN | exact HP]].
    - destruct (present_data NV) as (k0 & vs0 & spec0 & man0 & dups0 & osd & V0 & VS & Hn & MoD & MInv & MS & Val & Kn & Free & SS & EV).
      pose proof (nv_atomic c t0 i0 Pre k0 vs0 spec0 man0 dups0 osd V0 VS MoD MInv MS Free SS j NK) as R.
      cbv zeta in *. destruct R as (A & B & C & _). split; [exact A | split; [intros O; exact (B NS O) | exact C]].
  Qed.

  (** C04: a stop request at any position, for an object that exists *)
  Theorem commit_stop_atomic k :
    i_vs i0 <> [head_of i0] ->
    let res := run (commit c) t0 (Stop k) in
    let t' := w_tree (snd res) in
    let tnew := run_tree (commit c) t0 NoInj in
    (same_at (c_mo c) t' t0 \/ same_at (c_mo c) t' tnew) /\
    is_killed (fst res) = false /\
    (lookup t' (c_mo c ++ [head_of i0]) = None ->
       same_at (c_mo c) t' t0 /\
       forall d, In d (i_man (committed_inv c i0)) -> lookup t' (c_so c ++ d) = lookup t0 (c_so c ++ d)).
  Proof.
    intros NV.
    destruct (present_data NV) as (k0 & vs0 & spec0 & man0 & dups0 & osd & V0 & VS & Hn & MoD & MInv & MS & Val & Kn & Free & SS & EV).
    assert (NK : forall n, Stop k <> Kill n) by (intros n; discriminate).
    pose proof (nv_atomic c t0 i0 Pre k0 vs0 spec0 man0 dups0 osd V0 VS MoD MInv MS Free SS (Stop k) NK) as R.
    cbv zeta in *. destruct R as (A & B & C & D). split; [exact A | split; [exact D | exact C]].
  Qed.
End Closed.
