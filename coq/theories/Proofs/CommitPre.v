(** Soundness of the boolean precondition [commit_pre_b] of Model/Commit.v. *)
From Coq Require Import List NArith Ascii Bool Arith Lia.
From Rocfl Require Import Base.Bytes Model.FsOps Model.FsTree Model.Commit Proofs.FsTreeFacts.
Import ListNotations.

Lemma seglist_eqb_eq x y : seglist_eqb x y = true -> x = y.
Proof.
  revert y; induction x as [|a x IH]; intros [|b y]; cbn; try discriminate; [reflexivity|].
  intros H. apply andb_true_iff in H as [H1 H2]. apply seg_eqb_eq in H1. apply IH in H2. congruence.
Qed.

Lemma pathlist_eqb_eq x y : pathlist_eqb x y = true -> x = y.
Proof.
  revert y; induction x as [|a x IH]; intros [|b y]; cbn; try discriminate; [reflexivity|].
  intros H. apply andb_true_iff in H as [H1 H2]. apply path_eqb_eq in H1. apply IH in H2. congruence.
Qed.

Lemma content_eqb_eq x y : content_eqb x y = true -> x = y.
Proof.
  destruct x, y; cbn; try discriminate; intros H.
  - apply N.eqb_eq in H. congruence.
  - repeat (apply andb_true_iff in H as [H ?]).
    apply N.eqb_eq in H. apply seglist_eqb_eq in H3. apply seg_eqb_eq in H2. apply pathlist_eqb_eq in H1.
    apply pathlist_eqb_eq in H0. congruence.
  - apply N.eqb_eq in H. congruence.
  - apply seg_eqb_eq in H. congruence.
  - reflexivity.
Qed.

Lemma onode_eqb_eq x y : onode_eqb x y = true -> x = y.
Proof.
  destruct x as [[|a]|], y as [[|b]|]; cbn; try discriminate; try reflexivity.
  intros H. apply content_eqb_eq in H. congruence.
Qed.

Lemma none_under_sound t r : none_under t r = true -> forall x, under r x = true -> lookup t x = None.
Proof.
  unfold none_under. intros F x U. destruct (lookup t x) as [n|] eqn:E; [|reflexivity].
  apply lookup_In in E. rewrite forallb_forall in F. specialize (F _ E). cbn in F. rewrite U in F. discriminate.
Qed.

Lemma prefixes_ne_In acc p q : q <> acc -> under acc q = true -> under q (acc ++ p) = true -> In q (prefixes_ne acc p).
Proof.
  revert acc; induction p as [|a p IH]; intros acc N U1 U2.
  - rewrite app_nil_r in U2. exfalso. apply N. now apply under_antisym.
  - cbn. destruct (path_eq_dec q (acc ++ [a])) as [-> | NE]; [now left|]. right.
    apply IH; [exact NE | | now rewrite <- app_assoc].
    apply under_iff in U1 as [s ->]. apply under_iff in U2 as [s2 E]. rewrite <- app_assoc in E. apply app_inv_head in E.
    destruct s as [|z s]; [now rewrite app_nil_r in N|]. cbn in E. injection E as <- E.
    change (acc ++ a :: s) with (acc ++ [a] ++ s). rewrite app_assoc. apply under_app.
Qed.

Lemma negb_seg x y : negb (seg_eqb x y) = true -> x <> y.
Proof. intros H. apply negb_true_iff in H. now apply seg_eqb_neq. Qed.

Lemma cfg_ok_b_sound c : cfg_ok_b c = true -> cfg_ok c.
Proof.
  unfold cfg_ok_b. intros H. repeat (apply andb_true_iff in H as [H ?]).
  repeat match goal with X : negb _ = true |- _ => apply negb_true_iff in X end.
  constructor; auto; try (apply path_eqb_neq; assumption); try (apply seg_eqb_neq; assumption).
Qed.

Lemma staged_ok_b_sound c t i : staged_ok_b c t i = true -> staged_ok c t i.
Proof.
  unfold staged_ok_b. intros H.
  apply andb_true_iff in H as [H Hdups]. apply andb_true_iff in H as [H Hman].
  apply andb_true_iff in H as [H Hss]. apply andb_true_iff in H as [H Hsi].
  apply andb_true_iff in H as [H Hhs]. apply andb_true_iff in H as [H Hhi].
  apply andb_true_iff in H as [H Hvs]. apply andb_true_iff in H as [Hanc Hinv].
  constructor.
  - intros q N U. rewrite forallb_forall in Hanc. apply onode_eqb_eq. apply Hanc.
    apply (prefixes_ne_In [] (c_so c) q); auto.
  - destruct (read_file t (c_so c ++ [c_inv c])); [|discriminate]. apply content_eqb_eq in Hinv. congruence.
  - destruct (i_vs i); [discriminate | discriminate].
  - now apply negb_seg.
  - now apply negb_seg.
  - now apply negb_seg.
  - now apply negb_seg.
  - intros d I. rewrite forallb_forall in Hman. specialize (Hman d I).
    destruct d as [|hh [|cd [|x rest]]]; try discriminate.
    apply andb_true_iff in Hman as [Hman Hb]. apply andb_true_iff in Hman as [H1 H2].
    apply seg_eqb_eq in H1. apply seg_eqb_eq in H2. subst. split.
    + exists (x :: rest). split; [discriminate | reflexivity].
    + unfold is_blob in Hb. destruct (lookup t (c_so c ++ head_of i :: c_cdir c :: x :: rest)) as [[|[]]|]; try discriminate. eauto.
  - intros d I. rewrite forallb_forall in Hdups. specialize (Hdups d I). unfold mem_path in Hdups.
    apply existsb_exists in Hdups as [y [Iy E]]. apply path_eqb_eq in E. now subst.
Qed.

Lemma main_ok_b_sound c t i : i_vs i <> [] -> main_ok_b c t i = true -> main_ok c t i.
Proof.
  unfold main_ok_b. intros NE H.
  assert (Present : match read_file t (c_mo c ++ [c_inv c]) with
    | Some (CInv k0 vs0 spec0 man0 dups0) =>
        negb (match vs0 with [] => true | _ => false end)
        && seglist_eqb (i_vs i) (vs0 ++ [head_of i])
        && negb (existsb (seg_eqb (head_of i)) vs0)
        && onode_eqb (lookup t (c_mo c)) (Some Dir)
        && obj_validb c t (c_mo c)
        && negb (N.eqb k0 (c_newk c))
        && none_under t (c_mo c ++ [head_of i])
        && (seg_eqb (i_spec i) spec0
            || (onode_eqb (lookup t (c_mo c ++ [i_spec i])) None && negb (seg_eqb (i_spec i) (c_inv c))
                && negb (seg_eqb (i_spec i) (c_side c)) && is_decl_name spec0 && is_decl_name (i_spec i)))
    | _ => false end = true -> main_ok c t i).
  { clear H. intros H. destruct (read_file t (c_mo c ++ [c_inv c])) as [[| k0 vs0 spec0 man0 dups0 | | |]|] eqn:R; try discriminate.
    apply andb_true_iff in H as [H Hsp]. apply andb_true_iff in H as [H Hfree].
    apply andb_true_iff in H as [H Hk]. apply andb_true_iff in H as [H Hval].
    apply andb_true_iff in H as [H Hmo]. apply andb_true_iff in H as [H Hnotin].
    apply andb_true_iff in H as [Hne Hvs].
    apply seglist_eqb_eq in Hvs.
    eapply (MainPresent c t i k0 vs0 spec0 man0 dups0); auto.
    - destruct vs0; [discriminate | discriminate].
    - intros I. apply negb_true_iff in Hnotin. assert (X : existsb (seg_eqb (head_of i)) vs0 = true); [|congruence].
      apply existsb_exists. exists (head_of i). split; [exact I | apply seg_eqb_refl].
    - now apply onode_eqb_eq.
    - apply negb_true_iff in Hk. now apply N.eqb_neq.
    - now apply none_under_sound.
    - intros NS. apply orb_true_iff in Hsp as [H0 | H0]; [apply seg_eqb_eq in H0; contradiction|].
      apply andb_true_iff in H0 as [H0 Hd2]. apply andb_true_iff in H0 as [H0 Hd1].
      apply andb_true_iff in H0 as [H0 Hs2]. apply andb_true_iff in H0 as [Hnone Hs1].
      repeat split; auto.
      + now apply onode_eqb_eq.
      + now apply negb_seg.
      + now apply negb_seg. }
  destruct (i_vs i) as [|a [|z l]] eqn:V; [contradiction | | now apply Present].
  apply MainAbsent.
  - unfold head_of. rewrite V. reflexivity.
  - now apply none_under_sound.
Qed.

Theorem commit_pre_b_sound c t i : commit_pre_b c t i = true -> commit_pre c t i.
Proof.
  unfold commit_pre_b. intros H.
  apply andb_true_iff in H as [H Hmain]. apply andb_true_iff in H as [H Hst].
  apply andb_true_iff in H as [H Hlock]. apply andb_true_iff in H as [Hcfg Hlocks].
  pose proof (staged_ok_b_sound c t i Hst) as S.
  constructor.
  - now apply cfg_ok_b_sound.
  - assumption.
  - now apply onode_eqb_eq.
  - exact S.
  - apply main_ok_b_sound; [apply (st_vs c t i S) | assumption].
Qed.

Lemma same_type_b_sound c t i : same_type_b c t i = true -> same_type c t i.
Proof.
  unfold same_type_b, same_type. intros H k vs sp man dups R. rewrite R in H. now apply seg_eqb_eq.
Qed.
