(** Plain invariant preservation for the monad of Model/Commit.v: [preserves P m] - whatever event
    is injected, and however m ends (Ok, error, kill), a tree satisfying P is taken to a tree
    satisfying P.  Used for the parts of commit that follow the installation (removal of the staged
    object, release of the lock), where errors are swallowed or rethrown with an event still pending. *)
From Coq Require Import List NArith Ascii Bool Arith Lia.
From Rocfl Require Import Base.Bytes Model.FsOps Model.FsTree Model.Commit
  Proofs.FsTreeFacts Proofs.CommitFacts Proofs.CommitLogic Proofs.CommitSteps.
Import ListNotations.

Implicit Types P : tree -> Prop.

Definition preserves {A} (P : tree -> Prop) (m : M A) : Prop :=
  forall w, P (w_tree w) -> P (w_tree (snd (m w))).

Lemma pres_ret {A} P (a : A) : preserves P (ret a).
Proof. intros w H. exact H. Qed.

Lemma pres_throw {A} P e : preserves P (@throw A e).
Proof. intros w H. exact H. Qed.

Lemma pres_bind {A B} P (m : M A) (f : A -> M B) : preserves P m -> (forall a, preserves P (f a)) -> preserves P (bind m f).
Proof.
  intros Hm Hf w H. unfold bind. specialize (Hm w H). destruct (m w) as [[a|e|] w1]; cbn in *; auto. now apply Hf.
Qed.

Lemma pres_andthen {A B} P (m : M A) (k : M B) : preserves P m -> preserves P k -> preserves P (m ;; k).
Proof. intros. apply pres_bind; auto. Qed.

Lemma pres_catch {A} P (m : M A) (h : cerr -> M A) : preserves P m -> (forall e, preserves P (h e)) -> preserves P (catch m h).
Proof.
  intros Hm Hh w H. unfold catch. specialize (Hm w H). destruct (m w) as [[a|e|] w1]; cbn in *; auto. now apply Hh.
Qed.

Lemma pres_get_tree {A} P (f : tree -> M A) : (forall t, preserves P (f t)) -> preserves P (bind get_tree f).
Proof. intros Hf w H. unfold bind, get_tree. now apply Hf. Qed.

Lemma pres_get_closed {A} P (f : bool -> M A) : (forall b, preserves P (f b)) -> preserves P (bind get_closed f).
Proof. intros Hf w H. unfold bind, get_closed. now apply Hf. Qed.

Lemma pres_attempt {A} P (m : M A) : preserves P m -> preserves P (attempt m).
Proof. intros. unfold attempt. apply pres_catch; [apply pres_bind; auto; intros; apply pres_ret | intros; apply pres_ret]. Qed.

Lemma pres_finally {A} P (m : M A) fin : preserves P m -> preserves P fin -> preserves P (finally m fin).
Proof.
  intros. unfold finally. apply pres_catch.
  - apply pres_bind; auto. intros. apply pres_andthen; [now apply pres_attempt | apply pres_ret].
  - intros. apply pres_andthen; [now apply pres_attempt | apply pres_throw].
Qed.

Lemma pres_forM {A} P (l : list A) f : (forall x, In x l -> preserves P (f x)) -> preserves P (forM_ l f).
Proof.
  induction l as [|x l IH]; intros Hf; cbn [forM_]; [apply pres_ret|].
  apply pres_andthen; [apply Hf; now left | apply IH; intros; apply Hf; now right].
Qed.

Lemma pres_step P s : (forall t t', P t -> apply_step s t = FOk t' -> P t') -> preserves P (step s).
Proof.
  intros Hs w H. unfold step. destruct w as [t i cl tr lg fr]. cbn in *.
  destruct i as [|[|n]|[|n]|[|n]]; cbn; auto;
    destruct (apply_step s t) eqn:E; cbn; eauto.
Qed.

Lemma pres_step_stable P bad s :
  stable P bad -> is_rename_step s = false -> ~ bad (step_path s) -> preserves P (step s).
Proof.
  intros St R B. apply pres_step. intros t t' Pt E. exact (St t t' _ Pt (apply_step_only_at s t t' R E) B).
Qed.

Section PStable.
  Variable P : tree -> Prop.
  Variable bad : fpath -> Prop.
  Hypothesis St : stable P bad.

  Lemma pres_remove_file_inf p : ~ bad p -> preserves P (remove_file_inf p).
  Proof.
    intros B. unfold remove_file_inf. apply pres_bind.
    - apply pres_attempt. apply (pres_step_stable P bad _ St); [reflexivity | exact B].
    - intros [e|]; [|apply pres_ret]. destruct e as [x| | | | | | | |]; try apply pres_throw.
      destruct x; try apply pres_throw. apply pres_ret.
  Qed.

  Lemma pres_cdu rp : (forall q, under q (rev rp) = true -> ~ bad q) -> preserves P (cdu_rev rp).
  Proof.
    induction rp as [|x rp IH]; intros Hb; cbn [cdu_rev]; [apply pres_ret|].
    apply pres_get_tree. intros t.
    destruct (negb (is_dir t (rev (x :: rp)))); [apply pres_throw|].
    destruct (has_children t (rev (x :: rp))); [apply pres_ret|].
    apply pres_andthen.
    - apply (pres_step_stable P bad _ St); [reflexivity|]. cbn. apply Hb, under_refl.
    - apply IH. intros q Hq. apply Hb. cbn [rev]. eapply under_trans; [exact Hq | apply under_app].
  Qed.

  Lemma pres_clean_dirs_up p : (forall q, under q p = true -> ~ bad q) -> preserves P (clean_dirs_up p).
  Proof. intros Hb. unfold clean_dirs_up. apply pres_cdu. now rewrite rev_involutive. Qed.

  Lemma pres_rm_all fuel : forall p, (forall q, under p q = true -> ~ bad q) -> preserves P (rm_all fuel p).
  Proof.
    induction fuel as [|f IH]; intros p Hb; cbn [rm_all].
    - apply (pres_step_stable P bad _ St); [reflexivity|]. apply Hb, under_refl.
    - apply pres_get_tree. intros t. apply pres_andthen.
      + apply pres_forM. intros [q n] I. cbn [fst snd].
        apply filter_In in I as [_ C]. cbn in C. apply is_child_below, below_under in C.
        destruct n.
        * apply IH. intros q' Hq'. apply Hb. eapply under_trans; eauto.
        * apply (pres_step_stable P bad _ St); [reflexivity|]. apply Hb. exact C.
      + apply (pres_step_stable P bad _ St); [reflexivity|]. apply Hb, under_refl.
  Qed.

  Lemma pres_remove_dir_all p : (forall q, under p q = true -> ~ bad q) -> preserves P (remove_dir_all p).
  Proof. intros Hb. unfold remove_dir_all. apply pres_get_tree. intros t. now apply pres_rm_all. Qed.

  (** the staging store's purge_object: it works below the staged object root and on the ancestors of it *)
  Lemma pres_purge_staged c :
    (forall q, under (c_so c) q = true -> ~ bad q) -> (forall q, under q (parent (c_so c)) = true -> ~ bad q) ->
    preserves P (purge_staged c).
  Proof.
    intros B1 B2. unfold purge_staged. apply pres_get_tree. intros t.
    match goal with |- preserves _ (if ?b then _ else _) => destruct b end; [apply pres_ret|].
    apply pres_andthen.
    - destruct (exists_at t (c_so c)); [|apply pres_ret].
      apply pres_bind; [apply pres_attempt; now apply pres_remove_dir_all|].
      intros [e|]; [apply pres_throw | apply pres_ret].
    - apply pres_get_tree. intros t2. destruct (exists_at t2 (parent (c_so c))); [|apply pres_ret].
      apply pres_andthen; [apply pres_attempt; now apply pres_clean_dirs_up | apply pres_ret].
  Qed.
End PStable.
