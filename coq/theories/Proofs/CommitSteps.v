(** Specifications of the utility programs of Model/Commit.v in the logic of Proofs/CommitLogic.v:
    what single steps, create_dir_all, clean_dirs_up, remove_file_inf, write_file, copy_file and
    remove_dir_all can change. *)
From Coq Require Import List NArith Ascii Bool Arith Lia.
From Rocfl Require Import Base.Bytes Model.FsOps Model.FsTree Model.Commit
  Proofs.FsTreeFacts Proofs.CommitFacts Proofs.CommitLogic.
Import ListNotations.

(** the path a step other than rename works on *)
Definition step_path (s : stepk) : fpath :=
  match s with
  | SMkdir p | SCreateNew p _ | STrunc p | SChmod p | SWrite p _ | STail p | SUnlink p | SRmdir p => p
  | SRename a _ => a
  end.
Definition is_rename_step (s : stepk) : bool := match s with SRename _ _ => true | _ => false end.

Lemma only_at_refl p t : only_at p t t.
Proof. intros q _. reflexivity. Qed.

Lemma only_at_insert p n t : only_at p t (insert p n t).
Proof. intros q Hq. apply lookup_insert_neq. congruence. Qed.

Lemma only_at_remove p t : only_at p t (remove p t).
Proof. intros q Hq. apply lookup_remove_neq. congruence. Qed.

Lemma apply_step_only_at s t t' :
  is_rename_step s = false -> apply_step s t = FOk t' -> only_at (step_path s) t t'.
Proof.
  destruct s; cbn; intros R HS; try discriminate.
  - apply fs_mkdir_ok in HS as [-> _]. apply only_at_insert.
  - apply fs_create_new_ok in HS as [-> _]. apply only_at_insert.
  - apply fs_trunc_ok in HS as [-> _]. apply only_at_insert.
  - injection HS as <-. apply only_at_refl.
  - apply fs_finish_ok in HS as [-> _]. apply only_at_insert.
  - injection HS as <-. apply only_at_refl.
  - apply fs_unlink_ok in HS as [-> _]. apply only_at_remove.
  - apply fs_rmdir_ok in HS as [-> _]. apply only_at_remove.
Qed.

(** a predicate that survives every change confined to one path which is not [bad] *)
Definition stable (P : tree -> Prop) (bad : fpath -> Prop) : Prop :=
  forall t t' p, P t -> only_at p t t' -> ~ bad p -> P t'.

(** a step (not a rename) whose path - whenever the call succeeds - is not bad keeps a stable
    predicate, whatever event is injected *)
Lemma H_step_stable (P : tree -> Prop) bad s :
  stable P bad -> is_rename_step s = false ->
  (forall t t', P t -> apply_step s t = FOk t' -> ~ bad (step_path s)) ->
  H P (step s) (fun _ => P) (fun _ => P) P.
Proof.
  intros St R Hbad. apply H_step; [|auto|auto].
  intros t Pt. destruct (apply_step s t) as [t'|x] eqn:E; [|exact Pt].
  apply (St t t' (step_path s) Pt (apply_step_only_at s t t' R E)). eapply Hbad; eauto.
Qed.

Lemma H0_step_stable (P : tree -> Prop) bad s :
  stable P bad -> is_rename_step s = false ->
  (forall t t', P t -> apply_step s t = FOk t' -> ~ bad (step_path s)) ->
  H0 P (step s) (fun _ => P) (fun _ => P).
Proof. intros. eapply H_to_H0. now apply H_step_stable with (bad := bad). Qed.

(** ** programs all of whose steps keep a stable predicate *)

(** [keeps P bad ok m]: m keeps P (after Ok, Err and a kill alike) provided every path it works on
    satisfies [ok] - and [ok] paths are never [bad] once the call on them succeeded *)
Definition keeps {A} (P : tree -> Prop) (m : M A) : Prop :=
  H P m (fun _ => P) (fun _ => P) P.

Lemma keeps_ret {A} P (a : A) : keeps P (ret a).
Proof. apply H_ret. auto. Qed.

Lemma keeps_bind {A B} P (m : M A) (f : A -> M B) : keeps P m -> (forall a, keeps P (f a)) -> keeps P (bind m f).
Proof. intros Hm Hf. eapply H_bind; [exact Hm | exact Hf]. Qed.

Lemma keeps_andthen {A B} P (m : M A) (k : M B) : keeps P m -> keeps P k -> keeps P (m ;; k).
Proof. intros. apply keeps_bind; auto. Qed.

Lemma keeps_throw_os {A} P x : keeps P (@throw A (EFs x)).
Proof. apply H_throw_os. auto. Qed.

Lemma keeps_get_tree {A} (P : tree -> Prop) (f : tree -> M A) :
  (forall t0, P t0 -> H (fun t => t = t0) (f t0) (fun _ => P) (fun _ => P) P) -> keeps P (bind get_tree f).
Proof. intros. apply H_get_tree. auto. Qed.

(** the same, the continuation seeing only that P holds *)
Lemma keeps_get_tree' {A} (P : tree -> Prop) (f : tree -> M A) :
  (forall t0, keeps P (f t0)) -> keeps P (bind get_tree f).
Proof.
  intros Hf. apply H_get_tree. intros t0 P0.
  eapply H_conseq; [apply Hf | | auto | auto | auto]. intros t ->. exact P0.
Qed.

Lemma keeps_get_closed {A} P (f : bool -> M A) : (forall b, keeps P (f b)) -> keeps P (bind get_closed f).
Proof. intros. apply H_get_closed. auto. Qed.

Lemma keeps_forM {A} P (l : list A) f : (forall x, In x l -> keeps P (f x)) -> keeps P (forM_ l f).
Proof. intros. apply H_forM. auto. Qed.

Lemma keeps_ensure_open P : keeps P ensure_open.
Proof. apply H_ensure_open. auto. Qed.

(** errors of m swallowed or handled by a handler that keeps P in a world without pending event *)
Lemma keeps_attempt_bind {A B} P (m : M A) (k : option cerr -> M B) :
  keeps P m -> (forall r, keeps P (k r)) -> keeps P (bind (attempt m) k).
Proof.
  intros Hm Hk. eapply H_attempt_bind with (Q1 := P) (E1 := fun _ => P).
  - exact Hm.
  - apply Hk.
  - intros e _. apply Hk.
  - intros e _. eapply H_to_H0. apply Hk.
Qed.

Lemma keeps_catch {A} P (m : M A) (h : cerr -> M A) :
  keeps P m -> (forall e, is_os e = true -> keeps P (h e)) ->
  (forall e, is_os e = false -> H0 P (h e) (fun _ => P) (fun _ => P)) -> keeps P (catch m h).
Proof. intros Hm Hos Hno. eapply H_catch with (E1 := fun _ => P); auto. Qed.

(** an error that is not an OS error is thrown only in handlers (no pending event) *)
Lemma keeps0_throw {A} P e : H0 P (@throw A e) (fun _ => P) (fun _ => P).
Proof. apply H0_throw. auto. Qed.

Lemma keeps_finally {A} P (m : M A) fin : keeps P m -> keeps P fin -> keeps P (finally m fin).
Proof.
  intros Hm Hf. unfold finally. apply keeps_catch.
  - apply keeps_bind; [exact Hm|]. intros a. unfold andthen. apply keeps_attempt_bind; [exact Hf|].
    intros r. apply keeps_ret.
  - intros e O. unfold andthen. apply keeps_attempt_bind; [exact Hf|]. intros r.
    destruct e; try discriminate. apply keeps_throw_os.
  - intros e O. unfold andthen. eapply H0_attempt_bind with (Q1 := P) (E1 := fun _ => P).
    + eapply H_to_H0. exact Hf.
    + apply keeps0_throw.
    + intros e'. apply keeps0_throw.
Qed.

(** ** utilities *)

Section Stable.
  Variable P : tree -> Prop.
  Variable bad : fpath -> Prop.
  Hypothesis St : stable P bad.

  Definition step_ok (s : stepk) : Prop :=
    is_rename_step s = false /\ forall t t', P t -> apply_step s t = FOk t' -> ~ bad (step_path s).

  Lemma keeps_step s : step_ok s -> keeps P (step s).
  Proof. intros [R B]. now apply H_step_stable with (bad := bad). Qed.

  (** a handler `Some e => throw e`-style continuation: OS errors may be rethrown with the event pending,
      other errors only arrive without pending event *)
  Lemma keeps_attempt_step {B} s (k : option cerr -> M B) :
    step_ok s ->
    keeps P (k None) ->
    (forall x, keeps P (k (Some (EFs x)))) ->
    (forall e, is_os e = false -> H0 P (k (Some e)) (fun _ => P) (fun _ => P)) ->
    keeps P (bind (attempt (step s)) k).
  Proof.
    intros Hs Hn Hos Hno. eapply H_attempt_bind with (Q1 := P) (E1 := fun _ => P).
    - now apply keeps_step.
    - exact Hn.
    - intros [x| | | | | | | |] O; try discriminate. apply Hos.
    - exact Hno.
  Qed.

  Lemma keeps_remove_file_inf p :
    (forall t t', P t -> fs_unlink t p = FOk t' -> ~ bad p) -> keeps P (remove_file_inf p).
  Proof.
    intros Hb. unfold remove_file_inf. apply keeps_attempt_step.
    - split; [reflexivity | exact Hb].
    - apply keeps_ret.
    - intros x. destruct x; try apply keeps_throw_os. apply keeps_ret.
    - intros e O. destruct e; try discriminate; apply keeps0_throw.
  Qed.

  Lemma keeps_write_file p c :
    ~ bad p -> keeps P (write_file p c).
  Proof.
    intros Hb. unfold write_file. apply keeps_andthen; apply keeps_step; (split; [reflexivity | auto]).
  Qed.

  Lemma keeps_copy_file a p : ~ bad p -> keeps P (copy_file a p).
  Proof.
    intros Hb. unfold copy_file. apply keeps_get_tree'. intros t0.
    destruct (read_file t0 a); [|apply keeps_throw_os].
    repeat apply keeps_andthen; apply keeps_step; (split; [reflexivity | auto]).
  Qed.

  Lemma keeps_write_namaste d s : ~ bad (d ++ [s]) -> keeps P (write_namaste d s).
  Proof.
    intros Hb. unfold write_namaste. apply keeps_andthen; apply keeps_step; (split; [reflexivity | auto]).
  Qed.

  (** create_dir_all: every directory it makes is a prefix of the path *)
  Lemma keeps_cda_up rp :
    (forall q, under q (rev rp) = true -> forall t t', P t -> fs_mkdir t q = FOk t' -> ~ bad q) ->
    keeps P (cda_up rp).
  Proof.
    induction rp as [|x rp IH]; intros Hb; cbn [cda_up].
    - apply keeps_ret.
    - apply keeps_attempt_step.
      + split; [reflexivity|]. cbn. apply Hb. apply under_refl.
      + apply keeps_ret.
      + intros e. destruct e; try apply keeps_throw_os.
        * apply keeps_bind; [|intros; apply keeps_ret]. apply IH. intros q Hq. apply Hb.
          cbn [rev]. eapply under_trans; [exact Hq | apply under_app].
        * apply keeps_get_tree'. intros t0. destruct (is_dir t0 (rev (x :: rp))); [apply keeps_ret | apply keeps_throw_os].
      + intros e O. destruct e; try discriminate; apply keeps0_throw.
  Qed.

  Lemma keeps_cda_down rp : forall n,
    (forall q, under q (rev rp) = true -> forall t t', P t -> fs_mkdir t q = FOk t' -> ~ bad q) ->
    keeps P (cda_down rp n).
  Proof.
    induction rp as [|x rp IH]; intros [|n] Hb; cbn [cda_down]; try apply keeps_ret.
    apply keeps_andthen.
    - apply IH. intros q Hq. apply Hb. cbn [rev]. eapply under_trans; [exact Hq | apply under_app].
    - apply keeps_attempt_step.
      + split; [reflexivity|]. cbn. apply Hb. apply under_refl.
      + apply keeps_ret.
      + intros e. destruct e; try apply keeps_throw_os.
        apply keeps_get_tree'. intros t0. destruct (is_dir t0 (rev (x :: rp))); [apply keeps_ret | apply keeps_throw_os].
      + intros e O. destruct e; try discriminate; apply keeps0_throw.
  Qed.

  Lemma keeps_create_dir_all p :
    (forall q, under q p = true -> forall t t', P t -> fs_mkdir t q = FOk t' -> ~ bad q) ->
    keeps P (create_dir_all p).
  Proof.
    intros Hb. unfold create_dir_all. apply keeps_bind.
    - apply keeps_cda_up. now rewrite rev_involutive.
    - intros n. apply keeps_cda_down. now rewrite rev_involutive.
  Qed.

  (** clean_dirs_up: every directory it removes is a prefix of the start *)
  Lemma keeps_cdu rp :
    (forall q, under q (rev rp) = true -> forall t t', P t -> fs_rmdir t q = FOk t' -> ~ bad q) ->
    keeps P (cdu_rev rp).
  Proof.
    induction rp as [|x rp IH]; intros Hb; cbn [cdu_rev].
    - apply keeps_ret.
    - apply keeps_get_tree'. intros t0.
      destruct (negb (is_dir t0 (rev (x :: rp)))); [apply keeps_throw_os|].
      destruct (has_children t0 (rev (x :: rp))); [apply keeps_ret|].
      apply keeps_andthen.
      + apply keeps_step. split; [reflexivity|]. cbn. apply Hb. apply under_refl.
      + apply IH. intros q Hq. apply Hb. cbn [rev]. eapply under_trans; [exact Hq | apply under_app].
  Qed.

  Lemma keeps_clean_dirs_up p :
    (forall q, under q p = true -> forall t t', P t -> fs_rmdir t q = FOk t' -> ~ bad q) ->
    keeps P (clean_dirs_up p).
  Proof. intros Hb. unfold clean_dirs_up. apply keeps_cdu. now rewrite rev_involutive. Qed.

  (** clean_dirs_down: every directory it removes lies at or below the start *)
  Lemma keeps_cdd fuel : forall p,
    (forall q, under p q = true -> forall t t', P t -> fs_rmdir t q = FOk t' -> ~ bad q) -> keeps P (cdd fuel p).
  Proof.
    assert (Tail : forall p, (forall q, under p q = true -> forall t t', P t -> fs_rmdir t q = FOk t' -> ~ bad q) ->
                   keeps P (do t2 <- get_tree ;; if has_children t2 p then ret tt else step (SRmdir p))).
    { intros p Hb. apply keeps_get_tree'. intros t2. destruct (has_children t2 p); [apply keeps_ret|].
      apply keeps_step. split; [reflexivity|]. cbn. apply Hb, under_refl. }
    induction fuel as [|f IH]; intros p Hb; cbn [cdd].
    - apply keeps_andthen; [apply keeps_ret | now apply Tail].
    - apply keeps_andthen; [|now apply Tail].
      apply keeps_get_tree'. intros t0. apply keeps_forM. intros [q n] I. cbn [fst snd].
      apply filter_In in I as [_ C]. cbn in C. apply is_child_below, below_under in C.
      destruct n; [|apply keeps_ret]. apply IH. intros q' Hq'. apply Hb. eapply under_trans; eauto.
  Qed.

  Lemma keeps_clean_dirs_down p :
    (forall q, under p q = true -> forall t t', P t -> fs_rmdir t q = FOk t' -> ~ bad q) -> keeps P (clean_dirs_down p).
  Proof. intros Hb. unfold clean_dirs_down. apply keeps_get_tree'. intros t0. now apply keeps_cdd. Qed.

  (** remove_dir_all: everything it removes lies at or below the directory *)
  Lemma keeps_rm_all fuel : forall p,
    (forall q, under p q = true -> ~ bad q) -> keeps P (rm_all fuel p).
  Proof.
    induction fuel as [|f IH]; intros p Hb; cbn [rm_all].
    - apply keeps_step. split; [reflexivity|]. intros. apply Hb. apply under_refl.
    - apply keeps_get_tree'. intros t0. apply keeps_andthen.
      + apply keeps_forM. intros [q n] I. cbn [fst snd].
        apply filter_In in I as [_ C]. cbn in C. apply is_child_below, below_under in C.
        destruct n.
        * apply IH. intros q' Hq'. apply Hb. eapply under_trans; eauto.
        * apply keeps_step. split; [reflexivity|]. intros. apply Hb. exact C.
      + apply keeps_step. split; [reflexivity|]. intros. apply Hb. apply under_refl.
  Qed.

  Lemma keeps_remove_dir_all p : (forall q, under p q = true -> ~ bad q) -> keeps P (remove_dir_all p).
  Proof. intros Hb. unfold remove_dir_all. apply keeps_get_tree'. intros t0. now apply keeps_rm_all. Qed.
End Stable.
