(** C04 / C05 for commits that change the inventory type (the tail of upgrade_object on an existing object:
    write_new_version's declaration swap, fs.rs:508-529, and its rollback, fs.rs:534-553).
    Definitions only: the hypothesis that replaces [same_type] in the theorems `..._any_type` of
    Props/C04.v and Props/C05.v, and its boolean decider.

    [decl_swap_ok c t i]: either the commit does not change the type (then nothing is asked), or
      (a) no version directory name of the staged inventory is a declaration file name
          (find_files(object_root, "0=ocfl_object_"), fs.rs:515, lists directories as well, and
          remove_file on a directory fails: in rocfl version names are "v<digits>", VersionNum's Display), and
      (b) the object root lists no declaration file twice (trees are association lists: a second, shadowed
          binding of the same path is an artefact of the representation - read_dir never yields a name twice).
    Both are needed by the model: see [C05_any_type_needs_plain_versions] and
    [C04_any_type_needs_nodup_decls] in Proofs/CommitUpgradeWitness.v. *)
From Coq Require Import List NArith Ascii Bool.
From Rocfl Require Import Base.Bytes Model.FsOps Model.FsTree Model.Commit.
Import ListNotations.

(** no version directory of the staged inventory is named like a declaration file *)
Definition plain_versions (i : invr) : Prop :=
  forall v, In v (i_vs i) -> is_decl_name v = false.

Definition decl_swap_ok (c : cfg) (t : tree) (i : invr) : Prop :=
  same_type c t i \/ (plain_versions i /\ NoDup (find_decls t (c_mo c))).

Fixpoint nodup_pathsb (l : list fpath) : bool :=
  match l with
  | [] => true
  | x :: l' => negb (mem_path x l') && nodup_pathsb l'
  end.

Definition plain_versions_b (i : invr) : bool := forallb (fun v => negb (is_decl_name v)) (i_vs i).

Definition decl_swap_ok_b (c : cfg) (t : tree) (i : invr) : bool :=
  same_type_b c t i || (plain_versions_b i && nodup_pathsb (find_decls t (c_mo c))).
