(** Predicates that every file-system call other than rename preserves ([step_closed]) survive the first two
    phases of commit (acquire, prep: no rename is issued there), whatever event is injected.  Instance:
    "the object root lists no declaration file twice".  Soundness of the decider of [decl_swap_ok]. *)
From Coq Require Import List NArith Ascii Bool Arith Lia.
From Rocfl Require Import Base.Bytes Model.FsOps Model.FsTree Model.Commit
  Proofs.FsTreeFacts Proofs.CommitFacts Proofs.CommitLogic Proofs.CommitSteps Proofs.CommitPreserve
  Proofs.CommitPre Proofs.CommitPhases Proofs.CommitUpgradeDefs.
Import ListNotations.

Definition step_closed (P : tree -> Prop) : Prop :=
  forall s t t', is_rename_step s = false -> P t -> apply_step s t = FOk t' -> P t'.

Section SC.
  Variable P : tree -> Prop.
  Hypothesis SC : step_closed P.

  Lemma sc_step s : is_rename_step s = false -> preserves P (step s).
  Proof. intros R. apply pres_step. intros t t' Pt E. exact (SC s t t' R Pt E). Qed.

  Lemma sc_cda_up rp : preserves P (cda_up rp).
  Proof.
    induction rp as [|x rp IH]; cbn [cda_up]; [apply pres_ret|]. cbv zeta.
    apply pres_bind; [apply pres_attempt, sc_step; reflexivity|].
    intros [e|]; [|apply pres_ret].
    destruct e as [y| | | | | | | |]; try apply pres_throw.
    destruct y; try apply pres_throw.
    - apply pres_bind; [exact IH | intros; apply pres_ret].
    - apply pres_get_tree. intros t. destruct (is_dir t (rev (x :: rp))); [apply pres_ret | apply pres_throw].
  Qed.

  Lemma sc_cda_down rp : forall n, preserves P (cda_down rp n).
  Proof.
    induction rp as [|x rp IH]; intros [|n]; cbn [cda_down]; try apply pres_ret.
    apply pres_andthen; [apply IH|].
    apply pres_bind; [apply pres_attempt, sc_step; reflexivity|].
    intros [e|]; [|apply pres_ret].
    destruct e as [y| | | | | | | |]; try apply pres_throw.
    destruct y; try apply pres_throw.
    apply pres_get_tree. intros t. destruct (is_dir t (rev (x :: rp))); [apply pres_ret | apply pres_throw].
  Qed.

  Lemma sc_create_dir_all p : preserves P (create_dir_all p).
  Proof. unfold create_dir_all. apply pres_bind; [apply sc_cda_up | intros n; apply sc_cda_down]. Qed.

  Lemma sc_remove_file_inf p : preserves P (remove_file_inf p).
  Proof.
    unfold remove_file_inf. apply pres_bind; [apply pres_attempt, sc_step; reflexivity|].
    intros [e|]; [|apply pres_ret]. destruct e as [y| | | | | | | |]; try apply pres_throw.
    destruct y; try apply pres_throw. apply pres_ret.
  Qed.

  Lemma sc_cdu rp : preserves P (cdu_rev rp).
  Proof.
    induction rp as [|x rp IH]; cbn [cdu_rev]; [apply pres_ret|]. cbv zeta.
    apply pres_get_tree. intros t.
    destruct (negb (is_dir t (rev (x :: rp)))); [apply pres_throw|].
    destruct (has_children t (rev (x :: rp))); [apply pres_ret|].
    apply pres_andthen; [apply sc_step; reflexivity | exact IH].
  Qed.

  Lemma sc_clean_dirs_up p : preserves P (clean_dirs_up p).
  Proof. apply sc_cdu. Qed.

  Lemma sc_cdd fuel : forall p, preserves P (cdd fuel p).
  Proof.
    assert (Tail : forall p, preserves P (do t2 <- get_tree ;; if has_children t2 p then ret tt else step (SRmdir p))).
    { intros p. apply pres_get_tree. intros t2. destruct (has_children t2 p); [apply pres_ret | apply sc_step; reflexivity]. }
    induction fuel as [|f IH]; intros p; cbn [cdd].
    - apply pres_andthen; [apply pres_ret | apply Tail].
    - apply pres_andthen; [|apply Tail].
      apply pres_get_tree. intros t. apply pres_forM. intros [q n] _. cbn [fst snd].
      destruct n; [apply IH | apply pres_ret].
  Qed.

  Lemma sc_clean_dirs_down p : preserves P (clean_dirs_down p).
  Proof. unfold clean_dirs_down. apply pres_get_tree. intros t. apply sc_cdd. Qed.

  Lemma sc_write_file p cnt : preserves P (write_file p cnt).
  Proof. unfold write_file. apply pres_andthen; apply sc_step; reflexivity. Qed.

  Lemma sc_copy_file a p : preserves P (copy_file a p).
  Proof.
    unfold copy_file. apply pres_get_tree. intros t. destruct (read_file t a); [|apply pres_throw].
    repeat apply pres_andthen; apply sc_step; reflexivity.
  Qed.

  Lemma sc_copy_inventory_files c a d : preserves P (copy_inventory_files c a d).
  Proof. unfold copy_inventory_files. apply pres_andthen; apply sc_copy_file. Qed.

  Lemma sc_stage_inventory c i f : preserves P (stage_inventory c i f).
  Proof.
    unfold stage_inventory. apply pres_andthen; [apply sc_write_file|]. apply pres_andthen; [apply sc_write_file|].
    destruct f; [|apply pres_ret]. apply pres_andthen; [apply sc_create_dir_all | apply sc_copy_inventory_files].
  Qed.

  Lemma sc_rm_staged_files c l : preserves P (rm_staged_files c l).
  Proof.
    unfold rm_staged_files. apply pres_forM. intros d _.
    apply pres_andthen; [apply sc_remove_file_inf | apply sc_clean_dirs_up].
  Qed.

  Lemma sc_rm_orphaned_files c i : preserves P (rm_orphaned_files c i).
  Proof.
    unfold rm_orphaned_files. apply pres_get_tree. intros t.
    destruct (exists_at t (c_so c ++ [head_of i; c_cdir c])); [|apply pres_ret].
    apply pres_andthen.
    - apply pres_forM. intros f _. apply pres_andthen; [apply sc_remove_file_inf | apply sc_clean_dirs_up].
    - apply pres_get_tree. intros t2. destruct (exists_at t2 (c_so c ++ [head_of i; c_cdir c])); [apply sc_clean_dirs_down | apply pres_ret].
  Qed.

  Lemma sc_get_inventory c root : preserves P (get_inventory c root).
  Proof.
    unfold get_inventory. apply pres_get_tree. intros t.
    match goal with |- preserves _ (if ?b then _ else _) => destruct b end; [apply pres_throw|].
    destruct (read_file t (root ++ [c_inv c])) as [[| | | |]|]; try apply pres_throw. apply pres_ret.
  Qed.

  Lemma sc_prep c : preserves P (prep c).
  Proof.
    unfold prep. apply pres_bind.
    - apply pres_catch; [apply sc_get_inventory|]. intros e. destruct e; apply pres_throw.
    - intros j. apply pres_andthen; [apply sc_stage_inventory|].
      apply pres_andthen; [apply sc_rm_staged_files|].
      apply pres_andthen; [apply sc_rm_orphaned_files | apply pres_ret].
  Qed.

  Lemma sc_acquire c : preserves P (acquire c).
  Proof.
    unfold acquire. apply pres_andthen; [apply sc_create_dir_all|].
    apply pres_catch; [apply sc_step; reflexivity | intros e; apply pres_throw].
  Qed.

  (** the tree the install phase starts from in the fault-free run *)
  Lemma sc_T1ok c t0 i0 t1 : P t0 -> T1ok c t0 i0 t1 -> P t1.
  Proof.
    intros P0 (wa & w1 & EA & EP & <- & _).
    pose proof (sc_acquire c (w0 t0 NoInj) P0) as Pa. rewrite EA in Pa. cbn [snd] in Pa.
    pose proof (sc_prep c wa Pa) as Pp. rewrite EP in Pp. exact Pp.
  Qed.
End SC.

(** * the keys of a tree *)
Lemma map_fst_remove p t : map fst (remove p t) = filter (fun q => negb (path_eqb q p)) (map fst t).
Proof.
  unfold remove. induction t as [|[q n] t IH]; cbn; [reflexivity|].
  destruct (path_eqb q p); cbn; [exact IH | now rewrite IH].
Qed.

Lemma map_fst_insert p n t : map fst (insert p n t) = p :: filter (fun q => negb (path_eqb q p)) (map fst t).
Proof. unfold insert. cbn. now rewrite map_fst_remove. Qed.

Lemma find_decls_keys t dir :
  find_decls t dir = filter (fun q => is_child dir q && is_decl_name (last q [])) (map fst t).
Proof.
  unfold find_decls, children. induction t as [|[q n] t IH]; cbn; [reflexivity|].
  destruct (is_child dir q); cbn; [|exact IH].
  destruct (is_decl_name (last q [])); cbn; [now rewrite IH | exact IH].
Qed.

Lemma filter_swap {A} (f g : A -> bool) l : filter f (filter g l) = filter g (filter f l).
Proof.
  induction l as [|x l IH]; cbn; [reflexivity|].
  destruct (g x) eqn:G, (f x) eqn:F; cbn; rewrite ?G, ?F, IH; reflexivity.
Qed.

Lemma nodup_filter {A} (f : A -> bool) l : NoDup l -> NoDup (filter f l).
Proof.
  induction 1 as [|x l N _ IH]; cbn; [constructor|].
  destruct (f x); [constructor; [|exact IH] | exact IH].
  intros I. apply filter_In in I as [I _]. contradiction.
Qed.

Lemma nodup_keys_remove (g : fpath -> bool) p ks :
  NoDup (filter g ks) -> NoDup (filter g (filter (fun q => negb (path_eqb q p)) ks)).
Proof. intros N. rewrite filter_swap. now apply nodup_filter. Qed.

Lemma nodup_keys_insert (g : fpath -> bool) p ks :
  NoDup (filter g ks) -> NoDup (filter g (p :: filter (fun q => negb (path_eqb q p)) ks)).
Proof.
  intros N. cbn [filter]. destruct (g p); [|now apply nodup_keys_remove].
  constructor; [|now apply nodup_keys_remove].
  intros I. apply filter_In in I as [I _]. apply filter_In in I as [_ I]. now rewrite path_eqb_refl in I.
Qed.

Definition NoDupDecls (dir : fpath) (t : tree) : Prop := NoDup (find_decls t dir).

Lemma NoDupDecls_insert dir p n t : NoDupDecls dir t -> NoDupDecls dir (insert p n t).
Proof. unfold NoDupDecls. rewrite !find_decls_keys, map_fst_insert. apply nodup_keys_insert. Qed.

Lemma NoDupDecls_remove dir p t : NoDupDecls dir t -> NoDupDecls dir (remove p t).
Proof. unfold NoDupDecls. rewrite !find_decls_keys, map_fst_remove. apply nodup_keys_remove. Qed.

Lemma sc_NoDupDecls dir : step_closed (NoDupDecls dir).
Proof.
  intros s t t' R Pt E. destruct s; cbn in E; try discriminate R.
  - apply fs_mkdir_ok in E as [-> _]. now apply NoDupDecls_insert.
  - apply fs_create_new_ok in E as [-> _]. now apply NoDupDecls_insert.
  - apply fs_trunc_ok in E as [-> _]. now apply NoDupDecls_insert.
  - now injection E as <-.
  - apply fs_finish_ok in E as [-> _]. now apply NoDupDecls_insert.
  - now injection E as <-.
  - apply fs_unlink_ok in E as [-> _]. now apply NoDupDecls_remove.
  - apply fs_rmdir_ok in E as [-> _]. now apply NoDupDecls_remove.
Qed.

(** a duplicate-free list all of whose elements are [a] and that contains [a] is [[a]] *)
Lemma nodup_singleton {A} (a : A) l : NoDup l -> (forall x, In x l -> x = a) -> In a l -> l = [a].
Proof.
  intros N All I. destruct l as [|x l]; [destruct I|].
  assert (x = a) by (apply All; now left). subst x.
  destruct l as [|y l]; [reflexivity|].
  assert (y = a) by (apply All; right; now left). subst y.
  inversion N as [|? ? NI _]. exfalso. apply NI. now left.
Qed.

(** * the decider of [decl_swap_ok] is sound *)
Lemma nodup_pathsb_sound l : nodup_pathsb l = true -> NoDup l.
Proof.
  induction l as [|x l IH]; cbn; [constructor|]. intros H. apply andb_true_iff in H as [H1 H2].
  constructor; [|now apply IH]. intros I. apply mem_path_In in I. rewrite I in H1. discriminate.
Qed.

Lemma plain_versions_b_sound i : plain_versions_b i = true -> plain_versions i.
Proof.
  unfold plain_versions_b, plain_versions. intros H v I. rewrite forallb_forall in H. specialize (H v I).
  now destruct (is_decl_name v).
Qed.

Lemma decl_swap_ok_b_sound c t i : decl_swap_ok_b c t i = true -> decl_swap_ok c t i.
Proof.
  unfold decl_swap_ok_b. intros H. apply orb_true_iff in H as [H | H].
  - left. now apply same_type_b_sound.
  - right. apply andb_true_iff in H as [H1 H2]. split; [now apply plain_versions_b_sound | now apply nodup_pathsb_sound].
Qed.
