(** The run of commit for an object that exists, generic in what write_new_version does (same type:
    Proofs/CommitPhases.v; type change: Proofs/CommitUpgradeSteps.v), and the closed statements of C04 / C05
    without [same_type]: [commit_fault_atomic_any_type], [commit_stop_atomic_any_type], [commit_kill_safe_any_type]. *)
From Coq Require Import List NArith Ascii Bool Arith Lia.
From Rocfl Require Import Base.Bytes Model.FsOps Model.FsTree Model.Commit
  Proofs.FsTreeFacts Proofs.CommitFacts Proofs.CommitLogic Proofs.CommitSteps Proofs.CommitPreserve
  Proofs.CommitPre Proofs.CommitPhases Proofs.CommitUpgradeDefs Proofs.CommitUpgradeInv Proofs.CommitUpgradeSteps.
Import ListNotations.

Section RunGen.
  Variables (c : cfg) (t0 : tree) (i0 : invr).
  Hypothesis Pre : commit_pre c t0 i0.

  Local Notation Mo := (c_mo c).
  Local Notation h := (head_of i0).
  Local Notation i := (committed_inv c i0).
  Local Notation JP6 := (JP c t0 i0 (l6 c i0)).
  Local Notation T1 := (T1ok c t0 i0).

  Variables (k0 : N) (vs0 : list fseg) (spec0 : fseg) (man0 dups0 : list fpath).
  Hypothesis V0 : vs0 <> [].
  Hypothesis VS : i_vs i0 = vs0 ++ [h].
  Hypothesis MInv : lookup t0 (Mo ++ [c_inv c]) = Some (File (CInv k0 vs0 spec0 man0 dups0)).

  (** what write_new_version does from the prepared tree t1 of the fault-free prefix: done ([fin t1]), an error with
      the tree exactly as before, or a kill in a state of [KS t1] *)
  Variable fin : tree -> tree.
  Variable KS : tree -> tree -> Prop.
  Hypothesis HW : forall t1, JP6 t1 -> T1 t1 ->
    H (fun t => t = t1) (write_new_version c i) (fun _ t => t = fin t1)
      (fun e t => is_os e = false /\ forall x, lookup t x = lookup t1 x) (KS t1).

  Definition GLeafB (r : out unit) (t' : tree) : Prop :=
    exists t1, JP6 t1 /\ T1 t1 /\ KS t1 t' /\ r = RKilled.
  Definition GLeafD (t' : tree) : Prop :=
    exists t1, JP6 t1 /\ T1 t1 /\ same_at Mo t' (fin t1).

  Lemma install_gen : install c i = write_new_version c i.
  Proof. exact (install_nv c t0 i0 k0 vs0 spec0 man0 dups0 V0 VS MInv). Qed.

  Lemma run_gen j :
    let res := commit c (w0 t0 j) in
    LeafA c t0 i0 j (fst res) (w_tree (snd res)) \/ GLeafB (fst res) (w_tree (snd res)) \/
    LeafC c t0 i0 (fst res) (w_tree (snd res)) \/ GLeafD (w_tree (snd res)).
  Proof.
    cbv zeta. rewrite commit_unfold. pose proof (phase_acquire_prep c t0 i0 Pre j) as PH.
    destruct (acquire c (w0 t0 j)) as [[u|e|] wa] eqn:EA.
    2: { left. split; [exact PH | discriminate]. }
    2: { left. split; [exact PH | discriminate]. }
    destruct PH as [Wa PH]. destruct (prep c wa) as [[i'|e|] w1] eqn:EP.
    2: { left. split.
         - apply (attempt_then_tree (Base c t0 i0)). { apply (unlock_preserves_Base c t0 i0 Pre). } { apply pres_throw. } exact PH.
         - destruct (attempt_throw_res (unlock c) e w1) as [Y|Y]; rewrite Y; discriminate. }
    2: { left. split; [exact PH | discriminate]. }
    destruct PH as (-> & J1 & W1). rewrite mid_unfold. destruct (w_closed w1) eqn:C.
    { left. split.
      - apply (attempt_then_tree (Base c t0 i0)). { apply (unlock_preserves_Base c t0 i0 Pre). } { apply pres_ret. }
        exact (JP_Base _ _ _ _ _ J1).
      - intros _. exact (closed_needs_stop c t0 j u wa _ w1 EA EP C). }
    pose proof (prefix_unfired c t0 i0 j u wa w1 EA EP C) as T1w.
    rewrite install_gen. pose proof (HW (w_tree w1) J1 T1w w1 W1 eq_refl) as HI.
    destruct (write_new_version c i w1) as [[u2|e|] w2] eqn:EI; cbn [fst snd] in HI; destruct HI as (W2 & _ & R2).
    - right. right. right. exists (w_tree w1). split; [exact J1 | split; [exact T1w |]].
      apply (tail_preserves c t0 i0 Pre Mo (fin (w_tree w1)) (under_refl _) w2). rewrite R2. intros x _. reflexivity.
    - right. right. left. exists (w_tree w1). destruct R2 as [[_ R2] _]. split; [exact J1 | split].
      + apply (attempt_then_tree (fun t => forall x, x <> lockp c -> lookup t x = lookup (w_tree w1) x)).
        { apply unlock_preserves_except_L. } { apply pres_throw. } intros x _; apply R2.
      + destruct (attempt_throw_res (unlock c) e w2) as [Y|Y]; rewrite Y; reflexivity.
    - right. left. exists (w_tree w1). destruct R2 as [R2 _]. split; [exact J1 | split; [exact T1w | split; [exact R2 | reflexivity]]].
  Qed.

  (** the fault-free run ends in [fin] of its prepared tree *)
  Lemma ff_new_gen t1 : JP6 t1 -> T1 t1 -> same_at Mo (tnew c t0) (fin t1).
  Proof.
    intros J1 T1w. pose proof T1w as (wa & w1 & EA & EP & E1 & C & I1). subst t1. unfold tnew.
    rewrite commit_unfold, EA, EP, mid_unfold, C, install_gen.
    assert (W1 : wfw w1) by (intros Y; congruence).
    pose proof (HW (w_tree w1) J1 T1w w1 W1 eq_refl) as HI.
    destruct (write_new_version c i w1) as [[u2|e|] w2]; cbn [fst snd] in HI; destruct HI as (W2 & M2 & R2).
    - apply (tail_preserves c t0 i0 Pre Mo (fin (w_tree w1)) (under_refl _) w2). rewrite R2. intros x _. reflexivity.
    - exfalso. destruct R2 as [[O _] R3]. destruct (R3 O) as [_ NQ]. apply NQ. split; assumption.
    - exfalso. destruct R2 as [_ NK]. contradiction.
  Qed.

  Lemma GLeafD_NEW t' : GLeafD t' -> NEW c t0 t'.
  Proof.
    intros (t1 & J1 & T1w & S). eapply same_at_trans; [exact S | apply same_at_sym, ff_new_gen; auto].
  Qed.

  (** ** the facts about [fin] and [KS] the two properties need *)
  Hypothesis FinHead : forall t1, JP6 t1 -> T1 t1 -> lookup (fin t1) (Mo ++ [h]) = Some Dir.
  Hypothesis FinVI : forall t1, JP6 t1 -> T1 t1 -> versions_intact c vs0 t0 (fin t1).
  Hypothesis FinCS : forall t1, JP6 t1 -> T1 t1 -> CS_M c t0 i0 (fin t1).
  Hypothesis KSafe : forall t1 t', JP6 t1 -> T1 t1 -> KS t1 t' ->
    versions_intact c vs0 t0 t' /\ (CS_S c t0 i0 t' \/ CS_M c t0 i0 t') /\
    (OLD c t0 t' \/ t' = fin t1 \/ obj_validb c t' Mo = false).

  Lemma gen_leaves_safe j r t' :
    LeafA c t0 i0 j r t' \/ GLeafB r t' \/ LeafC c t0 i0 r t' \/ GLeafD t' ->
    versions_intact c vs0 t0 t' /\ (CS_S c t0 i0 t' \/ CS_M c t0 i0 t') /\
    (OLD c t0 t' \/ NEW c t0 t' \/ (obj_validb c t' Mo = false /\ r = RKilled)).
  Proof.
    intros [[B _] | [(t1 & J1 & T1w & K & ->) | [(t1 & J1 & E & _) | D]]].
    - split; [now apply (Base_VI c t0 i0 Pre) | split; [left; now apply Base_CS_S | left; now apply (Base_OLD c t0 i0 Pre)]].
    - destruct (KSafe t1 t' J1 T1w K) as (V & S & [O | [-> | I]]); (split; [exact V | split; [exact S |]]).
      + now left.
      + right. left. apply same_at_sym, ff_new_gen; auto.
      + right. right. now split.
    - pose proof (exceptL_Base c t0 i0 Pre t' t1 J1 E) as B.
      split; [now apply (Base_VI c t0 i0 Pre) | split; [left; now apply Base_CS_S | left; now apply (Base_OLD c t0 i0 Pre)]].
    - pose proof D as (t1 & J1 & T1w & S). split; [|split].
      + intros v I x U. rewrite (same_at_sub Mo (Mo ++ [v]) _ _ (under_app _ _) S x U).
        exact (FinVI t1 J1 T1w v I x U).
      + right. intros d I. rewrite (S _ (under_app Mo d)). now apply (FinCS t1 J1 T1w).
      + right. left. now apply GLeafD_NEW.
  Qed.

  Theorem gen_kill_safe k :
    let t' := w_tree (snd (commit c (w0 t0 (Kill k)))) in
    versions_intact c vs0 t0 t' /\ content_somewhere c i0 t0 t' /\
    (same_at Mo t' t0 \/ same_at Mo t' (tnew c t0) \/ obj_validb c t' Mo = false).
  Proof.
    cbv zeta. destruct (gen_leaves_safe (Kill k) _ _ (run_gen (Kill k))) as (V & S & [O | [N | [I _]]]);
      (split; [exact V | split; [now apply CS_somewhere | auto]]).
  Qed.

  Lemma head_present_GD t' : GLeafD t' -> lookup t' (Mo ++ [h]) = Some Dir.
  Proof.
    intros (t1 & J1 & T1w & S). rewrite (S _ (under_app Mo [h])). exact (FinHead t1 J1 T1w).
  Qed.

  (** any event other than a kill *)
  Lemma gen_atomic j :
    (forall n, j <> Kill n) ->
    let res := commit c (w0 t0 j) in
    let t' := w_tree (snd res) in
    (OLD c t0 t' \/ NEW c t0 t') /\
    ((forall n, j <> Stop n) -> is_ok (fst res) = true -> NEW c t0 t') /\
    (lookup t' (Mo ++ [h]) = None -> OLD c t0 t' /\ CS_S c t0 i0 t') /\
    is_killed (fst res) = false.
  Proof.
    intros NK. cbv zeta. pose proof (not_killed_unless_kill c t0 j NK) as NKr.
    pose proof (run_gen j) as R. cbv zeta in R.
    destruct R as [[B Ok] | [(t1 & _ & _ & _ & Kd) | [(t1 & J1 & E & NOk) | D]]].
    - split; [|split; [|split]]; auto.
      + left. now apply (Base_OLD c t0 i0 Pre).
      + intros NS O. destruct (Ok O) as [n Y]. now apply NS in Y.
      + intros _. split; [now apply (Base_OLD c t0 i0 Pre) | now apply Base_CS_S].
    - rewrite Kd in NKr. discriminate.
    - pose proof (exceptL_Base c t0 i0 Pre _ t1 J1 E) as B. split; [|split; [|split]]; auto.
      + left. now apply (Base_OLD c t0 i0 Pre).
      + intros _ O. congruence.
      + intros _. split; [now apply (Base_OLD c t0 i0 Pre) | now apply Base_CS_S].
    - split; [|split; [|split]]; auto.
      + right. now apply GLeafD_NEW.
      + intros _ _. now apply GLeafD_NEW.
      + intros Y. rewrite (head_present_GD _ D) in Y. discriminate.
  Qed.
End RunGen.

(** * the run of a type-changing commit *)
Section RunUp.
  Variables (c : cfg) (t0 : tree) (i0 : invr).
  Hypothesis Pre : commit_pre c t0 i0.

  Local Notation Mo := (c_mo c).
  Local Notation h := (head_of i0).
  Local Notation spec := (i_spec i0).

  Variables (k0 : N) (vs0 : list fseg) (spec0 : fseg) (man0 dups0 : list fpath) (osd : content).
  Hypothesis V0 : vs0 <> [].
  Hypothesis VS : i_vs i0 = vs0 ++ [h].
  Hypothesis Hnotin : ~ In h vs0.
  Hypothesis MoD : lookup t0 Mo = Some Dir.
  Hypothesis MInv : lookup t0 (Mo ++ [c_inv c]) = Some (File (CInv k0 vs0 spec0 man0 dups0)).
  Hypothesis MSide : lookup t0 (Mo ++ [c_side c]) = Some (File osd).
  Hypothesis Valid0 : obj_validb c t0 Mo = true.
  Hypothesis Knew : k0 <> c_newk c.
  Hypothesis Free : forall x, under (Mo ++ [h]) x = true -> lookup t0 x = None.
  Hypothesis Diff : spec <> spec0.
  Hypothesis NewAbsent : lookup t0 (Mo ++ [spec]) = None.
  Hypothesis SpecInv : spec <> c_inv c.
  Hypothesis SpecSide : spec <> c_side c.
  Hypothesis Decl0 : is_decl_name spec0 = true.
  Hypothesis DeclN : is_decl_name spec = true.
  Hypothesis Plain : plain_versions i0.
  Hypothesis NoDup0 : NoDup (find_decls t0 Mo).

  Let fin (t1 : tree) : tree := u8 c i0 t1 spec0.
  Let KS (t1 : tree) : tree -> Prop := KU c i0 t1 spec0.

  Lemma up_old_list t1 : JP c t0 i0 (l6 c i0) t1 -> T1ok c t0 i0 t1 -> find_decls t1 Mo = [Mo ++ [spec0]].
  Proof.
    intros J1 T1. apply (old_list c t0 i0 Pre t1 J1 k0 vs0 spec0 man0 dups0 osd VS MInv MSide Decl0 Valid0 Knew Plain).
    exact (sc_T1ok (NoDupDecls Mo) (sc_NoDupDecls Mo) c t0 i0 t1 NoDup0 T1).
  Qed.

  Lemma up_HW t1 : JP c t0 i0 (l6 c i0) t1 -> T1ok c t0 i0 t1 ->
    H (fun t => t = t1) (write_new_version c (committed_inv c i0)) (fun _ t => t = fin t1)
      (fun e t => is_os e = false /\ forall x, lookup t x = lookup t1 x) (KS t1).
  Proof.
    intros J1 T1.
    exact (H_write_new_version_up c t0 i0 Pre t1 J1 k0 vs0 spec0 man0 dups0 osd V0 VS MoD MInv MSide Free Diff NewAbsent
             SpecInv SpecSide Decl0 DeclN Valid0 Knew Plain (up_old_list t1 J1 T1)).
  Qed.

  Lemma up_FinHead t1 : JP c t0 i0 (l6 c i0) t1 -> T1ok c t0 i0 t1 -> lookup (fin t1) (Mo ++ [h]) = Some Dir.
  Proof. intros J1 _. exact (u8_head_present c t0 i0 Pre t1 J1 vs0 spec0 VS Free Decl0 DeclN Valid0 Plain). Qed.

  Lemma up_FinVI t1 : JP c t0 i0 (l6 c i0) t1 -> T1ok c t0 i0 t1 -> versions_intact c vs0 t0 (fin t1).
  Proof. intros J1 _. exact (VI_u8 c t0 i0 Pre t1 J1 k0 vs0 spec0 man0 dups0 osd MInv MSide Free NewAbsent Valid0 Hnotin Knew). Qed.

  Lemma up_FinCS t1 : JP c t0 i0 (l6 c i0) t1 -> T1ok c t0 i0 t1 -> CS_M c t0 i0 (fin t1).
  Proof. intros J1 _. exact (u8_CS c t0 i0 Pre t1 J1 spec0 Free). Qed.

  Lemma up_KSafe t1 t' : JP c t0 i0 (l6 c i0) t1 -> T1ok c t0 i0 t1 -> KS t1 t' ->
    versions_intact c vs0 t0 t' /\ (CS_S c t0 i0 t' \/ CS_M c t0 i0 t') /\
    (OLD c t0 t' \/ t' = fin t1 \/ obj_validb c t' Mo = false).
  Proof.
    intros J1 _ K. split; [|split].
    - exact (KU_VI c t0 i0 Pre t1 J1 k0 vs0 spec0 man0 dups0 osd MInv MSide Free NewAbsent Valid0 Hnotin Knew t' K).
    - exact (KU_content c t0 i0 Pre t1 J1 spec0 Free t' K).
    - exact (KU_class c t0 i0 Pre t1 J1 k0 vs0 spec0 man0 dups0 osd VS MInv MSide Free Diff NewAbsent SpecInv SpecSide
               Decl0 DeclN Valid0 Hnotin Knew Plain t' K).
  Qed.

  Theorem up_kill_safe k :
    let t' := w_tree (snd (commit c (w0 t0 (Kill k)))) in
    versions_intact c vs0 t0 t' /\ content_somewhere c i0 t0 t' /\
    (same_at Mo t' t0 \/ same_at Mo t' (tnew c t0) \/ obj_validb c t' Mo = false).
  Proof.
    exact (gen_kill_safe c t0 i0 Pre k0 vs0 spec0 man0 dups0 V0 VS MInv fin KS up_HW up_FinVI up_FinCS up_KSafe k).
  Qed.

  Lemma up_atomic j :
    (forall n, j <> Kill n) ->
    let res := commit c (w0 t0 j) in
    let t' := w_tree (snd res) in
    (OLD c t0 t' \/ NEW c t0 t') /\
    ((forall n, j <> Stop n) -> is_ok (fst res) = true -> NEW c t0 t') /\
    (lookup t' (Mo ++ [h]) = None -> OLD c t0 t' /\ CS_S c t0 i0 t') /\
    is_killed (fst res) = false.
  Proof.
    exact (gen_atomic c t0 i0 Pre k0 vs0 spec0 man0 dups0 V0 VS MInv fin KS up_HW up_FinHead j).
  Qed.
End RunUp.

(** * the closed statements, for every commit satisfying [commit_pre] - type-changing or not *)
Section ClosedAny.
  Variables (c : cfg) (t0 : tree) (i0 : invr).
  Hypothesis Pre : commit_pre c t0 i0.
  Hypothesis SW : decl_swap_ok c t0 i0.

  (** the object exists: either the type is unchanged, or everything the type-changing analysis needs *)
  Lemma present_cases :
    i_vs i0 <> [head_of i0] ->
    same_type c t0 i0 \/
    exists k0 vs0 spec0 man0 dups0 osd,
      vs0 <> [] /\ i_vs i0 = vs0 ++ [head_of i0] /\ ~ In (head_of i0) vs0 /\ lookup t0 (c_mo c) = Some Dir /\
      lookup t0 (c_mo c ++ [c_inv c]) = Some (File (CInv k0 vs0 spec0 man0 dups0)) /\
      lookup t0 (c_mo c ++ [c_side c]) = Some (File osd) /\ obj_validb c t0 (c_mo c) = true /\ k0 <> c_newk c /\
      (forall x, under (c_mo c ++ [head_of i0]) x = true -> lookup t0 x = None) /\
      earlier_versions i0 = vs0 /\
      i_spec i0 <> spec0 /\ lookup t0 (c_mo c ++ [i_spec i0]) = None /\ i_spec i0 <> c_inv c /\ i_spec i0 <> c_side c /\
      is_decl_name spec0 = true /\ is_decl_name (i_spec i0) = true /\
      plain_versions i0 /\ NoDup (find_decls t0 (c_mo c)).
  Proof.
    intros NV. destruct SW as [ST | [Pl ND]]; [now left|].
    destruct (pre_main c t0 i0 Pre) as [E _ | k0 vs0 spec0 man0 dups0 V0 VS Hn MoD MInv Val Kn Free Up]; [contradiction|].
    destruct (seg_eqb (i_spec i0) spec0) eqn:SE.
    - left. apply seg_eqb_eq in SE. intros k vs sp man dups R. rewrite MInv in R. now injection R as _ _ <- _ _.
    - right. apply seg_eqb_neq in SE. destruct (Up SE) as (NA & N1 & N2 & D0 & DN).
      destruct (validb_side c t0 _ _ _ _ _ _ MInv Val) as [osd MS].
      exists k0, vs0, spec0, man0, dups0, osd. repeat split; auto.
      + apply (read_file_inv _ _ _ MInv). apply snoc_ne.
      + unfold earlier_versions. rewrite VS. apply removelast_last.
  Qed.

  Lemma first_same_type : i_vs i0 = [head_of i0] -> same_type c t0 i0.
  Proof.
    intros F k vs sp man dups R.
    pose proof (absent_data c t0 i0 Pre F (c_mo c ++ [c_inv c]) (under_app _ _)) as A.
    unfold read_file in R. rewrite node_at_app, A in R. discriminate.
  Qed.

  Lemma any_cases :
    same_type c t0 i0 \/
    exists k0 vs0 spec0 man0 dups0 osd,
      vs0 <> [] /\ i_vs i0 = vs0 ++ [head_of i0] /\ ~ In (head_of i0) vs0 /\ lookup t0 (c_mo c) = Some Dir /\
      lookup t0 (c_mo c ++ [c_inv c]) = Some (File (CInv k0 vs0 spec0 man0 dups0)) /\
      lookup t0 (c_mo c ++ [c_side c]) = Some (File osd) /\ obj_validb c t0 (c_mo c) = true /\ k0 <> c_newk c /\
      (forall x, under (c_mo c ++ [head_of i0]) x = true -> lookup t0 x = None) /\
      earlier_versions i0 = vs0 /\
      i_spec i0 <> spec0 /\ lookup t0 (c_mo c ++ [i_spec i0]) = None /\ i_spec i0 <> c_inv c /\ i_spec i0 <> c_side c /\
      is_decl_name spec0 = true /\ is_decl_name (i_spec i0) = true /\
      plain_versions i0 /\ NoDup (find_decls t0 (c_mo c)).
  Proof.
    destruct (first_or_not i0) as [F | NV]; [left; now apply first_same_type | now apply present_cases].
  Qed.

  (** C05: a kill at any position *)
  Theorem commit_kill_safe_any_type k :
    let t' := run_tree (commit c) t0 (Kill k) in
    let tnew := run_tree (commit c) t0 NoInj in
    versions_intact c (earlier_versions i0) t0 t' /\ content_somewhere c i0 t0 t' /\
    (same_at (c_mo c) t' t0 \/ same_at (c_mo c) t' tnew \/ obj_validb c t' (c_mo c) = false).
  Proof.
    destruct any_cases as [ST | (k0 & vs0 & spec0 & man0 & dups0 & osd & V0 & VS & Hn & MoD & MInv & MS & Val & Kn & Free
                                    & EV & Df & NA & N1 & N2 & D0 & DN & Pl & ND)].
    - exact (commit_kill_safe c t0 i0 Pre ST k).
    - rewrite EV.
      exact (up_kill_safe c t0 i0 Pre k0 vs0 spec0 man0 dups0 osd V0 VS Hn MoD MInv MS Val Kn Free Df NA N1 N2 D0 DN Pl ND k).
  Qed.

  (** C04: a fault at any position (or none) *)
  Theorem commit_fault_atomic_any_type j :
    (forall n, j <> Kill n) -> (forall n, j <> Stop n) ->
    let res := run (commit c) t0 j in
    let t' := w_tree (snd res) in
    let tnew := run_tree (commit c) t0 NoInj in
    (same_at (c_mo c) t' t0 \/ same_at (c_mo c) t' tnew) /\
    (is_ok (fst res) = true -> same_at (c_mo c) t' tnew) /\
    (lookup t' (c_mo c ++ [head_of i0]) = None ->
       same_at (c_mo c) t' t0 /\
       forall d, In d (i_man (committed_inv c i0)) -> lookup t' (c_so c ++ d) = lookup t0 (c_so c ++ d)).
  Proof.
    intros NK NS.
    destruct any_cases as [ST | (k0 & vs0 & spec0 & man0 & dups0 & osd & V0 & VS & Hn & MoD & MInv & MS & Val & Kn & Free
                                    & EV & Df & NA & N1 & N2 & D0 & DN & Pl & ND)].
    - exact (commit_fault_atomic c t0 i0 Pre ST j NK NS).
    - pose proof (up_atomic c t0 i0 Pre k0 vs0 spec0 man0 dups0 osd V0 VS MoD MInv MS Val Kn Free Df NA N1 N2 D0 DN Pl ND j NK) as R.
      cbv zeta in *. destruct R as (A & B & C & _). split; [exact A | split; [intros O; exact (B NS O) | exact C]].
  Qed.

  (** C04: a stop request at any position, for an object that exists *)
  Theorem commit_stop_atomic_any_type k :
    i_vs i0 <> [head_of i0] ->
    let res := run (commit c) t0 (Stop k) in
    let t' := w_tree (snd res) in
    let tnew := run_tree (commit c) t0 NoInj in
    (same_at (c_mo c) t' t0 \/ same_at (c_mo c) t' tnew) /\
    is_killed (fst res) = false /\
    (lookup t' (c_mo c ++ [head_of i0]) = None ->
       same_at (c_mo c) t' t0 /\
       forall d, In d (i_man (committed_inv c i0)) -> lookup t' (c_so c ++ d) = lookup t0 (c_so c ++ d)).
  Proof.
    intros NV.
    destruct any_cases as [ST | (k0 & vs0 & spec0 & man0 & dups0 & osd & V0 & VS & Hn & MoD & MInv & MS & Val & Kn & Free
                                             & EV & Df & NA & N1 & N2 & D0 & DN & Pl & ND)].
    - exact (commit_stop_atomic c t0 i0 Pre ST k NV).
    - assert (NK : forall n, Stop k <> Kill n) by (intros n; discriminate).
      pose proof (up_atomic c t0 i0 Pre k0 vs0 spec0 man0 dups0 osd V0 VS MoD MInv MS Val Kn Free Df NA N1 N2 D0 DN Pl ND (Stop k) NK) as R.
      cbv zeta in *. destruct R as (A & B & C & D). split; [exact A | split; [exact D | exact C]].
  Qed.
End ClosedAny.
