(** write_new_version for a commit that CHANGES the inventory type (the install closure of fs.rs:521-532 with
    new_spec_version = Some(..), and the rollback fs.rs:534-559), every event considered.

    States of the main object after the rename of the version directory (s1 .. s5 are those of
    Proofs/CommitPhases.v: the two copies into the object root):
      u6 = s5 + the new declaration, created empty        (open O_CREAT|O_EXCL, fs.rs:1523-1526)
      u7 = u6 with the new declaration written            (write!, fs.rs:1528)
      u8 = u7 without the old declaration                 (remove_file, fs.rs:526-528)  = the new object
    "old" declaration = Mo/<spec0>, the one the object's inventory requires before the commit; "new" = Mo/<i_spec i0>. *)
From Coq Require Import List NArith Ascii Bool Arith Lia.
From Rocfl Require Import Base.Bytes Model.FsOps Model.FsTree Model.Commit
  Proofs.FsTreeFacts Proofs.CommitFacts Proofs.CommitLogic Proofs.CommitSteps Proofs.CommitPreserve
  Proofs.CommitPre Proofs.CommitPhases Proofs.CommitUpgradeDefs Proofs.CommitUpgradeInv.
Import ListNotations.

Section Up.
  Variables (c : cfg) (t0 : tree) (i0 : invr).
  Hypothesis Pre : commit_pre c t0 i0.

  Local Notation So := (c_so c).
  Local Notation Mo := (c_mo c).
  Local Notation h := (head_of i0).
  Local Notation i := (committed_inv c i0).
  Local Notation spec := (i_spec i0).
  Local Notation pinv := (c_mo c ++ [c_inv c]).
  Local Notation pside := (c_mo c ++ [c_side c]).
  Local Notation src := (c_so c ++ [head_of i0]).
  Local Notation dest := (c_mo c ++ [head_of i0]).
  Local Notation pnew := (c_mo c ++ [i_spec i0]).

  Variable t1 : tree.
  Hypothesis J1 : JP c t0 i0 (l6 c i0) t1.
  Variables (k0 : N) (vs0 : list fseg) (spec0 : fseg) (man0 dups0 : list fpath) (osd : content).
  Hypothesis V0 : vs0 <> [].
  Hypothesis VS : i_vs i0 = vs0 ++ [h].
  Hypothesis MoD : lookup t0 Mo = Some Dir.
  Hypothesis MInv : lookup t0 pinv = Some (File (CInv k0 vs0 spec0 man0 dups0)).
  Hypothesis MSide : lookup t0 pside = Some (File osd).
  Hypothesis Free : forall x, under dest x = true -> lookup t0 x = None.
  (* the type changes: main_ok's clause for it *)
  Hypothesis Diff : spec <> spec0.
  Hypothesis NewAbsent : lookup t0 pnew = None.
  Hypothesis SpecInv : spec <> c_inv c.
  Hypothesis SpecSide : spec <> c_side c.
  Hypothesis Decl0 : is_decl_name spec0 = true.
  Hypothesis DeclN : is_decl_name spec = true.
  Hypothesis Valid0 : obj_validb c t0 Mo = true.
  Hypothesis Hnotin : ~ In h vs0.
  Hypothesis Knew : k0 <> c_newk c.
  Hypothesis Plain : plain_versions i0.

  Local Notation pold := (c_mo c ++ [spec0]).
  Local Notation oinv := (CInv k0 vs0 spec0 man0 dups0).
  Local Notation S1 := (s1 c i0 t1).
  Local Notation S2 := (s2 c i0 t1).
  Local Notation S3 := (s3 c i0 t1).
  Local Notation S4 := (s4 c i0 t1).
  Local Notation S5 := (s5 c i0 t1).

  Let CO := pre_cfg c t0 i0 Pre.

  (** ** names *)
  Lemma h_in : In h (i_vs i0).
  Proof. rewrite VS. apply in_or_app. right. now left. Qed.

  Lemma spec_h : spec <> h.
  Proof. intros E. pose proof (Plain h h_in) as X. rewrite <- E in X. congruence. Qed.

  Lemma spec0_h : spec0 <> h.
  Proof. intros E. pose proof (Plain h h_in) as X. rewrite <- E in X. congruence. Qed.

  Lemma spec0_inv : spec0 <> c_inv c.
  Proof. intros E. pose proof Decl0 as D. rewrite E, (ok_inv_nodecl c CO) in D. discriminate. Qed.

  Lemma spec0_side : spec0 <> c_side c.
  Proof. intros E. pose proof Decl0 as D. rewrite E, (ok_side_nodecl c CO) in D. discriminate. Qed.

  Lemma sib_neq a e x : a <> e -> Mo ++ [a] <> Mo ++ e :: x.
  Proof. intros N E. apply app_inv_head in E. injection E as E _. contradiction. Qed.

  (** ** what the validity of the old object gives *)
  Lemma valid0_all :
    osd = CSide k0 /\ lookup t0 pold = Some (File (CDecl spec0)) /\
    (forall q n, In (q, n) (children t0 Mo) ->
       match n with
       | File _ => seg_eqb (last q []) (c_inv c) || seg_eqb (last q []) (c_side c) || seg_eqb (last q []) spec0
       | Dir => existsb (seg_eqb (last q [])) vs0
       end = true) /\
    (forall v, In v vs0 -> lookup t0 (Mo ++ [v]) = Some Dir).
  Proof.
    pose proof Valid0 as V. rewrite validb_unfold in V.
    rewrite (read_file_lookup _ _ _ _ MInv), (read_file_lookup _ _ _ _ MSide) in V.
    apply andb_true_iff in V as [V _]. apply andb_true_iff in V as [V V4].
    apply andb_true_iff in V as [V V3]. apply andb_true_iff in V as [V1 V2].
    split; [|split; [|split]].
    - destruct osd; try discriminate. apply N.eqb_eq in V1. now subst.
    - destruct (read_file t0 pold) as [[| | |s|]|] eqn:R; try discriminate.
      apply seg_eqb_eq in V2. subst s. apply (read_file_inv _ _ _ R). apply snoc_ne.
    - intros q n I. rewrite forallb_forall in V3. exact (V3 _ I).
    - intros v I. rewrite forallb_forall in V4. specialize (V4 v I).
      apply is_dir_inv in V4 as [V4|V4]; [now apply snoc_ne in V4 | exact V4].
  Qed.

  Lemma osd_eq : osd = CSide k0. Proof. apply valid0_all. Qed.
  Lemma t0_pold : lookup t0 pold = Some (File (CDecl spec0)). Proof. apply valid0_all. Qed.
  Lemma vdir v : In v vs0 -> lookup t0 (Mo ++ [v]) = Some Dir. Proof. apply valid0_all. Qed.

  (** a version directory is none of the files of the object root *)
  Lemma v_not_file v a : In v vs0 -> lookup t0 (Mo ++ [a]) <> Some Dir -> a <> v.
  Proof. intros I N ->. apply N. now apply vdir. Qed.

  Lemma v_neq_h v : In v vs0 -> v <> h.
  Proof. intros I ->. contradiction. Qed.

  (** ** the declarations the object root lists: exactly the old one *)
  Lemma t1_main' x : under Mo x = true -> lookup t1 x = lookup t0 x.
  Proof. apply (t1_main c t0 i0 Pre t1 J1). Qed.

  Lemma old_list : NoDup (find_decls t1 Mo) -> find_decls t1 Mo = [pold].
  Proof.
    intros N. apply nodup_singleton; [exact N | |].
    - intros q I. unfold find_decls in I. apply in_map_iff in I as [[q' n] [<- I]].
      apply filter_In in I as [I D]. apply filter_In in I as [I C]. cbn [fst] in *.
      apply is_child_inv in C as [a ->]. rewrite last_app_single in D.
      destruct (In_lookup _ _ _ I) as [m Lm]. rewrite (t1_main' _ (under_app _ _)) in Lm.
      pose proof (children_In t0 Mo _ m Lm (is_child_app _ _)) as C0.
      destruct valid0_all as (_ & _ & VC & _). specialize (VC _ _ C0). rewrite last_app_single in VC.
      destruct m as [|cnt].
      + exfalso. apply existsb_exists in VC as [v [Iv E]]. apply seg_eqb_eq in E. subst v.
        assert (Ia : In a (i_vs i0)) by (rewrite VS; apply in_or_app; now left).
        rewrite (Plain a Ia) in D. discriminate.
      + apply orb_true_iff in VC as [VC | VC]; [apply orb_true_iff in VC as [VC | VC]|]; apply seg_eqb_eq in VC; subst a.
        * rewrite (ok_inv_nodecl c CO) in D. discriminate.
        * rewrite (ok_side_nodecl c CO) in D. discriminate.
        * reflexivity.
    - unfold find_decls. apply in_map_iff. exists (pold, File (CDecl spec0)). split; [reflexivity|].
      apply filter_In. split.
      + apply children_In; [|apply is_child_app]. rewrite (t1_main' _ (under_app _ _)). exact t0_pold.
      + cbn [fst]. rewrite last_app_single. exact Decl0.
  Qed.

  (** ** lookups at the children of the object root other than the new version directory *)
  Lemma sib_S1 a x : a <> h -> lookup S1 (Mo ++ a :: x) = lookup t0 (Mo ++ a :: x).
  Proof.
    intros N. rewrite (s1_lookup c t0 i0 Pre t1 J1 Free), (Mo_sub_not_under_dest c i0 a x N), (Mo_sub_not_under_src c t0 i0 Pre).
    apply t1_main', under_app.
  Qed.

  Lemma RB5 : RBpre c i0 t1 S5.
  Proof. exact (RBpre_s5 c t0 i0 Pre t1 J1 k0 vs0 spec0 man0 dups0 osd MInv MSide Free). Qed.

  Lemma S5_other x : x <> pinv -> x <> pside -> lookup S5 x = lookup S1 x.
  Proof. destruct RB5 as [R _]. apply R. Qed.

  Lemma sib_S5 a x : a <> h -> a <> c_inv c -> a <> c_side c -> lookup S5 (Mo ++ a :: x) = lookup t0 (Mo ++ a :: x).
  Proof.
    intros N1 N2 N3. rewrite S5_other; [now apply sib_S1 | |]; intros E; apply app_inv_head in E; injection E as E _; contradiction.
  Qed.

  Lemma S1_pnew : lookup S1 pnew = None.
  Proof. rewrite (sib_S1 spec [] spec_h). exact NewAbsent. Qed.

  Lemma S5_pnew : lookup S5 pnew = None.
  Proof. rewrite (sib_S5 spec [] spec_h SpecInv SpecSide). exact NewAbsent. Qed.

  Lemma S5_pold : lookup S5 pold = Some (File (CDecl spec0)).
  Proof. rewrite (sib_S5 spec0 [] spec0_h spec0_inv spec0_side). exact t0_pold. Qed.

  Lemma Mo_neq_child a : Mo <> Mo ++ [a].
  Proof. intros E. rewrite <- (app_nil_r Mo) in E at 1. apply app_inv_head in E. discriminate. Qed.

  Lemma S1_Mo : lookup S1 Mo = Some Dir.
  Proof.
    rewrite (s1_lookup c t0 i0 Pre t1 J1 Free).
    assert (D : under dest Mo = false).
    { destruct (under dest Mo) eqn:E; [|reflexivity]. apply under_length in E. rewrite app_length in E. cbn in E. lia. }
    pose proof (Mo_sub_not_under_src c t0 i0 Pre []) as Sr. rewrite app_nil_r in Sr.
    rewrite D, Sr, (t1_main' Mo (under_refl _)). exact MoD.
  Qed.

  Lemma S5_Mo : lookup S5 Mo = Some Dir.
  Proof. rewrite S5_other; [exact S1_Mo | apply Mo_neq_child | apply Mo_neq_child]. Qed.

  Lemma S5_pinv : lookup S5 pinv = Some (File (tok c i0)).
  Proof.
    unfold s5, s4. rewrite !lookup_insert_neq by (apply not_eq_sym, (pinv_pside c t0 i0 Pre)).
    unfold s3. apply lookup_insert_eq.
  Qed.

  Lemma S5_pside : lookup S5 pside = Some (File (sd c)).
  Proof. unfold s5. apply lookup_insert_eq. Qed.

  Lemma pnew_pold : pnew <> pold.
  Proof. intros E. apply app_single_inj in E. contradiction. Qed.
  Lemma pnew_pinv : pnew <> pinv.
  Proof. intros E. apply app_single_inj in E. contradiction. Qed.
  Lemma pnew_pside : pnew <> pside.
  Proof. intros E. apply app_single_inj in E. contradiction. Qed.
  Lemma pold_pinv : pold <> pinv.
  Proof. intros E. apply app_single_inj in E. now apply spec0_inv. Qed.
  Lemma pold_pside : pold <> pside.
  Proof. intros E. apply app_single_inj in E. now apply spec0_side. Qed.

  (** ** the three further states *)
  Definition u6 : tree := insert pnew (File CPartial) S5.
  Definition u7 : tree := insert pnew (File (CDecl spec)) u6.
  Definition u8 : tree := remove pold u7.

  Lemma u6_other x : x <> pnew -> lookup u6 x = lookup S5 x.
  Proof. intros N. unfold u6. apply lookup_insert_neq. congruence. Qed.
  Lemma u7_other x : x <> pnew -> lookup u7 x = lookup S5 x.
  Proof. intros N. unfold u7. rewrite lookup_insert_neq by congruence. now apply u6_other. Qed.
  Lemma u8_other x : x <> pnew -> x <> pold -> lookup u8 x = lookup S5 x.
  Proof. intros N1 N2. unfold u8. rewrite lookup_remove_neq by congruence. now apply u7_other. Qed.

  Lemma u7_pold : lookup u7 pold = Some (File (CDecl spec0)).
  Proof. rewrite u7_other by (apply not_eq_sym, pnew_pold). exact S5_pold. Qed.

  (** ** the states from which the rollback starts: the version directory moved, the root inventory pair any two
      files, the new declaration absent or some file, everything else - the OLD declaration included - as after the
      rename *)
  Definition RBU (t : tree) : Prop :=
    (forall x, x <> pinv -> x <> pside -> x <> pnew -> lookup t x = lookup S1 x) /\
    (exists c1, lookup t pinv = Some (File c1)) /\ (exists c2, lookup t pside = Some (File c2)) /\
    (lookup t pnew = None \/ exists c3, lookup t pnew = Some (File c3)).

  Lemma RBpre_RBU t : RBpre c i0 t1 t -> RBU t.
  Proof.
    intros (R1 & R2 & R3). split; [|split; [|split]]; auto.
    left. rewrite R1; [exact S1_pnew | apply pnew_pinv | apply pnew_pside].
  Qed.

  Lemma RBU_ins_new t cnt : RBU t -> RBU (insert pnew (File cnt) t).
  Proof.
    intros (R1 & R2 & R3 & _). split; [|split; [|split]].
    - intros x N1 N2 N3. rewrite lookup_insert_neq by congruence. now apply R1.
    - rewrite lookup_insert_neq by apply pnew_pinv. exact R2.
    - rewrite lookup_insert_neq by apply pnew_pside. exact R3.
    - right. rewrite lookup_insert_eq. eauto.
  Qed.

  Lemma RBU_S5 : RBU S5. Proof. apply RBpre_RBU, RB5. Qed.
  Lemma RBU_u6 : RBU u6. Proof. apply RBU_ins_new, RBU_S5. Qed.
  Lemma RBU_u7 : RBU u7. Proof. apply RBU_ins_new, RBU_u6. Qed.

  (** fs.rs:535-543: the new declaration is removed (NotFound is not an error) *)
  Lemma H0_remove_new :
    H0 RBU (remove_file_inf pnew) (fun _ => RBpre c i0 t1) (fun _ _ => False).
  Proof.
    assert (Np : pnew <> []) by apply snoc_ne.
    unfold remove_file_inf.
    eapply H0_attempt_bind with (Q1 := RBpre c i0 t1) (E1 := fun e t => e = EFs ENOENT /\ RBpre c i0 t1 t).
    - apply H0_step. intros t (R1 & R2 & R3 & R4). cbn [apply_step]. unfold fs_unlink. rewrite (node_at_lookup _ _ Np).
      destruct R4 as [R4 | [c3 R4]]; rewrite R4.
      + split; [reflexivity|]. split; [|split]; auto.
        intros x N1 N2. destruct (path_eq_dec x pnew) as [-> | N3]; [now rewrite R4, S1_pnew | now apply R1].
      + split; [|split].
        * intros x N1 N2. destruct (path_eq_dec x pnew) as [-> | N3].
          -- now rewrite lookup_remove_eq, S1_pnew.
          -- rewrite lookup_remove_neq by congruence. now apply R1.
        * rewrite lookup_remove_neq by apply pnew_pinv. exact R2.
        * rewrite lookup_remove_neq by apply pnew_pside. exact R3.
    - apply H0_ret. auto.
    - intros e. apply H0_pure. intros ->. apply H0_ret. auto.
  Qed.

  (** ** kill states *)
  Definition KU (t : tree) : Prop := In t [t1; S1; S2; S3; S4; S5; u6; u7; u8].

  Lemma KV_KU t : KV c i0 t1 t -> KU t.
  Proof. unfold KV, KU. cbn. intuition. Qed.

  (** ** the declaration swap, fs.rs:524-529 *)
  Lemma H_swap :
    H (fun t => t = S5) (write_namaste Mo spec ;; forM_ [pold] remove_file_inf)
      (fun _ t => t = u8) (fun e t => is_os e = false /\ RBU t) KU.
  Proof.
    unfold write_namaste.
    eapply H_andthen with (Q1 := fun t => t = u7).
    - eapply H_andthen with (Q1 := fun t => t = u6).
      + apply (H_step_eq _ S5 u6).
        * cbn [apply_step]. apply fs_create_new_new; [apply snoc_ne | exact S5_pnew |].
          rewrite parent_app. apply is_dir_lookup, S5_Mo.
        * reflexivity.
        * split; [reflexivity | exact RBU_S5].
        * unfold KU. cbn. auto 10.
      + apply (H_step_eq _ u6 u7).
        * cbn [apply_step]. apply (fs_finish_file _ _ _ CPartial); [apply snoc_ne | apply lookup_insert_eq].
        * reflexivity.
        * split; [reflexivity | exact RBU_u6].
        * unfold KU. cbn. auto 10.
    - cbn [forM_]. eapply H_andthen with (Q1 := fun t => t = u8); [|apply H_ret; auto].
      unfold remove_file_inf.
      eapply H_attempt_bind with (Q1 := fun t => t = u8) (E1 := fun e t => is_os e = false /\ RBU t).
      + apply (H_step_eq _ u7 u8).
        * cbn [apply_step]. apply (fs_unlink_file _ _ (CDecl spec0)); [apply snoc_ne | exact u7_pold].
        * reflexivity.
        * split; [reflexivity | exact RBU_u7].
        * unfold KU. cbn. auto 10.
      + apply H_ret. auto.
      + intros e O. apply H_false_pre. intros t [X _]. congruence.
      + intros e O. destruct e as [x| | | | | | | |]; try discriminate; apply H0_throw; auto.
  Qed.

  Hypothesis OldList : find_decls t1 Mo = [pold].

  (** write_new_version, every event considered: done (u8), or an error with the tree exactly as before,
      or a kill in one of nine states *)
  Lemma H_write_new_version_up :
    H (fun t => t = t1) (write_new_version c i) (fun _ t => t = u8)
      (fun e t => is_os e = false /\ forall x, lookup t x = lookup t1 x) KU.
  Proof.
    unfold write_new_version. rewrite (inv_is_new_false c t0 i0 k0 vs0 spec0 man0 dups0 V0 VS MInv).
    change (head_of i) with h.
    eapply H_andthen with (Q1 := fun t => t = t1); [apply H_ensure_open; intros t ->; split; [reflexivity | auto]|].
    eapply H_andthen with (Q1 := fun t => t = t1); [apply H_ensure_open; intros t ->; split; [reflexivity | auto]|].
    assert (R1 : read_file t1 pinv = Some oinv) by (apply read_file_lookup; rewrite t1_main' by apply under_app; exact MInv).
    assert (R2 : read_file t1 pside = Some osd) by (apply read_file_lookup; rewrite t1_main' by apply under_app; exact MSide).
    eapply H_bind with (Q1 := fun r t => r = mkInv k0 vs0 spec0 man0 dups0 /\ t = t1).
    { unfold get_inventory. apply H_get_tree. intros ? ->.
      assert (EX : is_dir t1 Mo && (is_object_rootb t1 Mo || exists_at t1 pinv) = true).
      { rewrite (is_dir_lookup t1 Mo) by (now rewrite (t1_main' Mo (under_refl _)), MoD).
        unfold exists_at, read_file in *. destruct (node_at t1 pinv); [now rewrite orb_true_r | discriminate]. }
      rewrite EX. cbn [negb]. rewrite R1. apply H_ret. intros t ->. auto. }
    intros ex. apply H_pure. intros ->.
    assert (HC : negb (seg_eqb (head_of (mkInv k0 vs0 spec0 man0 dups0)) (last (removelast (i_vs i)) [])) = false).
    { change (i_vs i) with (i_vs i0). rewrite VS, removelast_last. unfold head_of. cbn. now rewrite seg_eqb_refl. }
    rewrite HC.
    apply H_get_tree. intros ? ->.
    assert (EX : exists_at t1 dest = false).
    { unfold exists_at. rewrite node_at_lookup by apply snoc_ne. now rewrite (t1_free c t0 i0 Pre t1 J1 Free dest (under_refl _)). }
    rewrite EX, R1, R2. cbn [i_spec]. change (i_spec i) with spec.
    assert (UG : seg_eqb spec spec0 = false) by (apply seg_eqb_neq; exact Diff).
    rewrite UG. cbn [negb]. cbv beta iota zeta. rewrite OldList.
    eapply H_andthen with (Q1 := fun t => t = S1).
    { destruct (src_dest_disjoint c t0 i0 Pre h) as [D1 D2].
      apply (H_step_eq _ t1 S1); [| reflexivity | split; reflexivity | unfold KU; cbn; auto].
      cbn [apply_step]. apply fs_rename_fresh; auto.
      - apply snoc_ne.
      - apply snoc_ne.
      - rewrite (Pts_l6 c t0 i0 t1 src (Some Dir) J1) by (cbn; auto 10). discriminate.
      - rewrite parent_app. apply is_dir_lookup. now rewrite (t1_main' Mo (under_refl _)).
      - apply (t1_free c t0 i0 Pre t1 J1 Free), under_refl. }
    eapply H_attempt_bind with (Q1 := fun t => t = u8) (E1 := fun e t => is_os e = false /\ RBU t).
    - eapply H_andthen with (Q1 := fun t => t = S5).
      + eapply H_conseq; [apply (H_copy_root c t0 i0 Pre t1 J1 k0 vs0 spec0 man0 dups0 osd MInv MSide Free) | auto | auto | | apply KV_KU].
        intros e t [O R]. split; [exact O | now apply RBpre_RBU].
      + apply H_swap.
    - apply H_ret. auto.
    - intros e O. apply H_false_pre. intros t [X _]. congruence.
    - intros e O.
      eapply H0_conseq with (T := RBU) (Q := fun _ t => t = u8)
                            (E := fun e t => is_os e = false /\ forall x, lookup t x = lookup t1 x); [| intros t [_ R]; exact R | auto | auto].
      eapply H0_attempt_drop with (Q1 := RBpre c i0 t1) (E1 := fun _ _ => False); [exact H0_remove_new | intros ? ? [] |].
      intros w I Tw.
      exact (H0_rollback c t0 i0 Pre t1 J1 k0 vs0 spec0 man0 dups0 osd MInv MSide Free (fun _ t => t = u8) w I Tw).
  Qed.

  (** ** what a kill can leave: old versions intact, content somewhere, and old / new / rejected *)
  Definition VI (t : tree) : Prop := versions_intact c vs0 t0 t.

  Lemma VI_t1 : VI t1.
  Proof. intros v I x U. apply t1_main'. eapply under_trans; [apply under_app | exact U]. Qed.

  Lemma VI_S1 : VI S1.
  Proof.
    intros v I x U. apply under_iff in U as [sfx ->]. rewrite <- app_assoc. cbn [app].
    apply sib_S1. now apply v_neq_h.
  Qed.

  Lemma VI_child_neq a v x : In v vs0 -> lookup t0 (Mo ++ [a]) <> Some Dir -> under (Mo ++ [v]) x = true -> Mo ++ [a] <> x.
  Proof.
    intros I N U E. apply under_iff in U as [sfx ->]. rewrite <- app_assoc in E. cbn [app] in E.
    apply app_inv_head in E. injection E as E _. now apply (v_not_file v a I N).
  Qed.

  Lemma VI_ins a n t : lookup t0 (Mo ++ [a]) <> Some Dir -> VI t -> VI (insert (Mo ++ [a]) n t).
  Proof.
    intros N V v I x U. rewrite lookup_insert_neq by (now apply (VI_child_neq a v x I N U)). exact (V v I x U).
  Qed.

  Lemma VI_rem a t : lookup t0 (Mo ++ [a]) <> Some Dir -> VI t -> VI (remove (Mo ++ [a]) t).
  Proof.
    intros N V v I x U. rewrite lookup_remove_neq by (now apply (VI_child_neq a v x I N U)). exact (V v I x U).
  Qed.

  Lemma nd_inv : lookup t0 pinv <> Some Dir. Proof. rewrite MInv. discriminate. Qed.
  Lemma nd_side : lookup t0 pside <> Some Dir. Proof. rewrite MSide. discriminate. Qed.
  Lemma nd_new : lookup t0 pnew <> Some Dir. Proof. rewrite NewAbsent. discriminate. Qed.
  Lemma nd_old : lookup t0 pold <> Some Dir. Proof. rewrite t0_pold. discriminate. Qed.

  Lemma VI_S5 : VI S5.
  Proof.
    unfold s5, s4, s3, s2.
    apply (VI_ins (c_side c) _ _ nd_side), (VI_ins (c_side c) _ _ nd_side), (VI_ins (c_inv c) _ _ nd_inv), (VI_ins (c_inv c) _ _ nd_inv), VI_S1.
  Qed.
  Lemma VI_S4 : VI S4.
  Proof.
    unfold s4, s3, s2.
    apply (VI_ins (c_side c) _ _ nd_side), (VI_ins (c_inv c) _ _ nd_inv), (VI_ins (c_inv c) _ _ nd_inv), VI_S1.
  Qed.
  Lemma VI_S3 : VI S3.
  Proof. unfold s3, s2. apply (VI_ins (c_inv c) _ _ nd_inv), (VI_ins (c_inv c) _ _ nd_inv), VI_S1. Qed.
  Lemma VI_S2 : VI S2.
  Proof. unfold s2. apply (VI_ins (c_inv c) _ _ nd_inv), VI_S1. Qed.
  Lemma VI_u6 : VI u6. Proof. apply (VI_ins spec _ _ nd_new), VI_S5. Qed.
  Lemma VI_u7 : VI u7. Proof. apply (VI_ins spec _ _ nd_new), VI_u6. Qed.
  Lemma VI_u8 : VI u8. Proof. apply (VI_rem spec0 _ nd_old), VI_u7. Qed.

  Lemma KU_VI t : KU t -> VI t.
  Proof.
    unfold KU. cbn. intros [<- | [<- | [<- | [<- | [<- | [<- | [<- | [<- | [<- | []]]]]]]]]].
    - exact VI_t1.
    - exact VI_S1.
    - exact VI_S2.
    - exact VI_S3.
    - exact VI_S4.
    - exact VI_S5.
    - exact VI_u6.
    - exact VI_u7.
    - exact VI_u8.
  Qed.

  (** content *)
  Lemma content_neq_child a d : In d (i_man i) -> Mo ++ [a] <> Mo ++ d.
  Proof.
    intros I E. apply (man_i c i0) in I as [I _]. destruct (man0_shape c t0 i0 Pre d I) as [rest [Nr ->]].
    apply app_inv_head in E. discriminate.
  Qed.

  Lemma S5_CS : CS_M c t0 i0 S5.
  Proof. exact (s5_CS_M c t0 i0 Pre t1 J1 Free). Qed.

  Lemma u6_CS : CS_M c t0 i0 u6.
  Proof. intros d I. unfold u6. rewrite lookup_insert_neq by (now apply content_neq_child). now apply S5_CS. Qed.
  Lemma u7_CS : CS_M c t0 i0 u7.
  Proof. intros d I. unfold u7. rewrite lookup_insert_neq by (now apply content_neq_child). now apply u6_CS. Qed.
  Lemma u8_CS : CS_M c t0 i0 u8.
  Proof. intros d I. unfold u8. rewrite lookup_remove_neq by (now apply content_neq_child). now apply u7_CS. Qed.

  Lemma KU_content t : KU t -> CS_S c t0 i0 t \/ CS_M c t0 i0 t.
  Proof.
    intros K. assert (X : KV c i0 t1 t \/ t = u6 \/ t = u7 \/ t = u8).
    { unfold KU in K. unfold KV. cbn in *. intuition. }
    destruct X as [X | [-> | [-> | ->]]].
    - exact (KV_content c t0 i0 Pre t1 J1 Free t X).
    - right. exact u6_CS.
    - right. exact u7_CS.
    - right. exact u8_CS.
  Qed.

  (** the validator rejects every state strictly between the old and the new object *)
  Lemma S1_invalid : obj_validb c S1 Mo = false.
  Proof.
    rewrite validb_unfold.
    rewrite (read_file_lookup _ _ _ _ (s1_pinv c t0 i0 Pre t1 J1 k0 vs0 spec0 man0 dups0 MInv Free)).
    assert (C : In (dest, Dir) (children S1 Mo)).
    { apply children_In; [|apply is_child_app]. rewrite <- (app_nil_r dest), (s1_dest_sub c t0 i0 Pre t1 J1 Free), app_nil_r.
      apply (Pts_l6 c t0 i0 t1 _ _ J1). cbn. auto 10. }
    match goal with |- _ && forallb ?f (children S1 Mo) && _ && _ = false =>
      assert (F : forallb f (children S1 Mo) = false) end.
    { match goal with |- ?X = false => destruct X eqn:F; [|reflexivity] end. rewrite forallb_forall in F. specialize (F _ C).
      cbn in F. rewrite last_app_single in F. apply existsb_exists in F as [v [I E]].
      apply seg_eqb_eq in E. rewrite <- E in I. contradiction. }
    rewrite F, andb_false_r. reflexivity.
  Qed.

  Lemma S3_invalid : obj_validb c S3 Mo = false.
  Proof.
    rewrite validb_unfold. unfold s3 at 1. rewrite (read_file_lookup _ _ _ _ (lookup_insert_eq _ _ _)).
    unfold tok, tok_of.
    assert (S : read_file S3 pside = Some (CSide k0)).
    { apply read_file_lookup. unfold s3, s2. rewrite !lookup_insert_neq by apply (pinv_pside c t0 i0 Pre).
      rewrite (s1_pside c t0 i0 Pre t1 J1 osd MSide Free). now rewrite osd_eq. }
    rewrite S. change (i_k i) with (c_newk c).
    assert (N : N.eqb (c_newk c) k0 = false) by (apply N.eqb_neq; congruence).
    rewrite N. reflexivity.
  Qed.

  Lemma invalid_no_decl t :
    lookup t pinv = Some (File (tok c i0)) ->
    (lookup t pnew = None \/ lookup t pnew = Some (File CPartial)) -> obj_validb c t Mo = false.
  Proof.
    intros Li Ln. rewrite validb_unfold, (read_file_lookup _ _ _ _ Li). unfold tok, tok_of.
    change (i_spec i) with spec.
    assert (R : match read_file t pnew with Some (CDecl s) => seg_eqb s spec | _ => false end = false).
    { unfold read_file. rewrite node_at_app. destruct Ln as [-> | ->]; reflexivity. }
    rewrite R, andb_false_r. reflexivity.
  Qed.

  Lemma S5_invalid : obj_validb c S5 Mo = false.
  Proof. apply invalid_no_decl; [exact S5_pinv | left; exact S5_pnew]. Qed.

  Lemma u6_invalid : obj_validb c u6 Mo = false.
  Proof.
    apply invalid_no_decl.
    - rewrite u6_other by (apply not_eq_sym, pnew_pinv). exact S5_pinv.
    - right. unfold u6. apply lookup_insert_eq.
  Qed.

  (** both declarations are there: E001/E003, an unexpected file in the object root *)
  Lemma u7_invalid : obj_validb c u7 Mo = false.
  Proof.
    assert (Li : lookup u7 pinv = Some (File (tok c i0))).
    { rewrite u7_other by (apply not_eq_sym, pnew_pinv). exact S5_pinv. }
    rewrite validb_unfold, (read_file_lookup _ _ _ _ Li). unfold tok, tok_of. change (i_spec i) with spec.
    assert (C : In (pold, File (CDecl spec0)) (children u7 Mo)).
    { apply children_In; [exact u7_pold | apply is_child_app]. }
    match goal with |- _ && forallb ?f (children u7 Mo) && _ && _ = false =>
      assert (F : forallb f (children u7 Mo) = false) end.
    { match goal with |- ?X = false => destruct X eqn:F; [|reflexivity] end. rewrite forallb_forall in F. specialize (F _ C).
      cbn in F. rewrite last_app_single in F.
      apply orb_true_iff in F as [F | F]; [apply orb_true_iff in F as [F | F]|]; apply seg_eqb_eq in F.
      - now apply spec0_inv in F.
      - now apply spec0_side in F.
      - symmetry in F. contradiction. }
    rewrite F, andb_false_r. reflexivity.
  Qed.

  Lemma KU_class t : KU t -> OLD c t0 t \/ t = u8 \/ obj_validb c t Mo = false.
  Proof.
    unfold KU. cbn. intros [<- | [<- | [<- | [<- | [<- | [<- | [<- | [<- | [<- | []]]]]]]]]].
    - left. exact (t1_OLD c t0 i0 Pre t1 J1).
    - right. right. exact S1_invalid.
    - right. right. apply s2_invalid.
    - right. right. exact S3_invalid.
    - right. right. apply (s4_invalid c t0 i0 Pre).
    - right. right. exact S5_invalid.
    - right. right. exact u6_invalid.
    - right. right. exact u7_invalid.
    - right. left. reflexivity.
  Qed.

  (** the new object: the version directory is there *)
  Lemma u8_head_present : lookup u8 dest = Some Dir.
  Proof.
    rewrite u8_other.
    - exact (s5_head_present c t0 i0 Pre t1 J1 Free).
    - apply not_eq_sym, sib_neq, spec_h.
    - apply not_eq_sym, sib_neq, spec0_h.
  Qed.
End Up.
