(** Both conjuncts of [decl_swap_ok] (Proofs/CommitUpgradeDefs.v) are needed by the model: witnesses, by evaluation.
    Neither instance can arise from a real repository: rocfl names version directories "v<digits>"
    (VersionNum's Display), and read_dir yields every name of a directory once. *)
From Coq Require Import List NArith Ascii Bool.
From Rocfl Require Import Base.Bytes Model.FsOps Model.FsTree Model.Commit Corr.CheckCommit
  Proofs.CommitPre Proofs.CommitUpgradeDefs Proofs.CommitUpgradeInv.
Import ListNotations.
Open Scope N_scope.

(** an object whose first version directory is named like a declaration file, being upgraded to 1.1 *)
Definition wz_v1 : fseg := xs "0=ocfl_object_zz".
Definition wz_inv : invr := mkInv 5 [wz_v1; xs "v2"] ex_d11 ex_man ex_dups.
Definition wz_oldinv : content := CInv 3 [wz_v1] ex_d10 [[wz_v1; xs "content"; xs "b"]] [].
Definition wz_tree : tree :=
  [ ([xs "stg"], Dir); ([xs "stg"; xs "locks"], Dir); (ex_so, Dir);
    (ex_so ++ [xs "inventory.json"], File (tok_of wz_inv));
    (ex_so ++ [xs "inventory.json.sha512"], File (CSide 5));
    (ex_so ++ [ex_d10], File (CDecl ex_d10));
    (ex_so ++ [xs "v2"], Dir); (ex_so ++ [xs "v2"; xs "content"], Dir);
    (ex_so ++ [xs "v2"; xs "content"; xs "a"], File (CBlob 1));
    (ex_so ++ [xs "v2"; xs "content"; xs "d"], Dir);
    (ex_so ++ [xs "v2"; xs "content"; xs "d"; xs "b"], File (CBlob 2));
    ([xs "root"], Dir); (ex_mo, Dir);
    (ex_mo ++ [ex_d10], File (CDecl ex_d10));
    (ex_mo ++ [xs "inventory.json"], File wz_oldinv);
    (ex_mo ++ [xs "inventory.json.sha512"], File (CSide 3));
    (ex_mo ++ [wz_v1], Dir);
    (ex_mo ++ [wz_v1; xs "inventory.json"], File wz_oldinv);
    (ex_mo ++ [wz_v1; xs "inventory.json.sha512"], File (CSide 3));
    (ex_mo ++ [wz_v1; xs "content"], Dir);
    (ex_mo ++ [wz_v1; xs "content"; xs "b"], File (CBlob 2)) ].

(** without [plain_versions]: find_files lists the directory 0=ocfl_object_zz among the old declarations, the
    fault-free commit removes 0=ocfl_object_1.0, fails on the directory (EISDIR) and rolls back to an object without
    declaration; a kill between the two unlinks (position 29) leaves an object that is neither the old one nor that
    fault-free result and that the validator accepts *)
Lemma C05_any_type_needs_plain_versions :
  exists c t i k,
    commit_pre c t i /\ NoDup (find_decls t (c_mo c)) /\
    let t' := run_tree (commit c) t (Kill k) in
    let tnew := run_tree (commit c) t NoInj in
    ~ (same_at (c_mo c) t' t \/ same_at (c_mo c) t' tnew \/ obj_validb c t' (c_mo c) = false).
Proof.
  exists ex_cfg, wz_tree, wz_inv, 29%nat.
  split; [apply commit_pre_b_sound; vm_compute; reflexivity|].
  split; [apply nodup_pathsb_sound; vm_compute; reflexivity|].
  cbv zeta. intros [S | [S | V]].
  - specialize (S (ex_mo ++ [ex_d10]) eq_refl). vm_compute in S. discriminate.
  - specialize (S (ex_mo ++ [ex_d11]) eq_refl). vm_compute in S. discriminate.
  - vm_compute in V. discriminate.
Qed.

(** the upgrade instance of Corr/CheckCommit.v with a second, shadowed binding of the old declaration *)
Definition wy_tree : tree := ex_tree ex_d11 ++ [(ex_mo ++ [ex_d10], File (CBlob 0))].

(** without the NoDup conjunct: the old declaration is listed twice, the second unlink (position 29) finds it gone;
    a fault injected there rolls back an object whose old declaration was already removed: neither old nor new *)
Lemma C04_any_type_needs_nodup_decls :
  exists c t i k,
    commit_pre c t i /\ plain_versions i /\
    let t' := run_tree (commit c) t (Fault k) in
    let tnew := run_tree (commit c) t NoInj in
    ~ (same_at (c_mo c) t' t \/ same_at (c_mo c) t' tnew).
Proof.
  exists ex_cfg, wy_tree, (ex_inv ex_d11), 29%nat.
  split; [apply commit_pre_b_sound; vm_compute; reflexivity|].
  split; [apply plain_versions_b_sound; vm_compute; reflexivity|].
  cbv zeta. intros [S | S].
  - specialize (S (ex_mo ++ [ex_d10]) eq_refl). vm_compute in S. discriminate.
  - specialize (S (ex_mo ++ [ex_d11]) eq_refl). vm_compute in S. discriminate.
Qed.
