From Coq Require Import NArith Ascii.
From stdpp Require Import gmap.
From Rocfl Require Import Model.Inventory Model.InvSpec.

Lemma pprefixb_spec a c : pprefixb a c = true ↔ pprefix a c.
Proof.
  revert c. induction a as [|x a IH]; intros [|y c]; cbn.
  - split; [discriminate|]. intros (r & Hr & E). destruct r; [done|discriminate].
  - split; [|done]. intros _. exists (y :: c). done.
  - split; [discriminate|]. intros (r & Hr & E). discriminate.
  - rewrite andb_true_iff, bool_decide_eq_true, IH. split.
    + intros [-> (r & Hr & ->)]. exists r. done.
    + intros (r & Hr & E). injection E as -> ->. split; [done|]. exists r. done.
Qed.

Lemma pprefix_nil_l c : c ≠ [] → pprefix [] c.
Proof. intros H. exists c. done. Qed.

Lemma pprefix_irrefl a : ¬ pprefix a a.
Proof.
  intros (r & Hr & E). apply Hr.
  apply (f_equal length) in E. rewrite app_length in E. destruct r; [done|cbn in E; lia].
Qed.

Lemma elem_of_map_fst_map_to_list `{Countable K} {A} (m : gmap K A) k :
  k ∈ map fst (map_to_list m) ↔ is_Some (m !! k).
Proof.
  rewrite elem_of_list_fmap. split.
  - intros ([k' v] & -> & Hin). apply elem_of_map_to_list in Hin. cbn. eauto.
  - intros [v Hv]. exists (k, v). split; [done|]. by apply elem_of_map_to_list.
Qed.

Lemma existsb_false_elem_of {A} (f : A → bool) l :
  existsb f l = false ↔ ∀ x, x ∈ l → f x = false.
Proof.
  induction l as [|y l IH]; cbn.
  - split; [intros _ x Hx; by apply elem_of_nil in Hx|done].
  - rewrite orb_false_iff, IH. split.
    + intros [Hy Hl] x Hx. apply elem_of_cons in Hx as [->|Hx]; auto.
    + intros Hall. split; [apply Hall; left|intros x Hx; apply Hall; by right].
Qed.

Lemma existsb_true_elem_of {A} (f : A → bool) l :
  existsb f l = true ↔ ∃ x, x ∈ l ∧ f x = true.
Proof.
  rewrite existsb_exists. split; intros (x & Hx & Hf); exists x; split; try done; by apply elem_of_list_In.
Qed.

Lemma is_dirb_false st p :
  is_dirb st p = false → p ≠ [] ∧ ∀ q, is_Some (st !! q) → ¬ pprefix p q.
Proof.
  destruct p as [|x p]; [discriminate|]. cbn [is_dirb]. intros Hex. split; [done|].
  intros q Hq Hpre.
  rewrite existsb_false_elem_of in Hex.
  specialize (Hex q (proj2 (elem_of_map_fst_map_to_list st q) Hq)).
  apply pprefixb_spec in Hpre. congruence.
Qed.

Lemma is_dirb_true st p :
  is_dirb st p = true → p = [] ∨ ∃ q, is_Some (st !! q) ∧ pprefix p q.
Proof.
  destruct p as [|x p]; [by left|]. cbn [is_dirb]. intros Hex. right.
  apply existsb_true_elem_of in Hex as (q & Hq & Hp).
  exists q. split; [by apply (elem_of_map_fst_map_to_list st q)|by apply pprefixb_spec].
Qed.

Lemma ancestors_spec p : ∀ d, d ∈ ancestors p ↔ d ≠ [] ∧ pprefix d p.
Proof.
  induction p as [|x p IH]; intros d; cbn [ancestors].
  - split; [intros Hd; by apply elem_of_nil in Hd|]. intros [Hd (r & Hr & E)].
    symmetry in E. apply app_eq_nil in E as [-> _]. done.
  - destruct p as [|y p'].
    + split; [intros Hd; by apply elem_of_nil in Hd|]. intros [Hd (r & Hr & E)].
      destruct d as [|z d]; [done|]. injection E as -> E.
      symmetry in E. apply app_eq_nil in E as [_ ->]. done.
    + rewrite elem_of_cons, elem_of_list_fmap. split.
      * intros [->|(d' & -> & Hd')].
        -- split; [done|]. exists (y :: p'). done.
        -- apply IH in Hd' as [Hne (r & Hr & E)]. split; [done|]. exists r. split; [done|].
           cbn. by rewrite E.
      * intros [Hd (r & Hr & E)]. destruct d as [|z d]; [done|]. injection E as -> E.
        destruct d as [|z' d'].
        -- by left.
        -- right. exists (z' :: d'). split; [done|]. apply IH. split; [done|]. exists r. done.
Qed.

Lemma file_aboveb_false st p :
  file_aboveb st p = false → ∀ d, d ≠ [] → pprefix d p → st !! d = None.
Proof.
  unfold file_aboveb. rewrite existsb_false_elem_of. intros Hall d Hd Hpre.
  specialize (Hall d (proj2 (ancestors_spec p d) (conj Hd Hpre))).
  apply bool_decide_eq_false in Hall. by apply eq_None_not_Some.
Qed.

Lemma conflictb_false st p :
  conflictb st p = false →
  p ≠ [] ∧ (∀ q, is_Some (st !! q) → ¬ pprefix p q) ∧ (∀ d, d ≠ [] → pprefix d p → st !! d = None).
Proof.
  unfold conflictb. rewrite orb_false_iff. intros [H1 H2].
  apply is_dirb_false in H1 as [Hne H1]. split; [done|]. split; [done|].
  by apply file_aboveb_false.
Qed.

Lemma noconf_empty : NoConflict ∅.
Proof. split; [done|]. intros p q [x Hx]. by rewrite lookup_empty in Hx. Qed.

Lemma noconf_insert st p d :
  NoConflict st → conflictb st p = false → NoConflict (<[p := d]> st).
Proof.
  intros [Hroot Hnc] Hc. apply conflictb_false in Hc as (Hne & Hbelow & Habove).
  split.
  - rewrite lookup_insert_ne; done.
  - intros a c Ha Hcc Hpre.
    destruct (decide (a = p)) as [->|Hap]; destruct (decide (c = p)) as [->|Hcp].
    + by apply pprefix_irrefl in Hpre.
    + rewrite lookup_insert_ne in Hcc by done. by apply (Hbelow c).
    + rewrite lookup_insert_ne in Ha by done.
      assert (a ≠ []) as Hane. { intros ->. rewrite Hroot in Ha. by destruct Ha. }
      rewrite (Habove a Hane Hpre) in Ha. by destruct Ha.
    + rewrite lookup_insert_ne in Ha, Hcc by done. by apply (Hnc a c).
Qed.

Lemma noconf_delete st p : NoConflict st → NoConflict (delete p st).
Proof.
  intros [Hroot Hnc]. split.
  - destruct (decide (p = [])) as [->|Hne]; [by rewrite lookup_delete|by rewrite lookup_delete_ne].
  - intros a c Ha Hc. apply (Hnc a c).
    + destruct Ha as [x Hx]. apply lookup_delete_Some in Hx as [_ Hx]. eauto.
    + destruct Hc as [x Hx]. apply lookup_delete_Some in Hx as [_ Hx]. eauto.
Qed.

Lemma noconf_subseteq (st st' : state) : st' ⊆ st → NoConflict st → NoConflict st'.
Proof.
  intros Hsub [Hroot Hnc]. split.
  - destruct (st' !! []) eqn:E; [|done]. eapply lookup_weaken in E; [|done]. congruence.
  - intros a c [x Ha] [y Hc]. apply (Hnc a c); eexists; eapply lookup_weaken; eauto.
Qed.
