(** * Every single corruption of a written object is rejected by the validator (C06)

    Strategy: if the validator reported nothing for the corrupted tree t', then
    [accepted fx t' itok' root'] holds (TreeValidateFacts.errors_nil_accepted); each kind of
    corruption contradicts one of these facts, given what [written_by_rocfl] says about the
    uncorrupted tree t.  The only external assumption is that the digest of each
    algorithm is injective on the contents that occur (no collision). *)

From Coq Require Import List NArith Bool Lia.
From Rocfl Require Import Model.ObjTree Model.TreeValidate Model.Corrupt Model.KnownC06.
From Rocfl Require Import Proofs.ObjTreeFacts Proofs.TreeValidateFacts Proofs.WrittenFacts.
Import ListNotations.
Open Scope N_scope.

Section Detect.
  Variable digest : alg -> token -> N.
  Variable fdigest : N -> token -> N.
  Variable parse_inv : token -> option inventory.
  Variable parse_sidecar : token -> option N.
  Variable parse_decl : token -> option spec_version.
  Hypothesis digest_inj : forall a k k', digest a k = digest a k' -> k = k'.

  Notation errs := (tree_errors digest fdigest parse_inv parse_sidecar parse_decl).
  Notation acc := (accepted digest parse_inv parse_sidecar parse_decl).
  Notation wf := (wfP digest parse_inv parse_sidecar parse_decl).
  Notation apply_c := (apply_corruption parse_inv parse_sidecar parse_decl).

  Ltac paths := unfold version_dir, content_root in *; cbn [app] in *.

  Lemma same_root fx t t' itok root itok' root' :
    wf t itok root -> acc fx t' itok' root' ->
    file_tok [SInv] t' = file_tok [SInv] t -> itok' = itok /\ root' = root.
  Proof.
    intros W A E. destruct (w_inv _ _ _ _ _ _ _ W) as [W1 W2].
    destruct (acc_inv _ _ _ _ _ _ _ _ A) as [A1 A2].
    rewrite E, W1 in A1. injection A1 as <-. rewrite W2 in A2. injection A2 as <-. now split.
  Qed.

  Lemma key_in t p k : file_tok p t = Some k -> In (p, File k) t.
  Proof. apply file_tok_In. Qed.

  (** a slot other than the root inventory is not the path [SInv], nor below it *)
  Lemma slot_not_inv_prefix root q : slot root q -> q <> [SInv] -> is_prefix q [SInv] = false.
  Proof.
    intros S Hne. destruct (is_prefix q [SInv]) eqn:E; [|reflexivity].
    apply is_prefix_true in E as [r E]. exfalso.
    destruct S; paths; try discriminate; congruence.
  Qed.

  (** ** a new regular file anywhere in the object is rejected *)

  Lemma snoc_cons (r : path) s : exists s' r', r ++ [s] = s' :: r'.
  Proof. destruct r as [|x r]; [now exists s, [] | now exists x, (r ++ [s])]. Qed.

  Lemma new_file_rejected fx t itok root t' q k :
    wf t itok root -> acc fx t' itok root -> In (q, File k) t' ->
    (forall n, ~ In (q, n) t) -> q <> [] ->
    (parent q = [] \/ below (parent q) t = true
     \/ exists m s r, in_versions root m = true /\ q = content_root root m ++ s :: r) ->
    (forall m k1, in_versions root m = true -> version_dir root m ++ [SInv] <> q ->
       file_tok (version_dir root m ++ [SInv]) t' = Some k1 ->
       file_tok (version_dir root m ++ [SInv]) t = Some k1) ->
    False.
  Proof.
    intros W A Hin Hnew Hne Hwhere Hvinv.
    assert (Content : forall m s r, in_versions root m = true -> q = content_root root m ++ s :: r -> False).
    { intros m s r Hm Hq.
      destruct (acc_content _ _ _ _ _ _ _ _ A q (File k) m s r Hin Hm Hq) as (k0 & d & _ & Hd).
      apply mdigest_In in Hd. destruct (wf_manifest_file _ _ _ _ _ _ _ W d q Hd) as (k1 & Hk1 & _).
      apply key_in in Hk1. now apply (Hnew (File k1)). }
    assert (Root : parent q = [] -> False).
    { intros Hp. destruct (parent_app q Hne) as [s Hq]. rewrite Hp in Hq. cbn in Hq.
      pose proof (acc_root _ _ _ _ _ _ _ _ A q (File k) s [] Hin Hq) as R. cbn in R.
      destruct R as [(k0 & _ & [->|[->| ->]])|[X _]]; [| | |discriminate]; subst q.
      - destruct (w_decl _ _ _ _ _ _ _ W) as (dk & Hdk & _). apply key_in in Hdk. now apply (Hnew (File dk)).
      - destruct (w_inv _ _ _ _ _ _ _ W) as [Hi _]. apply key_in in Hi. now apply (Hnew (File itok)).
      - destruct (w_sidecar _ _ _ _ _ _ _ W) as (sk & Hsk & _). apply key_in in Hsk. now apply (Hnew (File sk)). }
    destruct Hwhere as [Hp|[Hb|(m & s & r & Hm & Hq)]]; [now apply Root| |now apply (Content m s r)].
    destruct (wf_dir_shape _ _ _ _ _ _ _ W _ Hb) as [Hp|[(m & Hm & Hp)|(m & r & Hm & Hp)]]; [now apply Root| |].
    - destruct (parent_app q Hne) as [s Hq]. rewrite Hp in Hq.
      destruct (wf_version_files _ _ _ _ _ _ _ W m Hm) as (km & sk & Hkm & Hsk & _ & _ & Hold).
      destruct (acc_vfiles _ _ _ _ _ _ _ _ A q (File k) m s Hin Hm Hq) as [X|(k0 & _ & [->|(a & -> & Ha)])];
        [discriminate| |].
      + subst q. apply key_in in Hkm. now apply (Hnew (File km)).
      + assert (a = inv_alg root).
        { destruct Ha as [->|(Hne' & k1 & i1 & Hk1 & Hp1 & ->)]; [reflexivity|].
          apply Hvinv in Hk1; [|assumption|subst q; paths; discriminate]. rewrite Hkm in Hk1. injection Hk1 as <-.
          destruct (Hold Hne') as (i & Hi & Hai). rewrite Hi in Hp1. injection Hp1 as <-. assumption. }
        subst a q. apply key_in in Hsk. now apply (Hnew (File sk)).
    - destruct (parent_app q Hne) as [s Hq]. rewrite Hp in Hq. rewrite <- app_assoc in Hq.
      destruct (snoc_cons r s) as (s' & r' & E). rewrite E in Hq. now apply (Content m s' r').
  Qed.

  (** ** kind by kind *)

  Lemma content_shaped_inv t itok root p :
    wf t itok root -> content_shaped parse_inv t p = true ->
    exists m s r, in_versions root m = true /\ p = content_root root m ++ s :: r.
  Proof.
    intros W H. unfold content_shaped in H. rewrite (wf_root_inv _ _ _ _ _ _ _ W) in H.
    destruct p as [|[] [|[] [|s r]]]; try discriminate.
    repeat (apply andb_true_iff in H as [H ?]). apply N.eqb_eq in H. subst.
    match goal with X : N.eqb _ _ = true |- _ => apply N.eqb_eq in X; subst end.
    now exists n, s, r.
  Qed.

  Lemma content_key_in_manifest t itok root p k m s r :
    wf t itok root -> file_tok p t = Some k -> p = content_root root m ++ s :: r ->
    In p (map snd (inv_manifest root)).
  Proof.
    intros W Hk Hp. apply key_in in Hk. destruct (wf_entry _ _ _ _ _ _ _ W _ _ Hk) as (_ & _ & S).
    destruct S; paths; try discriminate; try (injection Hp; intros; subst; discriminate).
    assumption.
  Qed.

  Lemma det_change_content t itok root p k k' itok' root' :
    wf t itok root -> file_tok p t = Some k -> content_shaped parse_inv t p = true -> k <> k' ->
    acc true (set p (File k') t) itok' root' -> False.
  Proof.
    intros W Hk Hcs Hne A.
    destruct (content_shaped_inv _ _ _ _ W Hcs) as (m & s & r & Hm & Hp).
    assert (E : file_tok [SInv] (set p (File k') t) = file_tok [SInv] t).
    { apply file_tok_set_other. subst p. paths. discriminate. }
    destruct (same_root _ _ _ _ _ _ _ W A E) as [-> ->].
    pose proof (content_key_in_manifest _ _ _ _ _ _ _ _ W Hk Hp) as Hman.
    pose proof (wf_content_digest _ _ _ _ _ _ _ W _ _ Hk Hman) as Hd.
    assert (Hin : In (p, File k') (set p (File k') t)) by (apply In_set; now left).
    pose proof (acc_fixity _ _ _ _ _ _ _ _ A eq_refl p m s r k' k' _ Hin Hm Hp (file_tok_set_same p k' t) Hd) as X.
    apply digest_inj in X. congruence.
  Qed.

  Lemma not_in_del_file p t n : n <> Dir -> ~ In (p, n) (del_file p t).
  Proof.
    intros Hn H. apply In_del_file in H as [[_ H]|[H _]]; [now apply H|]. injection H as _ ->. now apply Hn.
  Qed.

  Lemma file_tok_del_file t p q kq kp :
    leavesb t = true -> file_tok p t = Some kp -> file_tok q t = Some kq -> q <> p ->
    file_tok q (del_file p t) = Some kq.
  Proof.
    intros L Hp Hq Hne. unfold file_tok. rewrite lookup_del_file.
    - apply path_eqb_neq in Hne. rewrite Hne. apply file_tok_lookup in Hq. now rewrite Hq.
    - intros ->. apply key_in in Hp. apply key_in in Hq.
      assert (Pne : p <> []) by (intros ->; now apply (leaves_key_nonempty _ L (File kp))).
      destruct (parent_app p Pne) as [s Hs].
      assert (Pre : is_prefix (parent p) p = true) by (rewrite Hs at 2; apply is_prefix_app).
      pose proof (leaves_prefix _ L _ _ _ _ Hq Hp Pre) as X. injection X as X _. now apply Hne.
  Qed.

  Lemma file_tok_del_file_same t p : file_tok p (del_file p t) = None.
  Proof.
    destruct (file_tok p (del_file p t)) as [k|] eqn:E; [|reflexivity].
    apply key_in in E. exfalso. revert E. now apply not_in_del_file.
  Qed.

  Lemma det_delete t itok root p k fx itok' root' :
    wf t itok root -> file_tok p t = Some k ->
    c06_version_inventory_dropped (DeleteFile p) t = false ->
    acc fx (del_file p t) itok' root' -> False.
  Proof.
    intros W Hk Hkn A. pose proof (w_leaves _ _ _ _ _ _ _ W) as L.
    destruct (w_inv _ _ _ _ _ _ _ W) as [Hi Hpi].
    destruct (wf_entry _ _ _ _ _ _ _ W _ _ (key_in _ _ _ Hk)) as (_ & _ & S).
    assert (Inv : p = [SInv] -> False).
    { intros ->. destruct (acc_inv _ _ _ _ _ _ _ _ A) as [X _]. now rewrite file_tok_del_file_same in X. }
    assert (Same : p <> [SInv] -> itok' = itok /\ root' = root).
    { intros Hne. apply (same_root _ _ _ _ _ _ _ W A). rewrite Hi. eapply file_tok_del_file; eauto. }
    destruct S as [| | |m Hm|m Hm|m s r Hm Hman].
    - destruct Same as [-> ->]; [discriminate|].
      destruct (acc_decl _ _ _ _ _ _ _ _ A) as (dk & X & _). now rewrite file_tok_del_file_same in X.
    - now apply Inv.
    - destruct Same as [-> ->]; [discriminate|].
      destruct (acc_sidecar _ _ _ _ _ _ _ _ A) as (sk & X & _). now rewrite file_tok_del_file_same in X.
    - paths. cbn in Hkn. discriminate.
    - destruct Same as [-> ->]; [paths; discriminate|].
      destruct (wf_version_files _ _ _ _ _ _ _ W m Hm) as (km & sk & Hkm & Hsk & _ & Hhead & Hold).
      assert (Hkm' : file_tok (version_dir root m ++ [SInv]) (del_file (version_dir root m ++ [SSidecar (inv_alg root)]) t) = Some km).
      { eapply file_tok_del_file; eauto. paths. discriminate. }
      destruct (N.eq_dec m (inv_head root)) as [->|Hne].
      + destruct (acc_head _ _ _ _ _ _ _ _ A km Hkm') as (_ & sk' & X & _).
        now rewrite file_tok_del_file_same in X.
      + destruct (acc_vinv _ _ _ _ _ _ _ _ A m km Hm Hne Hkm') as (i & Hi' & sk' & X & _).
        destruct (Hold Hne) as (i0 & Hi0 & Ha). rewrite Hi0 in Hi'. injection Hi' as <-. rewrite Ha in X.
        now rewrite file_tok_del_file_same in X.
    - destruct Same as [-> ->]; [paths; discriminate|].
      apply in_map_iff in Hman as [[d p'] [E Hman]]. cbn in E. subst p'.
      destruct (acc_manifest _ _ _ _ _ _ _ _ A d _ Hman) as (k' & X).
      revert X. apply not_in_del_file. discriminate.
  Qed.

  (** a version whose inventory is still the old one needs its sidecar *)
  Lemma vsidecar_missing fx t itok root t' m km :
    wf t itok root -> acc fx t' itok root -> in_versions root m = true ->
    file_tok (version_dir root m ++ [SInv]) t = Some km ->
    file_tok (version_dir root m ++ [SInv]) t' = Some km ->
    file_tok (version_dir root m ++ [SSidecar (inv_alg root)]) t' = None -> False.
  Proof.
    intros W A Hm Hkm Hkm' Hnone.
    destruct (wf_version_files _ _ _ _ _ _ _ W m Hm) as (km0 & sk & Hkm0 & Hsk & _ & Hhead & Hold).
    rewrite Hkm in Hkm0. injection Hkm0 as <-.
    destruct (N.eq_dec m (inv_head root)) as [->|Hne].
    - destruct (acc_head _ _ _ _ _ _ _ _ A km Hkm') as (_ & sk' & X & _). congruence.
    - destruct (acc_vinv _ _ _ _ _ _ _ _ A m km Hm Hne Hkm') as (i & Hi' & sk' & X & _).
      destruct (Hold Hne) as (i0 & Hi0 & Ha). rewrite Hi0 in Hi'. injection Hi' as <-. rewrite Ha in X. congruence.
  Qed.

  Lemma In_del_file_keep e p t : In e t -> fst e <> p -> In e (del_file p t).
  Proof.
    intros H Hne. unfold del_file.
    assert (R : In e (remove p t)).
    { unfold remove. apply filter_In. split; [assumption|]. apply negb_true_iff. now apply path_eqb_neq. }
    destruct (nilb (parent p) || below (parent p) (remove p t)); [assumption | now right].
  Qed.

  Lemma all_files_no_dir_prefix t itok root q :
    wf t itok root -> can_add q t = true ->
    (forall n, ~ In (q, n) t) /\ (forall x n, In (x, n) t -> is_prefix x q = false) /\ q <> [].
  Proof.
    intros W H. unfold can_add in H. apply andb_true_iff in H as [H0 H]. rewrite forallb_forall in H.
    split; [|split].
    - intros n Hin. apply H in Hin. cbn [fst] in Hin. rewrite is_prefix_refl in Hin. discriminate.
    - intros x n Hin. pose proof (H _ Hin) as X. cbn [fst snd] in X.
      destruct (is_prefix x q) eqn:E; [|reflexivity].
      apply andb_true_iff in X as [_ X].
      destruct (wf_entry _ _ _ _ _ _ _ W _ _ Hin) as (k & -> & _). discriminate.
    - apply negb_true_iff in H0. now apply nilb_false.
  Qed.

  Lemma file_tok_add_leaf_inv t q n x k :
    x <> q -> file_tok x (add_leaf q n t) = Some k -> file_tok x t = Some k.
  Proof.
    intros Hne. unfold file_tok. rewrite lookup_add_leaf.
    assert (E : path_eqb q x = false) by (apply path_eqb_neq; congruence). rewrite E.
    destruct (is_prefix x q); [discriminate|]. tauto.
  Qed.

  Lemma det_add t itok root q k fx itok' root' :
    wf t itok root -> can_add q t = true ->
    (exists_dir (parent q) t = true \/ content_shaped parse_inv t q = true) ->
    acc fx (add_leaf q (File k) t) itok' root' -> False.
  Proof.
    intros W Hcan Hwhere A.
    destruct (all_files_no_dir_prefix _ _ _ _ W Hcan) as (Hnew & Hpre & Hne).
    destruct (w_inv _ _ _ _ _ _ _ W) as [Hi Hpi].
    assert (E : file_tok [SInv] (add_leaf q (File k) t) = file_tok [SInv] t).
    { rewrite Hi. unfold file_tok. rewrite lookup_add_leaf.
      pose proof (key_in _ _ _ Hi) as Hin.
      destruct (path_eqb q [SInv]) eqn:Eq.
      - apply path_eqb_eq in Eq. subst. exfalso. now apply (Hnew (File itok)).
      - rewrite (Hpre _ _ Hin). apply file_tok_lookup in Hi. now rewrite Hi. }
    destruct (same_root _ _ _ _ _ _ _ W A E) as [-> ->].
    eapply (new_file_rejected fx t itok root _ q k W A); try assumption.
    - apply In_add_leaf. now left.
    - destruct Hwhere as [Hd|Hc].
      + unfold exists_dir in Hd. apply orb_true_iff in Hd as [Hd|Hd].
        * apply orb_true_iff in Hd as [Hd|Hd]; [left; now apply nilb_true | right; now left].
        * destruct (lookup (parent q) t) as [[]|] eqn:El; try discriminate.
          apply lookup_In in El. destruct (wf_entry _ _ _ _ _ _ _ W _ _ El) as (? & X & _). discriminate.
      + right. right. now apply (content_shaped_inv _ _ _ _ W).
    - intros m k1 Hm Hnq Hk1. eapply file_tok_add_leaf_inv; eassumption.
  Qed.

  Lemma det_rename t itok root p q k fx itok' root' :
    wf t itok root -> file_tok p t = Some k -> p <> q ->
    can_add q (del_file p t) = true ->
    (exists_dir (parent q) (del_file p t) = true \/ content_shaped parse_inv t q = true) ->
    acc fx (add_leaf q (File k) (del_file p t)) itok' root' -> False.
  Proof.
    intros W Hk Hpq Hcan Hwhere A. pose proof (w_leaves _ _ _ _ _ _ _ W) as L.
    destruct (w_inv _ _ _ _ _ _ _ W) as [Hi Hpi].
    set (t1 := del_file p t) in *.
    assert (Pne : p <> []) by (intros ->; apply key_in in Hk; now apply (leaves_key_nonempty _ L (File k))).
    destruct (parent_app p Pne) as [sp Hsp].
    unfold can_add in Hcan. apply andb_true_iff in Hcan as [Hq0 Hcan]. rewrite forallb_forall in Hcan.
    assert (Hqne : q <> []) by (apply negb_true_iff in Hq0; now apply nilb_false).
    assert (Hnew1 : forall n, ~ In (q, n) t1).
    { intros n Hin. apply Hcan in Hin. cbn [fst] in Hin. rewrite is_prefix_refl in Hin. discriminate. }
    assert (Hnew : forall n, ~ In (q, n) t).
    { intros n Hin. apply (Hnew1 n). apply In_del_file_keep; [assumption|]. cbn. congruence. }
    assert (Hpre1 : forall x k0, In (x, File k0) t1 -> is_prefix x q = false).
    { intros x k0 Hin. pose proof (Hcan _ Hin) as X. cbn [fst snd] in X.
      destruct (is_prefix x q); [|reflexivity]. apply andb_true_iff in X as [_ X]. discriminate. }
    destruct (path_eqb p [SInv]) eqn:Ep.
    { (* the root inventory went away *)
      apply path_eqb_eq in Ep. subst p.
      destruct (acc_inv _ _ _ _ _ _ _ _ A) as [X _].
      apply file_tok_add_leaf_inv in X; [|congruence]. unfold t1 in X.
      now rewrite file_tok_del_file_same in X. }
    apply path_eqb_neq in Ep.
    assert (Hi1 : file_tok [SInv] t1 = Some itok) by (eapply file_tok_del_file; eauto).
    assert (E : file_tok [SInv] (add_leaf q (File k) t1) = file_tok [SInv] t).
    { rewrite Hi. unfold file_tok. rewrite lookup_add_leaf.
      pose proof (key_in _ _ _ Hi1) as Hin.
      destruct (path_eqb q [SInv]) eqn:Eq.
      - apply path_eqb_eq in Eq. subst. exfalso. now apply (Hnew1 (File itok)).
      - rewrite (Hpre1 _ _ Hin). apply file_tok_lookup in Hi1. now rewrite Hi1. }
    destruct (same_root _ _ _ _ _ _ _ W A E) as [-> ->].
    eapply (new_file_rejected fx t itok root _ q k W A); try assumption.
    - apply In_add_leaf. now left.
    - destruct Hwhere as [Hd|Hc]; [|right; right; now apply (content_shaped_inv _ _ _ _ W)].
      assert (Pbelow : forall d, (exists r, parent p = d ++ r) -> below d t = true).
      { intros d [r Hr]. apply below_true. exists p, (File k).
        destruct (snoc_cons r sp) as (s' & r' & Er). exists s', r'. split; [now apply key_in|].
        rewrite Hsp, Hr, <- app_assoc, Er. reflexivity. }
      unfold exists_dir in Hd. apply orb_true_iff in Hd as [Hd|Hd].
      + apply orb_true_iff in Hd as [Hd|Hd]; [left; now apply nilb_true|]. right. left.
        apply below_true in Hd as (x & n & s & r & Hin & Hx).
        apply In_del_file in Hin as [[Hin _]|[Hin _]].
        * apply below_true. now exists x, n, s, r.
        * injection Hin as -> ->. apply Pbelow. now exists (s :: r).
      + right. left. destruct (lookup (parent q) t1) as [[]|] eqn:El; try discriminate.
        apply lookup_In in El. apply In_del_file in El as [[El _]|[El _]].
        * destruct (wf_entry _ _ _ _ _ _ _ W _ _ El) as (? & X & _). discriminate.
        * injection El as ->. apply Pbelow. exists []. now rewrite app_nil_r.
    - intros m k1 Hm Hnq Hk1. apply file_tok_add_leaf_inv in Hk1; [|assumption].
      apply key_in in Hk1. apply In_del_file in Hk1 as [[Hk1 _]|[Hk1 _]]; [|discriminate].
      apply file_tok_lookup. now apply leaves_lookup.
  Qed.

  Lemma det_swap t itok root p q kp kq itok' root' :
    wf t itok root -> file_tok p t = Some kp -> file_tok q t = Some kq ->
    content_shaped parse_inv t p = true -> content_shaped parse_inv t q = true -> kp <> kq ->
    acc true (set p (File kq) (set q (File kp) t)) itok' root' -> False.
  Proof.
    intros W Hp Hq Hcp Hcq Hne A.
    destruct (content_shaped_inv _ _ _ _ W Hcp) as (m & s & r & Hm & Ep).
    destruct (content_shaped_inv _ _ _ _ W Hcq) as (m2 & s2 & r2 & Hm2 & Eq).
    assert (E : file_tok [SInv] (set p (File kq) (set q (File kp) t)) = file_tok [SInv] t).
    { rewrite !file_tok_set_other; [reflexivity| |]; subst; paths; discriminate. }
    destruct (same_root _ _ _ _ _ _ _ W A E) as [-> ->].
    pose proof (content_key_in_manifest _ _ _ _ _ _ _ _ W Hp Ep) as Hman.
    pose proof (wf_content_digest _ _ _ _ _ _ _ W _ _ Hp Hman) as Hd.
    assert (Hin : In (p, File kq) (set p (File kq) (set q (File kp) t))) by (apply In_set; now left).
    pose proof (acc_fixity _ _ _ _ _ _ _ _ A eq_refl p m s r kq kq _ Hin Hm Ep (file_tok_set_same p kq _) Hd) as X.
    apply digest_inj in X. congruence.
  Qed.

  (** something that is not a regular file sits where rocfl wrote a file *)
  Lemma nonfile_at_slot fx t itok root t' itok' root' p n :
    wf t itok root -> acc fx t' itok' root' ->
    (p <> [SInv] -> itok' = itok /\ root' = root) ->
    In (p, n) t' -> slot root p -> (forall k, n <> File k) ->
    n = Dir /\ exists m, in_versions root m = true
                         /\ (p = version_dir root m ++ [SInv] \/ p = version_dir root m ++ [SSidecar (inv_alg root)]).
  Proof.
    intros W A Same Hin S Hn.
    assert (Rootlevel : forall s, p = [s] -> (s = SDecl (inv_spec root) \/ s = SInv \/ s = SSidecar (inv_alg root)) -> False).
    { intros s -> Hs. pose proof (acc_root _ _ _ _ _ _ _ _ A [s] n s [] Hin eq_refl) as R. cbn in R.
      destruct R as [(k & -> & _)|[-> R]]; [now apply (Hn k)|].
      unfold is_vdir in R. destruct Hs as [->|[->| ->]]; destruct R as [R|[R|(m & R & _)]]; discriminate. }
    destruct S as [| | |m Hm|m Hm|m s r Hm Hman].
    - exfalso. eapply Rootlevel; eauto.
    - exfalso. eapply Rootlevel; eauto.
    - exfalso. eapply Rootlevel; eauto.
    - destruct Same as [-> ->]; [paths; discriminate|].
      destruct (acc_vfiles _ _ _ _ _ _ _ _ A _ n m SInv Hin Hm eq_refl) as [->|(k & -> & _)]; [|now destruct (Hn k)].
      split; [reflexivity|]. exists m. split; [assumption|now left].
    - destruct Same as [-> ->]; [paths; discriminate|].
      destruct (acc_vfiles _ _ _ _ _ _ _ _ A _ n m _ Hin Hm eq_refl) as [->|(k & -> & _)]; [|now destruct (Hn k)].
      split; [reflexivity|]. exists m. split; [assumption|now right].
    - destruct Same as [-> ->]; [paths; discriminate|].
      destruct (acc_content _ _ _ _ _ _ _ _ A _ n m s r Hin Hm eq_refl) as (k & d & -> & _). now destruct (Hn k).
  Qed.

  Lemma det_symlink_file t itok root p k fx itok' root' :
    wf t itok root -> file_tok p t = Some k -> acc fx (set p Symlink t) itok' root' -> False.
  Proof.
    intros W Hk A.
    destruct (wf_entry _ _ _ _ _ _ _ W _ _ (key_in _ _ _ Hk)) as (_ & _ & S).
    assert (Hin : In (p, Symlink) (set p Symlink t)) by (apply In_set; now left).
    destruct (nonfile_at_slot fx t itok root _ itok' root' p Symlink W A) as [X _]; try assumption; try discriminate.
    intros Hne. apply (same_root _ _ _ _ _ _ _ W A). now apply file_tok_set_other.
  Qed.

  Lemma det_file_empty t itok root p k fx itok' root' :
    wf t itok root -> file_tok p t = Some k ->
    c06_version_inventory_dropped (ReplaceFileByEmptyDir p) t = false ->
    acc fx (set p Dir t) itok' root' -> False.
  Proof.
    intros W Hk Hkn A.
    destruct (wf_entry _ _ _ _ _ _ _ W _ _ (key_in _ _ _ Hk)) as (_ & _ & S).
    assert (Hin : In (p, Dir) (set p Dir t)) by (apply In_set; now left).
    assert (Same : p <> [SInv] -> itok' = itok /\ root' = root).
    { intros Hne. apply (same_root _ _ _ _ _ _ _ W A). now apply file_tok_set_other. }
    destruct (nonfile_at_slot fx t itok root _ itok' root' p Dir W A Same Hin S) as (_ & m & Hm & [->| ->]);
      try discriminate.
    destruct Same as [-> ->]; [paths; discriminate|].
    destruct (wf_version_files _ _ _ _ _ _ _ W m Hm) as (km & sk & Hkm & _).
    {
      eapply (vsidecar_missing fx t itok root _ m km W A Hm Hkm).
      + rewrite file_tok_set_other; [assumption|]. paths. discriminate.
      + unfold file_tok. now rewrite lookup_set, path_eqb_refl. }
  Qed.

  Lemma file_tok_replace_sub p n t x :
    is_prefix p x = false -> file_tok x ((p, n) :: remove_sub p t) = file_tok x t.
  Proof.
    intros H. unfold file_tok. cbn [lookup].
    destruct (path_eqb p x) eqn:E.
    - apply path_eqb_eq in E. subst. now rewrite is_prefix_refl in H.
    - now rewrite lookup_remove_sub, H.
  Qed.

  Lemma starts_with_ver_not_inv p w m r : p = SVer w m :: r -> is_prefix p [SInv] = false.
  Proof. intros ->. reflexivity. Qed.

  Lemma det_symlink_dir t itok root p fx itok' root' :
    wf t itok root -> p <> [] -> below p t = true ->
    acc fx ((p, Symlink) :: remove_sub p t) itok' root' -> False.
  Proof.
    intros W Hne Hb A.
    assert (Hin : In (p, Symlink) ((p, Symlink) :: remove_sub p t)) by now left.
    destruct (wf_dir_shape _ _ _ _ _ _ _ W _ Hb) as [Hp|[(m & Hm & Hp)|(m & r & Hm & Hp)]]; [contradiction| |].
    - pose proof (acc_root _ _ _ _ _ _ _ _ A p Symlink _ [] Hin Hp) as R. cbn in R.
      destruct R as [(k & X & _)|[X _]]; discriminate.
    - assert (E : file_tok [SInv] ((p, Symlink) :: remove_sub p t) = file_tok [SInv] t).
      { apply file_tok_replace_sub. subst p. reflexivity. }
      destruct (same_root _ _ _ _ _ _ _ W A E) as [-> ->].
      destruct r as [|s r].
      + rewrite app_nil_r in Hp.
        destruct (acc_vfiles _ _ _ _ _ _ _ _ A p Symlink m (SName (inv_cdir root)) Hin Hm Hp) as [X|(k & X & _)]; discriminate.
      + destruct (acc_content _ _ _ _ _ _ _ _ A p Symlink m s r Hin Hm Hp) as (k & d & X & _). discriminate.
  Qed.

  Lemma forallb_false {A} (f : A -> bool) l : forallb f l = false -> exists x, In x l /\ f x = false.
  Proof.
    induction l as [|a l IH]; cbn; [discriminate|].
    destruct (f a) eqn:E; cbn.
    - intros H. destruct (IH H) as [x [Hx Hf]]. exists x. split; [now right|assumption].
    - intros _. exists a. split; [now left|assumption].
  Qed.

  Lemma manifest_path_removed fx t itok root p n d q :
    acc fx ((p, n) :: remove_sub p t) itok root -> (forall k, n <> File k) ->
    In (d, q) (inv_manifest root) -> is_prefix p q = true -> False.
  Proof.
    intros A Hn Hman Hpre.
    destruct (acc_manifest _ _ _ _ _ _ _ _ A d q Hman) as (k & [X|X]).
    - injection X as _ X. now apply (Hn k).
    - apply In_remove_sub in X as [_ X]. cbn in X. congruence.
  Qed.

  Lemma slot_deep root p s1 s2 s3 q :
    slot root p -> p = s1 :: s2 :: s3 :: q -> In p (map snd (inv_manifest root)).
  Proof. intros S E. destruct S; paths; try discriminate. assumption. Qed.

  Lemma det_dir_empty t itok root p fx itok' root' :
    wf t itok root -> p <> [] -> below p t = true ->
    c06_contentless_version_dir (ReplaceDirByEmptyDir p) t = false ->
    acc fx ((p, Dir) :: remove_sub p t) itok' root' -> False.
  Proof.
    intros W Hne Hb Hkn A.
    assert (Same : forall w m r, p = SVer w m :: r -> itok' = itok /\ root' = root).
    { intros w m r Hp. apply (same_root _ _ _ _ _ _ _ W A). apply file_tok_replace_sub. subst p. reflexivity. }
    assert (Deep : forall q n s1 s2 s3 r, In (q, n) t -> q = s1 :: s2 :: s3 :: r -> is_prefix p q = true ->
                   itok' = itok /\ root' = root -> False).
    { intros q n s1 s2 s3 r Hin Hq Hpre [-> ->].
      destruct (wf_entry _ _ _ _ _ _ _ W _ _ Hin) as (k & -> & S).
      pose proof (slot_deep _ _ _ _ _ _ S Hq) as Hman.
      apply in_map_iff in Hman as [[d q'] [Eq Hman]]. cbn in Eq. subst q'.
      eapply (manifest_path_removed fx t itok root p Dir d q A); try eassumption; discriminate. }
    destruct (wf_dir_shape _ _ _ _ _ _ _ W _ Hb) as [Hp|[(m & Hm & Hp)|(m & r & Hm & Hp)]]; [contradiction| |].
    - unfold version_dir in Hp. subst p. cbn in Hkn. unfold no_content_below in Hkn.
      apply forallb_false in Hkn as [[q n] [Hin Hq]]. cbn [fst] in Hq.
      destruct q as [|[] [|s2 [|s3 q]]]; try discriminate.
      apply negb_false_iff in Hq. apply andb_true_iff in Hq as [E1 E2].
      apply N.eqb_eq in E1, E2. subst.
      eapply Deep; [exact Hin|reflexivity| |eapply Same; reflexivity].
      apply is_prefix_true. now exists (s2 :: s3 :: q).
    - unfold content_root in Hp. cbn [app] in Hp.
      apply below_true in Hb as (q & n & s1 & r1 & Hin & Hq).
      rewrite Hp in Hq. cbn [app] in Hq.
      assert (exists s3 r3, r ++ s1 :: r1 = s3 :: r3) as (s3 & r3 & E).
      { destruct r as [|x r]; [now exists s1, r1 | now exists x, (r ++ s1 :: r1)]. }
      rewrite E in Hq.
      eapply Deep; [exact Hin|exact Hq| |eapply Same; exact Hp].
      rewrite Hq, Hp, <- E. cbn [app].
      change (SVer (inv_pad root) m :: SName (inv_cdir root) :: r ++ s1 :: r1)
        with ((SVer (inv_pad root) m :: SName (inv_cdir root) :: r) ++ s1 :: r1).
      apply is_prefix_app.
  Qed.

  Lemma det_inventory t itok root p k k' fx itok' root' :
    wf t itok root -> file_tok p t = Some k -> is_inventory_path p = true -> k <> k' ->
    acc fx (set p (File k') t) itok' root' -> False.
  Proof.
    intros W Hk Hip Hne A.
    destruct (w_inv _ _ _ _ _ _ _ W) as [Hi Hpi].
    destruct (w_sidecar _ _ _ _ _ _ _ W) as (sk0 & Hsk0 & Hps0).
    destruct (wf_entry _ _ _ _ _ _ _ W _ _ (key_in _ _ _ Hk)) as (_ & _ & S).
    (* a sidecar that exists after the edit existed before, with the root algorithm *)
    assert (Sc : forall y a sk, (y = [SSidecar a] \/ exists w m, y = [SVer w m; SSidecar a]) -> y <> p ->
                 file_tok y (set p (File k') t) = Some sk ->
                 a = inv_alg root /\ file_tok y t = Some sk).
    { intros y a sk Hy Hd X. rewrite file_tok_set_other in X by congruence. split; [|assumption].
      destruct (wf_entry _ _ _ _ _ _ _ W _ _ (key_in _ _ _ X)) as (_ & _ & S').
      destruct Hy as [->|(w & m & ->)]; inversion S'; subst; paths; try discriminate; congruence. }
    destruct S as [| | |m Hm|m Hm|m s r Hm Hman]; try (paths; discriminate).
    - (* root inventory *)
      rewrite Hi in Hk. injection Hk as <-.
      destruct (acc_inv _ _ _ _ _ _ _ _ A) as [X Hp']. rewrite file_tok_set_same in X. injection X as <-.
      destruct (acc_sidecar _ _ _ _ _ _ _ _ A) as (sk & Hsk & Hps).
      destruct (Sc [SSidecar (inv_alg root')] (inv_alg root') sk (or_introl eq_refl)) as [Ha Hsk']; [discriminate|exact Hsk|].
      rewrite Ha in *. rewrite Hsk0 in Hsk'. injection Hsk' as <-.
      rewrite Hps0 in Hps. injection Hps as X. apply digest_inj in X. congruence.
    - assert (E : file_tok [SInv] (set (version_dir root m ++ [SInv]) (File k') t) = file_tok [SInv] t).
      { apply file_tok_set_other. paths. discriminate. }
      destruct (same_root _ _ _ _ _ _ _ W A E) as [-> ->].
      destruct (wf_version_files _ _ _ _ _ _ _ W m Hm) as (km & sk & Hkm & Hsk & Hpsk & Hhead & Hold).
      rewrite Hkm in Hk. injection Hk as <-.
      pose proof (file_tok_set_same (version_dir root m ++ [SInv]) k' t) as Hk'.
      destruct (N.eq_dec m (inv_head root)) as [->|Hnh].
      + destruct (acc_head _ _ _ _ _ _ _ _ A k' Hk') as (X & _). apply digest_inj in X.
        rewrite (Hhead eq_refl) in Hne. congruence.
      + destruct (acc_vinv _ _ _ _ _ _ _ _ A m k' Hm Hnh Hk') as (i' & _ & sk' & Hsk' & Hps').
        destruct (Sc (version_dir root m ++ [SSidecar (inv_alg i')]) (inv_alg i') sk' (or_intror (ex_intro _ _ (ex_intro _ _ eq_refl)))) as [Ha Hsk'']; [paths; discriminate|exact Hsk'|].
        rewrite Ha in *. rewrite Hsk in Hsk''. injection Hsk'' as <-.
        rewrite Hpsk in Hps'. injection Hps' as X. apply digest_inj in X. congruence.
  Qed.

  Lemma det_sidecar t itok root p k k' fx itok' root' :
    wf t itok root -> file_tok p t = Some k -> is_sidecar_path p = true ->
    parse_sidecar k <> parse_sidecar k' ->
    acc fx (set p (File k') t) itok' root' -> False.
  Proof.
    intros W Hk Hip Hne A.
    destruct (w_inv _ _ _ _ _ _ _ W) as [Hi Hpi].
    destruct (w_sidecar _ _ _ _ _ _ _ W) as (sk0 & Hsk0 & Hps0).
    destruct (wf_entry _ _ _ _ _ _ _ W _ _ (key_in _ _ _ Hk)) as (_ & _ & S).
    assert (E : file_tok [SInv] (set p (File k') t) = file_tok [SInv] t).
    { apply file_tok_set_other. intros ->. discriminate. }
    destruct (same_root _ _ _ _ _ _ _ W A E) as [-> ->].
    destruct S as [| | |m Hm|m Hm|m s r Hm Hman]; try (paths; discriminate).
    - rewrite Hsk0 in Hk. injection Hk as <-.
      destruct (acc_sidecar _ _ _ _ _ _ _ _ A) as (sk & Hsk & Hps).
      rewrite file_tok_set_same in Hsk. injection Hsk as <-. congruence.
    - destruct (wf_version_files _ _ _ _ _ _ _ W m Hm) as (km & sk & Hkm & Hsk & Hpsk & Hhead & Hold).
      rewrite Hsk in Hk. injection Hk as <-.
      assert (Hkm' : file_tok (version_dir root m ++ [SInv]) (set (version_dir root m ++ [SSidecar (inv_alg root)]) (File k') t) = Some km).
      { rewrite file_tok_set_other; [assumption|]. paths. discriminate. }
      destruct (N.eq_dec m (inv_head root)) as [->|Hnh].
      + destruct (acc_head _ _ _ _ _ _ _ _ A km Hkm') as (_ & sk' & Hsk' & Hps').
        rewrite file_tok_set_same in Hsk'. injection Hsk' as <-. congruence.
      + destruct (acc_vinv _ _ _ _ _ _ _ _ A m km Hm Hnh Hkm') as (i' & Hi' & sk' & Hsk' & Hps').
        destruct (Hold Hnh) as (i0 & Hi0 & Ha). rewrite Hi0 in Hi'. injection Hi' as <-. rewrite Ha in *.
        rewrite file_tok_set_same in Hsk'. injection Hsk' as <-. congruence.
  Qed.

  Lemma declaration_path_inv t itok root p :
    wf t itok root -> declaration_path t = Some p ->
    p = [SDecl (inv_spec root)] /\ exists dk, file_tok p t = Some dk /\ parse_decl dk = Some (inv_spec root).
  Proof.
    intros W H. destruct (w_decl _ _ _ _ _ _ _ W) as (dk & Hdk & Hpd).
    assert (X : forall v, has_file [] (SDecl v) t = true -> v = inv_spec root).
    { intros v Hv. apply has_file_true in Hv as [k Hv]. cbn in Hv.
      destruct (wf_entry _ _ _ _ _ _ _ W _ _ (key_in _ _ _ Hv)) as (_ & _ & S).
      inversion S; subst; try reflexivity; paths; discriminate. }
    unfold declaration_path in H.
    destruct (has_file [] (SDecl V10) t) eqn:E0.
    - injection H as <-. rewrite (X _ E0). split; [reflexivity|]. rewrite <- (X _ E0). rewrite (X _ E0). now exists dk.
    - destruct (has_file [] (SDecl V11) t) eqn:E1; [|discriminate].
      injection H as <-. rewrite (X _ E1). split; [reflexivity|]. now exists dk.
  Qed.

  Lemma det_decl_alter t itok root p k k' fx itok' root' :
    wf t itok root -> declaration_path t = Some p -> file_tok p t = Some k ->
    parse_decl k <> parse_decl k' ->
    acc fx (set p (File k') t) itok' root' -> False.
  Proof.
    intros W Hd Hk Hne A.
    destruct (declaration_path_inv _ _ _ _ W Hd) as (-> & dk & Hdk & Hpd).
    rewrite Hdk in Hk. injection Hk as <-.
    assert (E : file_tok [SInv] (set [SDecl (inv_spec root)] (File k') t) = file_tok [SInv] t).
    { apply file_tok_set_other. discriminate. }
    destruct (same_root _ _ _ _ _ _ _ W A E) as [-> ->].
    destruct (acc_decl _ _ _ _ _ _ _ _ A) as (dk' & Hdk' & Hpd').
    rewrite file_tok_set_same in Hdk'. injection Hdk' as <-. congruence.
  Qed.

  Lemma det_remove_version t itok root w n fx itok' root' :
    wf t itok root -> below [SVer w n] t = true ->
    acc fx (remove_sub [SVer w n] t) itok' root' -> False.
  Proof.
    intros W Hb A.
    assert (E : file_tok [SInv] (remove_sub [SVer w n] t) = file_tok [SInv] t).
    { unfold file_tok. now rewrite lookup_remove_sub. }
    destruct (same_root _ _ _ _ _ _ _ W A E) as [-> ->].
    destruct (wf_dir_shape _ _ _ _ _ _ _ W _ Hb) as [Hp|[(m & Hm & Hp)|(m & r & Hm & Hp)]];
      [discriminate| |paths; discriminate].
    unfold version_dir in Hp. injection Hp as -> ->.
    pose proof (acc_vdirs _ _ _ _ _ _ _ _ A m Hm) as X. unfold has_dir in X. cbn [app] in X.
    apply orb_true_iff in X as [X|X].
    - apply below_true in X as (q & nd & s & r & Hin & Hq). apply In_remove_sub in Hin as [_ Hin].
      cbn [fst] in Hin. subst q. now rewrite is_prefix_app in Hin.
    - rewrite lookup_remove_sub, is_prefix_refl in X. discriminate.
  Qed.

  (** ** all kinds together *)

  Theorem corruption_rejected fx c t t' :
    written_by_rocfl digest parse_inv parse_sidecar parse_decl t ->
    apply_c c t = Some t' ->
    known c t = false ->
    (is_structural c = true \/ fx = true) ->
    errs fx t' <> [].
  Proof.
    intros Hwf Happ Hkn Hfx Hnil.
    destruct (wf_unfold _ _ _ _ _ Hwf) as (itok & root & W).
    destruct (errors_nil_accepted _ _ _ _ _ _ _ Hnil) as (itok' & root' & A).
    unfold known in Hkn. apply orb_false_iff in Hkn as [Hk1 Hk2].
    assert (ChangeC : forall p k', change_content parse_inv p k' t = Some t' -> fx = true -> False).
    { intros p k' H ->. unfold change_content in H.
      destruct (file_tok p t) as [k|] eqn:Ek; [|discriminate].
      destruct (content_shaped parse_inv t p) eqn:Ec; [|discriminate]. cbn in H.
      destruct (N.eqb k k') eqn:En; [discriminate|]. cbn in H. injection H as <-.
      apply N.eqb_neq in En. eapply det_change_content; eauto. }
    destruct c as [p k'|p k'|p k'|p|p k|p q|p q|p|p|p|p k'|p k'| |k'|p k|w n]; cbn [apply_corruption is_structural] in *.
    - destruct Hfx as [Hfx|Hfx]; [discriminate|]. eapply ChangeC; eauto.
    - destruct Hfx as [Hfx|Hfx]; [discriminate|]. eapply ChangeC; eauto.
    - destruct Hfx as [Hfx|Hfx]; [discriminate|]. eapply ChangeC; eauto.
    - destruct (file_tok p t) as [k|] eqn:Ek; [|discriminate]. injection Happ as <-.
      eapply det_delete; eauto.
    - destruct (content_shaped parse_inv t p && can_add p t) eqn:E; [|discriminate]. injection Happ as <-.
      apply andb_true_iff in E as [E1 E2]. eapply det_add; eauto.
    - destruct (file_tok p t) as [k|] eqn:Ek; [|discriminate].
      destruct (negb (path_eqb p q) && can_add q (del_file p t)
                && (exists_dir (parent q) (del_file p t) || content_shaped parse_inv t q)) eqn:E; [|discriminate].
      injection Happ as <-. apply andb_true_iff in E as [E E3]. apply andb_true_iff in E as [E1 E2].
      apply negb_true_iff, path_eqb_neq in E1. apply orb_true_iff in E3.
      eapply det_rename; eauto.
    - destruct Hfx as [Hfx|Hfx]; [discriminate|]. subst fx.
      destruct (file_tok p t) as [kp|] eqn:Ep; [|discriminate].
      destruct (file_tok q t) as [kq|] eqn:Eq; [|discriminate].
      destruct (content_shaped parse_inv t p && content_shaped parse_inv t q && negb (N.eqb kp kq)) eqn:E; [|discriminate].
      injection Happ as <-. apply andb_true_iff in E as [E E3]. apply andb_true_iff in E as [E1 E2].
      apply negb_true_iff, N.eqb_neq in E3.
      exact (det_swap t itok root p q kp kq itok' root' W Ep Eq E1 E2 E3 A).
    - destruct (file_tok p t) as [k|] eqn:Ek.
      + injection Happ as <-. eapply det_symlink_file; eauto.
      + destruct (negb (nilb p) && below p t) eqn:E; [|discriminate]. injection Happ as <-.
        apply andb_true_iff in E as [E1 E2]. apply negb_true_iff, nilb_false in E1.
        eapply det_symlink_dir; eauto.
    - destruct (negb (nilb p) && below p t) eqn:E; [|discriminate]. injection Happ as <-.
      apply andb_true_iff in E as [E1 E2]. apply negb_true_iff, nilb_false in E1.
      eapply det_dir_empty; eauto.
    - destruct (file_tok p t) as [k|] eqn:Ek; [|discriminate]. injection Happ as <-.
      eapply det_file_empty; eauto.
    - destruct (file_tok p t) as [k|] eqn:Ek; [|discriminate].
      destruct (is_inventory_path p && negb (N.eqb k k')) eqn:E; [|discriminate]. injection Happ as <-.
      apply andb_true_iff in E as [E1 E2]. apply negb_true_iff, N.eqb_neq in E2.
      eapply det_inventory; eauto.
    - destruct (file_tok p t) as [k|] eqn:Ek; [|discriminate].
      destruct (is_sidecar_path p && negb (opt_eqb N.eqb (parse_sidecar k) (parse_sidecar k'))) eqn:E; [|discriminate].
      injection Happ as <-. apply andb_true_iff in E as [E1 E2]. apply negb_true_iff in E2.
      eapply det_sidecar; eauto. intros X. rewrite X in E2.
      assert (Y : opt_eqb N.eqb (parse_sidecar k') (parse_sidecar k') = true) by now apply opt_eqb_N.
      congruence.
    - destruct (declaration_path t) as [p|] eqn:Ed; [|discriminate]. injection Happ as <-.
      destruct (declaration_path_inv _ _ _ _ W Ed) as (-> & dk & Hdk & _).
      eapply det_delete; eauto.
    - destruct (declaration_path t) as [p|] eqn:Ed; [|discriminate].
      destruct (file_tok p t) as [k|] eqn:Ek; [|discriminate].
      destruct (negb (opt_eqb spec_eqb (parse_decl k) (parse_decl k'))) eqn:E; [|discriminate].
      injection Happ as <-. apply negb_true_iff in E.
      eapply det_decl_alter; eauto. intros X. rewrite X in E.
      assert (Y : opt_eqb spec_eqb (parse_decl k') (parse_decl k') = true) by now apply opt_eqb_spec.
      congruence.
    - destruct (can_add p t && exists_dir (parent p) t) eqn:E; [|discriminate]. injection Happ as <-.
      apply andb_true_iff in E as [E1 E2]. eapply det_add; eauto.
    - destruct (below [SVer w n] t) eqn:E; [|discriminate]. injection Happ as <-.
      eapply det_remove_version; eauto.
  Qed.
End Detect.

(** ** closed forms used by Props/C06.v *)
From Rocfl Require Import Proofs.WrittenValid.

Lemma written_valid_lemma :
  forall digest fdigest parse_inv parse_sidecar parse_decl t,
    written_by_rocfl digest parse_inv parse_sidecar parse_decl t ->
    tree_errors digest fdigest parse_inv parse_sidecar parse_decl true t = []
    /\ tree_errors digest fdigest parse_inv parse_sidecar parse_decl false t = [].
Proof. intros. split; now apply written_valid_all. Qed.

Lemma corruption_detected_lemma :
  forall digest fdigest parse_inv parse_sidecar parse_decl,
    (forall a k k', digest a k = digest a k' -> k = k') ->
    forall c t t',
      written_by_rocfl digest parse_inv parse_sidecar parse_decl t ->
      apply_corruption parse_inv parse_sidecar parse_decl c t = Some t' ->
      known c t = false ->
      tree_errors digest fdigest parse_inv parse_sidecar parse_decl true t' <> [].
Proof. intros. eapply corruption_rejected; eauto. Qed.

Lemma structural_detected_lemma :
  forall digest fdigest parse_inv parse_sidecar parse_decl,
    (forall a k k', digest a k = digest a k' -> k = k') ->
    forall c t t',
      written_by_rocfl digest parse_inv parse_sidecar parse_decl t ->
      apply_corruption parse_inv parse_sidecar parse_decl c t = Some t' ->
      known c t = false ->
      is_structural c = true ->
      tree_errors digest fdigest parse_inv parse_sidecar parse_decl false t' <> [].
Proof. intros. eapply corruption_rejected; eauto. Qed.
