(** Facts about the model of Version::diff (Model/Diff.v): association lists,
    the two loops of the rename detector, and the membership characterisation of
    the result.  Everything is proved for arbitrary path / digest types with
    boolean equalities that decide equality (Section hypotheses). *)
From Rocfl Require Import Base.Bytes Model.Diff.
From Coq Require Import ZArith Lia ZifyBool ZifyN ZifyNat Permutation.
Ltac Zify.zify_post_hook ::= Z.div_mod_to_equations.
Arguments N.add : simpl never.
Arguments N.sub : simpl never.
Arguments N.ltb : simpl never.
Arguments N.leb : simpl never.
Arguments N.eqb : simpl never.

Section DiffFacts.
  Variables P D : Type.
  Variable peqb : P -> P -> bool.
  Variable deqb : D -> D -> bool.
  Variable ple : P -> P -> bool.
  Hypothesis peqb_spec : forall x y, peqb x y = true <-> x = y.
  Hypothesis deqb_spec : forall x y, deqb x y = true <-> x = y.

  Notation state := (list (P * D)).
  Notation lookup := (lookup peqb).
  Notation pmem := (pmem peqb).
  Notation aget := (aget deqb).
  Notation aset := (aset deqb).
  Notation adel := (adel deqb).
  Notation dentry := (diff_entry P).

  (** ** boolean equalities *)
  Lemma peqb_refl x : peqb x x = true.
  Proof. apply peqb_spec; reflexivity. Qed.
  Lemma deqb_refl x : deqb x x = true.
  Proof. apply deqb_spec; reflexivity. Qed.
  Lemma peqb_false x y : peqb x y = false <-> x <> y.
  Proof.
    split.
    - intros H E. apply peqb_spec in E. congruence.
    - intros H. destruct (peqb x y) eqn:E; [apply peqb_spec in E; contradiction | reflexivity].
  Qed.
  Lemma deqb_false x y : deqb x y = false <-> x <> y.
  Proof.
    split.
    - intros H E. apply deqb_spec in E. congruence.
    - intros H. destruct (deqb x y) eqn:E; [apply deqb_spec in E; contradiction | reflexivity].
  Qed.
  Lemma deqb_sym x y : deqb x y = deqb y x.
  Proof.
    destruct (deqb x y) eqn:E1, (deqb y x) eqn:E2; try reflexivity.
    - apply deqb_spec in E1. subst. rewrite deqb_refl in E2. discriminate.
    - apply deqb_spec in E2. subst. rewrite deqb_refl in E1. discriminate.
  Qed.
  Lemma D_dec (x y : D) : x = y \/ x <> y.
  Proof. destruct (deqb x y) eqn:E; [left; apply deqb_spec, E | right; apply deqb_false, E]. Qed.
  Lemma P_dec (x y : P) : x = y \/ x <> y.
  Proof. destruct (peqb x y) eqn:E; [left; apply peqb_spec, E | right; apply peqb_false, E]. Qed.

  (** ** lookup *)
  Lemma lookup_some_in (s : state) p d : lookup p s = Some d -> In (p, d) s.
  Proof.
    induction s as [|[q e] s IH]; cbn; [discriminate|].
    destruct (peqb q p) eqn:E.
    - intros H. inversion H. apply peqb_spec in E. subst. left; reflexivity.
    - intros H. right. apply IH, H.
  Qed.

  Lemma lookup_none (s : state) p : lookup p s = None <-> ~ In p (keys s).
  Proof.
    induction s as [|[q e] s IH]; cbn.
    - split; [intros _ []|reflexivity].
    - destruct (peqb q p) eqn:E.
      + apply peqb_spec in E. subst. split; [discriminate|]. intros H. exfalso. apply H. left; reflexivity.
      + apply peqb_false in E. rewrite IH. split.
        * intros H [H1|H1]; [contradiction|apply H, H1].
        * intros H H1. apply H. right; exact H1.
  Qed.

  Lemma in_keys (s : state) p d : In (p, d) s -> In p (keys s).
  Proof. intros H. apply in_map_iff. exists (p, d). split; [reflexivity|exact H]. Qed.

  Lemma in_lookup (s : state) p d : NoDup (keys s) -> In (p, d) s -> lookup p s = Some d.
  Proof.
    induction s as [|[q e] s IH]; cbn; [intros _ []|].
    intros ND [H|H].
    - inversion H. subst. rewrite peqb_refl. reflexivity.
    - inversion ND as [|x xs NI ND']. subst.
      destruct (peqb q p) eqn:E.
      + apply peqb_spec in E. subst. exfalso. apply NI. eapply in_keys, H.
      + apply IH; assumption.
  Qed.

  Lemma lookup_iff (s : state) p d : NoDup (keys s) -> (lookup p s = Some d <-> In (p, d) s).
  Proof. intros ND. split; [apply lookup_some_in | apply in_lookup, ND]. Qed.

  Lemma lookup_in_keys (s : state) p : In p (keys s) <-> exists d, lookup p s = Some d.
  Proof.
    destruct (lookup p s) as [d|] eqn:E.
    - split; [intros _; exists d; reflexivity | intros _; eapply in_keys, lookup_some_in, E].
    - split.
      + intros H. apply lookup_none in E. contradiction.
      + intros [d H]. discriminate.
  Qed.

  Lemma pmem_spec p l : pmem p l = true <-> In p l.
  Proof.
    induction l as [|q l IH]; cbn; [split; [discriminate|intros []]|].
    rewrite orb_true_iff, IH, peqb_spec. reflexivity.
  Qed.
  Lemma pmem_false p l : pmem p l = false <-> ~ In p l.
  Proof.
    rewrite <- pmem_spec. destruct (pmem p l); split; congruence.
  Qed.

  (** ** association lists keyed by digests *)
  Section AMapFacts.
    Variable V : Type.
    Implicit Types m : list (D * V).

    Lemma aget_aset d v m d' : aget d' (aset d v m) = if deqb d d' then Some v else aget d' m.
    Proof.
      induction m as [|[k w] m IH]; cbn.
      - reflexivity.
      - destruct (deqb k d) eqn:E; cbn.
        + apply deqb_spec in E. subst. destruct (deqb d d'); reflexivity.
        + rewrite IH. destruct (deqb k d') eqn:E2; [|reflexivity].
          apply deqb_spec in E2. subst. rewrite deqb_sym, E. reflexivity.
    Qed.

    Lemma aget_adel d m d' : aget d' (adel d m) = if deqb d d' then None else aget d' m.
    Proof.
      induction m as [|[k w] m IH]; cbn.
      - destruct (deqb d d'); reflexivity.
      - destruct (deqb k d) eqn:E; cbn.
        + rewrite IH. apply deqb_spec in E. subst. destruct (deqb d d'); reflexivity.
        + rewrite IH. destruct (deqb k d') eqn:E2; [|reflexivity].
          apply deqb_spec in E2. subst. rewrite deqb_sym, E. reflexivity.
    Qed.

    Lemma akeys_aset_in d v m k : In k (map fst (aset d v m)) -> k = d \/ In k (map fst m).
    Proof.
      induction m as [|[k' w] m IH]; cbn.
      - intros [H|[]]. left; congruence.
      - destruct (deqb k' d) eqn:E; cbn.
        + intros H. right. exact H.
        + intros [H|H]; [right; left; exact H|]. destruct (IH H); [left|right; right]; assumption.
    Qed.

    Lemma akeys_aset d v m : NoDup (map fst m) -> NoDup (map fst (aset d v m)).
    Proof.
      induction m as [|[k w] m IH]; cbn.
      - intros _. constructor; [intros []|constructor].
      - intros ND. inversion ND as [|x xs NI ND']. subst.
        destruct (deqb k d) eqn:E; cbn.
        + constructor; assumption.
        + constructor; [|apply IH, ND'].
          intros H. apply akeys_aset_in in H. destruct H as [H|H]; [|contradiction].
          subst. rewrite deqb_refl in E. discriminate.
    Qed.

    Lemma akeys_adel_in d m k : In k (map fst (adel d m)) -> In k (map fst m).
    Proof.
      induction m as [|[k' w] m IH]; cbn; [intros []|].
      destruct (deqb k' d); cbn.
      - intros H. right. apply IH, H.
      - intros [H|H]; [left; exact H|right; apply IH, H].
    Qed.

    Lemma akeys_adel d m : NoDup (map fst m) -> NoDup (map fst (adel d m)).
    Proof.
      induction m as [|[k w] m IH]; cbn; [intros _; constructor|].
      intros ND. inversion ND as [|x xs NI ND']. subst.
      destruct (deqb k d); cbn; [apply IH, ND'|].
      constructor; [|apply IH, ND']. intros H. apply NI. eapply akeys_adel_in, H.
    Qed.

    Lemma aget_in m k v : aget k m = Some v -> In (k, v) m.
    Proof.
      induction m as [|[k' w] m IH]; cbn; [discriminate|].
      destruct (deqb k' k) eqn:E.
      - intros H. inversion H. apply deqb_spec in E. subst. left; reflexivity.
      - intros H. right. apply IH, H.
    Qed.

    Lemma in_aget m k v : NoDup (map fst m) -> In (k, v) m -> aget k m = Some v.
    Proof.
      induction m as [|[k' w] m IH]; cbn; [intros _ []|].
      intros ND [H|H].
      - inversion H. subst. rewrite deqb_refl. reflexivity.
      - inversion ND as [|x xs NI ND']. subst.
        destruct (deqb k' k) eqn:E.
        + apply deqb_spec in E. subst. exfalso. apply NI.
          apply in_map_iff. exists (k, v). split; [reflexivity|exact H].
        + apply IH; assumption.
    Qed.
  End AMapFacts.

  (** ** sort_paths keeps the elements *)
  Lemma sort_insert_perm p l : Permutation (p :: l) (sort_insert ple p l).
  Proof.
    induction l as [|q l IH]; cbn; [apply Permutation_refl|].
    destruct (ple p q); [apply Permutation_refl|].
    eapply perm_trans; [apply perm_swap|]. apply perm_skip, IH.
  Qed.
  Lemma sort_paths_perm l : Permutation l (sort_paths ple l).
  Proof.
    induction l as [|p l IH]; cbn; [constructor|].
    eapply perm_trans; [apply perm_skip, IH|]. apply sort_insert_perm.
  Qed.
  Lemma sort_paths_in l p : In p (sort_paths ple l) <-> In p l.
  Proof.
    split; intros H.
    - eapply Permutation_in; [apply Permutation_sym, sort_paths_perm|exact H].
    - eapply Permutation_in; [apply sort_paths_perm|exact H].
  Qed.
  Lemma sort_paths_nil l : sort_paths ple l = [] <-> l = [].
  Proof.
    split; intros H.
    - apply Permutation_nil. rewrite <- H. apply Permutation_sym, sort_paths_perm.
    - subst. reflexivity.
  Qed.
  Lemma sort_paths_nodup l : NoDup l -> NoDup (sort_paths ple l).
  Proof. intros H. eapply Permutation_NoDup; [apply sort_paths_perm|exact H]. Qed.

  (** ** the first loop *)
  Definition getl (d : D) (m : list (D * list P)) : list P :=
    match aget d m with Some v => v | None => [] end.

  (** the Modified entries produced by a part of the left state *)
  Definition mods (r : state) (l : state) : list dentry :=
    flat_map (fun e => match lookup (fst e) r with
                       | Some rd => if deqb (snd e) rd then [] else [Modified (fst e)]
                       | None => []
                       end) l.
  (** left entries of digest d whose path is absent on the right, in order *)
  Definition lo_paths (r : state) (l : state) (d : D) : list P :=
    flat_map (fun e => match lookup (fst e) r with
                       | None => if deqb (snd e) d then [fst e] else []
                       | Some _ => []
                       end) l.
  (** left paths present on the right *)
  Definition both (r : state) (l : state) : list P :=
    flat_map (fun e => match lookup (fst e) r with Some _ => [fst e] | None => [] end) l.

  Lemma mods_snoc r l p d :
    mods r (l ++ [(p, d)]) =
    mods r l ++ match lookup p r with Some rd => if deqb d rd then [] else [Modified p] | None => [] end.
  Proof. unfold mods. rewrite flat_map_app. cbn. rewrite app_nil_r. reflexivity. Qed.
  Lemma lo_paths_snoc r l p d d' :
    lo_paths r (l ++ [(p, d)]) d' =
    lo_paths r l d' ++ match lookup p r with None => if deqb d d' then [p] else [] | Some _ => [] end.
  Proof. unfold lo_paths. rewrite flat_map_app. cbn. rewrite app_nil_r. reflexivity. Qed.
  Lemma both_snoc r l p d :
    both r (l ++ [(p, d)]) = both r l ++ match lookup p r with Some _ => [p] | None => [] end.
  Proof. unfold both. rewrite flat_map_app. cbn. rewrite app_nil_r. reflexivity. Qed.

  Definition dels_wf (m : list (D * list P)) : Prop :=
    NoDup (map fst m) /\ forall d v, aget d m = Some v -> v <> [].

  Lemma left_loop_spec r l :
    let '(ds, dels, seen) := left_loop peqb deqb l r in
    ds = mods r l /\ (forall d, getl d dels = lo_paths r l d) /\ dels_wf dels /\
    (forall p, In p seen <-> In p (both r l)).
  Proof.
    unfold left_loop.
    induction l as [|[p ld] l IH] using rev_ind.
    - cbn. repeat split; try tauto; try constructor. intros d v H. discriminate.
    - rewrite fold_left_app. cbn [fold_left].
      destruct (fold_left (left_step peqb deqb r) l ([], [], [])) as [[ds dels] seen].
      destruct IH as (Hds & Hdel & [Hnd Hne] & Hseen).
      unfold left_step. rewrite mods_snoc.
      destruct (lookup p r) as [rd|] eqn:EL; lazy iota beta;
        setoid_rewrite lo_paths_snoc; setoid_rewrite both_snoc; rewrite EL.
      + repeat split.
        * rewrite <- Hds. destruct (deqb ld rd); [rewrite app_nil_r|]; reflexivity.
        * intros d. rewrite app_nil_r. apply Hdel.
        * exact Hnd.
        * exact Hne.
        * intros [H|H]; apply in_or_app; [right; left; exact H|left; apply Hseen, H].
        * intros H. apply in_app_or in H. destruct H as [H|[H|[]]]; [right; apply Hseen, H|left; exact H].
      + repeat split.
        * rewrite app_nil_r. exact Hds.
        * intros d. unfold getl. rewrite aget_aset.
          destruct (deqb ld d) eqn:E.
          -- apply deqb_spec in E. subst. fold (getl d dels). rewrite Hdel. reflexivity.
          -- rewrite app_nil_r. apply Hdel.
        * apply akeys_aset, Hnd.
        * intros d v. rewrite aget_aset. destruct (deqb ld d).
          -- intros H. inversion H. intros C. apply app_eq_nil in C. destruct C; discriminate.
          -- apply Hne.
        * intros H. rewrite app_nil_r. apply Hseen, H.
        * intros H. rewrite app_nil_r in H. apply Hseen, H.
  Qed.

  (** ** the second loop *)
  (** right entries of digest d whose path was not seen, in order *)
  Definition ro_paths (seen : list P) (r : state) (d : D) : list P :=
    flat_map (fun e => if pmem (fst e) seen then [] else if deqb (snd e) d then [fst e] else []) r.
  (** the Added entries: unseen right entries whose digest has no deleted path *)
  Definition adds (seen : list P) (dels0 : list (D * list P)) (r : state) : list dentry :=
    flat_map (fun e => if pmem (fst e) seen then []
                       else match getl (snd e) dels0 with [] => [Added (fst e)] | _ => [] end) r.

  Lemma ro_paths_snoc seen r p d d' :
    ro_paths seen (r ++ [(p, d)]) d' =
    ro_paths seen r d' ++ (if pmem p seen then [] else if deqb d d' then [p] else []).
  Proof. unfold ro_paths. rewrite flat_map_app. cbn. rewrite app_nil_r. reflexivity. Qed.
  Lemma adds_snoc seen dels0 r p d :
    adds seen dels0 (r ++ [(p, d)]) =
    adds seen dels0 r ++ (if pmem p seen then [] else match getl d dels0 with [] => [Added p] | _ => [] end).
  Proof. unfold adds. rewrite flat_map_app. cbn. rewrite app_nil_r. reflexivity. Qed.

  Lemma right_loop_spec seen ds0 dels0 r :
    dels_wf dels0 ->
    let '(ds, dels, rens) := right_loop peqb deqb seen r ds0 dels0 in
    ds = ds0 ++ adds seen dels0 r /\
    (forall d, aget d dels = match ro_paths seen r d with [] => aget d dels0 | _ => None end) /\
    (forall d, aget d rens = match ro_paths seen r d, getl d dels0 with
                             | [], _ => None
                             | _, [] => None
                             | rn, o => Some (o, rn)
                             end) /\
    NoDup (map fst dels) /\ NoDup (map fst rens).
  Proof.
    intros [Hnd0 Hne0]. unfold right_loop.
    induction r as [|[p d] r IH] using rev_ind.
    - cbn. rewrite app_nil_r. repeat split; try assumption; constructor.
    - rewrite fold_left_app. cbn [fold_left].
      destruct (fold_left (right_step peqb deqb seen) r _) as [[ds dels] rens].
      destruct IH as (Hds & Hdel & Hren & Hnd & Hndr).
      unfold right_step. rewrite adds_snoc.
      destruct (pmem p seen) eqn:Eseen.
      { (* continue *)
        lazy iota beta. setoid_rewrite ro_paths_snoc. rewrite Eseen.
        repeat split; try assumption.
        - rewrite app_nil_r. exact Hds.
        - intros d'. rewrite app_nil_r. apply Hdel.
        - intros d'. rewrite app_nil_r. apply Hren. }
      destruct (aget d dels) as [orig|] eqn:Edel.
      + (* deletes.remove(digest) = Some(original) *)
        lazy iota beta. setoid_rewrite ro_paths_snoc. rewrite Eseen.
        pose proof (Hdel d) as Hd. rewrite Edel in Hd.
        destruct (ro_paths seen r d) eqn:Ero; [|discriminate].
        assert (Horig : getl d dels0 = orig) by (unfold getl; rewrite <- Hd; reflexivity).
        assert (Hne : orig <> []) by (eapply Hne0; symmetry; exact Hd).
        repeat split.
        * rewrite Hds, Horig. destruct orig; [contradiction|]. rewrite app_nil_r. reflexivity.
        * intros d'. rewrite aget_adel. destruct (deqb d d') eqn:E.
          -- apply deqb_spec in E. subst d'. rewrite Ero. cbn. reflexivity.
          -- rewrite app_nil_r. apply Hdel.
        * intros d'. rewrite aget_aset. destruct (deqb d d') eqn:E.
          -- apply deqb_spec in E. subst d'. rewrite Ero, Horig. cbn. destruct orig; [contradiction|reflexivity].
          -- rewrite app_nil_r. apply Hren.
        * apply akeys_adel, Hnd.
        * apply akeys_aset, Hndr.
      + destruct (aget d rens) as [[o rn]|] eqn:Eren.
        * (* renames.get_mut(digest): push *)
          lazy iota beta. setoid_rewrite ro_paths_snoc. rewrite Eseen.
          pose proof (Hren d) as Hr. rewrite Eren in Hr.
          destruct (ro_paths seen r d) as [|x xs] eqn:Ero; [discriminate|].
          destruct (getl d dels0) as [|y ys] eqn:Eo; [discriminate|]. inversion Hr. subst o rn.
          repeat split.
          -- rewrite Hds, app_nil_r. reflexivity.
          -- intros d'. destruct (deqb d d') eqn:E.
             ++ apply deqb_spec in E. subst d'. rewrite Ero. cbn. exact Edel.
             ++ rewrite app_nil_r. apply Hdel.
          -- intros d'. rewrite aget_aset. destruct (deqb d d') eqn:E.
             ++ apply deqb_spec in E. subst d'. rewrite Ero, Eo. cbn. reflexivity.
             ++ rewrite app_nil_r. apply Hren.
          -- exact Hnd.
          -- apply akeys_aset, Hndr.
        * (* Added *)
          lazy iota beta. setoid_rewrite ro_paths_snoc. rewrite Eseen.
          assert (Ho : getl d dels0 = []).
          { pose proof (Hren d) as Hr. rewrite Eren in Hr. pose proof (Hdel d) as Hd. rewrite Edel in Hd.
            destruct (ro_paths seen r d) as [|x xs] eqn:Ero.
            - unfold getl. rewrite <- Hd. reflexivity.
            - destruct (getl d dels0); [reflexivity|discriminate]. }
          repeat split.
          -- rewrite Hds, Ho, app_assoc. reflexivity.
          -- intros d'. destruct (deqb d d') eqn:E.
             ++ apply deqb_spec in E. subst d'. rewrite Edel.
                destruct (ro_paths seen r d); cbn; [|reflexivity].
                unfold getl in Ho. destruct (aget d dels0) as [v|] eqn:E0; [|reflexivity].
                subst v. exfalso. eapply Hne0; [exact E0|reflexivity].
             ++ rewrite app_nil_r. apply Hdel.
          -- intros d'. destruct (deqb d d') eqn:E.
             ++ apply deqb_spec in E. subst d'. rewrite Eren, Ho.
                destruct (ro_paths seen r d); reflexivity.
             ++ rewrite app_nil_r. apply Hren.
          -- exact Hnd.
          -- exact Hndr.
  Qed.

  (** ** membership characterisation *)
  Definition left_only (l r : state) (q : P) (d : D) : Prop := lookup q l = Some d /\ lookup q r = None.
  Definition right_only (l r : state) (q : P) (d : D) : Prop := lookup q r = Some d /\ lookup q l = None.

  Lemma flat_map_ext_in' {A B} (f g : A -> list B) l :
    (forall a, In a l -> f a = g a) -> flat_map f l = flat_map g l.
  Proof.
    induction l as [|a l IH]; cbn; [reflexivity|]. intros H.
    rewrite (H a (or_introl eq_refl)), IH; [reflexivity|]. intros x Hx. apply H. right; exact Hx.
  Qed.

  Lemma in_lo_paths l r q d : NoDup (keys l) -> (In q (lo_paths r l d) <-> left_only l r q d).
  Proof.
    intros ND. unfold lo_paths, left_only. rewrite in_flat_map. split.
    - intros [[p x] [Hin H]]. cbn [fst snd] in H.
      destruct (lookup p r) eqn:ER; [destruct H|]. destruct (deqb x d) eqn:E; [|destruct H].
      destruct H as [H|[]]. subst q. apply deqb_spec in E. subst x.
      split; [apply in_lookup; assumption|exact ER].
    - intros [Hl Hr]. exists (q, d). split; [apply lookup_some_in, Hl|].
      cbn [fst snd]. rewrite Hr, deqb_refl. left; reflexivity.
  Qed.

  Lemma in_both l r p : In p (both r l) <-> In p (keys l) /\ lookup p r <> None.
  Proof.
    unfold both. rewrite in_flat_map. split.
    - intros [[q x] [Hin H]]. cbn [fst] in H. destruct (lookup q r) eqn:ER; [|destruct H].
      destruct H as [H|[]]. subst q. split; [eapply in_keys, Hin|congruence].
    - intros [Hk Hr]. apply in_map_iff in Hk. destruct Hk as [[q x] [Heq Hin]]. cbn in Heq. subst q.
      exists (p, x). split; [exact Hin|]. cbn [fst]. destruct (lookup p r); [left; reflexivity|contradiction].
  Qed.

  Lemma seen_false l r seen q x :
    (forall p, In p seen <-> In p (both r l)) -> In (q, x) r ->
    pmem q seen = match lookup q l with Some _ => true | None => false end.
  Proof.
    intros Hs Hin. destruct (pmem q seen) eqn:E.
    - apply pmem_spec, Hs, in_both in E. destruct E as [Hk _].
      apply lookup_in_keys in Hk. destruct Hk as [d' Hk]. rewrite Hk. reflexivity.
    - apply pmem_false in E. destruct (lookup q l) eqn:EL; [|reflexivity]. exfalso.
      apply E, Hs, in_both. split; [eapply in_keys, lookup_some_in, EL|].
      apply in_keys, lookup_in_keys in Hin. destruct Hin as [y Hy]. congruence.
  Qed.

  Lemma ro_paths_eq l r seen d :
    (forall p, In p seen <-> In p (both r l)) -> ro_paths seen r d = lo_paths l r d.
  Proof.
    intros Hs. unfold ro_paths, lo_paths. apply flat_map_ext_in'. intros [q x] Hin. cbn [fst snd].
    rewrite (seen_false l r seen q x Hs Hin). destruct (lookup q l); reflexivity.
  Qed.

  (** the Added entries in terms of the two states only *)
  Definition adds_spec (l r : state) : list dentry :=
    flat_map (fun e => match lookup (fst e) l with
                       | Some _ => []
                       | None => match lo_paths r l (snd e) with [] => [Added (fst e)] | _ => [] end
                       end) r.

  Lemma adds_eq l r seen dels0 :
    (forall p, In p seen <-> In p (both r l)) -> (forall d, getl d dels0 = lo_paths r l d) ->
    adds seen dels0 r = adds_spec l r.
  Proof.
    intros Hs Hd. unfold adds, adds_spec. apply flat_map_ext_in'. intros [q x] Hin. cbn [fst snd].
    rewrite (seen_false l r seen q x Hs Hin), Hd. destruct (lookup q l); reflexivity.
  Qed.

  Lemma aget_dels0 dels0 r l d :
    dels_wf dels0 -> (forall d, getl d dels0 = lo_paths r l d) ->
    aget d dels0 = match lo_paths r l d with [] => None | v => Some v end.
  Proof.
    intros [_ Hne] Hd. specialize (Hd d). unfold getl in Hd.
    destruct (aget d dels0) as [v|] eqn:E.
    - subst v. destruct (lo_paths r l d) eqn:E2; [|reflexivity]. exfalso. eapply Hne; [exact E|reflexivity].
    - rewrite <- Hd. reflexivity.
  Qed.

  Lemma diff_struct l r :
    exists dels2 rens,
      diff peqb deqb ple (Some l) r = flush ple (mods r l ++ adds_spec l r) dels2 rens /\
      NoDup (map fst dels2) /\ NoDup (map fst rens) /\
      (forall d, aget d dels2 = match lo_paths l r d, lo_paths r l d with
                                | [], (_ :: _) as v => Some v
                                | _, _ => None
                                end) /\
      (forall d, aget d rens = match lo_paths l r d, lo_paths r l d with
                               | (_ :: _) as rn, (_ :: _) as o => Some (o, rn)
                               | _, _ => None
                               end).
  Proof.
    unfold diff. pose proof (left_loop_spec r l) as HL.
    destruct (left_loop peqb deqb l r) as [[ds dels] seen].
    destruct HL as (Hds & Hdel & Hwf & Hseen).
    pose proof (right_loop_spec seen ds dels r Hwf) as HR.
    destruct (right_loop peqb deqb seen r ds dels) as [[ds2 dels2] rens].
    destruct HR as (Hds2 & Hdel2 & Hren & Hnd & Hndr).
    exists dels2, rens. repeat split; try assumption.
    - rewrite Hds2, Hds, (adds_eq l r seen dels Hseen Hdel). reflexivity.
    - intros d. rewrite Hdel2, (ro_paths_eq l r seen d Hseen), (aget_dels0 dels r l d Hwf Hdel).
      destruct (lo_paths l r d), (lo_paths r l d); reflexivity.
    - intros d. rewrite Hren, (ro_paths_eq l r seen d Hseen), Hdel.
      destruct (lo_paths l r d), (lo_paths r l d); reflexivity.
  Qed.

  Lemma in_flush e ds (dels : list (D * list P)) (rens : list (D * (list P * list P))) :
    In e (flush ple ds dels rens) <->
    In e ds \/ (exists k v q, In (k, v) dels /\ In q v /\ e = Deleted q) \/
    (exists k o rn, In (k, (o, rn)) rens /\ e = Renamed (sort_paths ple o) (sort_paths ple rn)).
  Proof.
    unfold flush. rewrite !in_app_iff, in_flat_map, in_map_iff. split.
    - intros [H|[H|H]].
      + left; exact H.
      + right; left. destruct H as [[k v] [Hin H]]. cbn [snd] in H. apply in_map_iff in H.
        destruct H as [q [Hq Hqv]]. exists k, v, q. repeat split; auto.
      + right; right. destruct H as [[k [o rn]] [Heq Hin]]. cbn [fst snd] in Heq. exists k, o, rn. split; auto.
    - intros [H|[H|H]].
      + left; exact H.
      + right; left. destruct H as (k & v & q & Hin & Hq & He). exists (k, v). split; [exact Hin|].
        cbn [snd]. apply in_map_iff. exists q. split; auto.
      + right; right. destruct H as (k & o & rn & Hin & He). exists (k, (o, rn)). split; [symmetry; exact He|exact Hin].
  Qed.

  Lemma in_mods l r e : NoDup (keys l) ->
    (In e (mods r l) <-> exists p dl dr, e = Modified p /\ lookup p l = Some dl /\ lookup p r = Some dr /\ dl <> dr).
  Proof.
    intros ND. unfold mods. rewrite in_flat_map. split.
    - intros [[p x] [Hin H]]. cbn [fst snd] in H. destruct (lookup p r) as [rd|] eqn:ER; [|destruct H].
      destruct (deqb x rd) eqn:E; [destruct H|]. destruct H as [H|[]].
      exists p, x, rd. repeat split; [symmetry; exact H|apply in_lookup; assumption|exact ER|apply deqb_false, E].
    - intros (p & dl & dr & He & Hl & Hr & Hne). exists (p, dl). split; [apply lookup_some_in, Hl|].
      cbn [fst snd]. rewrite Hr. apply deqb_false in Hne. rewrite Hne. left; symmetry; exact He.
  Qed.

  Lemma in_adds_spec l r e : NoDup (keys r) ->
    (In e (adds_spec l r) <-> exists p d, e = Added p /\ right_only l r p d /\ lo_paths r l d = []).
  Proof.
    intros ND. unfold adds_spec, right_only. rewrite in_flat_map. split.
    - intros [[p x] [Hin H]]. cbn [fst snd] in H. destruct (lookup p l) eqn:EL; [destruct H|].
      destruct (lo_paths r l x) eqn:Elo; [|destruct H]. destruct H as [H|[]].
      exists p, x. repeat split; [symmetry; exact H|apply in_lookup; assumption|exact EL|exact Elo].
    - intros (p & d & He & [Hr Hl] & Hlo). exists (p, d). split; [apply lookup_some_in, Hr|].
      cbn [fst snd]. rewrite Hl, Hlo. left; symmetry; exact He.
  Qed.

  (** membership in the diff, still phrased with the path lists of one digest *)
  Lemma diff_in l r e : NoDup (keys l) -> NoDup (keys r) ->
    (In e (diff peqb deqb ple (Some l) r) <->
     (exists p dl dr, e = Modified p /\ lookup p l = Some dl /\ lookup p r = Some dr /\ dl <> dr) \/
     (exists p d, e = Added p /\ right_only l r p d /\ lo_paths r l d = []) \/
     (exists p d, e = Deleted p /\ left_only l r p d /\ lo_paths l r d = []) \/
     (exists d, e = Renamed (sort_paths ple (lo_paths r l d)) (sort_paths ple (lo_paths l r d)) /\
                lo_paths r l d <> [] /\ lo_paths l r d <> [])).
  Proof.
    intros NDl NDr. destruct (diff_struct l r) as (dels2 & rens & Heq & Hnd & Hndr & Hdel & Hren).
    rewrite Heq, in_flush, in_app_iff, (in_mods l r e NDl), (in_adds_spec l r e NDr).
    split.
    - intros [[H|H]|[H|H]].
      + left; exact H.
      + right; left; exact H.
      + right; right; left. destruct H as (k & v & q & Hin & Hq & He).
        apply (in_aget _ _ _ _ Hnd) in Hin. rewrite Hdel in Hin.
        destruct (lo_paths l r k) eqn:E1; [|discriminate].
        destruct (lo_paths r l k) eqn:E2; [discriminate|]. inversion Hin. subst v.
        exists q, k. split; [exact He|split; [|exact E1]]. rewrite <- E2 in Hq. apply (in_lo_paths l r q k NDl), Hq.
      + right; right; right. destruct H as (k & o & rn & Hin & He).
        apply (in_aget _ _ _ _ Hndr) in Hin. rewrite Hren in Hin.
        destruct (lo_paths l r k) eqn:E1; [discriminate|].
        destruct (lo_paths r l k) eqn:E2; [discriminate|]. inversion Hin. subst o rn.
        exists k. rewrite E1, E2. split; [exact He|split; discriminate].
    - intros [H|[H|[H|H]]].
      + left; left; exact H.
      + left; right; exact H.
      + right; left. destruct H as (q & d & He & Hlo & Hro).
        apply (in_lo_paths l r q d NDl) in Hlo.
        exists d, (lo_paths r l d), q. split; [|split; [exact Hlo|exact He]].
        apply aget_in. rewrite Hdel, Hro. destruct (lo_paths r l d); [destruct Hlo|reflexivity].
      + right; right. destruct H as (d & He & Hlo & Hro).
        exists d, (lo_paths r l d), (lo_paths l r d). split; [|exact He].
        apply aget_in. rewrite Hren. destruct (lo_paths l r d); [contradiction|].
        destruct (lo_paths r l d); [contradiction|reflexivity].
  Qed.

  Lemma lo_paths_nil l r d : NoDup (keys l) -> (lo_paths r l d = [] <-> ~ exists q, left_only l r q d).
  Proof.
    intros ND. split.
    - intros H [q Hq]. apply (in_lo_paths l r q d ND) in Hq. rewrite H in Hq. destruct Hq.
    - intros H. destruct (lo_paths r l d) as [|q t] eqn:E; [reflexivity|]. exfalso. apply H. exists q.
      apply (in_lo_paths l r q d ND). rewrite E. left; reflexivity.
  Qed.

  Lemma lo_paths_cons l r d : NoDup (keys l) -> (lo_paths r l d <> [] <-> exists q, left_only l r q d).
  Proof.
    intros ND. split.
    - intros H. destruct (lo_paths r l d) as [|q t] eqn:E; [contradiction|]. exists q.
      apply (in_lo_paths l r q d ND). rewrite E. left; reflexivity.
    - intros [q Hq] H. apply (in_lo_paths l r q d ND) in Hq. rewrite H in Hq. destruct Hq.
  Qed.

  Lemma right_left_only l r q d : right_only l r q d <-> left_only r l q d.
  Proof. unfold right_only, left_only. tauto. Qed.

  (** The characterisation of Version::diff by membership facts about the two states. *)
  Theorem diff_characterisation l r : NoDup (keys l) -> NoDup (keys r) ->
    let ds := diff peqb deqb ple (Some l) r in
    (forall p, In (Added p) ds <->
               exists d, right_only l r p d /\ ~ exists q, left_only l r q d) /\
    (forall p, In (Modified p) ds <->
               exists dl dr, lookup p l = Some dl /\ lookup p r = Some dr /\ dl <> dr) /\
    (forall p, In (Deleted p) ds <->
               exists d, left_only l r p d /\ ~ exists q, right_only l r q d) /\
    (forall O R, In (Renamed O R) ds ->
               exists d, O <> [] /\ R <> [] /\ NoDup O /\ NoDup R /\
                         (forall q, In q O <-> left_only l r q d) /\
                         (forall q, In q R <-> right_only l r q d)) /\
    (forall d, (exists q, left_only l r q d) -> (exists q, right_only l r q d) ->
               exists O R, In (Renamed O R) ds /\
                           (forall q, In q O <-> left_only l r q d) /\
                           (forall q, In q R <-> right_only l r q d)).
  Proof.
    intros NDl NDr ds. subst ds.
    assert (NDlo : forall (a c : state) x, NoDup (keys a) -> NoDup (lo_paths c a x)).
    { intros a c x. unfold lo_paths. induction a as [|[q y] a IH]; cbn; [constructor|].
      intros ND. inversion ND as [|z zs NI ND']. subst.
      destruct (lookup q c); [apply IH, ND'|]. destruct (deqb y x); [|apply IH, ND'].
      cbn. constructor; [|apply IH, ND']. intros Hin. apply NI.
      apply in_flat_map in Hin. destruct Hin as [[q' y'] [Hin Hq]]. cbn [fst snd] in Hq.
      destruct (lookup q' c); [destruct Hq|]. destruct (deqb y' x); [|destruct Hq].
      destruct Hq as [Hq|[]]. subst q'. eapply in_keys, Hin. }
    assert (HO : forall d q, In q (sort_paths ple (lo_paths r l d)) <-> left_only l r q d).
    { intros d q. rewrite sort_paths_in. apply in_lo_paths, NDl. }
    assert (HR : forall d q, In q (sort_paths ple (lo_paths l r d)) <-> right_only l r q d).
    { intros d q. rewrite sort_paths_in, right_left_only. apply in_lo_paths, NDr. }
    split; [|split; [|split; [|split]]].
    - intros p. split.
      + intros H. apply (diff_in l r _ NDl NDr) in H.
        destruct H as [(q & dl & dr & He & _)|[(q & d & He & Hro & Hlo)|[(q & d & He & _)|(d & He & _)]]];
          try discriminate.
        inversion He. subst q. exists d. split; [exact Hro|]. apply (lo_paths_nil l r d NDl), Hlo.
      + intros (d & Hro & Hlo). apply (diff_in l r _ NDl NDr). right; left.
        exists p, d. split; [reflexivity|split; [exact Hro|]]. apply (lo_paths_nil l r d NDl), Hlo.
    - intros p. split.
      + intros H. apply (diff_in l r _ NDl NDr) in H.
        destruct H as [(q & dl & dr & He & H)|[(q & d & He & _)|[(q & d & He & _)|(d & He & _)]]];
          try discriminate.
        inversion He. subst q. exists dl, dr. exact H.
      + intros (dl & dr & H). apply (diff_in l r _ NDl NDr). left. exists p, dl, dr. split; [reflexivity|exact H].
    - intros p. split.
      + intros H. apply (diff_in l r _ NDl NDr) in H.
        destruct H as [(q & dl & dr & He & _)|[(q & d & He & _)|[(q & d & He & Hlo & Hro)|(d & He & _)]]];
          try discriminate.
        inversion He. subst q. exists d. split; [exact Hlo|].
        intros [q Hq]. apply right_left_only in Hq. apply (lo_paths_nil r l d NDr) in Hro. apply Hro. exists q; exact Hq.
      + intros (d & Hlo & Hro). apply (diff_in l r _ NDl NDr). right; right; left.
        exists p, d. split; [reflexivity|split; [exact Hlo|]]. apply (lo_paths_nil r l d NDr).
        intros [q Hq]. apply Hro. exists q. apply right_left_only, Hq.
    - intros O R H. apply (diff_in l r _ NDl NDr) in H.
      destruct H as [(q & dl & dr & He & _)|[(q & d & He & _)|[(q & d & He & _)|(d & He & Hlo & Hro)]]];
        try discriminate.
      inversion He. subst O R. exists d.
      split; [rewrite sort_paths_nil; exact Hlo|].
      split; [rewrite sort_paths_nil; exact Hro|].
      split; [apply sort_paths_nodup, NDlo, NDl|].
      split; [apply sort_paths_nodup, NDlo, NDr|].
      split; [apply HO|apply HR].
    - intros d Hlo Hro.
      exists (sort_paths ple (lo_paths r l d)), (sort_paths ple (lo_paths l r d)).
      split; [|split; [apply HO|apply HR]].
      apply (diff_in l r _ NDl NDr). right; right; right. exists d.
      split; [reflexivity|split].
      + apply (lo_paths_cons l r d NDl), Hlo.
      + apply (lo_paths_cons r l d NDr). destruct Hro as [q Hq]. exists q. apply right_left_only, Hq.
  Qed.

  (** ** applying the report *)
  Lemma in_removed (ds : list dentry) p :
    In p (removed ds) <-> In (Deleted p) ds \/ exists O R, In (Renamed O R) ds /\ In p O.
  Proof.
    unfold removed. rewrite in_flat_map. split.
    - intros [e [Hin H]]. destruct e as [q|q|q|O R].
      + destruct H.
      + destruct H.
      + left. destruct H as [H|[]]. subst q. exact Hin.
      + right. exists O, R. split; assumption.
    - intros [H|(O & R & Hin & Hp)].
      + exists (Deleted p). split; [exact H|left; reflexivity].
      + exists (Renamed O R). split; assumption.
  Qed.

  Lemma in_inserted (ds : list dentry) p :
    In p (inserted ds) <-> In (Added p) ds \/ exists O R, In (Renamed O R) ds /\ In p R.
  Proof.
    unfold inserted. rewrite in_flat_map. split.
    - intros [e [Hin H]]. destruct e as [q|q|q|O R].
      + left. destruct H as [H|[]]. subst q. exact Hin.
      + destruct H.
      + destruct H.
      + right. exists O, R. split; assumption.
    - intros [H|(O & R & Hin & Hp)].
      + exists (Added p). split; [exact H|left; reflexivity].
      + exists (Renamed O R). split; assumption.
  Qed.

  Lemma left_only_dec l r d : NoDup (keys l) ->
    (exists q, left_only l r q d) \/ ~ (exists q, left_only l r q d).
  Proof.
    intros ND. destruct (lo_paths r l d) eqn:E.
    - right. apply (lo_paths_nil l r d ND), E.
    - left. apply (lo_paths_cons l r d ND). rewrite E. discriminate.
  Qed.

  Lemma right_only_dec l r d : NoDup (keys r) ->
    (exists q, right_only l r q d) \/ ~ (exists q, right_only l r q d).
  Proof.
    intros ND. destruct (left_only_dec r l d ND) as [[q H]|H].
    - left. exists q. apply right_left_only, H.
    - right. intros [q Hq]. apply H. exists q. apply right_left_only, Hq.
  Qed.

  Lemma removed_diff l r p : NoDup (keys l) -> NoDup (keys r) ->
    (In p (removed (diff peqb deqb ple (Some l) r)) <-> exists d, left_only l r p d).
  Proof.
    intros NDl NDr. destruct (diff_characterisation l r NDl NDr) as (HA & HM & HD & HR1 & HR2).
    rewrite in_removed. split.
    - intros [H|(O & R & Hin & Hp)].
      + apply HD in H. destruct H as (d & H & _). exists d; exact H.
      + destruct (HR1 O R Hin) as (d & _ & _ & _ & _ & HO & _). exists d. apply HO, Hp.
    - intros [d Hl]. destruct (right_only_dec l r d NDr) as [Hr|Hr].
      + right. destruct (HR2 d (ex_intro _ p Hl) Hr) as (O & R & Hin & HO & _).
        exists O, R. split; [exact Hin|apply HO, Hl].
      + left. apply HD. exists d. split; assumption.
  Qed.

  Lemma inserted_diff l r p : NoDup (keys l) -> NoDup (keys r) ->
    (In p (inserted (diff peqb deqb ple (Some l) r)) <-> exists d, right_only l r p d).
  Proof.
    intros NDl NDr. destruct (diff_characterisation l r NDl NDr) as (HA & HM & HD & HR1 & HR2).
    rewrite in_inserted. split.
    - intros [H|(O & R & Hin & Hp)].
      + apply HA in H. destruct H as (d & H & _). exists d; exact H.
      + destruct (HR1 O R Hin) as (d & _ & _ & _ & _ & _ & HR). exists d. apply HR, Hp.
    - intros [d Hr]. destruct (left_only_dec l r d NDl) as [Hl|Hl].
      + right. destruct (HR2 d Hl (ex_intro _ p Hr)) as (O & R & Hin & _ & HR).
        exists O, R. split; [exact Hin|apply HR, Hr].
      + left. apply HA. exists d. split; assumption.
  Qed.

  Theorem diff_apply l r : NoDup (keys l) -> NoDup (keys r) ->
    forall p, In p (apply_diff peqb (diff peqb deqb ple (Some l) r) (keys l)) <-> In p (keys r).
  Proof.
    intros NDl NDr p. unfold apply_diff. rewrite in_app_iff, filter_In, negb_true_iff, pmem_false.
    rewrite (removed_diff l r p NDl NDr), (inserted_diff l r p NDl NDr). unfold left_only, right_only.
    rewrite !lookup_in_keys. split.
    - intros [[[d Hl] Hn]|[d [Hr _]]].
      + destruct (lookup p r) as [x|] eqn:E; [exists x; reflexivity|].
        exfalso. apply Hn. exists d. split; [exact Hl|reflexivity].
      + exists d; exact Hr.
    - intros [d Hr]. destruct (lookup p l) as [x|] eqn:E.
      + left. split; [exists x; reflexivity|]. intros [y [_ Hy]]. congruence.
      + right. exists d. split; [exact Hr|reflexivity].
  Qed.

  (** applying an empty report changes nothing *)
  Lemma apply_diff_nil ps : apply_diff peqb [] ps = ps.
  Proof.
    unfold apply_diff. cbn. rewrite app_nil_r. induction ps as [|a ps IH]; cbn; [reflexivity|]. rewrite IH. reflexivity.
  Qed.

  (** ** a state diffed with itself *)
  Theorem diff_self_nil s : NoDup (keys s) -> diff peqb deqb ple (Some s) s = [].
  Proof.
    intros ND. destruct (diff_characterisation s s ND ND) as (HA & HM & HD & HR1 & _).
    destruct (diff peqb deqb ple (Some s) s) as [|e t] eqn:E; [reflexivity|]. exfalso.
    destruct e as [p|p|p|O R].
    - destruct (proj1 (HA p) (or_introl eq_refl)) as (d & [H1 H2] & _). congruence.
    - destruct (proj1 (HM p) (or_introl eq_refl)) as (dl & dr & H1 & H2 & H3). congruence.
    - destruct (proj1 (HD p) (or_introl eq_refl)) as (d & [H1 H2] & _). congruence.
    - destruct (HR1 O R (or_introl eq_refl)) as (d & HO & _ & _ & _ & HO' & _).
      destruct O as [|q O1]; [contradiction|]. destruct (proj1 (HO' q) (or_introl eq_refl)) as [H1 H2]. congruence.
  Qed.

  (** ** independence of the iteration order *)
  Definition entry_equiv (e e' : dentry) : Prop :=
    match e, e' with
    | Added p, Added p' => p = p'
    | Modified p, Modified p' => p = p'
    | Deleted p, Deleted p' => p = p'
    | Renamed o1 r1, Renamed o2 r2 => (forall q, In q o1 <-> In q o2) /\ (forall q, In q r1 <-> In q r2)
    | _, _ => False
    end.
  Definition diff_incl (a c : list dentry) : Prop :=
    forall e, In e a -> exists e', In e' c /\ entry_equiv e e'.
  Definition diff_equiv (a c : list dentry) : Prop := diff_incl a c /\ diff_incl c a.

  Lemma diff_ext_half l r l' r' :
    NoDup (keys l) -> NoDup (keys r) -> NoDup (keys l') -> NoDup (keys r') ->
    (forall p, lookup p l = lookup p l') -> (forall p, lookup p r = lookup p r') ->
    diff_incl (diff peqb deqb ple (Some l) r) (diff peqb deqb ple (Some l') r').
  Proof.
    intros NDl NDr NDl' NDr' Hl Hr.
    destruct (diff_characterisation l r NDl NDr) as (HA & HM & HD & HR1 & HR2).
    destruct (diff_characterisation l' r' NDl' NDr') as (HA' & HM' & HD' & HR1' & HR2').
    assert (Hlo : forall q d, left_only l r q d <-> left_only l' r' q d)
      by (intros q d; unfold left_only; rewrite Hl, Hr; tauto).
    assert (Hro : forall q d, right_only l r q d <-> right_only l' r' q d)
      by (intros q d; unfold right_only; rewrite Hl, Hr; tauto).
    intros e Hin. destruct e as [p|p|p|O R].
    - exists (Added p). split; [|reflexivity]. apply HA'. apply HA in Hin. destruct Hin as (d & H1 & H2).
      exists d. split; [apply Hro, H1|]. intros [q Hq]. apply H2. exists q. apply Hlo, Hq.
    - exists (Modified p). split; [|reflexivity]. apply HM'. apply HM in Hin. rewrite <- Hl, <- Hr. exact Hin.
    - exists (Deleted p). split; [|reflexivity]. apply HD'. apply HD in Hin. destruct Hin as (d & H1 & H2).
      exists d. split; [apply Hlo, H1|]. intros [q Hq]. apply H2. exists q. apply Hro, Hq.
    - destruct (HR1 O R Hin) as (d & HO & HR & _ & _ & HO' & HR').
      destruct O as [|qo O0] eqn:EO; [contradiction|]. destruct R as [|qr R0] eqn:ER; [contradiction|].
      rewrite <- EO in *. rewrite <- ER in *.
      assert (H1 : exists q, left_only l' r' q d).
      { exists qo. apply Hlo, HO'. rewrite EO. left; reflexivity. }
      assert (H2 : exists q, right_only l' r' q d).
      { exists qr. apply Hro, HR'. rewrite ER. left; reflexivity. }
      destruct (HR2' d H1 H2) as (O' & R' & Hin' & HO'' & HR'').
      exists (Renamed O' R'). split; [exact Hin'|]. cbn. split; intros q.
      + rewrite HO', HO'', Hlo. reflexivity.
      + rewrite HR', HR'', Hro. reflexivity.
  Qed.

  Theorem diff_ext l r l' r' :
    NoDup (keys l) -> NoDup (keys r) -> NoDup (keys l') -> NoDup (keys r') ->
    (forall p, lookup p l = lookup p l') -> (forall p, lookup p r = lookup p r') ->
    diff_equiv (diff peqb deqb ple (Some l) r) (diff peqb deqb ple (Some l') r').
  Proof.
    intros NDl NDr NDl' NDr' Hl Hr. split.
    - apply diff_ext_half; assumption.
    - apply diff_ext_half; try assumption; intros p; symmetry; [apply Hl|apply Hr].
  Qed.

  Lemma keys_perm (s s' : state) : Permutation s s' -> Permutation (keys s) (keys s').
  Proof. apply Permutation_map. Qed.

  Lemma lookup_perm (s s' : state) : Permutation s s' -> NoDup (keys s) -> forall p, lookup p s = lookup p s'.
  Proof.
    intros HP ND p. assert (ND' : NoDup (keys s')) by (eapply Permutation_NoDup; [apply keys_perm, HP|exact ND]).
    destruct (lookup p s) as [d|] eqn:E.
    - symmetry. apply in_lookup; [exact ND'|]. eapply Permutation_in; [exact HP|]. apply lookup_some_in, E.
    - symmetry. apply lookup_none. intros H. apply lookup_none in E. apply E.
      eapply Permutation_in; [apply Permutation_sym, keys_perm, HP|exact H].
  Qed.

  (** The HashMap iteration orders do not matter: for all permutations of the two
      states the reports are equal as sets (Renamed compared as a pair of sets). *)
  Theorem diff_order_independent l r l' r' :
    NoDup (keys l) -> NoDup (keys r) -> Permutation l l' -> Permutation r r' ->
    diff_equiv (diff peqb deqb ple (Some l) r) (diff peqb deqb ple (Some l') r') /\
    diff_equiv (diff peqb deqb ple None r) (diff peqb deqb ple None r').
  Proof.
    intros NDl NDr Pl Pr. split.
    - apply diff_ext; try assumption.
      + eapply Permutation_NoDup; [apply keys_perm, Pl|exact NDl].
      + eapply Permutation_NoDup; [apply keys_perm, Pr|exact NDr].
      + apply lookup_perm; assumption.
      + apply lookup_perm; assumption.
    - cbn [diff]. split; intros e Hin; apply in_map_iff in Hin; destruct Hin as [[p d] [He Hin]]; subst e;
        exists (Added p); (split; [|reflexivity]); apply in_map_iff; exists (p, d); (split; [reflexivity|]).
      + eapply Permutation_in; [exact Pr|exact Hin].
      + eapply Permutation_in; [apply Permutation_sym, Pr|exact Hin].
  Qed.

  (** with no left version everything is an Add *)
  Lemma diff_none_in r e : In e (diff peqb deqb ple None r) <-> exists p, e = Added p /\ In p (keys r).
  Proof.
    cbn [diff]. rewrite in_map_iff. split.
    - intros [[p d] [He Hin]]. exists p. split; [symmetry; exact He|eapply in_keys, Hin].
    - intros [p [He Hin]]. apply in_map_iff in Hin. destruct Hin as [[q d] [Hq Hin]]. cbn in Hq. subst q.
      exists (p, d). split; [symmetry; exact He|exact Hin].
  Qed.

  (** ** every path is mentioned at most once *)
  Lemma nodup_app {A} (a c : list A) :
    NoDup a -> NoDup c -> (forall x, In x a -> ~ In x c) -> NoDup (a ++ c).
  Proof.
    induction a as [|x a IH]; cbn; intros Ha Hc Hd; [exact Hc|].
    inversion Ha as [|y ys NI Ha']. subst. constructor.
    - intros H. apply in_app_or in H. destruct H as [H|H]; [contradiction|]. apply (Hd x); [left; reflexivity|exact H].
    - apply IH; [exact Ha'|exact Hc|]. intros z Hz. apply Hd. right; exact Hz.
  Qed.

  Lemma nodup_flat_map {A B} (f : A -> list B) l :
    NoDup l -> (forall a, In a l -> NoDup (f a)) ->
    (forall a a', In a l -> In a' l -> a <> a' -> forall x, In x (f a) -> ~ In x (f a')) ->
    NoDup (flat_map f l).
  Proof.
    induction l as [|a l IH]; cbn [flat_map]; intros Hl Hf Hd; [constructor|].
    inversion Hl as [|y ys NI Hl']. subst. apply nodup_app.
    - apply Hf. left; reflexivity.
    - apply IH; [exact Hl'| |].
      + intros c Hc. apply Hf. right; exact Hc.
      + intros c c' Hc Hc'. apply Hd; right; assumption.
    - intros x Hx H. apply in_flat_map in H. destruct H as [c [Hc Hxc]].
      refine (Hd a c (or_introl eq_refl) (or_intror Hc) _ x Hx Hxc).
      intros E. subst c. contradiction.
  Qed.

  Lemma nodup_filtermap_keys (g : P * D -> bool) (s : state) :
    NoDup (keys s) -> NoDup (flat_map (fun e => if g e then [fst e] else []) s).
  Proof.
    induction s as [|[p d] s IH]; cbn; intros ND; [constructor|].
    inversion ND as [|y ys NI ND']. subst. destruct (g (p, d)); cbn; [|apply IH, ND'].
    constructor; [|apply IH, ND']. intros H. apply NI. apply in_flat_map in H.
    destruct H as [[q x] [Hin Hq]]. destruct (g (q, x)); [|destruct Hq]. destruct Hq as [Hq|[]]. cbn in Hq. subst q.
    eapply in_keys, Hin.
  Qed.

  Lemma lo_paths_nodup (a c : state) x : NoDup (keys a) -> NoDup (lo_paths c a x).
  Proof.
    intros ND. unfold lo_paths.
    rewrite (flat_map_ext_in' _ (fun e => if (match lookup (fst e) c with None => deqb (snd e) x | Some _ => false end)
                                          then [fst e] else []) a).
    - apply nodup_filtermap_keys, ND.
    - intros [q y] _. cbn [fst snd]. destruct (lookup q c); [reflexivity|]. destruct (deqb y x); reflexivity.
  Qed.

  Lemma mentions_app (a c : list dentry) : mentions (a ++ c) = mentions a ++ mentions c.
  Proof. unfold mentions. apply flat_map_app. Qed.

  Lemma mentions_flat_map {A} (F : A -> list dentry) s :
    mentions (flat_map F s) = flat_map (fun a => mentions (F a)) s.
  Proof.
    induction s as [|a s IH]; [reflexivity|]. cbn [flat_map]. rewrite mentions_app, IH. reflexivity.
  Qed.

  Definition gm (r : state) (e : P * D) : bool :=
    match lookup (fst e) r with Some rd => negb (deqb (snd e) rd) | None => false end.
  Definition ga (l r : state) (e : P * D) : bool :=
    match lookup (fst e) l with
    | Some _ => false
    | None => match lo_paths r l (snd e) with [] => true | _ => false end
    end.

  Lemma mentions_mods l r : mentions (mods r l) = flat_map (fun e => if gm r e then [fst e] else []) l.
  Proof.
    unfold mods. rewrite mentions_flat_map. apply flat_map_ext_in'. intros [p d] _. unfold gm. cbn [fst snd].
    destruct (lookup p r) as [rd|]; [|reflexivity]. destruct (deqb d rd); reflexivity.
  Qed.

  Lemma mentions_adds_spec l r : mentions (adds_spec l r) = flat_map (fun e => if ga l r e then [fst e] else []) r.
  Proof.
    unfold adds_spec. rewrite mentions_flat_map. apply flat_map_ext_in'. intros [p d] _. unfold ga. cbn [fst snd].
    destruct (lookup p l); [reflexivity|]. destruct (lo_paths r l d); reflexivity.
  Qed.

  Lemma mentions_deleted (v : list P) : mentions (map Deleted v) = v.
  Proof. induction v as [|p v IH]; [reflexivity|]. cbn. unfold mentions in IH. rewrite IH. reflexivity. Qed.

  Lemma mentions_flush ds (dels : list (D * list P)) (rens : list (D * (list P * list P))) :
    mentions (flush ple ds dels rens) =
    mentions ds ++ flat_map snd dels ++
    flat_map (fun kv => sort_paths ple (fst (snd kv)) ++ sort_paths ple (snd (snd kv))) rens.
  Proof.
    unfold flush. rewrite !mentions_app. f_equal. f_equal.
    - rewrite mentions_flat_map. apply flat_map_ext_in'. intros [k v] _. apply mentions_deleted.
    - induction rens as [|[k [o rn]] rens IH]; [reflexivity|]. cbn [map flat_map fst snd].
      change (mentions (?a :: ?t)) with (mention a ++ mentions t). rewrite IH. reflexivity.
  Qed.

  Lemma nodup_pairs_of_keys {V} (m : list (D * V)) : NoDup (map fst m) -> NoDup m.
  Proof.
    induction m as [|[k v] m IH]; cbn; intros ND; [constructor|].
    inversion ND as [|y ys NI ND']. subst. constructor; [|apply IH, ND'].
    intros H. apply NI. apply in_map_iff. exists (k, v). split; [reflexivity|exact H].
  Qed.

  (** no path is mentioned twice by the report (in particular no entry is repeated) *)
  Theorem diff_mentions_nodup l r : NoDup (keys l) -> NoDup (keys r) ->
    NoDup (mentions (diff peqb deqb ple (Some l) r)).
  Proof.
    intros NDl NDr. destruct (diff_struct l r) as (dels2 & rens & Heq & Hnd & Hndr & Hdel & Hren).
    rewrite Heq, mentions_flush, mentions_app, mentions_mods, mentions_adds_spec.
    (* membership facts of the four segments *)
    assert (FA1 : forall q, In q (flat_map (fun e => if gm r e then [fst e] else []) l) ->
                            lookup q l <> None /\ lookup q r <> None).
    { intros q H. apply in_flat_map in H. destruct H as [[p d] [Hin Hq]]. unfold gm in Hq. cbn [fst snd] in Hq.
      destruct (lookup p r) as [rd|] eqn:ER; [|destruct Hq]. destruct (negb (deqb d rd)); [|destruct Hq].
      destruct Hq as [Hq|[]]. subst q. split; [|congruence].
      rewrite (in_lookup l p d NDl Hin). discriminate. }
    assert (FA2 : forall q, In q (flat_map (fun e => if ga l r e then [fst e] else []) r) ->
                            exists d, right_only l r q d /\ lo_paths r l d = []).
    { intros q H. apply in_flat_map in H. destruct H as [[p d] [Hin Hq]]. unfold ga in Hq. cbn [fst snd] in Hq.
      destruct (lookup p l) eqn:EL; [destruct Hq|]. destruct (lo_paths r l d) eqn:Elo; [|destruct Hq].
      destruct Hq as [Hq|[]]. subst q. exists d. split; [split; [apply in_lookup; assumption|exact EL]|exact Elo]. }
    assert (FB : forall k v, In (k, v) dels2 -> v = lo_paths r l k /\ lo_paths l r k = []).
    { intros k v Hin. apply (in_aget _ _ _ _ Hnd) in Hin. rewrite Hdel in Hin.
      destruct (lo_paths l r k); [|discriminate]. destruct (lo_paths r l k); [discriminate|].
      inversion Hin. split; reflexivity. }
    assert (FC : forall k o rn, In (k, (o, rn)) rens ->
                                o = lo_paths r l k /\ rn = lo_paths l r k /\ o <> [] /\ rn <> []).
    { intros k o rn Hin. apply (in_aget _ _ _ _ Hndr) in Hin. rewrite Hren in Hin.
      destruct (lo_paths l r k); [discriminate|]. destruct (lo_paths r l k); [discriminate|].
      inversion Hin. repeat split; discriminate. }
    assert (FBq : forall q, In q (flat_map snd dels2) -> exists k, left_only l r q k /\ lo_paths l r k = []).
    { intros q H. apply in_flat_map in H. destruct H as [[k v] [Hin Hq]]. cbn [snd] in Hq.
      destruct (FB k v Hin) as [Hv Hro]. subst v. exists k. split; [apply (in_lo_paths l r q k NDl), Hq|exact Hro]. }
    assert (FCq : forall q, In q (flat_map (fun kv : D * (list P * list P) =>
                                     sort_paths ple (fst (snd kv)) ++ sort_paths ple (snd (snd kv))) rens) ->
                            exists k, lo_paths r l k <> [] /\ lo_paths l r k <> [] /\
                                      (left_only l r q k \/ right_only l r q k)).
    { intros q H. apply in_flat_map in H. destruct H as [[k [o rn]] [Hin Hq]]. cbn [fst snd] in Hq.
      destruct (FC k o rn Hin) as (Ho & Hrn & Hone & Hrne). subst o rn. exists k.
      split; [exact Hone|split; [exact Hrne|]]. apply in_app_or in Hq. destruct Hq as [Hq|Hq]; rewrite sort_paths_in in Hq.
      - left. apply (in_lo_paths l r q k NDl), Hq.
      - right. apply right_left_only, (in_lo_paths r l q k NDr), Hq. }
    apply nodup_app; [apply nodup_app|apply nodup_app|].
    - apply nodup_filtermap_keys, NDl.
    - apply nodup_filtermap_keys, NDr.
    - intros q H1 H2. apply FA1 in H1. apply FA2 in H2. destruct H1 as [H1 _]. destruct H2 as (d & [_ H2] & _). contradiction.
    - (* Deleted part *)
      apply nodup_flat_map.
      + apply nodup_pairs_of_keys, Hnd.
      + intros [k v] Hin. cbn [snd]. destruct (FB k v Hin) as [Hv _]. subst v. apply lo_paths_nodup, NDl.
      + intros [k v] [k' v'] Hin Hin' Hne q Hq Hq'. cbn [snd] in *.
        destruct (FB k v Hin) as [Hv _]. destruct (FB k' v' Hin') as [Hv' _]. subst v v'.
        apply (in_lo_paths l r q k NDl) in Hq. apply (in_lo_paths l r q k' NDl) in Hq'.
        destruct Hq as [Hq _]. destruct Hq' as [Hq' _]. assert (k = k') by congruence. subst k'. apply Hne. reflexivity.
    - (* Renamed part *)
      apply nodup_flat_map.
      + apply nodup_pairs_of_keys, Hndr.
      + intros [k [o rn]] Hin. cbn [fst snd]. destruct (FC k o rn Hin) as (Ho & Hrn & _). subst o rn.
        apply nodup_app; [apply sort_paths_nodup, lo_paths_nodup, NDl|apply sort_paths_nodup, lo_paths_nodup, NDr|].
        intros q Hq Hq'. rewrite sort_paths_in in Hq. rewrite sort_paths_in in Hq'.
        apply (in_lo_paths l r q k NDl) in Hq. apply (in_lo_paths r l q k NDr) in Hq'.
        destruct Hq as [Hq _]. destruct Hq' as [_ Hq']. congruence.
      + intros [k [o rn]] [k' [o' rn']] Hin Hin' Hne q Hq Hq'. cbn [fst snd] in *.
        destruct (FC k o rn Hin) as (Ho & Hrn & _). destruct (FC k' o' rn' Hin') as (Ho' & Hrn' & _). subst o rn o' rn'.
        assert (Hk : k <> k') by (intros E; subst k'; apply Hne; reflexivity).
        apply in_app_or in Hq. apply in_app_or in Hq'.
        destruct Hq as [Hq|Hq]; destruct Hq' as [Hq'|Hq']; rewrite sort_paths_in in Hq; rewrite sort_paths_in in Hq'.
        * apply (in_lo_paths l r q k NDl) in Hq. apply (in_lo_paths l r q k' NDl) in Hq'.
          destruct Hq as [Hq _]. destruct Hq' as [Hq' _]. congruence.
        * apply (in_lo_paths l r q k NDl) in Hq. apply (in_lo_paths r l q k' NDr) in Hq'.
          destruct Hq as [Hq _]. destruct Hq' as [_ Hq']. congruence.
        * apply (in_lo_paths r l q k NDr) in Hq. apply (in_lo_paths l r q k' NDl) in Hq'.
          destruct Hq as [_ Hq]. destruct Hq' as [Hq' _]. congruence.
        * apply (in_lo_paths r l q k NDr) in Hq. apply (in_lo_paths r l q k' NDr) in Hq'.
          destruct Hq as [Hq _]. destruct Hq' as [Hq' _]. congruence.
    - intros q H1 H2. apply FBq in H1. apply FCq in H2.
      destruct H1 as (k & [Hl Hr] & Hro). destruct H2 as (k' & Hlo' & Hro' & [[Hl' _]|[_ Hl']]); [|congruence].
      assert (k = k') by congruence. subst k'. contradiction.
    - intros q H1 H2. apply in_app_or in H1. apply in_app_or in H2. destruct H1 as [H1|H1]; destruct H2 as [H2|H2].
      + apply FA1 in H1. apply FBq in H2. destruct H1 as [_ H1]. destruct H2 as (k & [_ H2] & _). contradiction.
      + apply FA1 in H1. apply FCq in H2. destruct H1 as [H1 H1']. destruct H2 as (k & _ & _ & [[_ H2]|[_ H2]]); contradiction.
      + apply FA2 in H1. apply FBq in H2. destruct H1 as (d & [_ H1] & _). destruct H2 as (k & [H2 _] & _). congruence.
      + apply FA2 in H1. apply FCq in H2. destruct H1 as (d & [H1 H1'] & Hlo). destruct H2 as (k & Hlo' & _ & [[H2 _]|[H2 _]]); [congruence|].
        assert (d = k) by congruence. subst k. contradiction.
  Qed.
End DiffFacts.
