(** Facts about the model of Version::diff (Model/Diff.v): association lists,
    the two loops of the rename detector, and the membership characterisation of
    the result.  Everything is proved for arbitrary path / digest types with
    boolean equalities that decide equality (Section hypotheses). *)
From Rocfl Require Import Base.Bytes Model.Diff.
From Coq Require Import ZArith Lia ZifyBool ZifyN ZifyNat Permutation.
Ltac Zify.zify_post_hook ::= Z.div_mod_to_equations.
Arguments N.add : simpl never.
Arguments N.sub : simpl never.
Arguments N.ltb : simpl never.
Arguments N.leb : simpl never.
Arguments N.eqb : simpl never.

Section DiffFacts.
  Variables P D : Type.
  Variable peqb : P -> P -> bool.
  Variable deqb : D -> D -> bool.
  Variable ple : P -> P -> bool.
  Hypothesis peqb_spec : forall x y, peqb x y = true <-> x = y.
  Hypothesis deqb_spec : forall x y, deqb x y = true <-> x = y.

  Notation state := (list (P * D)).
  Notation lookup := (lookup peqb).
  Notation pmem := (pmem peqb).
  Notation aget := (aget deqb).
  Notation aset := (aset deqb).
  Notation adel := (adel deqb).
  Notation dentry := (diff_entry P).

  (** ** boolean equalities *)
  Lemma peqb_refl x : peqb x x = true.
  Proof. apply peqb_spec; reflexivity. Qed.
  Lemma deqb_refl x : deqb x x = true.
  Proof. apply deqb_spec; reflexivity. Qed.
  Lemma peqb_false x y : peqb x y = false <-> x <> y.
  Proof.
    split.
    - intros H E. apply peqb_spec in E. congruence.
    - intros H. destruct (peqb x y) eqn:E; [apply peqb_spec in E; contradiction | reflexivity].
  Qed.
  Lemma deqb_false x y : deqb x y = false <-> x <> y.
  Proof.
    split.
    - intros H E. apply deqb_spec in E. congruence.
    - intros H. destruct (deqb x y) eqn:E; [apply deqb_spec in E; contradiction | reflexivity].
  Qed.
  Lemma deqb_sym x y : deqb x y = deqb y x.
  Proof.
    destruct (deqb x y) eqn:E1, (deqb y x) eqn:E2; try reflexivity.
    - apply deqb_spec in E1. subst. rewrite deqb_refl in E2. discriminate.
    - apply deqb_spec in E2. subst. rewrite deqb_refl in E1. discriminate.
  Qed.
  Lemma D_dec (x y : D) : x = y \/ x <> y.
  Proof. destruct (deqb x y) eqn:E; [left; apply deqb_spec, E | right; apply deqb_false, E]. Qed.
  Lemma P_dec (x y : P) : x = y \/ x <> y.
  Proof. destruct (peqb x y) eqn:E; [left; apply peqb_spec, E | right; apply peqb_false, E]. Qed.

  (** ** lookup *)
  Lemma lookup_some_in (s : state) p d : lookup p s = Some d -> In (p, d) s.
  Proof.
    induction s as [|[q e] s IH]; cbn; [discriminate|].
    destruct (peqb q p) eqn:E.
    - intros H. inversion H. apply peqb_spec in E. subst. left; reflexivity.
    - intros H. right. apply IH, H.
  Qed.

  Lemma lookup_none (s : state) p : lookup p s = None <-> ~ In p (keys s).
  Proof.
    induction s as [|[q e] s IH]; cbn.
    - split; [intros _ []|reflexivity].
    - destruct (peqb q p) eqn:E.
      + apply peqb_spec in E. subst. split; [discriminate|]. intros H. exfalso. apply H. left; reflexivity.
      + apply peqb_false in E. rewrite IH. split.
        * intros H [H1|H1]; [contradiction|apply H, H1].
        * intros H H1. apply H. right; exact H1.
  Qed.

  Lemma in_keys (s : state) p d : In (p, d) s -> In p (keys s).
  Proof. intros H. apply in_map_iff. exists (p, d). split; [reflexivity|exact H]. Qed.

  Lemma in_lookup (s : state) p d : NoDup (keys s) -> In (p, d) s -> lookup p s = Some d.
  Proof.
    induction s as [|[q e] s IH]; cbn; [intros _ []|].
    intros ND [H|H].
    - inversion H. subst. rewrite peqb_refl. reflexivity.
    - inversion ND as [|x xs NI ND']. subst.
      destruct (peqb q p) eqn:E.
      + apply peqb_spec in E. subst. exfalso. apply NI. eapply in_keys, H.
      + apply IH; assumption.
  Qed.

  Lemma lookup_iff (s : state) p d : NoDup (keys s) -> (lookup p s = Some d <-> In (p, d) s).
  Proof. intros ND. split; [apply lookup_some_in | apply in_lookup, ND]. Qed.

  Lemma lookup_in_keys (s : state) p : In p (keys s) <-> exists d, lookup p s = Some d.
  Proof.
    destruct (lookup p s) as [d|] eqn:E.
    - split; [intros _; exists d; reflexivity | intros _; eapply in_keys, lookup_some_in, E].
    - split.
      + intros H. apply lookup_none in E. contradiction.
      + intros [d H]. discriminate.
  Qed.

  Lemma pmem_spec p l : pmem p l = true <-> In p l.
  Proof.
    induction l as [|q l IH]; cbn; [split; [discriminate|intros []]|].
    rewrite orb_true_iff, IH, peqb_spec. reflexivity.
  Qed.
  Lemma pmem_false p l : pmem p l = false <-> ~ In p l.
  Proof.
    rewrite <- pmem_spec. destruct (pmem p l); split; congruence.
  Qed.

  (** ** association lists keyed by digests *)
  Section AMapFacts.
    Variable V : Type.
    Implicit Types m : list (D * V).

    Lemma aget_aset d v m d' : aget d' (aset d v m) = if deqb d d' then Some v else aget d' m.
    Proof.
      induction m as [|[k w] m IH]; cbn.
      - reflexivity.
      - destruct (deqb k d) eqn:E; cbn.
        + apply deqb_spec in E. subst. destruct (deqb d d'); reflexivity.
        + rewrite IH. destruct (deqb k d') eqn:E2; [|reflexivity].
          apply deqb_spec in E2. subst. rewrite deqb_sym, E. reflexivity.
    Qed.

    Lemma aget_adel d m d' : aget d' (adel d m) = if deqb d d' then None else aget d' m.
    Proof.
      induction m as [|[k w] m IH]; cbn.
      - destruct (deqb d d'); reflexivity.
      - destruct (deqb k d) eqn:E; cbn.
        + rewrite IH. apply deqb_spec in E. subst. destruct (deqb d d'); reflexivity.
        + rewrite IH. destruct (deqb k d') eqn:E2; [|reflexivity].
          apply deqb_spec in E2. subst. rewrite deqb_sym, E. reflexivity.
    Qed.

    Lemma akeys_aset_in d v m k : In k (map fst (aset d v m)) -> k = d \/ In k (map fst m).
    Proof.
      induction m as [|[k' w] m IH]; cbn.
      - intros [H|[]]. left; congruence.
      - destruct (deqb k' d) eqn:E; cbn.
        + intros H. right. exact H.
        + intros [H|H]; [right; left; exact H|]. destruct (IH H); [left|right; right]; assumption.
    Qed.

    Lemma akeys_aset d v m : NoDup (map fst m) -> NoDup (map fst (aset d v m)).
    Proof.
      induction m as [|[k w] m IH]; cbn.
      - intros _. constructor; [intros []|constructor].
      - intros ND. inversion ND as [|x xs NI ND']. subst.
        destruct (deqb k d) eqn:E; cbn.
        + constructor; assumption.
        + constructor; [|apply IH, ND'].
          intros H. apply akeys_aset_in in H. destruct H as [H|H]; [|contradiction].
          subst. rewrite deqb_refl in E. discriminate.
    Qed.

    Lemma akeys_adel_in d m k : In k (map fst (adel d m)) -> In k (map fst m).
    Proof.
      induction m as [|[k' w] m IH]; cbn; [intros []|].
      destruct (deqb k' d); cbn.
      - intros H. right. apply IH, H.
      - intros [H|H]; [left; exact H|right; apply IH, H].
    Qed.

    Lemma akeys_adel d m : NoDup (map fst m) -> NoDup (map fst (adel d m)).
    Proof.
      induction m as [|[k w] m IH]; cbn; [intros _; constructor|].
      intros ND. inversion ND as [|x xs NI ND']. subst.
      destruct (deqb k d); cbn; [apply IH, ND'|].
      constructor; [|apply IH, ND']. intros H. apply NI. eapply akeys_adel_in, H.
    Qed.

    Lemma aget_in m k v : aget k m = Some v -> In (k, v) m.
    Proof.
      induction m as [|[k' w] m IH]; cbn; [discriminate|].
      destruct (deqb k' k) eqn:E.
      - intros H. inversion H. apply deqb_spec in E. subst. left; reflexivity.
      - intros H. right. apply IH, H.
    Qed.

    Lemma in_aget m k v : NoDup (map fst m) -> In (k, v) m -> aget k m = Some v.
    Proof.
      induction m as [|[k' w] m IH]; cbn; [intros _ []|].
      intros ND [H|H].
      - inversion H. subst. rewrite deqb_refl. reflexivity.
      - inversion ND as [|x xs NI ND']. subst.
        destruct (deqb k' k) eqn:E.
        + apply deqb_spec in E. subst. exfalso. apply NI.
          apply in_map_iff. exists (k, v). split; [reflexivity|exact H].
        + apply IH; assumption.
    Qed.
  End AMapFacts.

  (** ** sort_paths keeps the elements *)
  Lemma sort_insert_perm p l : Permutation (p :: l) (sort_insert ple p l).
  Proof.
    induction l as [|q l IH]; cbn; [apply Permutation_refl|].
    destruct (ple p q); [apply Permutation_refl|].
    eapply perm_trans; [apply perm_swap|]. apply perm_skip, IH.
  Qed.
  Lemma sort_paths_perm l : Permutation l (sort_paths ple l).
  Proof.
    induction l as [|p l IH]; cbn; [constructor|].
    eapply perm_trans; [apply perm_skip, IH|]. apply sort_insert_perm.
  Qed.
  Lemma sort_paths_in l p : In p (sort_paths ple l) <-> In p l.
  Proof.
    split; intros H.
    - eapply Permutation_in; [apply Permutation_sym, sort_paths_perm|exact H].
    - eapply Permutation_in; [apply sort_paths_perm|exact H].
  Qed.
  Lemma sort_paths_nil l : sort_paths ple l = [] <-> l = [].
  Proof.
    split; intros H.
    - apply Permutation_nil. rewrite <- H. apply Permutation_sym, sort_paths_perm.
    - subst. reflexivity.
  Qed.
  Lemma sort_paths_nodup l : NoDup l -> NoDup (sort_paths ple l).
  Proof. intros H. eapply Permutation_NoDup; [apply sort_paths_perm|exact H]. Qed.

  (** ** the first loop *)
  Definition getl (d : D) (m : list (D * list P)) : list P :=
    match aget d m with Some v => v | None => [] end.

  (** the Modified entries produced by a part of the left state *)
  Definition mods (r : state) (l : state) : list dentry :=
    flat_map (fun e => match lookup (fst e) r with
                       | Some rd => if deqb (snd e) rd then [] else [Modified (fst e)]
                       | None => []
                       end) l.
  (** left entries of digest d whose path is absent on the right, in order *)
  Definition lo_paths (r : state) (l : state) (d : D) : list P :=
    flat_map (fun e => match lookup (fst e) r with
                       | None => if deqb (snd e) d then [fst e] else []
                       | Some _ => []
                       end) l.
  (** left paths present on the right *)
  Definition both (r : state) (l : state) : list P :=
    flat_map (fun e => match lookup (fst e) r with Some _ => [fst e] | None => [] end) l.

  Lemma mods_snoc r l p d :
    mods r (l ++ [(p, d)]) =
    mods r l ++ match lookup p r with Some rd => if deqb d rd then [] else [Modified p] | None => [] end.
  Proof. unfold mods. rewrite flat_map_app. cbn. rewrite app_nil_r. reflexivity. Qed.
  Lemma lo_paths_snoc r l p d d' :
    lo_paths r (l ++ [(p, d)]) d' =
    lo_paths r l d' ++ match lookup p r with None => if deqb d d' then [p] else [] | Some _ => [] end.
  Proof. unfold lo_paths. rewrite flat_map_app. cbn. rewrite app_nil_r. reflexivity. Qed.
  Lemma both_snoc r l p d :
    both r (l ++ [(p, d)]) = both r l ++ match lookup p r with Some _ => [p] | None => [] end.
  Proof. unfold both. rewrite flat_map_app. cbn. rewrite app_nil_r. reflexivity. Qed.

  Definition dels_wf (m : list (D * list P)) : Prop :=
    NoDup (map fst m) /\ forall d v, aget d m = Some v -> v <> [].

  Lemma left_loop_spec r l :
    let '(ds, dels, seen) := left_loop peqb deqb l r in
    ds = mods r l /\ (forall d, getl d dels = lo_paths r l d) /\ dels_wf dels /\
    (forall p, In p seen <-> In p (both r l)).
  Proof.
    unfold left_loop.
    induction l as [|[p ld] l IH] using rev_ind.
    - cbn. repeat split; try tauto; try constructor. intros d v H. discriminate.
    - rewrite fold_left_app. cbn [fold_left].
      destruct (fold_left (left_step peqb deqb r) l ([], [], [])) as [[ds dels] seen].
      destruct IH as (Hds & Hdel & [Hnd Hne] & Hseen).
      unfold left_step. rewrite mods_snoc.
      destruct (lookup p r) as [rd|] eqn:EL; lazy iota beta;
        setoid_rewrite lo_paths_snoc; setoid_rewrite both_snoc; rewrite EL.
      + repeat split.
        * rewrite <- Hds. destruct (deqb ld rd); [rewrite app_nil_r|]; reflexivity.
        * intros d. rewrite app_nil_r. apply Hdel.
        * exact Hnd.
        * exact Hne.
        * intros [H|H]; apply in_or_app; [right; left; exact H|left; apply Hseen, H].
        * intros H. apply in_app_or in H. destruct H as [H|[H|[]]]; [right; apply Hseen, H|left; exact H].
      + repeat split.
        * rewrite app_nil_r. exact Hds.
        * intros d. unfold getl. rewrite aget_aset.
          destruct (deqb ld d) eqn:E.
          -- apply deqb_spec in E. subst. fold (getl d dels). rewrite Hdel. reflexivity.
          -- rewrite app_nil_r. apply Hdel.
        * apply akeys_aset, Hnd.
        * intros d v. rewrite aget_aset. destruct (deqb ld d).
          -- intros H. inversion H. intros C. apply app_eq_nil in C. destruct C; discriminate.
          -- apply Hne.
        * intros H. rewrite app_nil_r. apply Hseen, H.
        * intros H. rewrite app_nil_r in H. apply Hseen, H.
  Qed.

  (** ** the second loop *)
  (** right entries of digest d whose path was not seen, in order *)
  Definition ro_paths (seen : list P) (r : state) (d : D) : list P :=
    flat_map (fun e => if pmem (fst e) seen then [] else if deqb (snd e) d then [fst e] else []) r.
  (** the Added entries: unseen right entries whose digest has no deleted path *)
  Definition adds (seen : list P) (dels0 : list (D * list P)) (r : state) : list dentry :=
    flat_map (fun e => if pmem (fst e) seen then []
                       else match getl (snd e) dels0 with [] => [Added (fst e)] | _ => [] end) r.

  Lemma right_loop_spec seen ds0 dels0 r :
    dels_wf dels0 ->
    let '(ds, dels, rens) := right_loop peqb deqb seen r ds0 dels0 in
    ds = ds0 ++ adds seen dels0 r /\
    (forall d, aget d dels = match ro_paths seen r d with [] => aget d dels0 | _ => None end) /\
    (forall d, aget d rens = match ro_paths seen r d, getl d dels0 with
                             | [], _ => None
                             | _, [] => None
                             | rn, o => Some (o, rn)
                             end) /\
    NoDup (map fst dels) /\ NoDup (map fst rens).
  Proof.
    intros [Hnd0 Hne0]. unfold right_loop.
    induction r as [|[p d] r IH] using rev_ind.
    - cbn. rewrite app_nil_r. repeat split; try assumption; constructor.
    - rewrite fold_left_app. cbn [fold_left].
      destruct (fold_left (right_step peqb deqb seen) r _) as [[ds dels] rens].
      destruct IH as (Hds & Hdel & Hren & Hnd & Hndr).
      unfold adds, ro_paths. setoid_rewrite flat_map_app. cbn [flat_map fst snd].
      fold (adds seen dels0 r). unfold right_step.
      destruct (pmem p seen) eqn:Eseen.
      { (* continue *)
        repeat split; try assumption.
        - rewrite app_nil_r. exact Hds.
        - intros d'. rewrite app_nil_r. apply Hdel.
        - intros d'. rewrite app_nil_r. apply Hren. }
      assert (Hstep : forall d', flat_map (fun e : P * D => if pmem (fst e) seen then [] else if deqb (snd e) d' then [fst e] else []) r
                                 = ro_paths seen r d') by reflexivity.
      destruct (aget d dels) as [orig|] eqn:Edel.
      + (* deletes.remove(digest) = Some(original) *)
        pose proof (Hdel d) as Hd. rewrite Edel in Hd.
        destruct (ro_paths seen r d) eqn:Ero; [|discriminate].
        assert (Horig : getl d dels0 = orig) by (unfold getl; rewrite <- Hd; reflexivity).
        assert (Hne : orig <> []) by (eapply Hne0; symmetry; exact Hd).
        repeat split.
        * rewrite Hds, Horig. destruct orig; [contradiction|]. rewrite app_nil_r. reflexivity.
        * intros d'. rewrite aget_adel, Hstep. destruct (deqb d d') eqn:E.
          -- apply deqb_spec in E. subst d'. rewrite Ero. cbn. reflexivity.
          -- rewrite app_nil_r. apply Hdel.
        * intros d'. rewrite aget_aset, Hstep. destruct (deqb d d') eqn:E.
          -- apply deqb_spec in E. subst d'. rewrite Ero, Horig. cbn. destruct orig; [contradiction|reflexivity].
          -- rewrite app_nil_r. apply Hren.
        * apply akeys_adel, Hnd.
        * apply akeys_aset, Hndr.
      + destruct (aget d rens) as [[o rn]|] eqn:Eren.
        * (* renames.get_mut(digest): push *)
          pose proof (Hren d) as Hr. rewrite Eren in Hr.
          destruct (ro_paths seen r d) as [|x xs] eqn:Ero; [discriminate|].
          destruct (getl d dels0) as [|y ys] eqn:Eo; [discriminate|]. inversion Hr. subst o rn.
          repeat split.
          -- rewrite Hds, app_nil_r. reflexivity.
          -- intros d'. rewrite Hstep. destruct (deqb d d') eqn:E.
             ++ apply deqb_spec in E. subst d'. rewrite Ero. cbn. exact Edel.
             ++ rewrite app_nil_r. apply Hdel.
          -- intros d'. rewrite aget_aset, Hstep. destruct (deqb d d') eqn:E.
             ++ apply deqb_spec in E. subst d'. rewrite Ero, Eo. cbn. reflexivity.
             ++ rewrite app_nil_r. apply Hren.
          -- exact Hnd.
          -- apply akeys_aset, Hndr.
        * (* Added *)
          assert (Ho : getl d dels0 = []).
          { pose proof (Hren d) as Hr. rewrite Eren in Hr. pose proof (Hdel d) as Hd. rewrite Edel in Hd.
            destruct (ro_paths seen r d) as [|x xs] eqn:Ero.
            - unfold getl. rewrite <- Hd. reflexivity.
            - destruct (getl d dels0); [reflexivity|discriminate]. }
          repeat split.
          -- rewrite Hds, Ho, app_nil_r, app_assoc. reflexivity.
          -- intros d'. rewrite Hstep. destruct (deqb d d') eqn:E.
             ++ apply deqb_spec in E. subst d'. rewrite Edel.
                destruct (ro_paths seen r d); cbn; [|reflexivity].
                unfold getl in Ho. destruct (aget d dels0) as [v|] eqn:E0; [|reflexivity].
                subst v. exfalso. eapply Hne0; [exact E0|reflexivity].
             ++ rewrite app_nil_r. apply Hdel.
          -- intros d'. rewrite Hstep. destruct (deqb d d') eqn:E.
             ++ apply deqb_spec in E. subst d'. rewrite Eren, Ho.
                destruct (ro_paths seen r d); reflexivity.
             ++ rewrite app_nil_r. apply Hren.
          -- exact Hnd.
          -- exact Hndr.
  Qed.
End DiffFacts.
