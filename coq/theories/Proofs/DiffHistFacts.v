(** Facts about the history queries of Model/Diff.v: diff_versions,
    list_file_versions, construct_state (last_update) and the commit metadata. *)
From Rocfl Require Import Base.Bytes Model.Diff Proofs.DiffFacts.
From Coq Require Import ZArith Lia ZifyBool ZifyN ZifyNat Permutation Sorted.
Ltac Zify.zify_post_hook ::= Z.div_mod_to_equations.
Arguments N.add : simpl never.
Arguments N.sub : simpl never.
Arguments N.ltb : simpl never.
Arguments N.leb : simpl never.
Arguments N.eqb : simpl never.

(** ** get_version *)
Lemma get_version_zero {A} (h : list A) : get_version h 0 = None.
Proof. destruct h; reflexivity. Qed.

Lemma get_version_cons {A} (s : A) h v :
  get_version (s :: h) v = if v =? 1 then Some s else if v =? 0 then None else get_version h (v - 1).
Proof. reflexivity. Qed.

Lemma get_version_some {A} (h : list A) : forall v,
  get_version h v <> None <-> 1 <= v <= N.of_nat (List.length h).
Proof.
  induction h as [|s h IH]; intros v.
  - cbn. split; [congruence|lia].
  - rewrite get_version_cons. cbn [List.length].
    destruct (v =? 1) eqn:E1; [split; [lia|congruence]|].
    destruct (v =? 0) eqn:E0; [split; [congruence|lia]|].
    rewrite IH. lia.
Qed.

Lemma get_version_app_last {A} (h : list A) s :
  get_version (h ++ [s]) (N.of_nat (List.length h) + 1) = Some s.
Proof.
  induction h as [|a h IH].
  - reflexivity.
  - cbn [app List.length]. rewrite get_version_cons.
    destruct (N.of_nat (S (List.length h)) + 1 =? 1) eqn:E1; [lia|].
    destruct (N.of_nat (S (List.length h)) + 1 =? 0) eqn:E0; [lia|].
    replace (N.of_nat (S (List.length h)) + 1 - 1) with (N.of_nat (List.length h) + 1) by lia. exact IH.
Qed.

Lemma get_version_app_old {A} (h : list A) s : forall v,
  v <= N.of_nat (List.length h) -> get_version (h ++ [s]) v = get_version h v.
Proof.
  induction h as [|a h IH]; intros v Hv.
  - cbn in Hv. assert (v = 0) by lia. subst. reflexivity.
  - cbn [app]. rewrite !get_version_cons.
    destruct (v =? 1); [reflexivity|]. destruct (v =? 0) eqn:E0; [reflexivity|].
    apply IH. cbn [List.length] in Hv. lia.
Qed.

Section HistFacts.
  Variables P D : Type.
  Variable peqb : P -> P -> bool.
  Variable deqb : D -> D -> bool.
  Hypothesis peqb_spec : forall x y, peqb x y = true <-> x = y.
  Hypothesis deqb_spec : forall x y, deqb x y = true <-> x = y.

  Notation state := (Diff.state P D).
  Notation history := (Diff.history P D).
  Notation lookup := (lookup peqb).

  (** the state of version v; version 0 (and any missing version) is empty *)
  Definition state_at (h : history) (v : N) : state :=
    match get_version h v with Some s => s | None => [] end.

  Lemma state_at_some (h : history) V s : get_version h V = Some s -> state_at h V = s.
  Proof. intros H. unfold state_at. rewrite H. reflexivity. Qed.
  Lemma state_at_zero (h : history) : state_at h 0 = [].
  Proof. unfold state_at. rewrite get_version_zero. reflexivity. Qed.

  (** ** diff_versions *)
  Section WithOrder.
  Variable ple : P -> P -> bool.
  Notation diff := (diff peqb deqb ple).
  Notation diff_versions := (diff_versions peqb deqb ple).
  Lemma diff_versions_same (h : history) v : diff_versions h (Some v) v = Ok [].
  Proof. unfold Diff.diff_versions. rewrite N.eqb_refl. reflexivity. Qed.

  Lemma diff_versions_pair (h : history) i j (si sj : state) :
    i <> j -> get_version h i = Some si -> get_version h j = Some sj ->
    diff_versions h (Some i) j = Ok (diff (Some si) sj).
  Proof.
    intros Hne Hi Hj. unfold Diff.diff_versions.
    destruct (i =? j) eqn:E; [lia|]. rewrite Hi, Hj. reflexivity.
  Qed.

  Lemma diff_versions_missing (h : history) i j :
    i <> j -> get_version h i = None \/ get_version h j = None -> diff_versions h (Some i) j = Err.
  Proof.
    intros Hne H. unfold Diff.diff_versions. destruct (i =? j) eqn:E; [lia|].
    destruct (get_version h i); cbn; [|reflexivity].
    destruct H as [H|H]; [discriminate|]. rewrite H. reflexivity.
  Qed.

  (** show: the one-argument form is the diff with the preceding version; all Adds for v1 *)
  Lemma show_is_diff_with_predecessor (h : history) v :
    (1 < v -> diff_versions h None v = diff_versions h (Some (v - 1)) v) /\
    diff_versions h None 1 =
      match get_version h 1 with
      | Some s => Ok (map (fun e => Added (fst e)) s)
      | None => Err
      end.
  Proof.
    split.
    - intros Hv. unfold Diff.diff_versions.
      destruct (v - 1 =? v) eqn:E; [lia|]. destruct (1 <? v) eqn:E1; [reflexivity|lia].
    - unfold Diff.diff_versions. cbn. destruct (get_version h 1); reflexivity.
  Qed.

  (** diff_staged = diff of the last committed version with the staged state *)
  Lemma diff_staged_spec (h : history) (s : state) :
    diff_staged peqb deqb ple h (Some s) =
      Ok (diff (match h with [] => None | _ => get_version h (N.of_nat (List.length h)) end) s) /\
    diff_staged peqb deqb ple h None = Ok [].
  Proof.
    split; [|reflexivity]. unfold diff_staged, Diff.diff_versions.
    destruct h as [|a h].
    - reflexivity.
    - remember (a :: h) as h' eqn:Eh.
      assert (Hlen : 1 <= N.of_nat (List.length h')) by (subst; cbn [List.length]; lia).
      destruct (1 <? N.of_nat (List.length h') + 1) eqn:E1; [|lia].
      replace (N.of_nat (List.length h') + 1 - 1) with (N.of_nat (List.length h')) by lia.
      rewrite get_version_app_old by lia. rewrite get_version_app_last.
      destruct (get_version h' (N.of_nat (List.length h'))) eqn:E.
      + subst h'. reflexivity.
      + exfalso. apply (get_version_some h' (N.of_nat (List.length h'))); [lia|exact E].
  Qed.

  (** for every ordered pair of versions of an object (left < right, left > right,
      left = right): applying the report to the left path set gives the right path set,
      and the Modified entries are the paths present in both with different digests *)
  Theorem history_diff_apply (h : history) i j (si sj : state) :
    get_version h i = Some si -> get_version h j = Some sj -> NoDup (keys si) -> NoDup (keys sj) ->
    exists ds, diff_versions h (Some i) j = Ok ds /\
               (forall p, In p (apply_diff peqb ds (keys si)) <-> In p (keys sj)) /\
               (forall p, In (Modified p) ds <->
                          exists dl dr, lookup p si = Some dl /\ lookup p sj = Some dr /\ dl <> dr).
  Proof.
    intros Hi Hj NDi NDj. destruct (i =? j) eqn:E.
    - assert (i = j) by lia. subst j. assert (si = sj) by congruence. subst sj.
      exists []. split; [apply diff_versions_same|]. split.
      + intros p. rewrite (apply_diff_nil P peqb). reflexivity.
      + intros p. split; [intros []|]. intros (dl & dr & H1 & H2 & H3). congruence.
    - exists (diff (Some si) sj). split; [apply diff_versions_pair; [lia|assumption|assumption]|]. split.
      + apply (diff_apply P D peqb deqb ple peqb_spec deqb_spec); assumption.
      + apply (diff_characterisation P D peqb deqb ple peqb_spec deqb_spec si sj NDi NDj).
  Qed.

  End WithOrder.

  (** ** list_file_versions *)
  Definition odeqb (a c : option D) : bool :=
    match a, c with
    | Some x, Some y => deqb x y
    | None, None => true
    | _, _ => false
    end.
  Lemma odeqb_spec a c : odeqb a c = true <-> a = c.
  Proof.
    destruct a as [x|], c as [y|]; cbn; try (split; congruence).
    rewrite deqb_spec. split; congruence.
  Qed.

  Lemma fv_loop_cons p cur v (s : state) (h : history) :
    file_versions_loop peqb deqb p cur v (s :: h) =
    (if odeqb cur (lookup p s) then [] else [v]) ++ file_versions_loop peqb deqb p (lookup p s) (v + 1) h.
  Proof.
    cbn [file_versions_loop]. destruct (lookup p s) as [d|], cur as [c|]; cbn [odeqb negb app]; try reflexivity.
    destruct (deqb c d) eqn:E; cbn [negb app]; [|reflexivity].
    apply deqb_spec in E. subst. reflexivity.
  Qed.

  Lemma fv_loop_in p : forall (h : history) cur v V,
    In V (file_versions_loop peqb deqb p cur v h) <->
    v <= V /\ exists s, get_version h (V - v + 1) = Some s /\
                        lookup p s <> (if V =? v then cur else lookup p (state_at h (V - v))).
  Proof.
    induction h as [|s0 h IH]; intros cur v V.
    - cbn. split; [intros []|]. intros [_ [s [H _]]]. discriminate.
    - rewrite fv_loop_cons, in_app_iff, IH. rewrite get_version_cons. split.
      + intros [H|H].
        * destruct (odeqb cur (lookup p s0)) eqn:E; [destruct H|]. destruct H as [H|[]]. subst V.
          split; [lia|]. exists s0. replace (v - v + 1) with 1 by lia. split; [reflexivity|].
          rewrite N.eqb_refl. intros C. rewrite C in E.
          assert (odeqb cur cur = true) by (apply odeqb_spec; reflexivity). congruence.
        * destruct H as [Hv [s [Hs Hne]]]. split; [lia|]. exists s.
          destruct (V - v + 1 =? 1) eqn:E1; [lia|]. destruct (V - v + 1 =? 0) eqn:E0; [lia|].
          replace (V - v + 1 - 1) with (V - (v + 1) + 1) by lia. split; [exact Hs|].
          destruct (V =? v) eqn:E2; [lia|]. unfold state_at. rewrite get_version_cons.
          destruct (V =? v + 1) eqn:E3.
          -- replace (V - v =? 1) with true by lia. exact Hne.
          -- destruct (V - v =? 1) eqn:E4; [lia|]. destruct (V - v =? 0) eqn:E5; [lia|].
             replace (V - v - 1) with (V - (v + 1)) by lia. exact Hne.
      + intros [Hv [s [Hs Hne]]]. destruct (V =? v) eqn:E2.
        * left. assert (V = v) by lia. subst V. replace (v - v + 1 =? 1) with true in Hs by lia.
          inversion Hs. subst s. destruct (odeqb cur (lookup p s0)) eqn:E; [|left; reflexivity].
          apply odeqb_spec in E. congruence.
        * right. destruct (V - v + 1 =? 1) eqn:E1; [lia|]. destruct (V - v + 1 =? 0) eqn:E0; [lia|].
          split; [lia|]. exists s. replace (V - (v + 1) + 1) with (V - v + 1 - 1) by lia. split; [exact Hs|].
          unfold state_at in Hne. rewrite get_version_cons in Hne.
          destruct (V =? v + 1) eqn:E3.
          -- replace (V - v =? 1) with true in Hne by lia. exact Hne.
          -- destruct (V - v =? 1) eqn:E4; [lia|]. destruct (V - v =? 0) eqn:E5; [lia|].
             replace (V - (v + 1)) with (V - v - 1) by lia. exact Hne.
  Qed.

  Lemma fv_loop_sorted p : forall (h : history) cur v,
    (forall x, In x (file_versions_loop peqb deqb p cur v h) -> v <= x) /\
    StronglySorted N.lt (file_versions_loop peqb deqb p cur v h).
  Proof.
    induction h as [|s0 h IH]; intros cur v.
    - cbn. split; [intros x []|constructor].
    - rewrite fv_loop_cons. destruct (IH (lookup p s0) (v + 1)) as [Hge Hs].
      destruct (odeqb cur (lookup p s0)); cbn [app].
      + split; [|exact Hs]. intros x Hx. apply Hge in Hx. lia.
      + split.
        * intros x [Hx|Hx]; [lia|]. apply Hge in Hx. lia.
        * constructor; [exact Hs|]. apply Forall_forall. intros x Hx. apply Hge in Hx. lia.
  Qed.

  (** the log of a file lists exactly the versions in which the path's entry differs from
      the entry in the preceding version (version 0 = empty), in ascending order; it is
      refused exactly when the path never existed *)
  Theorem file_log_spec (h : history) p :
    (forall vs, list_file_versions peqb deqb h p = Ok vs ->
       (forall V, In V vs <-> get_version h V <> None /\
                              lookup p (state_at h V) <> lookup p (state_at h (V - 1))) /\
       StronglySorted N.lt vs) /\
    (list_file_versions peqb deqb h p = Err <-> forall V, lookup p (state_at h V) = None) /\
    list_file_versions peqb deqb h p <> Panic.
  Proof.
    assert (Hin : forall V, In V (file_versions_loop peqb deqb p None 1 h) <->
                            get_version h V <> None /\ lookup p (state_at h V) <> lookup p (state_at h (V - 1))).
    { intros V. rewrite fv_loop_in. split.
      - intros [Hv [s [Hs Hne]]]. replace (V - 1 + 1) with V in Hs by lia.
        split; [congruence|]. rewrite (state_at_some h V s Hs).
        destruct (V =? 1) eqn:E; [|exact Hne]. replace (V - 1) with 0 by lia.
        rewrite state_at_zero. exact Hne.
      - intros [Hs Hne]. assert (Hv : 1 <= V) by (apply get_version_some in Hs; lia).
        split; [exact Hv|]. destruct (get_version h V) as [s|] eqn:E; [|congruence]. exists s.
        replace (V - 1 + 1) with V by lia. split; [exact E|].
        rewrite (state_at_some h V s E) in Hne.
        destruct (V =? 1) eqn:E1; [|exact Hne]. replace (V - 1) with 0 in Hne by lia.
        rewrite state_at_zero in Hne. exact Hne. }
    unfold list_file_versions. split; [|split].
    - intros vs H. destruct (file_versions_loop peqb deqb p None 1 h) as [|x t] eqn:E; [discriminate|].
      inversion H. subst vs. split; [exact Hin|]. rewrite <- E. apply fv_loop_sorted.
    - split.
      + intros H. destruct (file_versions_loop peqb deqb p None 1 h) as [|x t] eqn:E; [|discriminate].
        intros V. induction V as [|V IHV] using N.peano_ind.
        * unfold state_at. rewrite get_version_zero. reflexivity.
        * destruct (get_version h (N.succ V)) as [s|] eqn:Es.
          -- destruct (odeqb (lookup p (state_at h (N.succ V))) (lookup p (state_at h V))) eqn:Eo.
             ++ apply odeqb_spec in Eo. rewrite Eo. exact IHV.
             ++ exfalso. apply (proj2 (Hin (N.succ V))). split; [congruence|].
                replace (N.succ V - 1) with V by lia. intros C. rewrite C in Eo.
                assert (odeqb (lookup p (state_at h V)) (lookup p (state_at h V)) = true) by (apply odeqb_spec; reflexivity).
                congruence.
          -- unfold state_at. rewrite Es. reflexivity.
      + intros H. destruct (file_versions_loop peqb deqb p None 1 h) as [|x t] eqn:E; [reflexivity|].
        exfalso. destruct (proj1 (Hin x) (or_introl eq_refl)) as [_ Hne]. rewrite !H in Hne. congruence.
    - destruct (file_versions_loop peqb deqb p None 1 h); discriminate.
  Qed.

  (** ** construct_state: last_update *)
  (** p keeps digest d on all versions from u to T *)
  Definition keeps (h : history) (p : P) (d : D) (u T : N) : Prop :=
    forall j, u <= j <= T -> lookup p (state_at h j) = Some d.

  (** u is the start of the maximal run of consecutive versions ending at T on which p keeps its digest *)
  Definition run_start (h : history) (p : P) (T u : N) : Prop :=
    exists d, lookup p (state_at h T) = Some d /\ 1 <= u <= T /\ keeps h p d u T /\
              (u = 1 \/ lookup p (state_at h (u - 1)) <> Some d).

  Lemma run_start_unique (h : history) p T u u' : run_start h p T u -> run_start h p T u' -> u = u'.
  Proof.
    intros (d & Hd & Hu & Hk & Hs) (d' & Hd' & Hu' & Hk' & Hs').
    assert (d' = d) by congruence. subst d'.
    destruct (N.lt_trichotomy u u') as [Hlt|[Heq|Hgt]]; [|exact Heq|].
    - exfalso. destruct Hs' as [Hs'|Hs']; [lia|]. apply Hs', Hk. lia.
    - exfalso. destruct Hs as [Hs|Hs]; [lia|]. apply Hs, Hk'. lia.
  Qed.

  Lemma filter_partition_perm {A} (f : A -> bool) l :
    Permutation (filter (fun x => negb (f x)) l ++ filter f l) l.
  Proof.
    induction l as [|a l IH]; cbn; [constructor|].
    destruct (f a); cbn.
    - apply Permutation_sym. eapply perm_trans; [|apply Permutation_middle].
      apply perm_skip, Permutation_sym, IH.
    - apply perm_skip, IH.
  Qed.

  Lemma same_in_spec (prev : state) p d : same_in peqb deqb prev (p, d) = true <-> lookup p prev = Some d.
  Proof.
    unfold same_in. cbn [fst snd]. destruct (lookup p prev) as [d'|]; [|split; discriminate].
    rewrite deqb_spec. split; congruence.
  Qed.

  Lemma cs_walk_spec (h : history) T : forall fuel c (tgt : state),
    1 <= c -> c <= T -> c - 1 <= N.of_nat fuel ->
    (forall j, 1 <= j <= c -> get_version h j <> None) ->
    (forall p d, In (p, d) tgt -> keeps h p d c T) ->
    exists lus, cs_walk peqb deqb fuel h c tgt = Ok lus /\
                Permutation (map fst lus) (map fst tgt) /\
                forall p u, In (p, u) lus ->
                  exists d, In (p, d) tgt /\ 1 <= u <= c /\ keeps h p d u T /\
                            (u = 1 \/ lookup p (state_at h (u - 1)) <> Some d).
  Proof.
    induction fuel as [|f IH]; intros c tgt Hc1 HcT Hfuel Hex Hk.
    - assert (c = 1) by lia. subst c. destruct tgt as [|e tgt]; cbn [cs_walk].
      + exists []. split; [reflexivity|]. split; [constructor|]. intros p u [].
      + replace (1 =? 1) with true by reflexivity. eexists. split; [reflexivity|]. split.
        * rewrite map_map. cbn [fst]. apply Permutation_refl.
        * intros p u Hin. apply in_map_iff in Hin. destruct Hin as [[q d] [Heq Hin]]. cbn [fst] in Heq.
          inversion Heq. subst q u. exists d. split; [exact Hin|]. split; [lia|]. split; [apply Hk, Hin|left; reflexivity].
    - destruct tgt as [|e tgt]; [exists []; split; [reflexivity|]; split; [constructor|]; intros p u []|].
      remember (e :: tgt) as tg eqn:Etg. assert (Hcs : cs_walk peqb deqb (S f) h c tg =
        if c =? 1 then Ok (map (fun e => (fst e, c)) tg)
        else if c =? 0 then Panic
        else res_bind (res_of_opt (get_version h (c - 1)))
               (fun prev => res_bind (cs_walk peqb deqb f h (c - 1) (filter (same_in peqb deqb prev) tg))
                  (fun rest => Ok (map (fun e => (fst e, c)) (filter (fun e => negb (same_in peqb deqb prev e)) tg) ++ rest)))).
      { subst tg. reflexivity. }
      rewrite Hcs. clear Hcs Etg e tgt.
      destruct (c =? 1) eqn:E1.
      + assert (c = 1) by lia. subst c. eexists. split; [reflexivity|]. split.
        * rewrite map_map. cbn [fst]. apply Permutation_refl.
        * intros p u Hin. apply in_map_iff in Hin. destruct Hin as [[q d] [Heq Hin]]. cbn [fst] in Heq.
          inversion Heq. subst q u. exists d. split; [exact Hin|]. split; [lia|]. split; [apply Hk, Hin|left; reflexivity].
      + destruct (c =? 0) eqn:E0; [lia|].
        destruct (get_version h (c - 1)) as [prev|] eqn:Ep; [|exfalso; apply (Hex (c - 1)); [lia|exact Ep]].
        cbn [res_of_opt res_bind].
        assert (Hprev : state_at h (c - 1) = prev) by (unfold state_at; rewrite Ep; reflexivity).
        destruct (IH (c - 1) (filter (same_in peqb deqb prev) tg)) as (rest & Hrest & Hperm & Hspec); try lia.
        * intros j Hj. apply Hex. lia.
        * intros p d Hin. apply filter_In in Hin. destruct Hin as [Hin Hs]. apply same_in_spec in Hs.
          intros j Hj. destruct (j =? c - 1) eqn:Ej.
          -- assert (j = c - 1) by lia. subst j. rewrite Hprev. exact Hs.
          -- apply (Hk p d Hin). lia.
        * rewrite Hrest. cbn [res_bind]. eexists. split; [reflexivity|]. split.
          -- rewrite map_app, map_map. cbn [fst].
             eapply perm_trans; [apply Permutation_app_head, Hperm|].
             rewrite <- map_app. apply Permutation_map, filter_partition_perm.
          -- intros p u Hin. apply in_app_or in Hin. destruct Hin as [Hin|Hin].
             ++ apply in_map_iff in Hin. destruct Hin as [[q d] [Heq Hin]]. cbn [fst] in Heq.
                inversion Heq. subst q u. apply filter_In in Hin. destruct Hin as [Hin Hs].
                exists d. split; [exact Hin|]. split; [lia|]. split; [apply Hk, Hin|].
                right. rewrite Hprev. intros C. apply same_in_spec in C. rewrite C in Hs. discriminate.
             ++ destruct (Hspec p u Hin) as (d & Hd & Hu & Hkeep & Hstart).
                apply filter_In in Hd. destruct Hd as [Hd _].
                exists d. split; [exact Hd|]. split; [lia|]. split; assumption.
  Qed.

  (** the long listing attributes every file of version T to the start of the maximal run
      of versions ending at T on which the file keeps its digest *)
  Theorem last_update_spec (h : history) T :
    (forall sT, get_version h T = Some sT -> NoDup (keys sT) ->
       exists lus, last_updates peqb deqb h T = Ok lus /\
                   Permutation (map fst lus) (keys sT) /\
                   forall p u, In (p, u) lus -> run_start h p T u) /\
    (get_version h T = None -> last_updates peqb deqb h T = Err).
  Proof.
    split.
    - intros sT HT ND. unfold last_updates. rewrite HT. cbn [res_of_opt res_bind].
      assert (HTr : 1 <= T <= N.of_nat (List.length h)) by (apply get_version_some; congruence).
      assert (HsT : state_at h T = sT) by (unfold state_at; rewrite HT; reflexivity).
      destruct (cs_walk_spec h T (List.length h) T sT) as (lus & Hl & Hperm & Hspec); try lia.
      + intros j Hj. apply get_version_some. lia.
      + intros p d Hin j Hj. assert (j = T) by lia. subst j. rewrite HsT.
        apply (in_lookup P D peqb peqb_spec); assumption.
      + exists lus. split; [exact Hl|]. split; [exact Hperm|].
        intros p u Hin. destruct (Hspec p u Hin) as (d & Hd & Hu & Hkeep & Hstart).
        exists d. split; [|split; [exact Hu|split; assumption]].
        rewrite HsT. apply (in_lookup P D peqb peqb_spec); assumption.
    - intros HT. unfold last_updates. rewrite HT. reflexivity.
  Qed.
End HistFacts.

(** ** commit metadata *)
Section MetaFacts.
  Variable T : Type.

  (** version V carries exactly the name / address / message / timestamp given to its commit *)
  Theorem log_meta (name address message : option bytes) (created : option T) (now : T) (m : commit_meta T) (v : vmeta T) :
    with_user cm_new name address = Ok m ->
    details (update_meta now (with_created (with_message m message) created) v) =
      (name, address, message, match created with Some c => c | None => now end).
  Proof.
    unfold with_user. destruct address as [a|], name as [n|]; intros H; inversion H; reflexivity.
  Qed.

  (** an address without a name is refused (types.rs:1304-1309) *)
  Lemma with_user_refuses (m : commit_meta T) a : with_user m None (Some a) = Err.
  Proof. reflexivity. Qed.

  (** the log lists every version once, in ascending order, with its own metadata *)
  Theorem object_log_spec (h : list (vmeta T)) :
    map fst (object_log h) = map N.of_nat (seq 1 (List.length h)) /\
    forall V m, get_version h V = Some m -> In (V, details m) (object_log h).
  Proof.
    unfold object_log. split.
    - assert (G : forall (h : list (vmeta T)) v, map fst (log_from (N.of_nat v) h) = map N.of_nat (seq v (List.length h))).
      { clear h. induction h as [|m h IH]; intros v; cbn; [reflexivity|].
        replace (N.of_nat v + 1) with (N.of_nat (S v)) by lia. rewrite IH. reflexivity. }
      apply (G h 1%nat).
    - assert (G : forall (h : list (vmeta T)) v V m, get_version h V = Some m -> In (V + v - 1, details m) (log_from v h)).
      { clear h. induction h as [|m0 h IH]; intros v V m; [discriminate|].
        rewrite get_version_cons. cbn [log_from].
        destruct (V =? 1) eqn:E1.
        - intros H. inversion H. subst m0. left. f_equal. lia.
        - destruct (V =? 0) eqn:E0; [discriminate|]. intros H. right.
          replace (V + v - 1) with (V - 1 + (v + 1) - 1) by lia. apply IH, H. }
      intros V m H. replace V with (V + 1 - 1) at 1 by lia. apply G, H.
  Qed.
End MetaFacts.
